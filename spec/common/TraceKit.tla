---------------------------- MODULE TraceKit ----------------------------
(***************************************************************************)
(* Shared machinery of every trace specification (DESIGN.md 3.4).          *)
(*                                                                         *)
(* A trace file is ndjson: line 1 is a header {k:"hdr", env, cfg, decl},   *)
(* every other line is one reset/step event of the real implementation:    *)
(*   k     "reset" | "step"                                                *)
(*   par   line number of the event whose post-state is this event's       *)
(*         pre-state (0 for reset).  Probes share their parent's state.    *)
(*   ep,i  episode id and step index;  main = on the episode's main line   *)
(*   pl    TRUE iff the pre-state already followed a LAST timestep         *)
(*   a     the action;  s = projected post-state;  ts = projected timestep *)
(* Each Trace_<Env> module extends its environment specification and this  *)
(* module, defines Rejects(i) (the set of clause names line i violates)    *)
(* and instantiates the one-variable behaviour below.                      *)
(***************************************************************************)
EXTENDS TraceIO

VARIABLES l,         \* index of the last consumed line of the trace
          acc,       \* return accumulated so far on the current episode's main line (env-chosen unit)
          acc2,      \* same for the alternative reward function run in lock-step (dense vs sparse), if any
          mk         \* TRUE iff every main-line action of the episode so far was allowed by the
                     \* implementation's own mask (antecedent of C06)
tvars == <<l, acc, acc2, mk>>

Pre(i) == TraceLog[TraceLog[i].par].s          \* pre-state of step event i
PreTs(i) == TraceLog[TraceLog[i].par].ts       \* timestep the agent saw before acting
IsReset(i) == TraceLog[i].k = "reset"
IsStep(i)  == TraceLog[i].k = "step"



(***************************************************************************)
(* C03: FIRST, MID*, LAST protocol, generic over every environment.        *)
(* truncOK is TRUE for the one documented truncation (LBF at time limit).  *)
(***************************************************************************)
C03Group(i, truncOK) ==
  LET e == Ev(i)  ts == e.ts  d == ts.discount.q  r == ts.reward IN
  IF IsReset(i) THEN
    { <<"C03.reset_is_first", ts.type = FIRST>>,
      <<"C03.reset_reward_zero", AllSeq(r.q, LAMBDA x : x = 0)>>,
      <<"C03.reset_discount_one", AllSeq(d, LAMBDA x : x = FX)>>,
      <<"C03.reward_shape", r.shape = Hdr.decl.reward.shape /\ r.dtype = Hdr.decl.reward.dtype>>,
      <<"C03.discount_shape", ts.discount.shape = Hdr.decl.discount.shape
                               /\ ts.discount.dtype = Hdr.decl.discount.dtype>> }
  ELSE
    { <<"C03.step_not_first", ts.type \in {MID, LAST}>>,
      <<"C03.discount_in_unit_interval", AllSeq(d, LAMBDA x : 0 <= x /\ x <= FX)>>,
      <<"C03.mid_discount_not_all_zero", ts.type = MID => AnySeq(d, LAMBDA x : x > 0)>>,
      <<"C03.last_discount_zero", (ts.type = LAST /\ ~truncOK) => AllSeq(d, LAMBDA x : x = 0)>>,
      <<"C03.reward_shape", r.shape = Hdr.decl.reward.shape /\ r.dtype = Hdr.decl.reward.dtype>>,
      <<"C03.discount_shape", ts.discount.shape = Hdr.decl.discount.shape
                               /\ ts.discount.dtype = Hdr.decl.discount.dtype>> }

(***************************************************************************)
(* C01: membership of the emitted leaves in the specs the live             *)
(* environment declares (Hdr.decl, exported from env.observation_spec ...).*)
(* Leaves are matched by position (same flattening order on both sides)    *)
(* and by path; bounds are compared on (lo, hi) summaries of the data,     *)
(* floats via a monotone integer image (ordinal).                          *)
(***************************************************************************)
C01Group(i) ==
  LET e == Ev(i) IN
  IF IsStep(i) /\ e.pl THEN {}     \* C01 quantifies "up to and including the terminal step"
  ELSE
  C01Leaves(e.lv.obs, Hdr.decl.obs_leaves)
  \cup { <<"C01.reward_member", LeafOK(e.lv.reward, Hdr.decl.reward_leaf) /\ LeafBounds(e.lv.reward, Hdr.decl.reward_leaf)>>,
         <<"C01.discount_member", LeafOK(e.lv.discount, Hdr.decl.discount_leaf) /\ LeafBounds(e.lv.discount, Hdr.decl.discount_leaf)>>,
         <<"C01.impl_validate_agrees", e.lv.validate_ok>> }
  \cup (IF i = 2      \* once per configuration: the generated action is a member of the action spec and step accepts it
        THEN LET g == Hdr.decl.generated_action IN
             { <<"C01.generated_action_member", LeafOK(g.lv, Hdr.decl.action_leaf) /\ LeafBounds(g.lv, Hdr.decl.action_leaf)
                                                /\ g.validate_ok>>,
               <<"C01.generated_action_accepted", g.accepted>> }
        ELSE {})

(***************************************************************************)
(* C11 (generic part): with T the time limit requested by the harness,     *)
(* never MID at or after T, LAST exactly when the counter reaches T.       *)
(* sc is the step counter of the post-state; otherEnd says whether another *)
(* documented end reason applies to this transition.                       *)
(***************************************************************************)
C11Group(i, T, sc, otherEnd) ==
  LET ts == Ev(i).ts
      \* The step number is the number of step calls since reset as counted by the RECORDER (field i of the
      \* event), not the implementation's own counter sc: a counter that drifts must not move the deadline.
      \* (Episodes started from an injected mid-episode state have no call count: there the counter is used.)
      n  == IF "injected" \in DOMAIN TraceCfg /\ TraceCfg.injected THEN sc ELSE Ev(i).i IN
  IF IsReset(i) \/ Ev(i).pl THEN {}
  ELSE
    { <<"C11.last_at_time_limit", n >= T => ts.type = LAST>>,
      <<"C11.no_mid_at_or_after_limit", ts.type = MID => n < T>>,
      <<"C11.early_last_has_other_reason", (ts.type = LAST /\ n < T) => otherEnd>> }

(***************************************************************************)
(* The behaviour: one step per trace line.  Cl(i) is the clause set of     *)
(* line i, Rew(i)/Rew2(i) the reward of step event i in the environment's  *)
(* accounting unit, Allowed(i) whether the implementation's mask allowed   *)
(* the action of step event i.  Clauses of line l+1 read acc/acc2/mk as    *)
(* they were BEFORE that line (for a probe: the state of its parent).      *)
(***************************************************************************)
(* TLC integers are 32-bit and a reward may already arrive clipped to +-2^31 (a step-limit penalty of a large MultiCVRP
   scenario, in fixed point): the accumulators saturate at +-2^30 instead of overflowing.  (Clauses that compare a return
   with an objective are not asked of such episodes: they end by a limit hit.) *)
SatBig == 1073741824
SatAdd(a, b) ==
  IF b >= SatBig \/ a >= SatBig THEN SatBig
  ELSE IF b <= -SatBig \/ a <= -SatBig THEN -SatBig
  ELSE LET c == a + b IN IF c >= SatBig THEN SatBig ELSE IF c <= -SatBig THEN -SatBig ELSE c
TraceInit == l = StartLine /\ acc = 0 /\ acc2 = 0 /\ mk = TRUE
TraceNext(Cl(_), Rew(_), Rew2(_), Allowed(_)) ==
  /\ l < NEv
  /\ l' = l + 1
  /\ Judge(l + 1, Cl(l + 1))
  /\ acc'  = IF IsReset(l + 1) THEN 0 ELSE IF Ev(l + 1).main THEN SatAdd(acc, Rew(l + 1)) ELSE acc
  /\ acc2' = IF IsReset(l + 1) THEN 0 ELSE IF Ev(l + 1).main THEN SatAdd(acc2, Rew2(l + 1)) ELSE acc2
  /\ mk'   = IF IsReset(l + 1) THEN TRUE ELSE IF Ev(l + 1).main THEN mk /\ Allowed(l + 1) ELSE mk
Zero(i) == 0
Always(i) == TRUE

(* C10 helper: a generator documented as random is not a constant function of the key.
   Evaluated once, on the last line, over all reset events of the file. *)
ResetLines == { j \in 2..NEv : IsReset(j) }
C10NonConstant(i, Proj(_)) ==
  IF i = NEv /\ Cardinality(ResetLines) >= 8      \* (a generator with a handful of equally likely outcomes repeats itself
                                                  \*  four times in a row too often for that to be evidence)
  THEN { <<"C10.generator_not_constant", Cardinality({ Proj(Ev(j).s) : j \in ResetLines }) >= 2>> }
  ELSE {}
=============================================================================
