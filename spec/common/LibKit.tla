---------------------------- MODULE LibKit ----------------------------
(***************************************************************************)
(* Behaviour skeleton of the library trace specifications (wrappers,       *)
(* adapters, spec algebra, registry, pytree helpers, purity monitor):      *)
(* one TLC state per trace line; `mem` is the specification's own state    *)
(* (memo table, expected adapter key, registry contents, keys used ...)    *)
(* updated by MemNext from what the SPECIFICATION prescribes, never from   *)
(* what the implementation returned.                                       *)
(***************************************************************************)
EXTENDS TraceIO

VARIABLES l, mem
lvars == <<l, mem>>

LibInit(m0) == l = StartLine /\ mem = m0
LibNext(Cl(_), MemNext(_)) ==
  /\ l < NEv
  /\ l' = l + 1
  /\ Judge(l + 1, Cl(l + 1))
  /\ mem' = MemNext(l + 1)
=============================================================================
