---------------------------- MODULE TraceIO ----------------------------
(***************************************************************************)
(* Reading an ndjson trace and reporting verdicts; shared by the           *)
(* environment trace specifications (TraceKit) and the library ones        *)
(* (LibKit).  No variables are declared here.                              *)
(***************************************************************************)
EXTENDS EnvKit, TLCExt, Json, IOUtils

CONSTANT Enabled     \* set of property ids whose clause groups are evaluated

TraceLog == TLCEval(ndJsonDeserialize(IOEnv.TRACE_FILE))
Hdr   == TraceLog[1]
TraceCfg == TLCEval(TraceLog[1].cfg)
NEv   == Len(TraceLog)
StartLine == atoi(IOEnv.START_LINE)     \* 1 normally; >1 when resuming after an evaluation error
Ev(i)  == TraceLog[i]

On(p) == p \in Enabled

(* A clause group is a set of <<name, holds>> pairs; a verdict is the set of names that fail. *)
Failed(group) == { c[1] : c \in { d \in group : ~d[2] } }

(* Membership of emitted leaves in declared leaf specs (used by C01, C15). *)
LeafOK(lf, dl) ==
  /\ lf.path = dl.path
  /\ lf.dtype = dl.dtype
  /\ lf.shape = dl.shape
LeafBounds(lf, dl) ==
  \/ lf.empty
  \/ /\ ~lf.nan
     /\ (dl.has_min => lf.lo >= dl.min)
     /\ (dl.has_max => lf.hi <= dl.max)
     /\ (dl.elementwise =>                      \* per-element bounds: full data is logged for these leaves
           /\ "data" \in DOMAIN lf
           /\ Len(lf.data) = Len(dl.min_data)
           /\ \A j \in 1..Len(lf.data) : dl.min_data[j] <= lf.data[j] /\ lf.data[j] <= dl.max_data[j])
C01Leaves(lvs, dls) ==
  { <<"C01.obs_structure", Len(lvs) = Len(dls)
        /\ \A j \in 1..Len(lvs) : j <= Len(dls) => lvs[j].path = dls[j].path>>,
    <<"C01.obs_leaf_shape", \A j \in 1..Len(lvs) : j <= Len(dls) => lvs[j].shape = dls[j].shape>>,
    <<"C01.obs_leaf_dtype", \A j \in 1..Len(lvs) : j <= Len(dls) => lvs[j].dtype = dls[j].dtype>>,
    <<"C01.obs_leaf_bounds", \A j \in 1..Len(lvs) : j <= Len(dls) => LeafBounds(lvs[j], dls[j])>> }

Report(i, rej) == IF rej = {} THEN TRUE ELSE PrintT(<<"REJECT", i, rej>>)
(* Judge line i given its clause set cs: count it as applicable when some clause's antecedent
   held (groups return {} when they do not apply), print the applicable marker and rejects. *)
Judge(i, cs) ==
  /\ IF cs = {} THEN TRUE ELSE PrintT(<<"APP", i>>)
  /\ Report(i, Failed(cs))
Accepted == TLCGet("stats").diameter = NEv - StartLine + 1
=============================================================================
