---------------------------- MODULE TraceIO ----------------------------
(***************************************************************************)
(* Reading an ndjson trace and reporting verdicts; shared by the           *)
(* environment trace specifications (TraceKit) and the library ones        *)
(* (LibKit).  No variables are declared here.                              *)
(***************************************************************************)
EXTENDS EnvKit, TLCExt, Json, IOUtils

CONSTANT Enabled     \* set of property ids whose clause groups are evaluated

TraceLog == TLCEval(ndJsonDeserialize(IOEnv.TRACE_FILE))
Hdr   == TraceLog[1]
TraceCfg == Hdr.cfg
NEv   == Len(TraceLog)
StartLine == atoi(IOEnv.START_LINE)     \* 1 normally; >1 when resuming after an evaluation error
Ev(i)  == TraceLog[i]

On(p) == p \in Enabled

(* A clause group is a set of <<name, holds>> pairs; a verdict is the set of names that fail. *)
Failed(group) == { c[1] : c \in { d \in group : ~d[2] } }

Report(i, rej) == IF rej = {} THEN TRUE ELSE PrintT(<<"REJECT", i, rej>>)
(* Judge line i given its clause set cs: count it as applicable when some clause's antecedent
   held (groups return {} when they do not apply), print the applicable marker and rejects. *)
Judge(i, cs) ==
  /\ IF cs = {} THEN TRUE ELSE PrintT(<<"APP", i>>)
  /\ Report(i, Failed(cs))
Accepted == TLCGet("stats").diameter = NEv - StartLine + 1
=============================================================================
