---------------------------- MODULE EnvKit ----------------------------
(***************************************************************************)
(* Small library shared by every environment specification and by the      *)
(* trace machinery.  Conventions: grids arrive from JSON as sequences of   *)
(* sequences (1-based, row-major: g[r][c], row 1 at the top); the          *)
(* implementation's 0-based index k corresponds to TLA+ index k + 1.       *)
(***************************************************************************)
EXTENDS Integers, Sequences, FiniteSets, TLC

FIRST == 0
MID   == 1
LAST  == 2

(* Fixed point: floats are exported by the harness as round(x * 2^16). *)
FX == 65536
Abs(x) == IF x < 0 THEN -x ELSE x
Min2(a, b) == IF a <= b THEN a ELSE b
Max2(a, b) == IF a >= b THEN a ELSE b
Near(q, num, den, tol) == Abs(q * den - num * FX) <= tol * den      \* q ~ num/den within tol/65536 (den > 0)
NearI(q, n, tol) == Abs(q - n * FX) <= tol                            \* q ~ integer n

AllSeq(sq, P(_)) == \A j \in 1..Len(sq) : P(sq[j])
AnySeq(sq, P(_)) == \E j \in 1..Len(sq) : P(sq[j])
RECURSIVE SumSeq(_)
SumSeq(sq) == IF sq = <<>> THEN 0 ELSE sq[1] + SumSeq(Tail(sq))
RECURSIVE SumTo(_, _)
SumTo(f, k) == IF k = 0 THEN 0 ELSE f[k] + SumTo(f, k - 1)          \* f[1] + ... + f[k]
RECURSIVE SumFn(_, _)
SumFn(f, S) == IF S = {} THEN 0 ELSE LET x == CHOOSE y \in S : TRUE IN f[x] + SumFn(f, S \ {x})   \* sum of f[x], x in S
CountSeq(sq, P(_)) == Cardinality({ j \in 1..Len(sq) : P(sq[j]) })
Rev(sq) == [j \in 1..Len(sq) |-> sq[Len(sq) + 1 - j]]
SeqMax(sq) == CHOOSE m \in { sq[j] : j \in 1..Len(sq) } : \A j \in 1..Len(sq) : sq[j] <= m
SeqMin(sq) == CHOOSE m \in { sq[j] : j \in 1..Len(sq) } : \A j \in 1..Len(sq) : sq[j] >= m
Range(sq) == { sq[j] : j \in 1..Len(sq) }
Flatten(g) == [k \in 1..(Len(g) * Len(g[1])) |-> g[((k - 1) \div Len(g[1])) + 1][((k - 1) % Len(g[1])) + 1]]

(* grids *)
Rows(g) == Len(g)
Cols(g) == Len(g[1])
Cells(g) == (1..Rows(g)) \X (1..Cols(g))
At(g, rc) == g[rc[1]][rc[2]]
InGrid(R, C, rc) == rc[1] \in 1..R /\ rc[2] \in 1..C
GridCount(g, P(_)) == Cardinality({ rc \in Cells(g) : P(At(g, rc)) })
GridSum(g) == SumTo([r \in 1..Rows(g) |-> SumSeq(g[r])], Rows(g))
Adjacent4(p, q) == Abs(p[1] - q[1]) + Abs(p[2] - q[2]) = 1
Nbrs4(R, C, rc) == { q \in { <<rc[1] - 1, rc[2]>>, <<rc[1] + 1, rc[2]>>, <<rc[1], rc[2] - 1>>, <<rc[1], rc[2] + 1>> } : InGrid(R, C, q) }

(* reachability closure inside a set of free cells (for connectivity clauses) *)
RECURSIVE Reach(_, _, _, _)
Reach(R, C, free, front) ==
  LET nxt == (UNION { Nbrs4(R, C, p) : p \in front }) \cap free IN
  IF nxt \subseteq front THEN front ELSE Reach(R, C, free, front \cup nxt)
=============================================================================
