--------------------------- MODULE Trace_Maze ---------------------------
(* Trace specification: every recorded reset/step of the real Maze is judged against the reference
   model Maze.tla.  One clause group per property (C01, C03, C04, C05, C07, C09, C10, C11, C12). *)
EXTENDS Maze, TraceKit

RewardQ(e) == e.ts.reward.q[1]
EnvMask(i) == PreTs(i).obs.action_mask          \* the mask the implementation showed the agent before acting
ShapeOK(i) == WallsShape(Ev(i).s.walls) /\ (IsStep(i) => WallsShape(Pre(i).walls))
RuleStep(i) == IsStep(i) /\ ~Ev(i).pl           \* a step taken from a state the episode continues from

(* ---------------- C04: mask = rules, and the implementation honours its own mask ---------------- *)
C04(i) ==
  LET e == Ev(i) IN
  (IF (IsReset(i) \/ RuleStep(i)) /\ e.ts.type # LAST THEN
     { <<"C04.mask_eq_legal", e.ts.obs.action_mask = Mask(e.s)>> }
   ELSE {})
  \cup
  (IF RuleStep(i) THEN
     (IF EnvMask(i)[e.a + 1]
      THEN { <<"C04.masked_in_action_gets_legal_outcome",
                e.s.agent_position = Dest(Pre(i).agent_position, e.a)>> }
      ELSE { <<"C04.masked_out_action_gets_invalid_outcome",
                e.s.agent_position = Pre(i).agent_position>> })
   ELSE {})

(* ---------------- C05: ignore-invalid family ---------------- *)
C05(i) ==
  LET e == Ev(i)  p == Pre(i) IN
  IF RuleStep(i) /\ ~Legal(p, e.a) THEN
    { \* the blocked move itself never ends the episode: a LAST needs the time limit (or the target /
      \* enclosed-cell reasons evaluated on the unchanged position)
      <<"C05.invalid_continues", e.ts.type = LAST => EndsAt([A(p) EXCEPT !.step_count = e.s.step_count], TLimit)>>,
      <<"C05.invalid_reward", OnTarget(p) \/ RewardQ(e) = 0>>,
      <<"C05.actor_keeps_position", e.s.agent_position = p.agent_position>>,
      <<"C05.nothing_moved_on_its_behalf", e.s.walls = p.walls /\ e.s.target_position = p.target_position>> }
  ELSE {}

(* ---------------- C07: physically possible states, conserved maze ---------------- *)
C07(i) ==
  LET e == Ev(i) IN
  (IF (IsReset(i) \/ RuleStep(i)) /\ e.ts.type # LAST THEN
     { <<"C07.in_bounds", WallsShape(e.s.walls) /\ AgentInBounds(e.s) /\ TargetInBounds(e.s)>>,
       <<"C07.not_in_wall", AgentNotInWall(e.s) /\ TargetNotInWall(e.s)>> }
   ELSE {})
  \cup
  (IF RuleStep(i) THEN
     { <<"C07.conserved_walls", e.s.walls = Pre(i).walls>>,
       <<"C07.conserved_target", e.s.target_position = Pre(i).target_position>>,
       <<"C07.moves_at_most_one_cell", MovesAtMostOneCell(Pre(i), e.s)>> }
   ELSE {})

(* ---------------- C09: the documented transition, reward and termination ---------------- *)
C09(i) ==
  LET e == Ev(i)  p == Pre(i)  n == StepTo(A(p), e.a) IN
  IF RuleStep(i) THEN
    { <<"C09.step_rel", A(e.s) = n>>,
      <<"C09.step_rel.agent_position", e.s.agent_position = n.agent_position>>,
      <<"C09.step_rel.target_position", e.s.target_position = n.target_position>>,
      <<"C09.step_rel.walls", e.s.walls = n.walls>>,
      <<"C09.step_rel.step_count", e.s.step_count = n.step_count>>,
      <<"C09.reward_eq", RewardQ(e) = Reward(n) * FX>>,
      <<"C09.done_eq", (e.ts.type = LAST) = Done(n)>>,
      <<"C09.discount_eq", e.ts.discount.q[1] = IF Done(n) THEN 0 ELSE FX>> }
  ELSE {}

(* ---------------- C10: what reset returns ---------------- *)
InstanceProj(s) == <<s.walls, s.agent_position, s.target_position>>
C10(i) ==
  LET s == Ev(i).s IN
  (IF IsReset(i) THEN
     { <<"C10.wellformed_shape", WallsShape(s.walls)>>,
       <<"C10.wellformed_step_count_zero", s.step_count = 0>>,
       <<"C10.wellformed_start_free", FreeCell(s.walls, s.agent_position)>>,
       <<"C10.wellformed_target_free", FreeCell(s.walls, s.target_position)>>,
       <<"C10.wellformed_start_target_distinct", s.agent_position # s.target_position>> }
     \cup (IF Cfg.generator \in {"random", "toy"}
           THEN { <<"C10.wellformed_connected", Connected(s.walls)>>,
                  <<"C10.wellformed_instance", WellFormedInstance(A(s))>> } ELSE {})
     \cup (IF Cfg.generator = "random"
           THEN { <<"C10.wellformed_origin_free", OriginFree(s.walls)>>,
                  <<"C10.wellformed_wall_parity", WallParity(s.walls)>> } ELSE {})
     \cup (IF Cfg.generator = "toy"
           THEN { <<"C10.wellformed_toy_layout", s.walls = ToyWalls /\ s.agent_position = Pos(0, 0)
                                                  /\ s.target_position = Pos(0, 4)>> } ELSE {})
   ELSE {})
  \cup (IF Cfg.generator = "random" THEN C10NonConstant(i, InstanceProj) ELSE {})
  \* (a 3x3 room has two possible mazes, a 3x4 room six: only larger rooms and enough keys make "all equal" telling)
  \cup (IF Cfg.generator = "random" /\ NR >= 3 /\ NC >= 3 /\ NR * NC >= 12 /\ i = NEv /\ Cardinality(ResetLines) >= 8
        THEN { <<"C10.generator_walls_not_constant", Cardinality({ Ev(j).s.walls : j \in ResetLines }) >= 2>> }
        ELSE {})

(* ---------------- C11: time limit as requested by the harness ---------------- *)
C11(i) == C11Group(i, TLimit, Ev(i).s.step_count, IF ShapeOK(i) THEN OtherEnd(A(Ev(i).s)) ELSE FALSE)
C11Count(i) ==      \* the counter the limit is measured on really counts the steps of the episode
  IF IsStep(i)
  THEN { <<"C11.step_count_counts_steps", Ev(i).s.step_count = Ev(i).i>> } ELSE {}

(* ---------------- C12: observation = documented function of the state ---------------- *)
C12(i) ==
  LET e == Ev(i)  o == Obs(e.s) IN
  { <<"C12.obs_field_agent_position", e.ts.obs.agent_position = o.agent_position>>,
    <<"C12.obs_field_target_position", e.ts.obs.target_position = o.target_position>>,
    <<"C12.obs_field_walls", e.ts.obs.walls = o.walls>>,
    <<"C12.obs_field_step_count", e.ts.obs.step_count = o.step_count>>,
    <<"C12.obs_field_action_mask", e.ts.obs.action_mask = o.action_mask>>,
    <<"C12.state_mask_copy", e.s.action_mask = e.ts.obs.action_mask>> }

(* A walls array of the wrong shape makes the rule clauses meaningless (and unevaluable): each enabled rule
   group then reports the single clause <group>.walls_shape instead. *)
Guarded(p, grp, i) == IF ~On(p) THEN {} ELSE IF ShapeOK(i) THEN grp ELSE { <<p \o ".walls_shape", FALSE>> }

Clauses(i) ==
        ( (IF On("C01") THEN C01Group(i) ELSE {})
     \cup (IF On("C03") THEN C03Group(i, FALSE) ELSE {})
     \cup Guarded("C04", C04(i), i)
     \cup Guarded("C05", C05(i), i)
     \cup Guarded("C07", C07(i), i)
     \cup Guarded("C09", C09(i), i)
     \cup Guarded("C10", C10(i), i)
     \cup (IF On("C11") THEN C11(i) \cup C11Count(i) ELSE {})
     \cup Guarded("C12", C12(i), i) )

RewardNum(i) == RewardQ(Ev(i))
MaskAllows(i) == EnvMask(i)[Ev(i).a + 1]

Init == TraceInit
Next == TraceNext(Clauses, RewardNum, Zero, MaskAllows)
Spec == Init /\ [][Next]_tvars
=============================================================================
