------------------------- MODULE Trace_MultiCVRP -------------------------
(* Trace specification: every recorded reset/step of the real MultiCVRP is judged against the (partial)
   reference model MultiCVRP.tla.  One clause group per property.

   Data conventions (harness/envs/multicvrp.py): the state has jumanji's nested layout; the reset event of
   every episode additionally carries s.D, the integer distance matrix round(65536 * distance) computed by
   the harness in float64 from the raw coordinates.  Instance data (demands as generated, D, windows,
   coefficients) is read from the episode's reset line, RootLine(i).

   Rule clauses talk about pre-states in which every vehicle stands on a node of the instance (Clean): the
   declared action spec admits the value num_customers + 1, one past the last node, which takes a vehicle
   outside the instance; that defect is pinned down once, where it happens (C01.action_spec_documented_range,
   C04.masked_out_action_gets_invalid_outcome), not on every later event of the episode. *)
EXTENDS MultiCVRP, TraceKit

RECURSIVE RootLine(_)
RootLine(i) == IF IsReset(i) THEN i ELSE RootLine(Ev(i).par)
S0(i)   == Ev(RootLine(i)).s                       \* the instance as reset returned it
D0(i)   == S0(i).nodes.demands
Inst(i) == LET r == S0(i) IN [D |-> r.D, ws |-> r.windows.start, we |-> r.windows.end,
                              ce |-> r.coeffs.early, cl |-> r.coeffs.late]

EnvMask(i) == PreTs(i).obs.action_mask             \* the mask the implementation showed the agents
Act(i, v) == Ev(i).a[v]
AllowedAg(i, v) == Act(i, v) \in Nodes /\ EnvMask(i)[v][Act(i, v) + 1]     \* no mask entry = not allowed
RewQ(e) == e.ts.reward.q[1]
IsDense == Cfg.reward_fn = "dense"

(* ------------------------------------------------------------------ C01 *)
C01(i) ==
  C01Group(i)
  \cup (IF IsReset(i) THEN
          LET al == Hdr.decl.action_leaf IN
          { <<"C01.action_spec_documented_range",        \* docs: "integer values in the range [0, num_customers]"
              al.has_min /\ al.has_max /\ al.min = 0 /\ al.max = N /\ al.shape = <<V>>>>,
            <<"C01.generate_value_in_action_spec",
              Len(Cfg.gen_action) = V /\ \A v \in Vehicles : al.min <= Cfg.gen_action[v] /\ Cfg.gen_action[v] <= al.max>> }
        ELSE {})

(* ------------------------------------------------------------------ C04 *)
(* outcome for ONE vehicle, given pre-state s, post-state t, joint action of line i *)
WentTo(s, t, v, c) ==
  IF c = Depot THEN Pos(t, v) = Depot /\ Cap(t, v) = Q
  ELSE Pos(t, v) = c /\ Cap(t, v) = Cap(s, v) - Dem(s, c) /\ Dem(t, c) = 0
LostConflict(i, t, v) ==        \* another vehicle chose the same customer and got it
  /\ \E w \in Vehicles : w # v /\ Act(i, w) = Act(i, v) /\ Pos(t, w) = Act(i, v)
  /\ Pos(t, v) = Depot /\ Cap(t, v) = Q
LegalOutcome(i, s, t, v) == WentTo(s, t, v, Act(i, v)) \/ (Act(i, v) # Depot /\ LostConflict(i, t, v))
InvalidOutcome(i, s, t, v) ==   \* sent to the depot; the chosen node is not served on its behalf
  /\ Pos(t, v) = Depot /\ Cap(t, v) = Q
  /\ Act(i, v) \in Customers => (Dem(t, Act(i, v)) = Dem(s, Act(i, v)) \/ \E w \in Vehicles : w # v /\ Pos(t, w) = Act(i, v))

C04(i) ==
  LET e == Ev(i) IN
  (IF e.ts.type # LAST THEN { <<"C04.mask_eq_legal", e.ts.obs.action_mask = Mask(e.s)>> } ELSE {})
  \cup
  (IF IsStep(i) /\ ~e.pl /\ Clean(Pre(i)) THEN
     LET s == Pre(i)  t == e.s
         ins  == { v \in Vehicles : AllowedAg(i, v) }
         outs == Vehicles \ ins IN
     (IF ins # {} THEN { <<"C04.masked_in_action_gets_legal_outcome", \A v \in ins : LegalOutcome(i, s, t, v)>>,
                         <<"C04.conflict_has_one_winner",
                           \A c \in Customers : { v \in ins : Act(i, v) = c } # {} =>
                               Cardinality({ v \in ins : Act(i, v) = c /\ Pos(t, v) = c }) = 1>> } ELSE {})
     \cup
     (IF outs # {} THEN { <<"C04.masked_out_action_gets_invalid_outcome", \A v \in outs : InvalidOutcome(i, s, t, v)>> } ELSE {})
   ELSE {})

MaskAllows(i) == \A v \in Vehicles : AllowedAg(i, v)

(* ------------------------------------------------------------------ C06 *)
InstanceUntouched(s, t) ==
  /\ t.nodes.coordinates = s.nodes.coordinates
  /\ t.windows = s.windows /\ t.coeffs = s.coeffs
C06(i) ==
  LET e == Ev(i) IN
  IF IsReset(i) \/ (IsStep(i) /\ ~e.pl /\ mk /\ MaskAllows(i)) THEN
    LET d0 == D0(i)  t == e.s  rs == Routes(t) IN
    { <<"C06.route_nodes_exist", RouteNodesOK(rs)>> }
    \cup
    (IF RouteNodesOK(rs) THEN
       { <<"C06.load_within_capacity", LoadWithinCapacity(d0, rs) /\ CapacityBookkeeping(d0, rs, t)>>,
         <<"C06.served_once", ServedOnce(d0, rs)>>,
         <<"C06.demand_bookkeeping", DemandBookkeeping(d0, rs, t)>>,
         <<"C06.route_bookkeeping", RouteBookkeeping(rs, t)>> }
       \cup (IF IsStep(i) THEN { <<"C06.step_follows_rules", StepRel(Pre(i), e.a, t)>>,
                                 <<"C06.instance_untouched", InstanceUntouched(Pre(i), t)>> } ELSE {})
       \cup (IF IsStep(i) /\ e.ts.type = LAST /\ (Completed(t) \/ e.i < Horizon)
             THEN { <<"C06.completion_is_full_solution", CompleteSolution(d0, rs, t)>> } ELSE {})
     ELSE {})
  ELSE {}

(* ------------------------------------------------------------------ C08 *)
ObjTol(legs, m) == 8 + legs * (2 + m \div 4194304)      \* float32 sums of `legs` terms of magnitude m vs exact integers
DSTol(k, m)     == 4 + k * (1 + m \div 16777216)        \* two float32 accumulations of the same k steps
C08(i) ==
  LET e == Ev(i) IN
  (IF IsStep(i) /\ e.main /\ ~e.pl /\ e.ts.type = LAST /\ Completed(e.s) /\ mk /\ MaskAllows(i) THEN
     LET rs  == Routes(e.s)
         obj == Objective(Inst(i), rs)
         ret == acc + RewQ(e)
         ret2 == acc2 + e.alt.reward.q[1]
         okObj == Abs(ret - obj) <= ObjTol(NumLegs(rs), Abs(obj))
         okDS  == e.alt.type = LAST /\ Abs(ret - ret2) <= DSTol(e.i, Abs(obj)) IN
     IF e.i < Horizon
     THEN { <<"C08.return_eq_objective", okObj>>, <<"C08.dense_eq_sparse", okDS>> }
     ELSE {}   \* completed exactly on the last allowed step: the implementation treats it as a step-limit hit (worst-case
               \* estimate), which the docs exclude from the dense = sparse promise - not judged (DESIGN.md 9a, observation)
   ELSE {})
  \cup
  (IF IsStep(i) /\ ~e.pl /\ ~IsDense /\ e.ts.type = MID
   THEN { <<"C08.sparse_zero_until_end", RewQ(e) = 0>> } ELSE {})

RewardNum(i) == RewQ(Ev(i))
AltReward(i) == Ev(i).alt.reward.q[1]

(* ------------------------------------------------------------------ C10 *)
C10(i) ==
  (IF IsReset(i) THEN
     LET s == Ev(i).s IN
     { <<"C10.wellformed_shapes", ShapeOK(s)>>,
       <<"C10.wellformed_depot_demand_zero", DepotDemandZero(s)>>,
       <<"C10.wellformed_demand_le_capacity", DemandsWithinCapacity(s) /\ DemandsAtMostMax(s)>>,
       \* (the docs say demands are "uniform between 1 and the maximum"; the generator also produces 0 - not an invariant
       \*  C10 lists, so it is an observation in DESIGN.md and not a clause)
       <<"C10.wellformed_fleet_can_carry_all", FleetCanCarryAll(s)>>,
       <<"C10.wellformed_coordinates_in_box", CoordinatesInBox(s)>>,
       <<"C10.wellformed_time_windows", WindowsConsistent(s)>>,
       <<"C10.wellformed_penalty_coefficients", CoefficientsInRange(s)>>,
       <<"C10.wellformed_fleet_at_depot_full", FleetAtStart(s)>> }
   ELSE {})
  \cup C10NonConstant(i, LAMBDA s : <<s.nodes.coordinates, s.nodes.demands, s.windows.start>>)

(* ------------------------------------------------------------------ C11 *)
C11(i) ==
  LET e == Ev(i) IN
  IF IsStep(i) /\ ~e.pl THEN
    { <<"C11.within_structural_horizon", e.i >= Horizon => e.ts.type = LAST>>,
      <<"C11.early_last_has_other_reason", (e.ts.type = LAST /\ e.i < Horizon) => Completed(e.s)>>,
      <<"C11.completion_ends_episode", (Clean(e.s) /\ Completed(e.s)) => e.ts.type = LAST>> }
  ELSE {}

(* ------------------------------------------------------------------ C12 *)
C12(i) ==
  LET e == Ev(i)  s == e.s  o == e.ts.obs IN
  IF IsReset(i) \/ ~e.pl THEN
    { <<"C12.obs_field_nodes_coordinates", o.nodes.coordinates = s.nodes.coordinates>>,
      <<"C12.obs_field_nodes_demands", o.nodes.demands = s.nodes.demands>>,
      <<"C12.obs_field_windows", o.windows.start = s.windows.start /\ o.windows.end = s.windows.end>>,
      <<"C12.obs_field_coeffs", o.coeffs.early = s.coeffs.early /\ o.coeffs.late = s.coeffs.late>>,
      <<"C12.obs_field_vehicles_local_times", o.vehicles.local_times = s.vehicles.local_times>>,
      <<"C12.obs_field_vehicles_capacities", o.vehicles.capacities = s.vehicles.capacities>>,
      <<"C12.obs_field_action_mask", o.action_mask = Mask(s)>>,
      <<"C12.state_mask_copy", s.action_mask = o.action_mask>> }
    \cup (IF Clean(s) THEN { <<"C12.obs_field_vehicles_coordinates",
                               o.vehicles.coordinates = [v \in Vehicles |-> s.nodes.coordinates[Pos(s, v) + 1]]>> } ELSE {})
  ELSE {}

Clauses(i) ==
        ( (IF On("C01") THEN C01(i) ELSE {})
     \cup (IF On("C03") THEN C03Group(i, FALSE) ELSE {})
     \cup (IF On("C04") THEN C04(i) ELSE {})
     \cup (IF On("C06") THEN C06(i) ELSE {})
     \cup (IF On("C08") THEN C08(i) ELSE {})
     \cup (IF On("C10") THEN C10(i) ELSE {})
     \cup (IF On("C11") THEN C11(i) ELSE {})
     \cup (IF On("C12") THEN C12(i) ELSE {}) )

Init == TraceInit
Next == TraceNext(Clauses, RewardNum, AltReward, MaskAllows)
Spec == Init /\ [][Next]_tvars
=============================================================================
