--------------------------- MODULE Trace_TSP ---------------------------
(* Trace specification: every recorded reset/step of the real TSP is judged against the reference model
   TSP.tla.  One clause group per property.  Lengths are fixed point (x * 65536); leg lengths come from the
   distance matrix D that the harness recomputes in float64 from the raw coordinates of every state; the
   bookkeeping (which legs, closing leg, penalty branch) is decided here.  Cfg.exact (lattice generator)
   makes every comparison of lengths exact; otherwise a sum of k legs is compared within k + 2 units. *)
EXTENDS TSP, TraceKit

St(s) == [coordinates |-> s.coordinates, position |-> s.position, visited_mask |-> s.visited_mask,
          trajectory |-> s.trajectory, num_visited |-> s.num_visited, D |-> s.D]
\* the problem state as the implementation holds it (D is harness data derived from coordinates)
Problem(s) == [coordinates |-> s.coordinates, position |-> s.position, visited_mask |-> s.visited_mask,
               trajectory |-> s.trajectory, num_visited |-> s.num_visited]
Rq(e) == e.ts.reward.q[1]
IsLast(e) == e.ts.type = LAST
Fn == Cfg.reward_fn
EnvMask(i) == PreTs(i).obs.action_mask          \* the mask the implementation showed the agent
MaskAllows(i) == EnvMask(i)[Ev(i).a + 1]
\* the documented reaction to an invalid action
InvalidOutcome(i) == LET e == Ev(i) IN Problem(e.s) = Problem(Pre(i)) /\ IsLast(e) /\ IsPenalty(Rq(e))

C04(i) ==
  LET e == Ev(i)  s == St(e.s) IN
  (IF e.ts.type # LAST
   THEN { <<"C04.mask_eq_legal", e.ts.obs.action_mask = Mask(s)>>,
          \* same rule judged from the route (the cities actually chosen so far) instead of the flags
          <<"C04.mask_eq_legal.by_route", e.ts.obs.action_mask = MaskByRoute(s)>> } ELSE {})
  \cup
  (IF IsStep(i) /\ ~e.pl THEN
     IF MaskAllows(i)
     THEN { <<"C04.masked_in_action_gets_legal_outcome", TookCity(Pre(i), e.a, e.s) /\ ~InvalidOutcome(i)>> }
     ELSE { <<"C04.masked_out_action_gets_invalid_outcome", InvalidOutcome(i)>> }
   ELSE {})

C05(i) ==
  LET e == Ev(i) IN
  IF IsStep(i) /\ ~e.pl /\ ~Legal(St(Pre(i)), e.a) THEN
    { <<"C05.invalid_is_last", IsLast(e)>>,
      <<"C05.invalid_reward", IsPenalty(Rq(e))>>,
      <<"C05.problem_state_untouched", Problem(e.s) = Problem(Pre(i))>> }
  ELSE {}

C06(i) ==
  LET e == Ev(i)  s == St(e.s) IN
  IF IsReset(i) \/ (IsStep(i) /\ ~e.pl /\ mk /\ MaskAllows(i)) THEN
    { <<"C06.served_once", ServedOnce(s)>>,
      <<"C06.trajectory_consistent_with_visited_mask", RouteMatchesMask(s)>>,
      <<"C06.position_is_route_end", PositionIsRouteEnd(s)>> }
    \cup (IF IsStep(i) /\ IsLast(e)
          THEN { <<"C06.completion_is_full_solution", FullTour(s)>> } ELSE {})
  ELSE {}

C08(i) ==
  LET e == Ev(i)  s == St(e.s)  ret == acc + Rq(e) IN
  IF IsStep(i) /\ e.main /\ ~e.pl THEN
    { <<"C08.dense_eq_sparse.same_step_type", e.alt.type = e.ts.type>> }
    \cup
    \* every action of the episode was valid and the episode is over: the return is minus the length of
    \* the closed tour (closing leg included), whichever reward function is used
    (IF IsLast(e) /\ mk /\ MaskAllows(i)
     THEN { <<"C08.return_eq_objective", Abs(ret + Objective(s)) <= LegTol(N)>>,
            <<"C08.dense_eq_sparse", Abs(ret - (acc2 + e.alt.reward.q[1])) <= LegTol(N)>> } ELSE {})
    \cup
    \* dense bookkeeping before the end: the running return is minus the open path walked so far
    (IF ~IsLast(e) /\ mk /\ MaskAllows(i) /\ Fn = "dense"
     THEN { <<"C08.dense_running_return_eq_path", Abs(ret + PathLength(s)) <= LegTol(s.num_visited - 1)>> } ELSE {})
  ELSE {}

C09(i) ==
  LET e == Ev(i)  s == St(Pre(i))  t == St(e.s)  a == e.a  u == Succ(s, a) IN
  IF IsStep(i) /\ ~e.pl THEN
    { <<"C09.step_rel", t = u>>,
      <<"C09.step_rel.coordinates", t.coordinates = u.coordinates>>,
      <<"C09.step_rel.position", t.position = u.position>>,
      <<"C09.step_rel.visited_mask", t.visited_mask = u.visited_mask>>,
      <<"C09.step_rel.trajectory", t.trajectory = u.trajectory>>,
      <<"C09.step_rel.num_visited", t.num_visited = u.num_visited>>,
      <<"C09.reward_eq", RewardOK(Fn, s, a, u, Rq(e))>>,
      <<"C09.done_eq", IsLast(e) = Done(s, a, u)>> }
  ELSE {}

C10(i) ==
  (IF IsReset(i) THEN
     LET s == St(Ev(i).s) IN
     { <<"C10.wellformed_shapes", ShapeOK(s)>>,
       <<"C10.wellformed_coordinates_in_unit_square", InUnitSquare(s)>>,
       <<"C10.wellformed_fresh_route", FreshRoute(s)>>,
       <<"C10.wellformed_distance_matrix", MetricOK(s) /\ DMatchesCoordinates(s)>> }
     \cup (IF Cfg.generator = "lattice"
           THEN { <<"C10.wellformed_on_lattice", OnLattice(s, Cfg.unit)>> } ELSE {})
   ELSE {})
  \cup C10NonConstant(i, LAMBDA s : s.coordinates)

C11(i) ==
  LET e == Ev(i) IN
  IF IsStep(i) /\ ~e.pl THEN
    (IF e.i >= Horizon THEN { <<"C11.within_structural_horizon", IsLast(e)>> } ELSE {})
    \cup
    \* why the horizon holds: every step that does not end the episode visits exactly one more city
    (IF e.ts.type = MID THEN { <<"C11.mid_step_visits_one_more_city", NumVisited(St(e.s)) = e.i /\ e.i < Horizon>> } ELSE {})
  ELSE {}

C12(i) ==
  LET e == Ev(i)  o == Obs(St(e.s))  got == e.ts.obs IN
  { <<"C12.obs_field_coordinates", got.coordinates = o.coordinates>>,
    <<"C12.obs_field_position", got.position = o.position>>,
    <<"C12.obs_field_trajectory", got.trajectory = o.trajectory>>,
    <<"C12.obs_field_action_mask", got.action_mask = o.action_mask>> }

Clauses(i) ==
        ( (IF On("C01") THEN C01Group(i) ELSE {})
     \cup (IF On("C03") THEN C03Group(i, FALSE) ELSE {})
     \cup (IF On("C04") THEN C04(i) ELSE {})
     \cup (IF On("C05") THEN C05(i) ELSE {})
     \cup (IF On("C06") THEN C06(i) ELSE {})
     \cup (IF On("C08") THEN C08(i) ELSE {})
     \cup (IF On("C09") THEN C09(i) ELSE {})
     \cup (IF On("C10") THEN C10(i) ELSE {})
     \cup (IF On("C11") THEN C11(i) ELSE {})
     \cup (IF On("C12") THEN C12(i) ELSE {}) )

RewardNum(i) == Rq(Ev(i))
RewardAlt(i) == Ev(i).alt.reward.q[1]

Init == TraceInit
Next == TraceNext(Clauses, RewardNum, RewardAlt, MaskAllows)
Spec == Init /\ [][Next]_tvars
=============================================================================
