------------------------- MODULE Trace_GraphColoring -------------------------
(* Trace specification: every recorded reset/step of the real GraphColoring is judged against the reference
   model GraphColoring.tla.  One clause group per property.  Rewards are small integers stored as float32:
   `i` is the rounded integer, `q` the fixed point (x * 65536); both are compared exactly. *)
EXTENDS GraphColoring, TraceKit

Ri(e) == e.ts.reward.i[1]
Rq(e) == e.ts.reward.q[1]
RewardIs(e, n) == Ri(e) = n /\ Rq(e) = n * FX
IsLast(e) == e.ts.type = LAST
EnvMask(i) == PreTs(i).obs.action_mask          \* the mask the implementation showed the agent
MaskAllows(i) == EnvMask(i)[Ev(i).a + 1]

(* the two documented outcomes of a step, as the implementation itself may react to an action *)
InvalidOutcome(i) == LET e == Ev(i) IN IsLast(e) /\ RewardIs(e, InvalidReward)
ValidOutcome(i) ==
  LET e == Ev(i)  t == A(e.s) IN
  IF AllColoured(t) THEN IsLast(e) /\ RewardIs(e, -NumColours(t))
                    ELSE e.ts.type = MID /\ RewardIs(e, 0)

(* C04.  mask_eq_legal: at every non-terminal timestep, for EVERY colour a: mask[a] = no already-coloured
   neighbour of the (new) current node has colour a, recomputed from adj_matrix / colors of the same state. *)
C04(i) ==
  LET e == Ev(i) IN
  (IF (IsReset(i) \/ ~e.pl) /\ ~IsLast(e)
   THEN { <<"C04.mask_eq_legal", e.ts.obs.action_mask = Mask(A(e.s))>>,
          <<"C04.mask_hides_no_legal_colour", \A a \in Colours : Legal(A(e.s), a) => e.ts.obs.action_mask[a + 1]>>,
          <<"C04.mask_offers_no_illegal_colour", \A a \in Colours : e.ts.obs.action_mask[a + 1] => Legal(A(e.s), a)>> }
   ELSE {})
  \cup
  (IF IsStep(i) /\ ~e.pl THEN
     IF MaskAllows(i)
     THEN { <<"C04.masked_in_action_gets_legal_outcome", ValidOutcome(i)>> }
     ELSE { <<"C04.masked_out_action_gets_invalid_outcome", InvalidOutcome(i)>> }
   ELSE {})

(* C05 (terminate-on-invalid family; the docs promise LAST and reward -num_nodes, not an untouched state:
   the colour is written to the current node, nothing else may change). *)
C05(i) ==
  LET e == Ev(i)  s == A(Pre(i))  t == A(e.s) IN
  IF IsStep(i) /\ ~e.pl /\ ~Legal(s, e.a) THEN
    { <<"C05.invalid_is_last", IsLast(e)>>,
      <<"C05.invalid_reward", RewardIs(e, InvalidReward)>>,
      <<"C05.graph_untouched", t.adj_matrix = s.adj_matrix>>,
      <<"C05.other_nodes_keep_colour", \A v \in Nodes : v # Cur(s) => t.colors[v] = s.colors[v]>> }
  ELSE {}

(* C06: hard constraint recomputed from the raw arrays of every state reached by play that respected the
   implementation's own mask so far (mk) and in this step (MaskAllows). *)
C06(i) ==
  LET e == Ev(i)  t == A(e.s) IN
  IF IsReset(i) \/ (IsStep(i) /\ ~e.pl /\ mk /\ MaskAllows(i)) THEN
    { <<"C06.proper_colouring", ProperColouring(t)>>,
      <<"C06.colours_in_palette", ColoursInPalette(t)>> }
    \cup (IF IsStep(i)
          THEN { <<"C06.no_new_monochromatic_edge", MonoEdgesAt(t, Cur(A(Pre(i)))) = {}>> } ELSE {})
    \cup (IF ~IsLast(e) THEN { <<"C06.partial_solution_is_prefix", ColouredPrefix(t)>> } ELSE {})
    \cup (IF IsStep(i) /\ IsLast(e)
          THEN { <<"C06.completion_is_full_solution", CompleteSolution(t)>> } ELSE {})
  ELSE {}

(* C08: the return of an episode of legal actions run to completion is minus the number of distinct colours
   in the final state.  "Legal throughout" = every action respected the implementation's mask, or (equivalently
   by the rules, because nodes are coloured once, in order) the final colouring is complete and proper. *)
C08(i) ==
  LET e == Ev(i)  t == A(e.s) IN
  IF IsStep(i) /\ e.main /\ ~e.pl /\ IsLast(e) /\ AllColoured(t) /\ (ProperColouring(t) \/ (mk /\ MaskAllows(i)))
  THEN { <<"C08.return_eq_objective", acc + Ri(e) = Objective(t) /\ Rq(e) = Ri(e) * FX>>,
         <<"C08.only_final_step_pays", acc = 0>> }
  ELSE {}

C09(i) ==
  LET e == Ev(i)  s == A(Pre(i))  t == A(e.s)  a == e.a  m == Succ(s, a) IN
  IF IsStep(i) /\ ~e.pl THEN
    { <<"C09.step_rel", t = m>>,
      <<"C09.step_rel.adj_matrix", t.adj_matrix = m.adj_matrix>>,
      <<"C09.step_rel.colors", t.colors = m.colors>>,
      <<"C09.step_rel.current_node_index", t.current_node_index = m.current_node_index>>,
      <<"C09.reward_eq", RewardIs(e, Reward(s, a, m))>>,
      <<"C09.done_eq", IsLast(e) = Done(s, a, m)>> }
  ELSE {}

(* C10: what reset may return.  The density clause is a 6-sigma test over all reset events of the file
   (evaluated once, on the last line): #edges ~ Binomial(#resets * N(N-1)/2, edge_probability). *)
C10Density(i) ==
  IF i = NEv /\ Cfg.generator = "random" /\ Cardinality(ResetLines) >= 4 THEN
    LET M   == Cardinality(ResetLines) * NumPairs
        E   == SumFn([j \in ResetLines |-> NumEdges(A(Ev(j).s))], ResetLines)
        p   == Cfg.edge_pct
        sd  == ISqrt(M * p * (100 - p)) + 1            \* standard deviation of 100 * E, rounded up
    IN { <<"C10.edge_density_matches_probability", Abs(100 * E - p * M) <= 6 * sd>> }
  ELSE {}

C10(i) ==
  (IF IsReset(i) THEN
     LET s == A(Ev(i).s) IN
     { <<"C10.wellformed_shapes", ShapeOK(s)>>,
       <<"C10.wellformed_symmetric", Symmetric(s)>>,
       <<"C10.wellformed_no_self_loops", NoSelfLoops(s)>>,
       <<"C10.wellformed_fresh_colouring", FreshColouring(s)>>,
       <<"C10.wellformed_colourable_with_palette", \A u \in Nodes : Degree(s, u) < N>> }
   ELSE {})
  \cup C10NonConstant(i, LAMBDA s : s.adj_matrix)
  \cup C10Density(i)

C11(i) ==
  LET e == Ev(i)  t == A(e.s) IN
  IF IsStep(i) /\ ~e.pl THEN
    (IF e.i >= Horizon THEN { <<"C11.within_structural_horizon", IsLast(e)>> } ELSE {})
    \cup
    \* why the horizon holds: every step that does not end the episode colours exactly one more node
    (IF e.ts.type = MID
     THEN { <<"C11.mid_step_colours_one_more_node",
              NumColoured(t) = e.i /\ t.current_node_index = e.i /\ e.i < Horizon>> } ELSE {})
  ELSE {}

C12(i) ==
  LET e == Ev(i)  o == Obs(A(e.s))  got == e.ts.obs IN
  { <<"C12.obs_field_adj_matrix", got.adj_matrix = o.adj_matrix>>,
    <<"C12.obs_field_colors", got.colors = o.colors>>,
    <<"C12.obs_field_current_node_index", got.current_node_index = o.current_node_index>>,
    <<"C12.state_mask_copy", got.action_mask = e.s.action_mask>> }
  \cup
  \* the mask is documented as "valid actions in the current state": judged wherever an action is still due
  (IF (IsReset(i) \/ ~e.pl) /\ ~IsLast(e)
   THEN { <<"C12.obs_field_action_mask", got.action_mask = o.action_mask>> } ELSE {})

Clauses(i) ==
        ( (IF On("C01") THEN C01Group(i) ELSE {})
     \cup (IF On("C03") THEN C03Group(i, FALSE) ELSE {})
     \cup (IF On("C04") THEN C04(i) ELSE {})
     \cup (IF On("C05") THEN C05(i) ELSE {})
     \cup (IF On("C06") THEN C06(i) ELSE {})
     \cup (IF On("C08") THEN C08(i) ELSE {})
     \cup (IF On("C09") THEN C09(i) ELSE {})
     \cup (IF On("C10") THEN C10(i) ELSE {})
     \cup (IF On("C11") THEN C11(i) ELSE {})
     \cup (IF On("C12") THEN C12(i) ELSE {}) )

RewardNum(i) == Ri(Ev(i))

Init == TraceInit
Next == TraceNext(Clauses, RewardNum, Zero, MaskAllows)
Spec == Init /\ [][Next]_tvars
=============================================================================
