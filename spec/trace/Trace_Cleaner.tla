-------------------------- MODULE Trace_Cleaner --------------------------
(* Trace specification: every recorded reset/step of the real Cleaner is judged against the reference
   model Cleaner.tla.  One clause group per property (C01, C03, C04, C05, C07, C08, C09, C10, C11, C12).
   A joint action arrives as a sequence e.a[1..num_agents]; positions are 0-based <<row, col>>. *)
EXTENDS Cleaner, TraceKit

RewQ(e) == e.ts.reward.q[1]
RTol == IF PenaltyQ \in {0, FX \div 2} THEN 0 ELSE 2       \* 0 and 0.5 are exact in float32; other penalties round
EnvMask(i) == PreTs(i).obs.action_mask          \* the mask the implementation showed the agents before acting
MaskShape(m) == Len(m) = NA /\ \A ag \in Agents : Len(m[ag]) = 4
EnvAllowsAg(i, ag) == EnvMask(i)[ag][Ev(i).a[ag] + 1]
EnvAllowsAll(i) == \A ag \in Agents : EnvAllowsAg(i, ag)

StateShape(s) == GridShape(s.grid) /\ LocsShape(s.agents_locations)
ShapeOK(i) == /\ StateShape(Ev(i).s)
              /\ IsStep(i) => (StateShape(Pre(i)) /\ ActShape(Ev(i).a) /\ MaskShape(EnvMask(i)))
RuleStep(i) == IsStep(i) /\ ~Ev(i).pl           \* a step taken from a state the episode continues from
Continuing(i) == (IsReset(i) \/ RuleStep(i)) /\ Ev(i).ts.type # LAST

(* ---------------- C04: mask = rules (per agent), and the implementation honours its own mask ---------------- *)
C04(i) ==
  LET e == Ev(i)  m == e.ts.obs.action_mask  p == Pre(i) IN
  (IF Continuing(i) THEN
     { <<"C04.mask_eq_legal", m = Mask(e.s)>>,
       <<"C04.mask_eq_legal.no_legal_move_hidden",
           MaskShape(m) /\ \A ag \in Agents : \A a \in Actions : LegalAg(e.s, ag, a) => m[ag][a + 1]>>,
       <<"C04.mask_eq_legal.no_illegal_move_allowed",
           MaskShape(m) /\ \A ag \in Agents : \A a \in Actions : m[ag][a + 1] => LegalAg(e.s, ag, a)>> }
   ELSE {})
  \cup
  (IF RuleStep(i) /\ (\E ag \in Agents : EnvAllowsAg(i, ag)) THEN
     { <<"C04.masked_in_action_gets_legal_outcome",
           /\ \A ag \in Agents : EnvAllowsAg(i, ag) => e.s.agents_locations[ag] = Dest(p.agents_locations[ag], e.a[ag])
           \* a joint action the mask allows entirely is never treated as invalid: LAST needs another reason
           /\ (EnvAllowsAll(i) /\ e.ts.type = LAST) => (NoDirty(e.s.grid) \/ e.s.step_count >= TLimit)>> }
   ELSE {})
  \cup
  (IF RuleStep(i) /\ ~EnvAllowsAll(i) THEN
     { <<"C04.masked_out_action_gets_invalid_outcome",
           /\ e.ts.type = LAST
           /\ \A ag \in Agents : ~EnvAllowsAg(i, ag) => e.s.agents_locations[ag] = p.agents_locations[ag]>> }
   ELSE {})

(* ---------------- C05: terminate-on-invalid family ---------------- *)
C05(i) ==
  LET e == Ev(i)  p == Pre(i) IN
  IF RuleStep(i) /\ ~LegalAll(p, e.a) THEN
    { <<"C05.invalid_is_last", e.ts.type = LAST>>,
      \* no special penalty is documented: the reward is still "tiles cleaned during the step minus the penalty",
      \* the tiles being those entered by the agents whose own move was legal
      <<"C05.invalid_reward", Abs(RewQ(e) - RewardQ(p, e.a)) <= RTol>>,
      <<"C05.problem_state_untouched",
          OffendersKeepPosition(p, e.a, e.s) /\ NothingChangedForOffenders(p, e.a, e.s)>>,
      <<"C05.problem_state_untouched.offender_keeps_position", OffendersKeepPosition(p, e.a, e.s)>>,
      <<"C05.problem_state_untouched.grid", NothingChangedForOffenders(p, e.a, e.s)>> }
  ELSE {}

(* ---------------- C07: physically possible states, conserved walls, clean stays clean ---------------- *)
C07(i) ==
  LET e == Ev(i) IN
  (IF Continuing(i) THEN
     { <<"C07.in_bounds", AgentsInBounds(e.s)>>,
       <<"C07.not_in_wall", AgentsNotInWall(e.s)>>,
       <<"C07.positions_agree_with_grid", AgentsOnCleanTiles(e.s)>> }
   ELSE {})
  \cup
  (IF RuleStep(i) THEN
     { <<"C07.conserved_walls", WallsFixed(Pre(i), e.s)>>,
       <<"C07.conserved_clean_tiles", CleanStaysClean(Pre(i), e.s)>>,
       <<"C07.dirty_only_cleaned_under_agent", DirtyOnlyCleanedUnderAgent(Pre(i), e.s)>>,
       <<"C07.moves_at_most_one_cell", MovesAtMostOneCell(Pre(i), e.s)>> }
   ELSE {})

(* ---------------- C08: return = tiles cleaned - penalty * steps ---------------- *)
C08(i) ==
  LET e == Ev(i) IN
  IF RuleStep(i) /\ e.main /\ e.ts.type = LAST
  THEN { <<"C08.return_eq_objective", Abs(acc + RewQ(e) - Objective(e.s)) <= RTol * e.s.step_count>> }
  ELSE {}

(* ---------------- C09: the documented transition, reward and termination ---------------- *)
C09(i) ==
  LET e == Ev(i)  p == Pre(i)  n == StepTo(A(p), e.a) IN
  IF RuleStep(i) THEN
    { <<"C09.step_rel", A(e.s) = n>>,
      <<"C09.step_rel.agents_locations", e.s.agents_locations = n.agents_locations>>,
      <<"C09.step_rel.grid", e.s.grid = n.grid>>,
      <<"C09.step_rel.step_count", e.s.step_count = n.step_count>>,
      <<"C09.reward_eq", Abs(RewQ(e) - RewardQ(p, e.a)) <= RTol>>,
      <<"C09.done_eq", (e.ts.type = LAST) = Done(p, e.a)>>,
      <<"C09.discount_eq", e.ts.discount.q[1] = IF Done(p, e.a) THEN 0 ELSE FX>> }
  ELSE {}

(* ---------------- C10: what reset returns ---------------- *)
C10(i) ==
  LET s == Ev(i).s IN
  (IF IsReset(i) THEN
     { <<"C10.wellformed_step_count_zero", s.step_count = 0>>,
       <<"C10.wellformed_agents_at_origin", AllStartAtOrigin(s)>>,
       <<"C10.wellformed_origin_free", s.grid[1][1] # WALL>>,
       <<"C10.wellformed_only_origin_clean", OnlyOriginClean(s.grid)>>,
       <<"C10.wellformed_connected", Connected(s.grid)>>,
       <<"C10.wellformed_wall_parity", WallParity(s.grid)>>,
       <<"C10.wellformed_instance", WellFormedInstance(A(s))>> }
   ELSE {})
  \* only rooms in which the recursive division has several wall offsets AND several passages to choose from: the
  \* smaller rooms have one or two possible mazes (2x4: one; 3x3: two, very unevenly), where "all equal" over a few dozen
  \* keys says nothing about the generator ignoring its key
  \cup (IF GeneratorHasManyChoices THEN C10NonConstant(i, LAMBDA st : st.grid) ELSE {})

(* ---------------- C11: time limit as requested by the harness ---------------- *)
\* "another reason": no dirty tile left, or the step was treated as an invalid action (by the rules or by the
\* implementation's own mask -- whether those two agree is C04's question, not C11's)
C11(i) ==
  LET e == Ev(i) IN
  C11Group(i, TLimit, e.s.step_count,
           IF ShapeOK(i) /\ IsStep(i) THEN (~LegalAll(Pre(i), e.a) \/ ~EnvAllowsAll(i) \/ NoDirty(e.s.grid)) ELSE FALSE)
  \cup (IF IsStep(i) THEN { <<"C11.step_count_counts_steps", e.s.step_count = e.i>> } ELSE {})

(* ---------------- C12: observation = documented function of the state ---------------- *)
C12(i) ==
  LET e == Ev(i)  o == Obs(e.s) IN
  { <<"C12.obs_field_grid", e.ts.obs.grid = o.grid>>,
    <<"C12.obs_field_agents_locations", e.ts.obs.agents_locations = o.agents_locations>>,
    <<"C12.obs_field_action_mask", e.ts.obs.action_mask = o.action_mask>>,
    <<"C12.obs_field_step_count", e.ts.obs.step_count = o.step_count>>,
    <<"C12.state_mask_copy", e.s.action_mask = e.ts.obs.action_mask>> }

(* Arrays of the wrong shape make the rule clauses meaningless (and unevaluable): each enabled rule group then
   reports the single clause <group>.state_shape instead. *)
Guarded(p, grp, i) == IF ~On(p) THEN {} ELSE IF ShapeOK(i) THEN grp ELSE { <<p \o ".state_shape", FALSE>> }

Clauses(i) ==
        ( (IF On("C01") THEN C01Group(i) ELSE {})
     \cup (IF On("C03") THEN C03Group(i, FALSE) ELSE {})
     \cup Guarded("C04", C04(i), i)
     \cup Guarded("C05", C05(i), i)
     \cup Guarded("C07", C07(i), i)
     \cup Guarded("C08", C08(i), i)
     \cup Guarded("C09", C09(i), i)
     \cup Guarded("C10", C10(i), i)
     \cup (IF On("C11") THEN C11(i) ELSE {})
     \cup Guarded("C12", C12(i), i) )

RewardNum(i) == RewQ(Ev(i))
MaskAllows(i) == IF ShapeOK(i) THEN EnvAllowsAll(i) ELSE FALSE

Init == TraceInit
Next == TraceNext(Clauses, RewardNum, Zero, MaskAllows)
Spec == Init /\ [][Next]_tvars
=============================================================================
