------------------------- MODULE Trace_Knapsack -------------------------
(* Trace specification: every recorded reset/step of the real Knapsack is judged against the reference
   model Knapsack.tla.  One clause group per property.  Numbers are fixed point (x * 65536); Cfg.exact
   (dyadic generator) makes every comparison exact, otherwise the tolerances of Knapsack.tla apply:
   a budget-vs-weight comparison is left undecided ONLY when |remaining_budget - weight| <= 2 units. *)
EXTENDS Knapsack, TraceKit

St(s) == IF "fits" \in DOMAIN s
         THEN [weights |-> s.weights, values |-> s.values, packed_items |-> s.packed_items,
               remaining_budget |-> s.remaining_budget, fits |-> s.fits]       \* the exact float32 comparisons (Knapsack.tla)
         ELSE [weights |-> s.weights, values |-> s.values, packed_items |-> s.packed_items,
               remaining_budget |-> s.remaining_budget]
Rq(e) == e.ts.reward.q[1]
IsLast(e) == e.ts.type = LAST
EnvMask(i) == PreTs(i).obs.action_mask          \* the mask the implementation showed the agent
MaskAllows(i) == EnvMask(i)[Ev(i).a + 1]
InvalidOutcome(i) == LET e == Ev(i) IN St(e.s) = St(Pre(i)) /\ IsLast(e) /\ Rq(e) = 0

(* mask_eq_legal: for EVERY item j, mask[j] = (item j unpacked /\ weights[j] <= remaining_budget), compared
   exactly when Cfg.exact (dyadic generator).  With float32 numbers seen through fixed point (uniform, jitter
   generators) the entry of an unpacked item is left undecided only when
   |remaining_budget - weights[j]| <= 2 fixed-point units (Knapsack!Tie); packed items must always be masked out. *)
C04(i) ==
  LET e == Ev(i) IN
  (IF e.ts.type # LAST
   THEN { <<"C04.mask_eq_legal", MaskAgrees(e.ts.obs.action_mask, St(e.s))>> } ELSE {})
  \cup
  (IF IsStep(i) /\ ~e.pl THEN
     IF MaskAllows(i)
     THEN { <<"C04.masked_in_action_gets_legal_outcome", TookItem(Pre(i), e.a, e.s) /\ ~InvalidOutcome(i)>> }
     ELSE { <<"C04.masked_out_action_gets_invalid_outcome", InvalidOutcome(i)>> }
   ELSE {})

C05(i) ==
  LET e == Ev(i) IN
  IF IsStep(i) /\ ~e.pl /\ IllegalForSure(St(Pre(i)), e.a) THEN
    { <<"C05.invalid_is_last", IsLast(e)>>,
      <<"C05.invalid_reward", Rq(e) = 0>>,
      <<"C05.problem_state_untouched", St(e.s) = St(Pre(i))>> }
  ELSE {}

C06(i) ==
  LET e == Ev(i)  s == St(e.s) IN
  IF IsReset(i) \/ (IsStep(i) /\ ~e.pl /\ mk /\ MaskAllows(i)) THEN
    { <<"C06.weight_within_budget", WeightWithinBudget(s)>>,
      <<"C06.remaining_budget_nonnegative", BudgetNonNegative(s)>>,
      <<"C06.remaining_budget_bookkeeping", BudgetBookkeeping(s)>> }
    \cup (IF IsStep(i) /\ IsLast(e)
          THEN { <<"C06.completion_is_full_solution", WeightWithinBudget(s) /\ MaximalPacking(s)>> } ELSE {})
  ELSE {}

C08(i) ==
  LET e == Ev(i)  s == St(e.s)  dense == Cfg.reward_fn = "dense" IN
  IF IsStep(i) /\ e.main /\ ~e.pl THEN
    { <<"C08.dense_eq_sparse.same_step_type", e.alt.type = e.ts.type>> }
    \cup
    \* dense: the return is the packed value whatever ended the episode (an invalid last action pays 0);
    \* sparse: documented only for episodes whose every action was valid
    (IF IsLast(e) /\ (dense \/ (mk /\ MaskAllows(i)))
     THEN { <<"C08.return_eq_objective",
              Abs(acc + Rq(e) - Objective(s)) <= (IF dense THEN 0 ELSE SumTol(NumPacked(s)))>> } ELSE {})
    \cup
    (IF IsLast(e) /\ mk /\ MaskAllows(i)
     THEN { <<"C08.dense_eq_sparse",
              Abs((acc + Rq(e)) - (acc2 + e.alt.reward.q[1])) <= SumTol(NumPacked(s))>> } ELSE {})
  ELSE {}

C09(i) ==
  LET e == Ev(i)  s == St(Pre(i))  t == St(e.s)  a == e.a IN
  IF IsStep(i) /\ ~e.pl THEN
    { <<"C09.step_rel", StepRel(s, a, t)>>,
      <<"C09.step_rel.weights", t.weights = s.weights>>,
      <<"C09.step_rel.values", t.values = s.values>>,
      <<"C09.step_rel.packed_items",
          /\ LegalForSure(s, a) => t.packed_items = [s.packed_items EXCEPT ![a + 1] = TRUE]
          /\ IllegalForSure(s, a) => t.packed_items = s.packed_items>>,
      <<"C09.step_rel.remaining_budget",
          /\ LegalForSure(s, a) => Abs(t.remaining_budget - (s.remaining_budget - s.weights[a + 1])) <= DiffTol
          /\ IllegalForSure(s, a) => t.remaining_budget = s.remaining_budget>>,
      <<"C09.reward_eq", RewardOK(Cfg.reward_fn, s, a, IsLast(e), Rq(e))>>,
      <<"C09.done_eq", (DoneForSure(s, a, t) => IsLast(e)) /\ (NotDoneForSure(s, a, t) => ~IsLast(e))>> }
  ELSE {}

One == FX
C10(i) ==
  (IF IsReset(i) THEN
     LET s == St(Ev(i).s) IN
     { <<"C10.wellformed_shapes", ShapeOK(s)>>,
       <<"C10.wellformed_weights_in_box", InBox(s.weights, One)>>,
       <<"C10.wellformed_values_in_box", InBox(s.values, One)>>,
       <<"C10.wellformed_fresh_knapsack", FreshKnapsack(s)>> }
     \cup (IF Cfg.generator = "dyadic"
           THEN { <<"C10.wellformed_on_lattice", OnLattice(s.weights, One \div 64, One) /\ OnLattice(s.values, One \div 64, One)>> }
           ELSE {})
   ELSE {})
  \cup C10NonConstant(i, LAMBDA s : <<s.weights, s.values>>)

C11(i) ==
  LET e == Ev(i) IN
  IF IsStep(i) /\ ~e.pl THEN
    (IF e.i >= Horizon THEN { <<"C11.within_structural_horizon", IsLast(e)>> } ELSE {})
    \cup
    \* why the horizon holds: every step that does not end the episode packs exactly one more item
    (IF e.ts.type = MID THEN { <<"C11.mid_step_packs_one_more_item", NumPacked(St(e.s)) = e.i /\ e.i < Horizon>> } ELSE {})
  ELSE {}

C12(i) ==
  LET e == Ev(i)  o == Obs(St(e.s))  got == e.ts.obs IN
  { <<"C12.obs_field_weights", got.weights = o.weights>>,
    <<"C12.obs_field_values", got.values = o.values>>,
    <<"C12.obs_field_packed_items", got.packed_items = o.packed_items>>,
    \* = o.action_mask entry by entry, except for unpacked items in a tie (never when Cfg.exact)
    <<"C12.obs_field_action_mask", MaskAgrees(got.action_mask, St(e.s))>> }

Clauses(i) ==
        ( (IF On("C01") THEN C01Group(i) ELSE {})
     \cup (IF On("C03") THEN C03Group(i, FALSE) ELSE {})
     \cup (IF On("C04") THEN C04(i) ELSE {})
     \cup (IF On("C05") THEN C05(i) ELSE {})
     \cup (IF On("C06") THEN C06(i) ELSE {})
     \cup (IF On("C08") THEN C08(i) ELSE {})
     \cup (IF On("C09") THEN C09(i) ELSE {})
     \cup (IF On("C10") THEN C10(i) ELSE {})
     \cup (IF On("C11") THEN C11(i) ELSE {})
     \cup (IF On("C12") THEN C12(i) ELSE {}) )

RewardNum(i) == Rq(Ev(i))
RewardAlt(i) == Ev(i).alt.reward.q[1]

Init == TraceInit
Next == TraceNext(Clauses, RewardNum, RewardAlt, MaskAllows)
Spec == Init /\ [][Next]_tvars
=============================================================================
