--------------------------- MODULE Trace_Snake ---------------------------
(* Trace specification: every recorded reset/step of the real Snake is judged against the reference
   model Snake.tla.  One clause group per property. *)
EXTENDS Snake, TraceKit

TL == Cfg.time_limit                               \* as requested by the adapter
RewardInt(e) == e.ts.reward.i[1]
RewardExact(e, n) == e.ts.reward.i[1] = n /\ e.ts.reward.q[1] = n * FX
EnvMask(i) == PreTs(i).obs.action_mask             \* the mask the implementation showed the agent
RuleStep(i) == IsStep(i) /\ ~Ev(i).pl              \* a step judged by the rules (pre-state is not post-terminal)
Continues(i) == ~Ev(i).pl /\ Ev(i).ts.type # LAST  \* a state from which the episode continues
PreOK(i) == Decodable(Pre(i))                      \* the pre-state can be read as a snake (else rule clauses fail)

(* state-only view of "there is another documented reason to end here", recomputed from the post-state
   (used to interpret the implementation's own reaction to its mask in C04) *)
PostFull(s) == \A c \in AllCells : s.body_state[c[1]][c[2]] > 0

EarlyEndM(m) == EndInvalidM(m) \/ EndCompletedM(m) \/ EndSurroundedM(m)

(* ------------------------------------------------------------------ C04 *)
C04(i) ==
  LET e == Ev(i) IN
  (IF Continues(i)
   THEN { <<"C04.mask_eq_legal", Decodable(e.s) /\ e.ts.obs.action_mask = Mask(e.s)>> }
   ELSE {})
  \cup
  (IF RuleStep(i) THEN
     (* the documented invalid outcome is: LAST with reward 0 and no other reason to end *)
     LET otherEnd == e.s.step_count >= TL \/ PostFull(e.s)
                     \/ (PreOK(i) /\ EndSurrounded(Pre(i), e.a))       \* documented end: no action can be performed
         treatedInvalid == e.ts.type = LAST /\ ~otherEnd IN
     { <<"C04.masked_in_action_gets_legal_outcome", EnvMask(i)[e.a + 1] => ~treatedInvalid>>,
       <<"C04.masked_out_action_gets_invalid_outcome", ~EnvMask(i)[e.a + 1] => (e.ts.type = LAST /\ RewardExact(e, 0))>> }
   ELSE {})

(* ------------------------------------------------------------------ C05 (terminate-on-invalid) *)
C05(i) ==
  LET e == Ev(i) IN
  IF RuleStep(i) /\ PreOK(i) /\ ~Legal(Pre(i), e.a) THEN
    { <<"C05.invalid_is_last", e.ts.type = LAST>>,
      <<"C05.invalid_reward", RewardExact(e, 0)>> }
  ELSE {}

(* ------------------------------------------------------------------ C07 *)
C07(i) ==
  LET e == Ev(i) IN
  IF Continues(i) THEN
    { <<"C07.in_bounds", InBounds(e.s)>>,
      <<"C07.snake_is_chain", InBounds(e.s) /\ IsChain(e.s)>>,
      <<"C07.positions_agree_with_grid", InBounds(e.s) /\ PositionsAgree(e.s)>>,
      <<"C07.unique_entity_present_once", InBounds(e.s) /\ OneTail(e.s)>>,
      <<"C07.no_two_entities_share_cell", InBounds(e.s) /\ FruitOffBody(e.s)>> }
    \cup (IF IsStep(i) /\ InBounds(e.s) /\ InBounds(Pre(i))
          THEN { <<"C07.conserved_body_count",
                   GridCount(e.s.body, LAMBDA b : b) = GridCount(Pre(i).body, LAMBDA b : b) + RewardInt(e)
                   /\ GridCount(e.s.body, LAMBDA b : b) = e.s.length>> }
          ELSE {})
  ELSE {}

(* ------------------------------------------------------------------ C08 *)
C08(i) ==
  LET e == Ev(i) IN
  IF IsStep(i) /\ e.main /\ ~e.pl /\ e.ts.type = LAST
  THEN { <<"C08.return_eq_objective", acc + RewardInt(e) = Objective(e.s)>> }
  ELSE {}

(* ------------------------------------------------------------------ C09 *)
(* m == Move(s, a): the pre-state's snake, decoded once for all the rules of this line (an operator argument) *)
C09Rules(e, s, a, t, isLast, m) ==
  LET rb == RelBodyStateM(m, s, t)  rh == RelHeadM(m, s, t)  rl == RelLengthM(m, s, t)
      rc == RelStepCount(s, a, t)  rf == RelFruitM(m, s, t) IN
  { <<"C09.step_rel", rb /\ rh /\ rl /\ rc /\ rf>>,            \* = StepRel(s, a, t)
    <<"C09.step_rel.body_state", rb>>,
    <<"C09.step_rel.head_position", rh>>,
    <<"C09.step_rel.length", rl>>,
    <<"C09.step_rel.step_count", rc>>,
    <<"C09.reward_eq", RewardExact(e, RewardM(m))>> }
  \cup (IF m.legal /\ m.eats
        THEN { <<"C09.nondet_choice_admissible", rf>> }
        ELSE { <<"C09.step_rel.fruit_position", rf>> })
  \cup
  (* termination.  The documented reason "the snake is surrounded" is judged by its own clause; done_eq
     covers every other case (invalid move, completed grid, time limit, and no LAST without a reason). *)
  (IF EndSurroundedM(m) /\ ~EndCompletedM(m) /\ ~EndTime(s, TL)
   THEN { <<"C09.done_eq.surrounded_is_last", isLast>> }
   ELSE { <<"C09.done_eq", isLast = DoneM(m, s, TL)>> })

C09(i) ==
  IF RuleStep(i) THEN
    IF ~PreOK(i) THEN { <<"C09.step_rel", FALSE>> }
    ELSE C09Rules(Ev(i), Pre(i), Ev(i).a, Ev(i).s, Ev(i).ts.type = LAST, Move(Pre(i), Ev(i).a))
  ELSE {}

(* ------------------------------------------------------------------ C10 *)
C10(i) ==
  (IF IsReset(i) THEN
     LET s == Ev(i).s IN
     { <<"C10.wellformed_single_cell_snake",
          InBounds(s) /\ s.length = 1 /\ s.step_count = 0
          /\ s.body_state = OrderGrid(<<SnCell(s.head_position)>>) /\ PositionsAgree(s) /\ OneTail(s)>>,
       <<"C10.wellformed_fruit_on_other_cell", InBounds(s) /\ s.fruit_position # s.head_position /\ FruitOffBody(s)>>,
       <<"C10.wellformed_initial_state", WellFormedInstance(s)>> }
   ELSE {})
  \cup C10NonConstant(i, LAMBDA s : s.head_position)
  \cup C10NonConstant(i, LAMBDA s : s.fruit_position)

(* ------------------------------------------------------------------ C11 *)
C11(i) ==
  IF RuleStep(i) /\ PreOK(i)
  THEN C11Group(i, TL, Ev(i).s.step_count, EarlyEndM(Move(Pre(i), Ev(i).a)))
  ELSE {}

(* ------------------------------------------------------------------ C12 *)
(* The planes are a function of a meaningful state: reset states and states reached by a legal move.  After
   an invalid move (and after termination) only the copied fields are judged. *)
C12(i) ==
  LET e == Ev(i)  o == e.ts.obs  s == e.s IN
  { <<"C12.obs_field_step_count", o.step_count = s.step_count>>,
    <<"C12.obs_field_action_mask", o.action_mask = s.action_mask>>,
    <<"C12.obs_field_grid.shape", ObsGridShape(o.grid)>> }
  \cup
  (IF ObsGridShape(o.grid) /\ GridShape(s.body) /\ GridShape(s.tail) THEN
     { <<"C12.obs_field_grid.body_tail_copied",
          \A c \in AllCells : /\ o.grid[c[1]][c[2]][1] = B2F(s.body[c[1]][c[2]])
                              /\ o.grid[c[1]][c[2]][3] = B2F(s.tail[c[1]][c[2]])>> }
   ELSE {})
  \cup
  \* "normalised body order": on EVERY emitted observation (also the terminal one after an invalid move, where the new
  \* head fell off the grid) plane 5 is the state's body_state divided by the largest body order present in it
  (IF ~e.pl /\ ObsGridShape(o.grid) /\ GridShape(s.body_state) THEN
     LET m == SeqMax([k \in 1..(NR * NC) |-> s.body_state[((k - 1) \div NC) + 1][((k - 1) % NC) + 1]]) IN
     IF m >= 1
     THEN { <<"C12.obs_field_grid.norm_body_state.normalised_by_largest_order",
                \A c \in AllCells : Near(o.grid[c[1]][c[2]][5], s.body_state[c[1]][c[2]], m, 1)>> }
     ELSE {}
   ELSE {})
  \cup
  (IF ~e.pl /\ ObsGridShape(o.grid) /\ InBounds(s)
      /\ (IsReset(i) \/ (PreOK(i) /\ Legal(Pre(i), e.a)))
   THEN { <<"C12.obs_field_grid.body", ObsBody(o.grid, s)>>,
          <<"C12.obs_field_grid.head", ObsHead(o.grid, s)>>,
          <<"C12.obs_field_grid.tail", ObsTail(o.grid, s)>>,
          <<"C12.obs_field_grid.fruit", ObsFruit(o.grid, s)>>,
          <<"C12.obs_field_grid.norm_body_state", ObsNorm(o.grid, s)>> }
        \cup (IF e.ts.type # LAST THEN { <<"C12.obs_field_action_mask.is_legal_moves", Decodable(s) /\ o.action_mask = Mask(s)>> } ELSE {})
   ELSE {})

Clauses(i) ==
        ( (IF On("C01") THEN C01Group(i) ELSE {})
     \cup (IF On("C03") THEN C03Group(i, FALSE) ELSE {})
     \cup (IF On("C04") THEN C04(i) ELSE {})
     \cup (IF On("C05") THEN C05(i) ELSE {})
     \cup (IF On("C07") THEN C07(i) ELSE {})
     \cup (IF On("C08") THEN C08(i) ELSE {})
     \cup (IF On("C09") THEN C09(i) ELSE {})
     \cup (IF On("C10") THEN C10(i) ELSE {})
     \cup (IF On("C11") THEN C11(i) ELSE {})
     \cup (IF On("C12") THEN C12(i) ELSE {}) )

RewardNum(i) == RewardInt(Ev(i))
MaskAllows(i) == EnvMask(i)[Ev(i).a + 1]

Init == TraceInit
Next == TraceNext(Clauses, RewardNum, Zero, MaskAllows)
Spec == Init /\ [][Next]_tvars
=============================================================================
