--------------------------- MODULE Trace_Tetris ---------------------------
(* Trace specification: every recorded reset/step of the real Tetris is judged against the
   reference model Tetris.tla.  One clause group per property.

   Data layout (jumanji's own names): e.s.grid_padded is the (num_rows+3) x (num_cols+3) array of
   colour ids (0 = empty; the 3 extra rows/columns are padding that must stay empty),
   e.s.tetromino_index the current piece, e.a = <<rotation, column>> (0-based).
   y_position / x_position / old_tetromino_rotated are rendering aids; y_position is not constrained. *)
EXTENDS Tetris, TraceKit

PR == NR + 3
PC == NC + 3
Grid01(gp) == [r \in 1..NR |-> [c \in 1..NC |-> IF gp[r][c] > 0 THEN 1 ELSE 0]]
A(s) == [grid |-> Grid01(s.grid_padded), piece |-> s.tetromino_index, step_count |-> s.step_count]
RewardInt(e) == e.ts.reward.i[1]
RewardExact(e, n) == RewardInt(e) = n /\ e.ts.reward.q[1] = n * FX
EnvMask(i) == PreTs(i).obs.action_mask                  \* the mask the implementation showed the agent
EnvAllowed(i) == EnvMask(i)[Ev(i).a[1] + 1][Ev(i).a[2] + 1]
NumTrue(sq) == Cardinality({ j \in 1..Len(sq) : sq[j] })
MaskEmpty(m) == \A k \in 1..Len(m) : \A x \in 1..Len(m[k]) : ~m[k][x]

PaddedShape(gp) == Len(gp) = PR /\ \A r \in 1..PR : Len(gp[r]) = PC /\ \A c \in 1..PC : gp[r][c] >= 0
PaddingEmpty(gp) == \A r \in 1..PR : \A c \in 1..PC : (r > NR \/ c > NC) => gp[r][c] = 0

(* ---------------- C04: mask = legal moves ---------------- *)
C04(i) ==
  LET e == Ev(i) IN
  (IF ~e.pl /\ e.ts.type # LAST
   THEN { <<"C04.mask_eq_legal", e.ts.obs.action_mask = Mask(A(e.s))>> } ELSE {})
  \cup
  (IF IsStep(i) /\ ~e.pl THEN
     LET k == NumTrue(e.s.full_lines) IN
     IF EnvAllowed(i)
     THEN \* the implementation's own reaction: not treated as an invalid move -- a piece was placed and scored,
          \* and if the episode ended there is another documented reason
          { <<"C04.masked_in_action_gets_legal_outcome",
                /\ k \in 0..4
                /\ RewardExact(e, RewardList[k + 1])
                /\ CellCount(Grid01(e.s.grid_padded)) = CellCount(Grid01(Pre(i).grid_padded)) + 4 - NC * k
                /\ PaddingEmpty(e.s.grid_padded)
                /\ e.ts.type = LAST => (e.s.step_count >= TL \/ MaskEmpty(e.ts.obs.action_mask))>> }
     ELSE { <<"C04.masked_out_action_gets_invalid_outcome", e.ts.type = LAST /\ RewardExact(e, 0)>> }
   ELSE {})

(* ---------------- C05: terminate-on-invalid, reward 0 ---------------- *)
C05(i) ==
  LET e == Ev(i) IN
  IF IsStep(i) /\ ~e.pl /\ ~Legal(A(Pre(i)), e.a) THEN
    { <<"C05.invalid_is_last", e.ts.type = LAST>>,
      <<"C05.invalid_reward", RewardExact(e, 0)>> }
  ELSE {}

(* ---------------- C07: physical consistency, cell conservation ---------------- *)
C07(i) ==
  LET e == Ev(i) IN
  (IF ~e.pl /\ e.ts.type # LAST THEN
     { <<"C07.in_bounds", PaddedShape(e.s.grid_padded) /\ PaddingEmpty(e.s.grid_padded)>>,
       <<"C07.grid_is_binary", GridBinary(e.ts.obs.grid)>>,
       <<"C07.no_full_row_remains", NoFullRow(Grid01(e.s.grid_padded))>> }
   ELSE {})
  \cup
  (IF IsStep(i) /\ ~e.pl /\ Legal(A(Pre(i)), e.a) THEN
     { <<"C07.conserved_cell_count", CellLaw(Grid01(Pre(i).grid_padded), Grid01(e.s.grid_padded))>>,
       <<"C07.piece_inside_grid", PaddingEmpty(e.s.grid_padded)>> }
   ELSE {})

(* ---------------- C09: reference-model agreement ---------------- *)
C09(i) ==
  LET e == Ev(i) IN
  IF IsReset(i) THEN
    \* the shape / reward tables are data of the implementation: cross-check them with the model's own
    { <<"C09.tetromino_table", Cfg.tetrominoes = TetrominoTable>>,
      <<"C09.reward_table", Cfg.reward_list = RewardList>> }
  ELSE IF ~e.pl THEN
    LET pre == A(Pre(i))  post == A(e.s)  o == Outcome(pre, e.a) IN
    { <<"C09.step_rel", StepRelO(pre, o, post)>>,
      <<"C09.step_rel.step_count", post.step_count = pre.step_count + 1>>,
      <<"C09.step_rel.score", e.s.score = Pre(i).score + RewardInt(e) /\ e.s.reward = RewardInt(e)>>,
      <<"C09.step_rel.grid_padded_old", e.s.grid_padded_old = Pre(i).grid_padded>>,
      <<"C09.step_rel.x_position", e.s.x_position = e.a[2]>>,
      <<"C09.step_rel.new_tetromino", e.s.new_tetromino = ShapeMatrix(Shape(post.piece, 0)) /\ ~e.s.is_reset>>,
      <<"C09.reward_eq", RewardExact(e, o.reward)>>,
      <<"C09.done_eq", (e.ts.type = LAST) = DoneO(o, post)>>,
      <<"C09.nondet_choice_admissible", post.piece \in Pieces>> }
    \cup
    (IF o.legal THEN
       { <<"C09.step_rel.grid", post.grid = o.grid>>,
         <<"C09.step_rel.full_lines", e.s.full_lines = [r \in 1..PR |-> r \in o.full]>> }
     ELSE {})
  ELSE {}

(* ---------------- C10: what reset returns ---------------- *)
C10(i) ==
  (IF IsReset(i) /\ ~Cfg.prefilled THEN          \* (prefilled: the harness replaced the start position)
     LET s == Ev(i).s IN
     { <<"C10.wellformed_initial_state",
           /\ PaddedShape(s.grid_padded)
           /\ \A r \in 1..PR : \A c \in 1..PC : s.grid_padded[r][c] = 0
           /\ WellFormedInstance(A(s))
           /\ s.score = 0 /\ s.reward = 0 /\ s.is_reset
           /\ s.new_tetromino = ShapeMatrix(Shape(s.tetromino_index, 0))>> }
   ELSE {})
  \cup C10NonConstant(i, LAMBDA s : s.tetromino_index)

(* ---------------- C11: time limit ---------------- *)
C11(i) ==
  LET e == Ev(i) IN
  C11Group(i, TL, e.s.step_count, ~Legal(A(Pre(i)), e.a) \/ NoMove(A(e.s)))

(* ---------------- C12: observation = documented view of the state ---------------- *)
C12(i) ==
  LET e == Ev(i)  o == Obs(A(e.s)) IN
  { <<"C12.obs_field_grid", e.ts.obs.grid = o.grid>>,
    <<"C12.obs_field_tetromino", e.ts.obs.tetromino = o.tetromino>>,
    <<"C12.obs_field_action_mask", e.ts.obs.action_mask = o.action_mask>>,
    <<"C12.obs_field_step_count", e.ts.obs.step_count = o.step_count>>,
    <<"C12.state_mask_copy", e.s.action_mask = e.ts.obs.action_mask>> }

Clauses(i) ==
        ( (IF On("C01") THEN C01Group(i) ELSE {})
     \cup (IF On("C03") THEN C03Group(i, FALSE) ELSE {})
     \cup (IF On("C04") THEN C04(i) ELSE {})
     \cup (IF On("C05") THEN C05(i) ELSE {})
     \cup (IF On("C07") THEN C07(i) ELSE {})
     \cup (IF On("C09") THEN C09(i) ELSE {})
     \cup (IF On("C10") THEN C10(i) ELSE {})
     \cup (IF On("C11") THEN C11(i) ELSE {})
     \cup (IF On("C12") THEN C12(i) ELSE {}) )

RewardNum(i) == RewardInt(Ev(i))
MaskAllows(i) == EnvAllowed(i)

Init == TraceInit
Next == TraceNext(Clauses, RewardNum, Zero, MaskAllows)
Spec == Init /\ [][Next]_tvars
=============================================================================
