--------------------------- MODULE Trace_MMST ---------------------------
(* Trace specification: every recorded reset/step of the real MMST is judged against the reference model
   MMST.tla.  One clause group per property.  A joint action is a sequence (a[k + 1] = node picked by agent k);
   the reward is one scalar (sum over agents); the mask has one row per agent. *)
EXTENDS MMST, TraceKit

EnvMask(i) == PreTs(i).obs.action_mask                    \* the mask the implementation showed the agents
PickOf(i, k) == Ev(i).a[k + 1]
MaskedIn(i) == { k \in Agents : EnvMask(i)[k + 1][PickOf(i, k) + 1] }
RowEmpty(i, k) == \A v1 \in 1..NumNodes : ~EnvMask(i)[k + 1][v1]
\* mask-respecting joint action: every agent that has an allowed node picked an allowed one
MaskAllows(i) == \A k \in Agents : k \in MaskedIn(i) \/ RowEmpty(i, k)

(* what happened to agent k between s and t *)
Stayed(s, t, k) ==
  /\ PosOf(t, k) = PosOf(s, k)
  /\ t.connected_nodes_index[k + 1] = s.connected_nodes_index[k + 1]
  /\ t.connected_nodes[k + 1] = s.connected_nodes[k + 1]
  /\ t.position_index[k + 1] = s.position_index[k + 1]
MovedTo(s, t, k, v) ==
  /\ PosOf(t, k) = v
  /\ Visited(t, k) = Visited(s, k) \cup {v}
  /\ t.position_index[k + 1] = s.position_index[k + 1] + 1
  /\ LET cn == s.connected_nodes[k + 1]  j == s.position_index[k + 1] + 2 IN
     t.connected_nodes[k + 1] = IF j <= Len(cn) THEN [cn EXCEPT ![j] = v] ELSE cn

(* ---------------- C04 ---------------- *)
\* reward the documentation attaches to the step, agents classified by the implementation's own mask:
\* an agent whose row is empty is finished (0); a masked-out pick is invalid (-1 -1); a masked-in pick that moved
\* earns +10 for a new own node and -1 otherwise; a masked-in pick that lost a tie-break costs 0 or -1.
RewardLo(i) ==
  LET s == Pre(i)  t == Ev(i).s IN
  SumFn([k \in Agents |->
           IF k \notin MaskedIn(i) THEN (IF RowEmpty(i, k) THEN 0 ELSE -2)
           ELSE IF PosOf(t, k) = PickOf(i, k) THEN (IF NewConnection(s, t, k) THEN 10 ELSE -1)
           ELSE -1], Agents)
TieLosers(i) == { k \in MaskedIn(i) : PosOf(Ev(i).s, k) # PickOf(i, k) }
C04(i) ==
  LET e == Ev(i) IN
  (IF e.ts.type # LAST /\ ~e.pl THEN
     LET m == e.ts.obs.action_mask  r == Mask(e.s) IN
     \* Rows of agents that still have nodes to connect are judged entry by entry. The documented rule ("invalid if the
     \* agent picks a node it has no edge to or a utility node already used by another agent") says nothing about agents
     \* that have finished: the implementation empties their row, but one step late (it builds the mask from the finished
     \* flags of the previous step - "Not updated yet" in env.py). That row is therefore left unjudged (DESIGN.md 9a).
     { <<"C04.mask_eq_legal", \A k \in Agents : ~Finished(e.s, k) => m[k + 1] = r[k + 1]>> }
   ELSE {})
  \cup
  (IF IsStep(i) /\ ~e.pl THEN
     LET s == Pre(i)  t == e.s IN
     (IF MaskedIn(i) # {} THEN
        { <<"C04.masked_in_action_gets_legal_outcome",
              \A k \in { a \in MaskedIn(i) : ~Finished(s, a) } :      \* (a finished agent's row must be empty: judged
                 \/ MovedTo(s, t, k, PickOf(i, k))                      \*  by C04.mask_eq_legal.finished_rows_empty)
                 \/ /\ Stayed(s, t, k)                                   \* lost the tie-break for that node: the winner is
                    /\ \E j \in Agents \ {k} : PickOf(i, j) = PickOf(i, k)>> }   \* ANY other agent naming it (heuristic part)
      ELSE {})
     \cup
     (IF MaskedIn(i) # Agents THEN
        { <<"C04.masked_out_action_gets_invalid_outcome",
              \A k \in Agents \ MaskedIn(i) : Stayed(s, t, k)>> }
      ELSE {})
   ELSE {})
   \* (the reward accounting of MMST is not part of C04 and MMST is not in C08/C09's lists: no reward clause)

(* ---------------- C06 ---------------- *)
C06(i) ==
  LET e == Ev(i) IN
  IF IsReset(i) \/ (IsStep(i) /\ ~e.pl /\ mk /\ MaskAllows(i)) THEN
    { <<"C06.paths_disjoint", UtilityExclusive(e.s)>>,
      <<"C06.path_connected", PathConnected(e.s) /\ OnOwnPath(e.s)>>,
      <<"C06.route_contiguous", \A k \in Agents : WalkOK(e.s, k)>> }
    \cup (IF IsStep(i)
          THEN { <<"C06.instance_untouched", e.s.node_types = Pre(i).node_types /\ e.s.adj_matrix = Pre(i).adj_matrix
                                               /\ e.s.nodes_to_connect = Pre(i).nodes_to_connect>> }
          ELSE {})
    \cup (IF e.ts.type = LAST /\ (e.s.step_count < TimeLimit \/ AllSeq(e.s.finished_agents, LAMBDA b : b))
          THEN { <<"C06.completion_is_full_solution", FullSolution(e.s)>> } ELSE {})
  ELSE {}

(* ---------------- C10 ---------------- *)
C10(i) ==
  LET e == Ev(i) IN
  (IF IsReset(i) THEN
     LET s == e.s  ok == ShapeOK(s) IN
     { <<"C10.wellformed_shapes", ok>>,
       <<"C10.wellformed_graph_symmetric_no_loops", ok => AdjSimple(s)>>,
       <<"C10.wellformed_graph_connected", ok => GraphConnected(s)>>,
       \* (num_edges / max_degree are generator parameters, not invariants C10 lists; the generator reaches
       \*  max_degree + 1 and fewer than num_edges edges - noted in DESIGN.md as observations, no clause)
       <<"C10.wellformed_node_types", ok => TypesConsistent(s)>>,
       <<"C10.wellformed_start", ok => (StartOK(s) /\ \A k \in Agents : WalkOK(s, k) /\ s.position_index[k + 1] = 0
                                                   /\ ~s.finished_agents[k + 1])>>,
       <<"C10.wellformed_solvable", ok => (Solvable(s) /\ SolvableAlone(s))>> }
   ELSE {})
  \cup C10NonConstant(i, LAMBDA s : <<s.adj_matrix.nbr, s.nodes_to_connect>>)

(* ---------------- C11 ---------------- *)
C11(i) == C11Group(i, TimeLimit, Ev(i).s.step_count, AllFinished(Ev(i).s))

(* ---------------- C12 ---------------- *)
C12(i) ==
  LET e == Ev(i)  o == e.ts.obs IN
  IF ~e.pl THEN
    { <<"C12.obs_field_node_types", ObsNodeTypesOK(e.s, o.node_types)>>,
      <<"C12.obs_field_adj_matrix", o.adj_matrix = e.s.adj_matrix>>,
      <<"C12.obs_field_positions", o.positions = e.s.positions>>,
      <<"C12.obs_field_step_count", o.step_count = e.s.step_count>>,
      <<"C12.obs_field_action_mask", o.action_mask = e.s.action_mask>> }
  ELSE {}

Clauses(i) ==
        ( (IF On("C01") THEN C01Group(i) ELSE {})
     \cup (IF On("C03") THEN C03Group(i, FALSE) ELSE {})
     \cup (IF On("C04") THEN C04(i) ELSE {})
     \cup (IF On("C06") THEN C06(i) ELSE {})
     \cup (IF On("C10") THEN C10(i) ELSE {})
     \cup (IF On("C11") THEN C11(i) ELSE {})
     \cup (IF On("C12") THEN C12(i) ELSE {}) )

RewardNum(i) == Ev(i).ts.reward.q[1]

Init == TraceInit
Next == TraceNext(Clauses, RewardNum, Zero, MaskAllows)
Spec == Init /\ [][Next]_tvars
=============================================================================
