---------------------------- MODULE Trace_LBF ----------------------------
(* Trace specification: every recorded reset/step of the real LevelBasedForaging is judged against the
   reference model LBF.tla.  One clause group per property.  Joint actions are sequences (a[k + 1] is
   agent k's action); rewards, discounts and masks are per agent. *)
EXTENDS LBF, TraceKit

A(s) == [agents |-> [id |-> s.agents.id, position |-> s.agents.position, level |-> s.agents.level,
                     loading |-> s.agents.loading],
         food_items |-> [id |-> s.food_items.id, position |-> s.food_items.position,
                         level |-> s.food_items.level, eaten |-> s.food_items.eaten],
         step_count |-> s.step_count]
EnvMask(i) == PreTs(i).obs.action_mask                  \* the mask the implementation showed the agents
MaskedIn(i) == { k \in Agents : EnvMask(i)[k + 1][Ev(i).a[k + 1] + 1] }
MaskAllows(i) == MaskedIn(i) = Agents
Rq(e, k) == e.ts.reward.q[k + 1]
NewlyEaten(s, t) == { f \in Foods : ~EatenF(s, f) /\ EatenF(t, f) }

(* ---------------- C03 ---------------- *)
\* the one documented truncation: the time limit is reached and food is left
TruncOK(i) == IsStep(i) /\ Ev(i).i >= TimeLimit /\ ~AllEaten(Ev(i).s)
C03(i) ==
  C03Group(i, TruncOK(i))
  \cup (IF IsStep(i) /\ Ev(i).ts.type = LAST /\ TruncOK(i)
        THEN { <<"C03.truncated_discount_one", AllSeq(Ev(i).ts.discount.q, LAMBDA x : x = FX)>> } ELSE {})
  \cup (IF IsStep(i) /\ AllEaten(Ev(i).s)
        THEN { <<"C03.terminated_is_last_discount_zero",
                   Ev(i).ts.type = LAST /\ AllSeq(Ev(i).ts.discount.q, LAMBDA x : x = 0)>> } ELSE {})

(* ---------------- C04 ---------------- *)
\* what an action the rules allow may lead to: the move happens, or the agent stays because another
\* agent aimed at the same cell in this step; a load sets the loading flag
Aims(s, a, j) == IF a[j + 1] \in MoveActs THEN Shift(PosA(s, j), a[j + 1]) ELSE PosA(s, j)
LegalOutcome(s, a, t, k) ==
  IF a[k + 1] \in MoveActs THEN
       \/ PosA(t, k) = Aims(s, a, k)
       \/ PosA(t, k) = PosA(s, k) /\ \E j \in Agents \ {k} : a[j + 1] \in MoveActs /\ Aims(s, a, j) = Aims(s, a, k)
  ELSE PosA(t, k) = PosA(s, k) /\ (a[k + 1] = LOAD => t.agents.loading[k + 1])
InvalidOutcome(s, a, t, k) ==
  /\ PosA(t, k) = PosA(s, k)
  /\ a[k + 1] = LOAD => \A f \in NewlyEaten(s, t) : ~Adjacent4(PosA(s, k), PosF(s, f))

C04(i) ==
  LET e == Ev(i) IN
  (IF e.ts.type # LAST /\ ~e.pl THEN { <<"C04.mask_eq_legal", e.ts.obs.action_mask = Mask(e.s)>> } ELSE {})
  \cup
  (IF IsStep(i) /\ ~e.pl THEN
     { <<"C04.masked_in_action_gets_legal_outcome",
           \A k \in MaskedIn(i) : LegalOutcome(Pre(i), e.a, e.s, k)>> }
     \cup (IF MaskedIn(i) # Agents
           THEN { <<"C04.masked_out_action_gets_invalid_outcome",
                      \A k \in Agents \ MaskedIn(i) : InvalidOutcome(Pre(i), e.a, e.s, k)>> }
           ELSE {})
   ELSE {})

(* ---------------- C05 (ignore-invalid family) ---------------- *)
\* levels of the agents that play load next to food f by the rules
RuleLoadSum(s, a, f) ==
  SumFn([k \in Agents |-> LvlA(s, k)], { k \in Agents : a[k + 1] = LOAD /\ Adjacent4(PosA(s, k), PosF(s, f)) })
C05(i) ==
  LET e == Ev(i) IN
  IF IsStep(i) /\ ~e.pl THEN
    LET s == Pre(i)  t == e.s
        bad == { k \in Agents : ~LegalAg(s, k, e.a[k + 1]) } IN
    IF bad = {} THEN {} ELSE
    { <<"C05.invalid_continues",
          /\ e.ts.type = LAST => (e.i >= TimeLimit \/ AllEaten(t))
          /\ (\A k \in Agents : k \in bad \/ e.a[k + 1] = NOOP) => (t.food_items.eaten = s.food_items.eaten)>>,
      <<"C05.invalid_reward",
          \A k \in bad : IF PenN = 0 THEN Rq(e, k) = 0 ELSE Rq(e, k) <= 0>>,
      <<"C05.actor_keeps_position", \A k \in bad : PosA(t, k) = PosA(s, k)>>,
      <<"C05.actor_keeps_holdings", \A k \in bad : LvlA(t, k) = LvlA(s, k)>>,
      <<"C05.nothing_moved_on_its_behalf",
          \* whatever was eaten in this step was eaten by agents entitled to load it
          \A f \in NewlyEaten(s, t) : RuleLoadSum(s, e.a, f) >= LvlF(s, f)>> }
  ELSE {}

(* ---------------- C07 ---------------- *)
C07(i) ==
  LET e == Ev(i)  shape == StateShape(e.s) IN
  (IF ~e.pl /\ e.ts.type # LAST THEN
     { <<"C07.in_bounds", shape /\ EntitiesInside(e.s)>>,
       <<"C07.no_two_entities_share_cell", shape => DistinctCells(e.s)>>,
       <<"C07.unique_entity_present_once", shape => IdsFixed(e.s)>> }
   ELSE {})
  \cup
  (IF IsStep(i) /\ ~e.pl THEN
     { <<"C07.conserved_occupancy", shape => OccupancyLaw(Pre(i), e.s)>>,
       <<"C07.conserved_levels", shape => LevelsConserved(Pre(i), e.s)>>,
       <<"C07.conserved_food_positions", shape => FoodStays(Pre(i), e.s)>>,
       <<"C07.conserved_eaten_stays_eaten", shape => EatenMonotone(Pre(i), e.s)>>,
       <<"C07.conserved_one_cell_moves", shape => OneCellMoves(Pre(i), e.s)>> }
   ELSE {})

(* ---------------- C08 ---------------- *)
\* normalised mode without penalty: the return summed over the agents is the collected share of the
\* total food level, hence one when all food is collected
C08Tol == NA * NF + 2
C08(i) ==
  LET e == Ev(i) IN
  IF IsStep(i) /\ e.main /\ ~e.pl /\ e.ts.type = LAST /\ Cfg.normalize_reward /\ PenN = 0 /\ ~Cfg.injected THEN
    LET ret == acc + SumSeq(e.ts.reward.q)  tot == TotalFoodLevel(e.s) IN
    { <<"C08.return_eq_objective", Abs(ret * tot - EatenLevel(e.s) * FX) <= C08Tol * tot>> }
    \cup (IF AllEaten(e.s) THEN { <<"C08.return_is_one_when_all_collected", Abs(ret - FX) <= C08Tol>> } ELSE {})
  ELSE {}

(* ---------------- C09 ---------------- *)
C09(i) ==
  LET e == Ev(i) IN
  IF IsStep(i) /\ ~e.pl THEN
    LET s == A(Pre(i))  o == Outcome(s, e.a)  t == NextStateO(s, e.a, o)  u == A(e.s)  rv == RewardVecFxO(s, o) IN
    { <<"C09.step_rel", u = t>>,
      <<"C09.step_rel.position", u.agents.position = t.agents.position>>,
      <<"C09.step_rel.loading", u.agents.loading = t.agents.loading>>,
      <<"C09.step_rel.eaten", u.food_items.eaten = t.food_items.eaten>>,
      <<"C09.step_rel.static", u.agents.id = t.agents.id /\ u.agents.level = t.agents.level
                                /\ u.food_items.id = t.food_items.id /\ u.food_items.level = t.food_items.level
                                /\ u.food_items.position = t.food_items.position>>,
      <<"C09.step_rel.step_count", u.step_count = t.step_count /\ (~Cfg.injected => u.step_count = e.i)>>,
      <<"C09.reward_eq", \A k \in Agents : Abs(Rq(e, k) - rv[k + 1]) <= RewardTol>>,
      <<"C09.done_eq", (e.ts.type = LAST) = IsLast(t)>>,
      <<"C09.discount_eq", \A k \in Agents : e.ts.discount.q[k + 1] = DiscountOf(t) * FX>> }
  ELSE {}

(* ---------------- C10 ---------------- *)
C10(i) ==
  LET e == Ev(i) IN
  IF Cfg.injected THEN {} ELSE      \* injected start states (TLC dump) are not generator outputs
  (IF IsReset(i) THEN
     LET s == A(e.s)  ok == StateShape(s) IN
     { <<"C10.wellformed_fresh", ok /\ FreshInstance(s)>>,
       <<"C10.wellformed_in_bounds", ok => EntitiesInside(s)>>,
       <<"C10.wellformed_distinct_cells", ok => DistinctCells(s)>>,
       <<"C10.wellformed_food_not_on_border", ok => FoodInterior(s)>>,
       <<"C10.wellformed_food_not_adjacent", ok => FoodApart(s)>>,
       <<"C10.wellformed_agent_levels", ok => AgentLevelsOK(s)>>,
       <<"C10.wellformed_food_levels", ok => FoodLevelsOK(s)>>,
       <<"C10.wellformed_food_reachable", ok => FoodReachable(s)>> }
   ELSE {})
  \cup C10NonConstant(i, LAMBDA s : <<s.agents.position, s.food_items.position>>)

(* ---------------- C11 ---------------- *)
C11(i) == C11Group(i, TimeLimit, Ev(i).i, AllEaten(Ev(i).s))

(* ---------------- C12 ---------------- *)
Part(v, from, to) == [k \in 1..NA |-> SubSeq(v[k], from, to)]
C12(i) ==
  LET e == Ev(i) IN
  IF ~e.pl THEN
    LET o == Obs(A(e.s))  v == e.ts.obs.agents_view  w == o.agents_view IN
    { <<"C12.obs_field_agents_view", v = w>>,
      <<"C12.obs_field_action_mask", e.ts.obs.action_mask = o.action_mask>>,
      <<"C12.obs_field_step_count", e.ts.obs.step_count = o.step_count>> }
    \cup (IF v = w THEN {}
          ELSE IF Cfg.grid_observation THEN
            { <<"C12.obs_field_agents_view.shape", Len(v) = NA /\ \A k \in 1..NA : Len(v[k]) = 3>>,
              <<"C12.obs_field_agents_view.agent_layer", \A k \in 1..NA : v[k][1] = w[k][1]>>,
              <<"C12.obs_field_agents_view.food_layer", \A k \in 1..NA : v[k][2] = w[k][2]>>,
              <<"C12.obs_field_agents_view.access_layer", \A k \in 1..NA : v[k][3] = w[k][3]>> }
          ELSE
            { <<"C12.obs_field_agents_view.shape", Len(v) = NA /\ \A k \in 1..NA : Len(v[k]) = 3 * (NF + NA)>>,
              <<"C12.obs_field_agents_view.food", Part(v, 1, 3 * NF) = Part(w, 1, 3 * NF)>>,
              <<"C12.obs_field_agents_view.self", Part(v, 3 * NF + 1, 3 * NF + 3) = Part(w, 3 * NF + 1, 3 * NF + 3)>>,
              <<"C12.obs_field_agents_view.others",
                   Part(v, 3 * NF + 4, 3 * (NF + NA)) = Part(w, 3 * NF + 4, 3 * (NF + NA))>> })
  ELSE {}

Clauses(i) ==
        ( (IF On("C01") THEN C01Group(i) ELSE {})
     \cup (IF On("C03") THEN C03(i) ELSE {})
     \cup (IF On("C04") THEN C04(i) ELSE {})
     \cup (IF On("C05") THEN C05(i) ELSE {})
     \cup (IF On("C07") THEN C07(i) ELSE {})
     \cup (IF On("C08") THEN C08(i) ELSE {})
     \cup (IF On("C09") THEN C09(i) ELSE {})
     \cup (IF On("C10") THEN C10(i) ELSE {})
     \cup (IF On("C11") THEN C11(i) ELSE {})
     \cup (IF On("C12") THEN C12(i) ELSE {}) )

RewardNum(i) == SumSeq(Ev(i).ts.reward.q)

Init == TraceInit
Next == TraceNext(Clauses, RewardNum, Zero, MaskAllows)
Spec == Init /\ [][Next]_tvars
=============================================================================
