--------------------------- MODULE Trace_CVRP ---------------------------
(* Trace specification: every recorded reset/step of the real CVRP is judged against the reference model
   CVRP.tla.  One clause group per property.  Lengths: `s.D` is exported by the adapter (float64, from the raw
   coordinates of the same state); float32 rewards are compared with the nominal integer rewards of CVRP.tla
   within SumTol(k), k = number of summed legs that are not exact (0 => exact comparison, lattice configs). *)
EXTENDS CVRP, TraceKit

A(s) == [coordinates |-> s.coordinates, demands |-> s.demands, position |-> s.position, capacity |-> s.capacity,
         visited_mask |-> s.visited_mask, trajectory |-> s.trajectory, num_total_visits |-> s.num_total_visits,
         D |-> s.D]
Rq(e) == e.ts.reward.q[1]
IsLast(e) == e.ts.type = LAST
Dense == Cfg.reward_fn = "dense"
EnvMask(i) == PreTs(i).obs.action_mask          \* the mask the implementation showed the agent
MaskAllows(i) == EnvMask(i)[Ev(i).a + 1]
InvalidOutcome(i) == LET e == Ev(i) IN A(e.s) = A(Pre(i)) /\ IsLast(e) /\ PenaltyNear(Rq(e))
VisitOutcome(i) ==
  LET e == Ev(i) IN
  /\ e.s.position = e.a /\ e.s.num_total_visits = Pre(i).num_total_visits + 1 /\ Seen(e.s, e.a)
  /\ ~PenaltyNear(Rq(e))

(* nominal reward of the recorded reward function / of the other one, and the tolerance of the comparison *)
RewardOf(fn, s, a, t) == IF fn = "dense" THEN DenseReward(s, a, t) ELSE SparseReward(s, a, t)
StepTol(fn, s, a, t) ==
  IF fn = "dense" THEN SumTol(Inexact(s, s.position, a) + (IF NoLegal(t) THEN Inexact(s, a, Depot) ELSE 0))
  ELSE IF NoLegal(t) THEN SumTol(RouteInexact(t)) ELSE 0
RewardOK(fn, s, a, t, q) ==
  IF ~Legal(s, a) THEN PenaltyNear(q)
  ELSE Abs(q - RewardOf(fn, s, a, t)) <= StepTol(fn, s, a, t)

C04(i) ==
  LET e == Ev(i) IN
  (IF e.ts.type # LAST
   THEN { <<"C04.mask_eq_legal", e.ts.obs.action_mask = Mask(e.s)>> } ELSE {})
  \cup
  (IF IsStep(i) /\ ~e.pl THEN
     IF MaskAllows(i)
     THEN { <<"C04.masked_in_action_gets_legal_outcome", VisitOutcome(i) /\ ~InvalidOutcome(i)>> }
     ELSE { <<"C04.masked_out_action_gets_invalid_outcome", InvalidOutcome(i)>> }
   ELSE {})

C05(i) ==
  LET e == Ev(i) IN
  IF IsStep(i) /\ ~e.pl /\ ~Legal(Pre(i), e.a) THEN
    { <<"C05.invalid_is_last", IsLast(e)>>,
      <<"C05.invalid_reward", PenaltyNear(Rq(e))>>,
      <<"C05.problem_state_untouched", A(e.s) = A(Pre(i))>> }
  ELSE {}

C06(i) ==
  LET e == Ev(i)  s == e.s IN
  IF IsReset(i) \/ (IsStep(i) /\ ~e.pl /\ mk /\ MaskAllows(i)) THEN
    { <<"C06.load_within_capacity", LoadWithinCapacity(s)>>,
      <<"C06.served_once", ServedOnce(s)>>,
      <<"C06.trajectory_matches_visited", RouteMatchesVisited(s)>>,
      <<"C06.capacity_bookkeeping", CapacityBookkeeping(s)>> }
    \cup (IF IsStep(i) /\ IsLast(e)
          THEN { <<"C06.completion_is_full_solution", CompleteSolution(s) /\ AllServed(s)>> } ELSE {})
  ELSE {}

(* Return of a main-line episode that ended by completion under mask-respecting play: both reward functions
   give minus the length of the closed route, recomputed from the final trajectory and D. *)
C08(i) ==
  LET e == Ev(i)  s == e.s IN
  IF IsStep(i) /\ e.main /\ ~e.pl THEN
    { <<"C08.dense_eq_sparse.same_step_type", e.alt.type = e.ts.type>> }
    \cup
    (IF IsLast(e) /\ mk /\ MaskAllows(i) THEN
       LET tol == SumTol(RouteInexact(s)) IN
       { <<"C08.return_eq_objective", Abs(acc + Rq(e) - Objective(s)) <= tol>>,
         <<"C08.alt_return_eq_objective", Abs(acc2 + e.alt.reward.q[1] - Objective(s)) <= tol>>,
         <<"C08.dense_eq_sparse", Abs((acc + Rq(e)) - (acc2 + e.alt.reward.q[1])) <= tol>> }
     ELSE {})
    \cup
    \* before the end: the dense return is minus the length driven so far, the sparse return is 0
    (IF ~IsLast(e) /\ mk /\ MaskAllows(i) THEN
       LET ret == acc + Rq(e)  ret2 == acc2 + e.alt.reward.q[1]
           tol == SumTol(RouteInexact(s)) IN
       { <<"C08.running_return", IF Dense THEN Abs(ret + OpenLen(s)) <= tol /\ ret2 = 0
                                          ELSE Abs(ret2 + OpenLen(s)) <= tol /\ ret = 0>> }
     ELSE {})
  ELSE {}

C09(i) ==
  LET e == Ev(i)  s == A(Pre(i))  t == A(e.s)  a == e.a  m == Succ(s, a) IN
  IF IsStep(i) /\ ~e.pl THEN
    { <<"C09.step_rel", t = m>>,
      <<"C09.step_rel.coordinates", t.coordinates = m.coordinates /\ t.D = m.D>>,
      <<"C09.step_rel.demands", t.demands = m.demands>>,
      <<"C09.step_rel.position", t.position = m.position>>,
      <<"C09.step_rel.capacity", t.capacity = m.capacity>>,
      <<"C09.step_rel.visited_mask", t.visited_mask = m.visited_mask>>,
      <<"C09.step_rel.trajectory", t.trajectory = m.trajectory>>,
      <<"C09.step_rel.num_total_visits", t.num_total_visits = m.num_total_visits>>,
      <<"C09.reward_eq", RewardOK(Cfg.reward_fn, s, a, m, Rq(e))>>,
      <<"C09.done_eq", IsLast(e) = Done(s, a, m)>> }
    \cup (IF Legal(s, a) /\ a = Depot THEN { <<"C09.depot_refills_capacity", t.capacity = Q>> } ELSE {})
    \cup (IF "alt" \in DOMAIN e
          THEN { <<"C09.alt_reward_eq", RewardOK(IF Dense THEN "sparse" ELSE "dense", s, a, m, e.alt.reward.q[1])>>,
                 <<"C09.alt_done_eq", (e.alt.type = LAST) = Done(s, a, m)>> }
          ELSE {})
  ELSE {}

C10(i) ==
  (IF IsReset(i) THEN
     LET s == Ev(i).s IN
     { <<"C10.wellformed_shapes", ShapeOK(s)>>,
       <<"C10.wellformed_demands", DemandsOK(s)>>,
       <<"C10.wellformed_coordinates_in_unit_square", InUnitSquare(s)>>,
       <<"C10.wellformed_fresh_start", FreshStart(s)>> }
   ELSE {})
  \cup C10NonConstant(i, LAMBDA s : s.coordinates)

C11(i) ==
  LET e == Ev(i) IN
  IF IsStep(i) /\ ~e.pl THEN
    (IF e.i >= Horizon THEN { <<"C11.within_structural_horizon", IsLast(e)>> } ELSE {})
    \cup
    \* why the horizon holds: every continuing step is a visit, and depot visits alternate with customers
    (IF e.ts.type = MID
     THEN { <<"C11.mid_step_is_one_more_visit",
              e.s.num_total_visits = e.i + 1 /\ e.i < Horizon
              /\ e.i <= 2 * Cardinality({ c \in Customers : Seen(e.s, c) })>> }
     ELSE {})
  ELSE {}

C12(i) ==
  LET e == Ev(i)  s == e.s  got == e.ts.obs IN
  { <<"C12.obs_field_coordinates", got.coordinates = s.coordinates>>,
    <<"C12.obs_field_demands", ObsDemandsOK(got.demands, s)>>,
    <<"C12.obs_field_unvisited_nodes", got.unvisited_nodes = ObsUnvisited(s)>>,
    <<"C12.obs_field_position", got.position = s.position>>,
    <<"C12.obs_field_trajectory", got.trajectory = s.trajectory>>,
    <<"C12.obs_field_capacity", ObsCapacityOK(got.capacity, s)>>,
    <<"C12.obs_field_action_mask", got.action_mask = Mask(s)>> }

Clauses(i) ==
        ( (IF On("C01") THEN C01Group(i) ELSE {})
     \cup (IF On("C03") THEN C03Group(i, FALSE) ELSE {})
     \cup (IF On("C04") THEN C04(i) ELSE {})
     \cup (IF On("C05") THEN C05(i) ELSE {})
     \cup (IF On("C06") THEN C06(i) ELSE {})
     \cup (IF On("C08") THEN C08(i) ELSE {})
     \cup (IF On("C09") THEN C09(i) ELSE {})
     \cup (IF On("C10") THEN C10(i) ELSE {})
     \cup (IF On("C11") THEN C11(i) ELSE {})
     \cup (IF On("C12") THEN C12(i) ELSE {}) )

RewardNum(i) == Rq(Ev(i))
RewardAlt(i) == Ev(i).alt.reward.q[1]

Init == TraceInit
Next == TraceNext(Clauses, RewardNum, RewardAlt, MaskAllows)
Spec == Init /\ [][Next]_tvars
=============================================================================
