------------------------- MODULE Trace_FlatPack -------------------------
(* Trace specification: every recorded reset/step of the real FlatPack is judged against FlatPack.tla.
   Projection (harness/envs/flatpack.py): jumanji's own State / Observation field names; both action masks are
   packed row-wise (mask[b][k][r] = sum_c 2^c * entry); reset states additionally carry tiling witnesses found by
   the adapter's search: sol_free / sol_act = one <<k, r, c>> per block, *_st = 0 none exists (exhaustive search),
   1 found, 2 search budget exhausted.  Witnesses are verified here, never trusted. *)
EXTENDS FlatPack, TraceKit

A(s) == [grid |-> s.grid, blocks |-> s.blocks, placed_blocks |-> s.placed_blocks,
         step_count |-> s.step_count, num_blocks |-> s.num_blocks]
RewQ(e) == e.ts.reward.q[1]
EnvMask(i) == PreTs(i).obs.action_mask          \* the mask the implementation showed the agent
Rule(i) == IsStep(i) /\ ~Ev(i).pl
SearchLimit == 6                                 \* exhaustive tiling search in TLA+ up to this many blocks

RatNear(q, rat, tol) == Near(q, rat[1], rat[2], tol)

C04(i, m) ==          \* m = Mask(Ev(i).s), computed once per line (shared with C12)
  LET e == Ev(i) IN
  (IF (IsReset(i) \/ Rule(i)) /\ e.ts.type # LAST
   THEN { <<"C04.mask_eq_legal", e.ts.obs.action_mask = m>> } ELSE {})
  \cup
  (IF Rule(i) THEN
     LET b == e.a[1] + 1  p == Pre(i) IN
     { <<"C04.masked_in_action_gets_legal_outcome",
           MaskBit(EnvMask(i), e.a) => /\ e.s.grid # p.grid
                                       /\ e.s.placed_blocks[b] /\ ~p.placed_blocks[b]
                                       /\ RewQ(e) > 0>>,
       <<"C04.masked_out_action_gets_invalid_outcome",
           ~MaskBit(EnvMask(i), e.a) => /\ e.s.grid = p.grid
                                        /\ e.s.placed_blocks = p.placed_blocks
                                        /\ RewQ(e) = 0>> }
   ELSE {})

C05(i) ==
  LET e == Ev(i) IN
  IF Rule(i) /\ ~Legal(Pre(i), e.a) THEN
    LET p == Pre(i) IN
    { <<"C05.invalid_reward", RewQ(e) = 0>>,
      <<"C05.nothing_moved_on_its_behalf", e.s.grid = p.grid /\ e.s.placed_blocks = p.placed_blocks
                                           /\ e.s.blocks = p.blocks>>,
      <<"C05.invalid_step_counts_towards_limit", e.s.step_count = p.step_count + 1>> }
    \cup (IF p.step_count + 1 < NB THEN { <<"C05.invalid_continues", e.ts.type = MID>> } ELSE {})
  ELSE {}

C06(i) ==
  LET e == Ev(i) IN
  IF IsReset(i) \/ (Rule(i) /\ mk /\ MaskBit(EnvMask(i), e.a)) THEN
    { <<"C06.inside_container", InsideContainer(e.s)>>,
      <<"C06.no_overlap", NoOverlap(e.s)>>,
      <<"C06.full_iff_all_placed", CompletionOK(e.s)>> }
    \cup (IF e.ts.type = LAST /\ AllPlaced(e.s)
          THEN { <<"C06.completion_is_full_solution", GridFull(e.s) /\ Feasible(e.s)>> } ELSE {})
  ELSE {}

C08(i) ==
  LET e == Ev(i) IN
  IF Rule(i) /\ e.main /\ e.ts.type = LAST THEN
    { <<"C08.return_eq_objective", RatNear(acc + RewQ(e), Objective(e.s), NB + 1)>>,
      <<"C08.alt_return_eq_objective",
          RatNear(acc2 + e.alt.reward.q[1], ObjectiveOf(Cfg.alt_reward, e.s), NB + 1)>> }
  ELSE {}

C09(i) ==
  LET e == Ev(i) IN
  IF Rule(i) THEN
    LET p == A(Pre(i))  t == Succ(p, e.a)  u == A(e.s) IN
    { <<"C09.step_rel", u = t>>,
      <<"C09.step_rel.grid", u.grid = t.grid>>,
      <<"C09.step_rel.placed_blocks", u.placed_blocks = t.placed_blocks>>,
      <<"C09.step_rel.blocks", u.blocks = t.blocks /\ u.num_blocks = t.num_blocks>>,
      <<"C09.step_rel.step_count", u.step_count = t.step_count>>,
      <<"C09.reward_eq", RatNear(RewQ(e), Reward(p, e.a), 1)>>,
      <<"C09.done_eq", (e.ts.type = LAST) = Done(u)>> }
    \cup (IF e.main       \* the other reward function, run in lock-step on the main line
          THEN { <<"C09.alt_reward_eq", RatNear(e.alt.reward.q[1], RewardOf(Cfg.alt_reward, p, e.a), 1)>> } ELSE {})
  ELSE {}

(* Tiling clauses.  Up to SearchLimit blocks the exhaustive search in TLA+ decides (and the adapter's search must
   agree with it); a witness, when present, is verified in any case.  Above SearchLimit a verified witness proves
   the clause, the adapter's exhaustive "none" refutes it and an exhausted search budget leaves it undecided. *)
TilingVerdict(st, wit, rows, cols, found, s) ==
  IF NB <= SearchLimit THEN found /\ (st = 1 => IsTiling(s, wit, rows, cols))
  ELSE st = 1 /\ IsTiling(s, wit, rows, cols)
C10(i) ==
  LET e == Ev(i)  s == e.s
      tg == TilesGrid(s)                  \* evaluated (once) only when NB <= SearchLimit
      ca == CompletableByActions(s)
  IN
  (IF IsReset(i) THEN
     { <<"C10.wellformed_blocks_shape", BlocksShape(s)>>,
       <<"C10.wellformed_blocks_numbered", BlocksNumbered(s)>>,
       <<"C10.wellformed_cell_count_is_area", CellCountIsArea(s)>>,
       <<"C10.wellformed_empty_start", EmptyStart(s)>> }
     \cup (IF s.sol_free_st = 2 /\ NB > SearchLimit THEN {} ELSE
           { <<"C10.wellformed_blocks_tile_grid",
                 TilingVerdict(s.sol_free_st, s.sol_free, FreeRows, FreeCols, tg, s)>> })
     \cup (IF s.sol_act_st = 2 /\ NB > SearchLimit THEN {} ELSE
           { <<"C10.wellformed_completable_by_actions",
                 TilingVerdict(s.sol_act_st, s.sol_act, PosRows, PosCols, ca, s)>> })
     \cup (IF NB <= SearchLimit THEN
             { <<"C10.witness_search_agrees", (s.sol_free_st = 1) = tg /\ (s.sol_act_st = 1) = ca>> } ELSE {})
     \cup (IF Cfg.generator \in {"toy_rot", "toy_norot"}      \* "not shuffled": block k carries number k
           THEN { <<"C10.wellformed_toy_not_shuffled", \A b \in 1..NB : BlockValue(s.blocks[b]) = b>> } ELSE {})
     \cup (IF Cfg.generator = "toy_norot"                      \* "not rotated": tiles without any rotation
           THEN { <<"C10.wellformed_toy_not_rotated", TilesUnrotated(s)>> } ELSE {})
   ELSE {})
  \cup (IF Cfg.generator = "random" /\ NB > 1      \* (a 1 x 1 instance is necessarily the full 3x3 block)
        THEN C10NonConstant(i, LAMBDA x : x.blocks) ELSE {})
  \cup (IF Cfg.generator # "random" /\ i = NEv             \* the toy generators are documented as deterministic
        THEN { <<"C10.toy_generator_deterministic", Cardinality({ Ev(j).s.blocks : j \in ResetLines }) = 1>> } ELSE {})

C11(i) ==
  LET e == Ev(i) IN
  C11Group(i, NB, e.s.step_count, AllPlaced(e.s))
  \cup (IF Rule(i) THEN { <<"C11.within_structural_horizon", e.i >= NB => e.ts.type = LAST>> } ELSE {})

C12(i, m) ==
  LET e == Ev(i) IN
  IF IsReset(i) \/ Rule(i) THEN
    { <<"C12.obs_field_grid", e.ts.obs.grid = e.s.grid>>,
      <<"C12.obs_field_blocks", e.ts.obs.blocks = e.s.blocks>>,
      <<"C12.obs_field_action_mask", e.ts.obs.action_mask = m>>,
      <<"C12.state_mask_copy", e.s.action_mask = e.ts.obs.action_mask>> }
  ELSE {}

Clauses(i) ==
  LET m == Mask(Ev(i).s) IN
        ( (IF On("C01") THEN C01Group(i) ELSE {})
     \cup (IF On("C03") THEN C03Group(i, FALSE) ELSE {})
     \cup (IF On("C04") THEN C04(i, m) ELSE {})
     \cup (IF On("C05") THEN C05(i) ELSE {})
     \cup (IF On("C06") THEN C06(i) ELSE {})
     \cup (IF On("C08") THEN C08(i) ELSE {})
     \cup (IF On("C09") THEN C09(i) ELSE {})
     \cup (IF On("C10") THEN C10(i) ELSE {})
     \cup (IF On("C11") THEN C11(i) ELSE {})
     \cup (IF On("C12") THEN C12(i, m) ELSE {}) )

RewardNum(i) == RewQ(Ev(i))
RewardAlt(i) == IF Ev(i).main THEN Ev(i).alt.reward.q[1] ELSE 0
MaskAllows(i) == MaskBit(EnvMask(i), Ev(i).a)

Init == TraceInit
Next == TraceNext(Clauses, RewardNum, RewardAlt, MaskAllows)
Spec == Init /\ [][Next]_tvars
=============================================================================
