------------------------- MODULE Trace_Connector -------------------------
(* Trace specification: every recorded reset/step of the real Connector is judged against the
   reference model Connector.tla.  One clause group per property.  Joint actions are sequences
   (a[k + 1] is agent k's move); rewards, discounts and masks are per agent. *)
EXTENDS Connector, TraceKit

A(s) == [grid |-> s.grid, step_count |-> s.step_count,
         agents |-> [id |-> s.agents.id, start |-> s.agents.start, target |-> s.agents.target,
                     position |-> s.agents.position]]
EnvMask(i) == PreTs(i).obs.action_mask                 \* the mask the implementation showed the agents
MaskedIn(i) == { k \in Agents : EnvMask(i)[k + 1][Ev(i).a[k + 1] + 1] }
MaskAllows(i) == MaskedIn(i) = Agents

(* ---------------- C04 ---------------- *)
\* what a move the rules allow may lead to: the agent is on the destination, or it gave way to an agent
\* with a higher id that entered that cell in this step
LegalOutcome(s, a, t, k) ==
  IF a[k + 1] = NOOP THEN PosOf(t, k) = PosOf(s, k)
  ELSE LET d == Shift(PosOf(s, k), a[k + 1]) IN
       \/ PosOf(t, k) = d
       \/ /\ PosOf(t, k) = PosOf(s, k)
          /\ \E j \in Agents : j > k /\ PosOf(t, j) = d /\ PosOf(s, j) # d
InvalidOutcome(s, t, k) == PosOf(t, k) = PosOf(s, k) /\ OwnedSame(s, t, k)

C04(i) ==
  LET e == Ev(i) IN
  (IF e.ts.type # LAST /\ ~e.pl THEN { <<"C04.mask_eq_legal", e.ts.obs.action_mask = Mask(e.s)>> } ELSE {})
  \cup
  (IF IsStep(i) /\ ~e.pl THEN
     { <<"C04.masked_in_action_gets_legal_outcome",
           \A k \in MaskedIn(i) : LegalOutcome(Pre(i), e.a, e.s, k)>> }
     \cup (IF MaskedIn(i) # Agents
           THEN { <<"C04.masked_out_action_gets_invalid_outcome",
                      \A k \in Agents \ MaskedIn(i) : InvalidOutcome(Pre(i), e.s, k)>> }
           ELSE {})
   ELSE {})

(* ---------------- C05 (ignore-invalid family) ---------------- *)
C05(i) ==
  LET e == Ev(i) IN
  IF IsStep(i) /\ ~e.pl THEN
    LET s == A(Pre(i))  t == e.s
        bad == { k \in Agents : ~LegalAg(s, k, e.a[k + 1]) } IN
    IF bad = {} THEN {} ELSE
    { <<"C05.invalid_continues",
          (\A k \in Agents : ~Proposes(s, e.a, k)) => (e.ts.type = MID \/ e.i >= TimeLimit)>>,
      <<"C05.invalid_reward",
          \A k \in bad : Near(e.ts.reward.q[k + 1], IF Connected(s, k) THEN 0 ELSE StepReward100, 100, 2)>>,
      <<"C05.actor_keeps_position", \A k \in bad : PosOf(t, k) = PosOf(s, k)>>,
      <<"C05.actor_keeps_holdings",
          \A k \in bad : t.agents.start[k + 1] = s.agents.start[k + 1] /\ t.agents.target[k + 1] = s.agents.target[k + 1]>>,
      <<"C05.nothing_moved_on_its_behalf", \A k \in bad : OwnedSame(s, t, k)>> }
  ELSE {}

(* ---------------- C06 ---------------- *)
C06(i) ==
  LET e == Ev(i) IN
  IF IsReset(i) \/ (IsStep(i) /\ ~e.pl /\ mk /\ MaskAllows(i)) THEN
    { <<"C06.paths_disjoint", RoutesDisjoint(e.s)>>,
      <<"C06.route_contiguous", RouteContiguous(e.s)>> }
    \cup (IF e.ts.type = LAST /\ AllConnected(e.s)
          THEN { <<"C06.completion_is_full_solution", FullSolution(e.s)>> } ELSE {})
  ELSE {}

(* ---------------- C07 ---------------- *)
C07(i) ==
  LET e == Ev(i)  shape == GridShape(e.s) /\ AgentsShape(e.s) /\ EntitiesInBounds(e.s) IN
  (IF ~e.pl /\ e.ts.type # LAST THEN
     { <<"C07.in_bounds", shape>>,
       <<"C07.unique_entity_present_once", shape => HeadsOnce(e.s) /\ TargetsOnce(e.s)>>,
       <<"C07.positions_agree_with_grid", shape => PositionsAgree(e.s)>>,
       <<"C07.no_two_entities_share_cell", NoSharedCell(e.s)>> }
   ELSE {})
  \cup
  (IF IsStep(i) /\ ~e.pl THEN
     { <<"C07.conserved_occupancy", shape => OccupancyLaw(Pre(i), e.s)>>,
       <<"C07.conserved_path_growth", shape => PathLaw(Pre(i), e.s)>> }
   ELSE {})

(* ---------------- C09 ---------------- *)
C09(i) ==
  LET e == Ev(i) IN
  IF IsStep(i) /\ ~e.pl THEN
    LET s == A(Pre(i))  t == NextState(s, e.a)  u == A(e.s) IN
    { <<"C09.step_rel", u = t>>,
      <<"C09.step_rel.grid", u.grid = t.grid>>,
      <<"C09.step_rel.position", u.agents.position = t.agents.position>>,
      <<"C09.step_rel.agents_static", u.agents.id = t.agents.id /\ u.agents.start = t.agents.start
                                       /\ u.agents.target = t.agents.target>>,
      <<"C09.step_rel.step_count", u.step_count = t.step_count>>,
      <<"C09.reward_eq", \A k \in Agents : Near(e.ts.reward.q[k + 1], Reward100(s, t, k), 100, 2)>>,
      <<"C09.done_eq", (e.ts.type = LAST) = IsLast(t)>>,
      <<"C09.discount_eq", \A k \in Agents : e.ts.discount.q[k + 1] = Discount(t)[k + 1] * FX>> }
  ELSE {}

(* ---------------- C10 ---------------- *)
C10(i) ==
  LET e == Ev(i) IN
  (IF IsReset(i) THEN
     LET s == A(e.s)  ok == AgentsShape(s) /\ EntitiesInBounds(s) IN
     { <<"C10.wellformed_entities", s.step_count = 0 /\ ok /\ \A k \in Agents : PosOf(s, k) = StartOf(s, k)>>,
       <<"C10.wellformed_distinct_cells", DistinctCells(s)>>,
       <<"C10.wellformed_board", ok => s.grid = EmptyBoard(s)>> }
     \cup (IF Cfg.witness THEN
             { <<"C10.wellformed_witness_matches", ok => WitnessMatches(s, e.s.solved_grid)>>,
               <<"C10.wellformed_solvable", (ok /\ WitnessMatches(s, e.s.solved_grid)) => Solvable(s, e.s.solved_grid)>>,
               <<"C10.wellformed_solution_simple_paths",
                    (ok /\ WitnessMatches(s, e.s.solved_grid)) => SimpleChains(s, e.s.solved_grid)>> }
           ELSE {})
   ELSE {})
  \cup C10NonConstant(i, LAMBDA s : s.grid)

(* ---------------- C11 ---------------- *)
C11(i) == C11Group(i, TimeLimit, Ev(i).i, AllDone(Ev(i).s))

(* ---------------- C12 ---------------- *)
C12(i) ==
  LET e == Ev(i) IN
  IF ~e.pl THEN
    LET o == Obs(A(e.s)) IN
    { <<"C12.obs_field_grid", e.ts.obs.grid = o.grid>>,
      <<"C12.obs_field_action_mask", e.ts.obs.action_mask = o.action_mask>>,
      <<"C12.obs_field_step_count", e.ts.obs.step_count = o.step_count>> }
  ELSE {}

Clauses(i) ==
        ( (IF On("C01") THEN C01Group(i) ELSE {})
     \cup (IF On("C03") THEN C03Group(i, FALSE) ELSE {})
     \cup (IF On("C04") THEN C04(i) ELSE {})
     \cup (IF On("C05") THEN C05(i) ELSE {})
     \cup (IF On("C06") THEN C06(i) ELSE {})
     \cup (IF On("C07") THEN C07(i) ELSE {})
     \cup (IF On("C09") THEN C09(i) ELSE {})
     \cup (IF On("C10") THEN C10(i) ELSE {})
     \cup (IF On("C11") THEN C11(i) ELSE {})
     \cup (IF On("C12") THEN C12(i) ELSE {}) )

RewardNum(i) == SumSeq(Ev(i).ts.reward.q)

Init == TraceInit
Next == TraceNext(Clauses, RewardNum, Zero, MaskAllows)
Spec == Init /\ [][Next]_tvars
=============================================================================
