-------------------------- MODULE Trace_Sokoban --------------------------
(* Trace specification: every recorded reset/step of the real Sokoban is judged against the reference
   model Sokoban.tla.  One clause group per property (C01, C03, C05, C07, C09, C10, C11, C12).
   Sokoban has no action mask: C04 does not apply and MaskAllows is TRUE. *)
EXTENDS Sokoban, TraceKit

RewardQ(e) == e.ts.reward.q[1]
RewTol == 3                                       \* float32 rounding of sums like 1 + 10 - 0.1, in 1/65536
ShapeOK(i) == ShapesOK(Ev(i).s) /\ (IsStep(i) => ShapesOK(Pre(i)) /\ AgentInBounds(Pre(i)))
RuleStep(i) == IsStep(i) /\ ~Ev(i).pl             \* a step taken from a state the episode continues from

(* ---------------- C05: ignore-invalid family ---------------- *)
C05(i) ==
  LET e == Ev(i)  p == Pre(i) IN
  IF RuleStep(i) /\ ~Legal(p, e.a) THEN
    { \* the ignored move itself never ends the episode: a LAST needs the time limit
      <<"C05.invalid_continues", e.ts.type = LAST => p.step_count + 1 >= TLimit>>,
      <<"C05.invalid_reward", Near(RewardQ(e), InvalidReward10, 10, RewTol)>>,
      <<"C05.actor_keeps_position", e.s.agent_location = p.agent_location /\ AgentMarks(e.s) = AgentMarks(p)>>,
      <<"C05.nothing_moved_on_its_behalf", BoxCells(e.s) = BoxCells(p) /\ e.s.variable_grid = p.variable_grid
                                           /\ e.s.fixed_grid = p.fixed_grid>>,
      <<"C05.step_still_counted", e.s.step_count = p.step_count + 1>> }
  ELSE {}

(* ---------------- C07: physically possible states, conserved quantities ---------------- *)
C07(i) ==
  LET e == Ev(i)  s == e.s IN
  (IF (IsReset(i) \/ RuleStep(i)) /\ e.ts.type # LAST THEN
     { <<"C07.in_bounds", AgentInBounds(s)>>,
       <<"C07.not_in_wall", AgentNotInWall(s) /\ BoxesNotInWall(s) /\ MarksOffWalls(s)>>,
       <<"C07.no_two_entities_share_cell", AgentNotOnBox(s)>>,
       <<"C07.unique_entity_present_once", OneAgent(s)>>,
       <<"C07.positions_agree_with_grid", AgentAgrees(s)>>,
       <<"C07.conserved_box_count", BoxCount(s) = NB>> }
   ELSE {})
  \cup
  (IF RuleStep(i) THEN
     { <<"C07.conserved_fixed_grid", FixedConserved(Pre(i), s)>>,
       <<"C07.conserved_boxes_across_step", BoxesConserved(Pre(i), s)>>,
       <<"C07.moves_at_most_one_cell", AgentInBounds(s) => MovesAtMostOneCell(Pre(i), s)>> }
   ELSE {})

(* ---------------- C09: the documented transition, reward and termination ---------------- *)
C09(i) ==
  LET e == Ev(i)  p == A(Pre(i))  n == StepTo(p, e.a) IN
  IF RuleStep(i) THEN
    { <<"C09.step_rel", A(e.s) = n>>,
      <<"C09.step_rel.variable_grid", e.s.variable_grid = n.variable_grid>>,
      <<"C09.step_rel.fixed_grid", e.s.fixed_grid = n.fixed_grid>>,
      <<"C09.step_rel.agent_location", e.s.agent_location = n.agent_location>>,
      <<"C09.step_rel.step_count", e.s.step_count = n.step_count>>,
      <<"C09.reward_eq", Near(RewardQ(e), Reward10(p, n), 10, RewTol)>>,
      <<"C09.done_eq", (e.ts.type = LAST) = Done(n)>>,
      <<"C09.discount_eq", e.ts.discount.q[1] = IF Done(n) THEN 0 ELSE FX>> }
  ELSE {}

(* ---------------- C10: what reset returns ---------------- *)
InstanceProj(s) == <<s.fixed_grid, s.variable_grid>>
C10(i) ==
  LET s == Ev(i).s IN
  (IF IsReset(i) THEN
     { <<"C10.wellformed_step_count_zero", s.step_count = 0>>,
       <<"C10.wellformed_box_count", BoxCount(s) = NB>>,
       <<"C10.wellformed_target_count", Cardinality(TargetCells(s)) = NB>>,
       <<"C10.wellformed_one_agent", OneAgent(s)>>,
       <<"C10.wellformed_agent_location", AgentInBounds(s) /\ AgentAgrees(s)>>,
       <<"C10.wellformed_entities_on_free_cells", (AgentMarks(s) \cup BoxCells(s)) \cap WallCells(s) = {}
                                                  /\ AgentNotInWall(s)>>,
       <<"C10.wellformed_not_solved_at_start", ~Solved(s)>>,
       <<"C10.wellformed_instance", WellFormedInstance(A(s))>> }
   ELSE {})
  \cup (IF Cfg.generator \in {"toy", "levels"} THEN C10NonConstant(i, InstanceProj) ELSE {})

(* ---------------- C11: time limit as requested by the harness ---------------- *)
C11(i) == C11Group(i, TLimit, Ev(i).s.step_count, IF ShapeOK(i) THEN Solved(Ev(i).s) ELSE FALSE)
C11Count(i) ==      \* the counter the limit is measured on really counts the steps of the episode
  IF IsStep(i) THEN { <<"C11.step_count_counts_steps", Ev(i).s.step_count = Ev(i).i>> }
  ELSE { <<"C11.step_count_counts_steps", Ev(i).s.step_count = 0>> }

(* ---------------- C12: observation = documented function of the state ---------------- *)
C12(i) ==
  LET e == Ev(i)  o == Obs(e.s)  g == e.ts.obs.grid IN
  { <<"C12.obs_field_grid", g = o.grid>>,
    <<"C12.obs_field_grid.variable_channel",
        Len(g) = NR /\ \A r \in 1..NR : Len(g[r]) = NC /\ \A c \in 1..NC : g[r][c][1] = e.s.variable_grid[r][c]>>,
    <<"C12.obs_field_grid.fixed_channel",
        Len(g) = NR /\ \A r \in 1..NR : Len(g[r]) = NC /\ \A c \in 1..NC : g[r][c][2] = e.s.fixed_grid[r][c]>>,
    <<"C12.obs_field_step_count", e.ts.obs.step_count = o.step_count>> }

(* Grids of the wrong shape / alphabet make the rule clauses meaningless (and unevaluable): each enabled rule
   group then reports the single clause <group>.grid_shape instead. *)
Guarded(p, grp, i) == IF ~On(p) THEN {} ELSE IF ShapeOK(i) THEN grp ELSE { <<p \o ".grid_shape", FALSE>> }

Clauses(i) ==
        ( (IF On("C01") THEN C01Group(i) ELSE {})
     \cup (IF On("C03") THEN C03Group(i, FALSE) ELSE {})
     \cup Guarded("C05", C05(i), i)
     \cup Guarded("C07", C07(i), i)
     \cup Guarded("C09", C09(i), i)
     \cup Guarded("C10", C10(i), i)
     \cup (IF On("C11") THEN C11(i) \cup C11Count(i) ELSE {})
     \cup Guarded("C12", C12(i), i) )

RewardNum(i) == RewardQ(Ev(i))
MaskAllows(i) == TRUE

Init == TraceInit
Next == TraceNext(Clauses, RewardNum, Zero, MaskAllows)
Spec == Init /\ [][Next]_tvars
=============================================================================
