------------------------- MODULE Trace_Minesweeper -------------------------
(* Trace specification: every recorded reset/step of the real Minesweeper is judged against the
   reference model Minesweeper.tla.  One clause group per property. *)
EXTENDS Minesweeper, TraceKit

A(s) == [board |-> s.board, step_count |-> s.step_count, flat_mine_locations |-> s.flat_mine_locations]
RewQ(e) == e.ts.reward.q[1]
RTol == 2                                            \* fixed-point slack per reward term
EnvMask(i) == PreTs(i).obs.action_mask              \* the mask the implementation showed the agent
EnvAllows(i) == EnvMask(i)[Ev(i).a[1] + 1][Ev(i).a[2] + 1]
Live(i) == IsReset(i) \/ ~Ev(i).pl                  \* the event belongs to the episode proper

(* what the implementation is documented to do with an invalid click: end the episode with the
   invalid-action reward, revealing nothing *)
InvalidOutcome(i) ==
  LET e == Ev(i) IN
  /\ e.ts.type = LAST
  /\ Abs(RewQ(e) - Cfg.reward_q.invalid) <= RTol
  /\ e.s.board = Pre(i).board

C04(i) ==
  LET e == Ev(i) IN
  (IF Live(i) /\ e.ts.type # LAST
   THEN { <<"C04.mask_eq_legal", e.ts.obs.action_mask = Mask(e.s)>> } ELSE {})
  \cup
  (IF IsStep(i) /\ ~e.pl THEN
     IF EnvAllows(i)
     THEN { <<"C04.masked_in_action_gets_legal_outcome",
                ~InvalidOutcome(i) /\ At(e.s.board, MsCellOf(e.a)) # MsUnexplored>> }
     ELSE { <<"C04.masked_out_action_gets_invalid_outcome", InvalidOutcome(i)>> }
   ELSE {})

C05(i) ==
  LET e == Ev(i) IN
  IF IsStep(i) /\ ~e.pl /\ ~Legal(Pre(i), e.a) THEN
    { <<"C05.invalid_is_last", e.ts.type = LAST>>,
      <<"C05.invalid_reward", Abs(RewQ(e) - Cfg.reward_q.invalid) <= RTol>> }
  ELSE {}

C07(i) ==
  LET e == Ev(i) IN
  (IF Live(i) THEN
     { <<"C07.conserved_mines", /\ MsNumMines(e.s) = Cfg.num_mines
                                /\ IsStep(i) => e.s.flat_mine_locations = Pre(i).flat_mine_locations>> }
   ELSE {})
  \cup
  (IF Live(i) /\ e.ts.type # LAST THEN
     { <<"C07.in_bounds", MsBoardShape(e.s.board) /\ MsBoardRange(e.s.board) /\ MsMinesInRange(e.s)>>,
       <<"C07.no_two_entities_share_cell", MsMinesDistinct(e.s)>>,
       <<"C07.positions_agree_with_grid", MsBoardShape(e.s.board) /\ MsCountsTruthful(e.s)>> }
     \cup (IF IsStep(i) THEN { <<"C07.conserved_revealed_cells", MsRevealedKept(Pre(i), e.s)>> } ELSE {})
   ELSE {})

C08(i) ==
  LET e == Ev(i) IN
  IF IsStep(i) /\ e.main /\ ~e.pl /\ e.ts.type = LAST
  THEN { <<"C08.return_eq_objective",
             Abs(acc + RewQ(e) - Objective(Pre(i), e.a, e.s)) <= RTol * (e.i + 1)>> }
  ELSE {}

C09(i) ==
  LET e == Ev(i) IN
  IF IsStep(i) /\ ~e.pl THEN
    LET t == Succ(A(Pre(i)), e.a) IN
    { <<"C09.step_rel", StepRel(A(Pre(i)), e.a, A(e.s))>>,
      <<"C09.step_rel.board", e.s.board = t.board>>,
      <<"C09.step_rel.step_count", e.s.step_count = t.step_count>>,
      <<"C09.step_rel.flat_mine_locations", e.s.flat_mine_locations = t.flat_mine_locations>>,
      <<"C09.reward_eq", Abs(RewQ(e) - Reward(Pre(i), e.a)) <= RTol>>,
      <<"C09.done_eq", (e.ts.type = LAST) = Done(Pre(i), e.a, t)>> }
  ELSE {}

C10(i) ==
  LET s == Ev(i).s IN
  (IF IsReset(i) THEN
     { <<"C10.wellformed_mine_count", MsNumMines(s) = Cfg.num_mines>>,
       <<"C10.wellformed_mines_distinct", MsMinesDistinct(s)>>,
       <<"C10.wellformed_mines_in_range", MsMinesInRange(s)>>,
       <<"C10.wellformed_board_unexplored", MsBoardShape(s.board) /\ \A rc \in MsCells : At(s.board, rc) = MsUnexplored>>,
       <<"C10.wellformed_instance", WellFormedInstance(A(s))>> }
   ELSE {})
  \cup (IF Cfg.num_mines > 0 THEN C10NonConstant(i, LAMBDA st : Range(st.flat_mine_locations)) ELSE {})

C11(i) ==
  LET e == Ev(i) IN
  IF IsStep(i) /\ ~e.pl /\ e.i >= Horizon
  THEN { <<"C11.within_structural_horizon", e.ts.type = LAST>> }
  ELSE {}

C12(i) ==
  LET e == Ev(i)  o == Obs(e.s) IN
  { <<"C12.obs_field_board", e.ts.obs.board = o.board>>,
    <<"C12.obs_field_action_mask", e.ts.obs.action_mask = o.action_mask>>,
    <<"C12.obs_field_num_mines", e.ts.obs.num_mines = o.num_mines>>,
    <<"C12.obs_field_step_count", e.ts.obs.step_count = o.step_count>> }

Clauses(i) ==
        ( (IF On("C01") THEN C01Group(i) ELSE {})
     \cup (IF On("C03") THEN C03Group(i, FALSE) ELSE {})
     \cup (IF On("C04") THEN C04(i) ELSE {})
     \cup (IF On("C05") THEN C05(i) ELSE {})
     \cup (IF On("C07") THEN C07(i) ELSE {})
     \cup (IF On("C08") THEN C08(i) ELSE {})
     \cup (IF On("C09") THEN C09(i) ELSE {})
     \cup (IF On("C10") THEN C10(i) ELSE {})
     \cup (IF On("C11") THEN C11(i) ELSE {})
     \cup (IF On("C12") THEN C12(i) ELSE {}) )

RewardNum(i) == RewQ(Ev(i))
MaskAllows(i) == EnvAllows(i)

Init == TraceInit
Next == TraceNext(Clauses, RewardNum, Zero, MaskAllows)
Spec == Init /\ [][Next]_tvars
=============================================================================
