------------------------- MODULE Trace_RubiksCube -------------------------
(* Trace specification: every recorded reset/step of the real RubiksCube is judged against the geometric
   reference model RubiksCube.tla.

   Event layout specific to this environment (see harness/envs/rubikscube.py):
     e.a  = [u |-> <<face, depth, amount>>, flat, unflat, reflat]   the played triple and the implementation's
            flatten_action(u), unflatten_action(flat), flatten_action(unflat)
     e.s.scramble (reset events of mode "scramble" only) = the flat actions the generator drew for the reset key
     Cfg.mode = "scramble" (real generator, colours 0..5) | "labelled" (injected label cube, Cfg.label = "ids" |
            "rows" | "cols"; colours are labels, so C01 / C10 do not apply there). *)
EXTENDS RubiksCube, TraceKit

Scrambled == Cfg.mode = "scramble"
SparseReward == ("reward" \notin DOMAIN Cfg) \/ Cfg.reward = "sparse"
U(e) == e.a.u
RewardInt(e) == e.ts.reward.i[1]
FC(s) == FlatCube(s.cube)

(* ---------------- C10: what reset returns ---------------- *)
C10(i) ==
  LET e == Ev(i) IN
  (IF IsReset(i) /\ Scrambled THEN
     { <<"C10.wellformed_shape", CubeShape(e.s.cube) /\ e.s.step_count = 0>>,
       <<"C10.wellformed_scramble_sequence", ScrambleOK(e.s.scramble)>>,
       <<"C10.wellformed_cube_is_scrambled_solved_cube", FC(e.s) = ScrambledCube(e.s.scramble)>>,
       <<"C10.wellformed_colour_counts", \A v \in FaceIds : CountOf(FC(e.s), v) = NN>> }
   ELSE {})
  \cup (IF Scrambled /\ Cfg.num_scrambles >= 1 THEN C10NonConstant(i, LAMBDA s : s.cube) ELSE {})

(* ---------------- C11: time limit ---------------- *)
C11(i) == C11Group(i, TimeLimit, Ev(i).s.step_count, Solved(FC(Ev(i).s)))

(* ---------------- C12: observation = (cube, step_count) of the state ---------------- *)
C12(i) ==
  LET e == Ev(i)  o == Obs(e.s) IN
  { <<"C12.obs_field_cube", e.ts.obs.cube = o.cube>>,
    <<"C12.obs_field_step_count", e.ts.obs.step_count = o.step_count>> }

(* ---------------- C17 ---------------- *)
\* the probe of the same parent with the same face and depth and amount m (probes are emitted in product order,
\* so it is at most two lines away)
Sibling(i, m) ==
  CHOOSE j \in { jj \in (i - 2)..(i + 2) : jj >= 2 /\ jj <= NEv } :
    /\ IsStep(j) /\ ~Ev(j).main /\ Ev(j).par = Ev(i).par
    /\ U(Ev(j)) = <<U(Ev(i))[1], U(Ev(i))[2], m>>
\* implementation permutation logged by an event whose pre-state is the cube of distinct sticker ids
ImplPerm(j) == FC(Ev(j).s)
OnIdCube(i) == IsStep(i) /\ ~Ev(i).main /\ Cfg.label = "ids" /\ FC(Pre(i)) = IdFlat

C17Move(i) ==
  LET e == Ev(i)  pre == FC(Pre(i))  post == FC(e.s) IN
  IF IsStep(i) THEN
    { <<"C17.move_is_model_permutation", CubeShape(e.s.cube) /\ post = ApplyMove(pre, U(e))>>,
      <<"C17.move_is_model_permutation.step_count", e.s.step_count = Pre(i).step_count + 1>>,
      <<"C17.multiset_conserved", SameMultiset(pre, post)>>,
      \* the solved test, observed through the sparse reward and the termination flag; with a user-supplied reward
      \* function (Cfg.reward # "sparse": the reward says nothing about the goal) through the termination flag alone -
      \* the episode ends exactly when the cube is the goal cube or the time is up
      <<"C17.solved_iff_goal",
          IF SparseReward
          THEN (RewardInt(e) = 1 <=> Solved(post)) /\ RewardInt(e) \in {0, 1} /\ e.ts.reward.q[1] = RewardInt(e) * FX
          ELSE ~e.pl => ((e.ts.type = LAST) <=> (Solved(post) \/ e.s.step_count >= TimeLimit))>>,
      <<"C17.solved_iff_goal.terminates", (~e.pl /\ Solved(post)) => e.ts.type = LAST>>,
      \* action encodings: unflatten(flatten(u)) = u, flatten(unflatten(k)) = k, and both are the documented index
      <<"C17.flatten_unflatten_inverse", /\ U(e) \in ActionTriples
                                          /\ e.a.flat = FlatOf(U(e)) /\ e.a.flat \in FlatActions
                                          /\ e.a.unflat = U(e) /\ e.a.unflat = UnflatOf(e.a.flat)
                                          /\ e.a.reflat = e.a.flat>> }
  ELSE
    \* reset events: the tabulated encodings over the whole flat range, and reachability of the reset state
    { <<"C17.flatten_unflatten_inverse",
          /\ Len(Cfg.unflatten_tab) = NM /\ Len(Cfg.reflatten_tab) = NM
          /\ \A a \in FlatActions : Cfg.unflatten_tab[a + 1] = UnflatOf(a) /\ Cfg.reflatten_tab[a + 1] = a
          /\ { Cfg.unflatten_tab[a + 1] : a \in FlatActions } = ActionTriples>> }
    \cup (IF Scrambled
          THEN { <<"C17.state_solvable", ScrambleOK(Ev(i).s.scramble) /\ FC(Ev(i).s) = ScrambledCube(Ev(i).s.scramble)>> }
          ELSE {})

\* group identities evaluated on the LOGGED implementation permutations (pre-state = distinct sticker ids)
C17Laws(i) ==
  IF ~OnIdCube(i) THEN {}
  ELSE
    LET m == U(Ev(i))[3]
        p == ImplPerm(i)
        cw == ImplPerm(Sibling(i, 0))
        ccw == ImplPerm(Sibling(i, 1))
        half == ImplPerm(Sibling(i, 2))
        sq(x) == PermCompose(x, x)
    IN
    { <<"C17.move_is_model_permutation.perm", IsPerm(p) /\ p = MovePerm(Ev(i).a.flat)>> }
    \cup (IF m = 0 THEN { <<"C17.cw_ccw_identity", PermCompose(cw, ccw) = IdFlat /\ PermCompose(ccw, cw) = IdFlat>> }
          ELSE {})
    \cup (IF m \in {0, 1} THEN { <<"C17.four_quarters_identity", sq(sq(p)) = IdFlat /\ sq(p) # IdFlat>> } ELSE {})
    \cup (IF m = 2 THEN { <<"C17.half_is_double_quarter", half = sq(cw) /\ half = sq(ccw) /\ sq(half) = IdFlat>> }
          ELSE {})

C17(i) == C17Move(i) \cup C17Laws(i)

Clauses(i) ==
        ( (IF On("C01") /\ Scrambled THEN C01Group(i) ELSE {})
     \cup (IF On("C03") THEN C03Group(i, FALSE) ELSE {})
     \cup (IF On("C10") THEN C10(i) ELSE {})
     \cup (IF On("C11") THEN C11(i) ELSE {})
     \cup (IF On("C12") THEN C12(i) ELSE {})
     \cup (IF On("C17") THEN C17(i) ELSE {}) )

RewardNum(i) == RewardInt(Ev(i))
MaskAllows(i) == TRUE

Init == TraceInit
Next == TraceNext(Clauses, RewardNum, Zero, MaskAllows)
Spec == Init /\ [][Next]_tvars
=============================================================================
