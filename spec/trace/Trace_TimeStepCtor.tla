------------------------- MODULE Trace_TimeStepCtor -------------------------
(* C03, constructor level: every recorded call of jumanji.types.restart / transition / termination / truncation
   (all shapes, shape given as int or tuple, discount given or not, extras given or not, under jit as well) is judged
   against TimeStepCtor.tla. *)
EXTENDS TimeStepCtor, LibKit
CONSTANT Cfg
Clauses(i) ==
  LET e == Ev(i) IN
  IF ~On("C03") THEN {} ELSE
  CASE e.k = "ctor" -> CtorLaw(e)
    [] OTHER -> { <<"MACHINERY.unknown_event_kind", FALSE>> }
MemNext(i) == mem
Init == LibInit(0)
Next == LibNext(Clauses, MemNext)
Spec == Init /\ [][Next]_lvars
=============================================================================
