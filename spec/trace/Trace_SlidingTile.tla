------------------------- MODULE Trace_SlidingTile -------------------------
(* Trace specification: every recorded reset/step of the real SlidingTilePuzzle is judged against the
   reference model SlidingTile.tla.  Clause groups C01, C03, C04, C05, C08, C09, C10, C11, C12, C17. *)
EXTENDS SlidingTile, TraceKit

A(s) == [puzzle |-> s.puzzle, empty_tile_position |-> s.empty_tile_position, step_count |-> s.step_count]
RewardQ(e) == e.ts.reward.q[1]
RewardInt(e) == e.ts.reward.i[1]
EnvMask(i) == PreTs(i).obs.action_mask          \* the mask the implementation showed the agent before acting
RuleStep(i) == IsStep(i) /\ ~Ev(i).pl           \* a step taken from a state the episode continues from
HasAlt(e) == "alt" \in DOMAIN e
RandomWalk == Cfg.generator = "random_walk"

(* the rule clauses need boards that are arrangements of 0..N*N-1 (the empty tile must exist and be unique) *)
BoardsOK(i) == IsPerm(Ev(i).s.puzzle) /\ (IsStep(i) => IsPerm(Pre(i).puzzle))

RECURSIVE RootOf(_)
RootOf(i) == IF Ev(i).par = 0 THEN i ELSE RootOf(Ev(i).par)     \* the reset line of the episode of line i

(* ---------------- C04: mask = rules, the implementation honours its own mask, blank inside ---------------- *)
C04(i) ==
  LET e == Ev(i) IN
  (IF (IsReset(i) \/ RuleStep(i)) /\ e.ts.type # LAST THEN
     { <<"C04.mask_eq_legal", e.ts.obs.action_mask = Mask(e.s.puzzle)>> }
   ELSE {})
  \cup
  (IF IsReset(i) \/ RuleStep(i) THEN
     { <<"C04.blank_inside_grid",
         /\ Len(e.s.empty_tile_position) = 2
         /\ \A k \in 1..2 : e.s.empty_tile_position[k] \in 0..(N - 1)
         /\ e.s.empty_tile_position = Blank0(e.s.puzzle)>> }
   ELSE {})
  \cup
  (IF RuleStep(i) THEN
     (IF EnvMask(i)[e.a + 1]
      THEN { <<"C04.masked_in_action_gets_legal_outcome",
                /\ e.s.puzzle # Pre(i).puzzle
                /\ Blank(e.s.puzzle) = Dest(Blank(Pre(i).puzzle), e.a)>> }
      ELSE { <<"C04.masked_out_action_gets_invalid_outcome",
                e.s.puzzle = Pre(i).puzzle /\ e.s.empty_tile_position = Pre(i).empty_tile_position>> })
   ELSE {})

(* ---------------- C05: ignore-invalid family ---------------- *)
C05(i) ==
  LET e == Ev(i)  p == Pre(i) IN
  IF RuleStep(i) /\ ~Legal(p.puzzle, e.a) THEN
    { \* the ignored move never ends the episode by itself: LAST needs the time limit or an (already) solved board
      <<"C05.invalid_continues", (e.ts.type = LAST) <=> (Solved(p.puzzle) \/ p.step_count + 1 >= TLimit)>>,
      <<"C05.invalid_reward", RewardQ(e) = RewardOf(Cfg.reward_fn, p.puzzle, p.puzzle) * FX>>,
      <<"C05.actor_keeps_position", e.s.empty_tile_position = p.empty_tile_position>>,
      <<"C05.nothing_moved_on_its_behalf", e.s.puzzle = p.puzzle>> }
  ELSE {}

(* ---------------- C08: return = documented objective of the configured reward function ---------------- *)
C08(i) ==
  LET e == Ev(i) IN
  IF IsStep(i) /\ e.main /\ ~e.pl /\ e.ts.type = LAST THEN
    LET p0 == Ev(RootOf(i)).s.puzzle IN
    { <<"C08.return_eq_objective", acc + RewardInt(e) = ObjectiveOf(Cfg.reward_fn, p0, e.s.puzzle)>> }
    \cup (IF HasAlt(e)
          THEN { <<"C08.return_eq_objective_alt",
                    acc2 + e.alt.reward.i[1] = ObjectiveOf(OtherFn(Cfg.reward_fn), p0, e.s.puzzle)>> }
          ELSE {})
  ELSE {}

(* ---------------- C09: the documented transition, reward and termination ---------------- *)
C09(i) ==
  LET e == Ev(i)  p == Pre(i)  n == StepTo(A(p), e.a) IN
  IF RuleStep(i) THEN
    { <<"C09.step_rel", A(e.s) = n>>,
      <<"C09.step_rel.puzzle", e.s.puzzle = n.puzzle>>,
      <<"C09.step_rel.empty_tile_position", e.s.empty_tile_position = n.empty_tile_position>>,
      <<"C09.step_rel.step_count", e.s.step_count = n.step_count>>,
      <<"C09.reward_eq", RewardInt(e) = Reward(A(p), e.a, n) /\ RewardQ(e) = RewardInt(e) * FX>>,
      <<"C09.done_eq", (e.ts.type = LAST) = Done(n)>>,
      <<"C09.discount_eq", e.ts.discount.q[1] = IF Done(n) THEN 0 ELSE FX>> }
    \cup (IF HasAlt(e)
          THEN { <<"C09.reward_eq_alt", e.alt.reward.q[1] = RewardOf(OtherFn(Cfg.reward_fn), p.puzzle, n.puzzle) * FX>>,
                 <<"C09.done_eq_alt", (e.alt.type = LAST) = Done(n)>> }
          ELSE {})
  ELSE {}

(* ---------------- C10: what reset returns ---------------- *)
C10(i) ==
  LET s == Ev(i).s IN
  (IF IsReset(i) THEN
     { <<"C10.wellformed_permutation", IsPerm(s.puzzle)>>,
       <<"C10.wellformed_step_count_zero", s.step_count = 0>> }
     \cup (IF IsPerm(s.puzzle)
           THEN { <<"C10.wellformed_blank_position", s.empty_tile_position = Blank0(s.puzzle)>> } ELSE {})
     \cup (IF IsPerm(s.puzzle) /\ RandomWalk
           THEN { <<"C10.wellformed_solvable", Solvable(s.puzzle)>>,
                  <<"C10.wellformed_instance", WellFormedInstance(A(s))>> }
           ELSE {})
     \cup (IF IsPerm(s.puzzle) /\ RandomWalk /\ Cfg.num_random_moves >= 0     \* -1: walk length not requested
           THEN { <<"C10.wellformed_walk_parity", WalkParity(s.puzzle, Cfg.num_random_moves)>> }
           ELSE {})
   ELSE {})
  \cup (IF RandomWalk /\ (Cfg.num_random_moves >= 3 \/ Cfg.num_random_moves = -1) THEN C10NonConstant(i, LAMBDA st : st.puzzle) ELSE {})

(* ---------------- C11: time limit as requested by the harness ---------------- *)
C11(i) ==
  C11Group(i, TLimit, Ev(i).s.step_count, Ev(i).s.puzzle = Goal)
  \cup (IF IsStep(i) THEN { <<"C11.step_count_counts_steps", Ev(i).s.step_count = Ev(i).i>> } ELSE {})

(* ---------------- C12: observation = documented function of the state ---------------- *)
C12(i) ==
  LET e == Ev(i)  o == Obs(e.s) IN
  { <<"C12.obs_field_puzzle", e.ts.obs.puzzle = o.puzzle>>,
    <<"C12.obs_field_empty_tile_position", e.ts.obs.empty_tile_position = o.empty_tile_position>>,
    <<"C12.obs_field_action_mask", e.ts.obs.action_mask = o.action_mask>>,
    <<"C12.obs_field_step_count", e.ts.obs.step_count = o.step_count>> }

(* ---------------- C17: permutation-puzzle laws on the implementation's own transitions ---------------- *)
C17Laws(i) ==
  LET e == Ev(i) IN
  (IF IsStep(i) THEN
     LET p == Pre(i).puzzle  b == Blank(p)  d == Dest(b, e.a) IN
     { \* every action is the swap of the empty tile with its neighbour in the action's fixed direction
       \* (a transposition of two cells determined by the blank's cell and the action only); identity off-grid
       <<"C17.move_is_model_permutation",
            e.s.puzzle = (IF InGrid(N, N, d) THEN SwapCells(p, b, d) ELSE p)>>,
       \* the parity class (solvable / unsolvable) never changes
       <<"C17.state_solvable", IF RandomWalk THEN Solvable(e.s.puzzle) ELSE (Solvable(p) <=> Solvable(e.s.puzzle))>> }
     \cup
     (LET j == e.par IN       \* two consecutive moves: parent event j played a legal move, this one the opposite move
      IF IsStep(j) /\ Legal(Pre(j).puzzle, Ev(j).a) /\ IsPerm(Pre(j).puzzle) /\ e.a = Opp(Ev(j).a)
      THEN { <<"C17.opposite_moves_cancel",
                e.s.puzzle = Pre(j).puzzle /\ e.s.empty_tile_position = Pre(j).empty_tile_position>> }
      ELSE {})
     \cup
     (IF ~e.pl THEN
        { <<"C17.solved_iff_goal",
             /\ (e.s.puzzle = Goal) => e.ts.type = LAST
             /\ (e.ts.type = LAST /\ e.s.step_count < TLimit) => e.s.puzzle = Goal
             /\ (Cfg.reward_fn = "sparse" => ((RewardQ(e) = FX) <=> e.s.puzzle = Goal))
             /\ ((HasAlt(e) /\ Cfg.reward_fn = "dense") => ((e.alt.reward.q[1] = FX) <=> e.s.puzzle = Goal))>> }
      ELSE {})
   ELSE
     (IF RandomWalk THEN { <<"C17.state_solvable", Solvable(e.s.puzzle)>> } ELSE {}))

(* 2x2 injection traces hold every (board, action) pair of the space: on the last line the cancellation law is
   evaluated across episodes, on ALL pairs of recorded transitions S -a-> S', S' -Opp(a)-> S'' (not only on
   consecutive events of one episode). *)
C17Space(i) ==
  IF i = NEv /\ Cfg.generator = "enum" /\ N = 2 THEN
    LET steps == { j \in 2..NEv : IsStep(j) /\ BoardsOK(j) }
        legalSteps == { j \in steps : Legal(Pre(j).puzzle, Ev(j).a) } IN
    { <<"C17.opposite_moves_cancel",
          \A j \in legalSteps : \A k \in steps :
             (Pre(k).puzzle = Ev(j).s.puzzle /\ Ev(k).a = Opp(Ev(j).a)) => Ev(k).s.puzzle = Pre(j).puzzle>> }
  ELSE {}

C17(i) ==
  { <<"C17.multiset_conserved", BoardsOK(i)>> } \cup (IF BoardsOK(i) THEN C17Laws(i) ELSE {}) \cup C17Space(i)

(* A board that is not an arrangement of 0..N*N-1 makes the rule clauses meaningless (and unevaluable): each
   enabled rule group then reports the single clause <group>.puzzle_is_permutation instead. *)
Guarded(p, grp, i) == IF ~On(p) THEN {} ELSE IF BoardsOK(i) THEN grp ELSE { <<p \o ".puzzle_is_permutation", FALSE>> }

Clauses(i) ==
        ( (IF On("C01") THEN C01Group(i) ELSE {})
     \cup (IF On("C03") THEN C03Group(i, FALSE) ELSE {})
     \cup Guarded("C04", C04(i), i)
     \cup Guarded("C05", C05(i), i)
     \cup Guarded("C08", C08(i), i)
     \cup Guarded("C09", C09(i), i)
     \cup (IF On("C10") THEN C10(i) ELSE {})
     \cup (IF On("C11") THEN C11(i) ELSE {})
     \cup Guarded("C12", C12(i), i)
     \cup (IF On("C17") THEN C17(i) ELSE {}) )

RewardNum(i) == RewardInt(Ev(i))
RewardAlt(i) == IF HasAlt(Ev(i)) THEN Ev(i).alt.reward.i[1] ELSE 0
MaskAllows(i) == EnvMask(i)[Ev(i).a + 1]

Init == TraceInit
Next == TraceNext(Clauses, RewardNum, RewardAlt, MaskAllows)
Spec == Init /\ [][Next]_tvars
=============================================================================
