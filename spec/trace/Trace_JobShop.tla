------------------------- MODULE Trace_JobShop -------------------------
(* Trace specification: every recorded reset/step of the real JobShop is judged against the
   reference model JobShop.tla.  One clause group per property.  Actions are joint: a sequence with one
   entry (job id, or num_jobs = no-op) per machine. *)
EXTENDS JobShop, TraceKit

RewardInt(e) == e.ts.reward.i[1]
RewardIs(e, r) == RewardInt(e) = r /\ e.ts.reward.q[1] = r * FX
EnvMask(i) == PreTs(i).obs.action_mask                       \* the mask the implementation showed the agent
EnvAllows(i) == \A m1 \in 1..NM : EnvMask(i)[m1][Ev(i).a[m1] + 1]
InvalidOutcome(e) == e.ts.type = LAST /\ RewardIs(e, -Penalty)
RuleStep(i) == IsStep(i) /\ ~Ev(i).pl                        \* a step the rules talk about

(* ---------------- C04: the mask is the rule, per machine and per entry ---------------- *)
C04(i) ==
  LET e == Ev(i) IN
  (IF (IsReset(i) \/ RuleStep(i)) /\ e.ts.type # LAST
   THEN { <<"C04.mask_eq_legal", e.ts.obs.action_mask = Mask(e.s)>>,
          <<"C04.noop_always_allowed", \A m1 \in 1..NM : e.ts.obs.action_mask[m1][NoOp + 1]>> }
   ELSE {})
  \cup
  (IF RuleStep(i) /\ EnvAllows(i)
   THEN \* only masked-in entries: never the invalid-move outcome, except the documented "all machines idle" end
        { <<"C04.masked_in_action_gets_legal_outcome", InvalidOutcome(e) => AllIdle(e.s)>> }
   ELSE {})
  \cup
  (IF RuleStep(i) /\ ~EnvAllows(i)
   THEN { <<"C04.masked_out_action_gets_invalid_outcome", InvalidOutcome(e)>> }
   ELSE {})

(* ---------------- C05: terminate on invalid, with the documented penalty ---------------- *)
C05(i) ==
  LET e == Ev(i) IN
  IF RuleStep(i) /\ ~Legal(Pre(i), e.a) THEN
    { <<"C05.invalid_is_last", e.ts.type = LAST>>,
      <<"C05.invalid_reward", RewardIs(e, -Penalty)>> }
  ELSE {}

(* ---------------- C06: the schedule held in the state is feasible under mask-respecting play ---------------- *)
C06(i) ==
  LET e == Ev(i) IN
  IF IsReset(i) \/ (RuleStep(i) /\ mk /\ EnvAllows(i)) THEN
    { <<"C06.job_order", JobOrder(e.s)>>,
      <<"C06.job_exclusive", JobExclusive(e.s)>>,
      <<"C06.machine_exclusive", MachineExclusive(e.s)>>,
      <<"C06.schedule_bookkeeping", ScheduleBookkeeping(e.s)>>,
      <<"C06.machines_match_schedule", MachinesMatchSchedule(e.s)>> }
    \cup
    (IF IsStep(i) /\ e.ts.type = LAST /\ ~AllIdle(e.s)       \* ended by completion
     THEN { <<"C06.completion_is_full_solution", CompleteSolution(e.s)>> }
     ELSE {})
  ELSE {}

(* ---------------- C08: return of a completed schedule = minus makespan ---------------- *)
C08(i) ==
  LET e == Ev(i) IN
  IF RuleStep(i) /\ e.main /\ e.ts.type = LAST /\ mk /\ EnvAllows(i) /\ ~AllIdle(e.s)
  THEN { <<"C08.return_eq_objective", acc + RewardInt(e) = Objective(e.s)>>,
         <<"C08.makespan_within_documented_bound", Makespan(e.s) <= Penalty /\ Makespan(e.s) >= MakespanLowerBound(e.s)>> }
  ELSE {}

(* ---------------- C09: the clock, the machines, the operations ---------------- *)
C09(i) ==
  LET e == Ev(i)  p == Pre(i) IN
  IF RuleStep(i) THEN
    { <<"C09.reward_eq", RewardIs(e, Reward(p, e.a))>>,
      <<"C09.done_eq", (e.ts.type = LAST) = Done(p, e.a)>>,
      <<"C09.step_rel.instance_unchanged", e.s.ops_machine_ids = p.ops_machine_ids /\ e.s.ops_durations = p.ops_durations>> }
    \cup
    (IF Legal(p, e.a) THEN
       LET t == Succ(p, e.a) IN
       { <<"C09.step_rel", A(e.s) = t>>,
         <<"C09.step_rel.step_count", e.s.step_count = t.step_count>>,
         <<"C09.step_rel.ops_mask", e.s.ops_mask = t.ops_mask>>,
         <<"C09.step_rel.scheduled_times", e.s.scheduled_times = t.scheduled_times>>,
         <<"C09.step_rel.machines_job_ids", e.s.machines_job_ids = t.machines_job_ids>>,
         <<"C09.step_rel.machines_remaining_times", e.s.machines_remaining_times = t.machines_remaining_times>> }
     ELSE {})
  ELSE {}

(* ---------------- C10: what reset may return ---------------- *)
IsRandomGen == Cfg.generator \in {"random", "default"}
C10(i) ==
  LET e == Ev(i) IN
  (IF IsReset(i) THEN
     { <<"C10.wellformed_shape", InstanceShape(e.s)>>,
       <<"C10.wellformed_ops_prefix", OpsArePrefix(e.s)>>,
       <<"C10.wellformed_machine_in_range", MachinesInRange(e.s)>>,
       <<"C10.wellformed_duration_in_range", DurationsInRange(e.s)>>,
       <<"C10.wellformed_fresh_start", FreshStart(e.s)>> }
     \cup
     (IF Cfg.generator = "toy"
      THEN { <<"C10.wellformed_toy_instance", e.s.ops_machine_ids = ToyMachineIds /\ e.s.ops_durations = ToyDurations>>,
             <<"C10.wellformed_toy_optimum_bound", MakespanLowerBound(e.s) = 8>> }   \* "known, optimal makespan of 8"
      ELSE {})
   ELSE {})
  \cup (IF IsRandomGen THEN C10NonConstant(i, LAMBDA s : <<s.ops_machine_ids, s.ops_durations>>) ELSE {})

(* ---------------- C11: no time limit; structural horizon ---------------- *)
C11(i) ==
  LET e == Ev(i) IN
  IF RuleStep(i) THEN
    (IF e.i >= Horizon THEN { <<"C11.within_structural_horizon", e.ts.type = LAST>> } ELSE {})
    \cup
    (IF e.i >= InstanceHorizon(Pre(i)) THEN { <<"C11.within_instance_horizon", e.ts.type = LAST>> } ELSE {})
  ELSE {}

(* ---------------- C12: observation = documented function of the state ---------------- *)
C12(i) ==
  LET e == Ev(i)  o == Obs(e.s)  x == e.ts.obs IN
  { <<"C12.obs_field_ops_machine_ids", x.ops_machine_ids = o.ops_machine_ids>>,
    <<"C12.obs_field_ops_durations", x.ops_durations = o.ops_durations>>,
    <<"C12.obs_field_ops_mask", x.ops_mask = o.ops_mask>>,
    <<"C12.obs_field_machines_job_ids", x.machines_job_ids = o.machines_job_ids>>,
    <<"C12.obs_field_machines_remaining_times", x.machines_remaining_times = o.machines_remaining_times>>,
    <<"C12.obs_field_action_mask", x.action_mask = o.action_mask>>,
    <<"C12.state_mask_copy", e.s.action_mask = x.action_mask>> }

Clauses(i) ==
        ( (IF On("C01") THEN C01Group(i) ELSE {})
     \cup (IF On("C03") THEN C03Group(i, FALSE) ELSE {})
     \cup (IF On("C04") THEN C04(i) ELSE {})
     \cup (IF On("C05") THEN C05(i) ELSE {})
     \cup (IF On("C06") THEN C06(i) ELSE {})
     \cup (IF On("C08") THEN C08(i) ELSE {})
     \cup (IF On("C09") THEN C09(i) ELSE {})
     \cup (IF On("C10") THEN C10(i) ELSE {})
     \cup (IF On("C11") THEN C11(i) ELSE {})
     \cup (IF On("C12") THEN C12(i) ELSE {}) )

RewardNum(i) == RewardInt(Ev(i))
MaskAllows(i) == EnvAllows(i)

Init == TraceInit
Next == TraceNext(Clauses, RewardNum, Zero, MaskAllows)
Spec == Init /\ [][Next]_tvars
=============================================================================
