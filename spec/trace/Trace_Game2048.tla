------------------------- MODULE Trace_Game2048 -------------------------
(* Trace specification: every recorded reset/step of the real Game2048 is judged against the
   reference model Game2048.tla.  One clause group per property. *)
EXTENDS Game2048, TraceKit

A(s) == [board |-> s.board, step_count |-> s.step_count, score |-> s.score]
RewardInt(e) == e.ts.reward.i[1]
EnvMask(i) == PreTs(i).obs.action_mask          \* the mask the implementation showed the agent

C04(i) ==
  LET e == Ev(i) IN
  { <<"C04.mask_eq_legal", e.ts.type # LAST => e.ts.obs.action_mask = Mask(e.s.board)>> }
  \cup
  (IF IsStep(i) /\ ~e.pl THEN
     { <<"C04.masked_in_action_gets_legal_outcome", EnvMask(i)[e.a + 1] => e.s.board # Pre(i).board>>,
       <<"C04.masked_out_action_gets_invalid_outcome", ~EnvMask(i)[e.a + 1] => e.s.board = Pre(i).board>> }
   ELSE {})

C05(i) ==
  LET e == Ev(i) IN
  IF IsStep(i) /\ ~e.pl /\ ~Legal(Pre(i).board, e.a) THEN
    { <<"C05.invalid_continues", ~NoMove(Pre(i).board) => e.ts.type = MID>>,   \* (an injected dead board stays dead)
      <<"C05.invalid_reward", RewardInt(e) = 0 /\ e.ts.reward.q[1] = 0>>,
      <<"C05.nothing_moved_on_its_behalf", e.s.board = Pre(i).board /\ e.s.score = Pre(i).score>> }
  ELSE {}

C07(i) ==
  LET e == Ev(i) IN
  { <<"C07.in_bounds", BoardShape(e.s.board)>> }
  \cup (IF IsStep(i) /\ ~e.pl THEN { <<"C07.conserved_tile_sum", TileSumLaw(Pre(i), e.a, e.s)>> } ELSE {})

C08(i) ==
  LET e == Ev(i) IN
  (IF IsStep(i) /\ e.main /\ ~e.pl /\ e.ts.type = LAST
   THEN { <<"C08.return_eq_objective", acc + RewardInt(e) = e.s.score>> }
   ELSE {})
  \cup
  \* the objective is the sum of the tiles created by merges: every step pays exactly the tiles it merged (whatever
  \* their size), so that the rewards of an episode add up to it
  (IF IsStep(i) /\ ~e.pl
   THEN { <<"C08.step_reward_is_merged_sum", RewardInt(e) = Reward(Pre(i), e.a)>> }
   ELSE {})

C09(i) ==
  LET e == Ev(i) IN
  IF IsStep(i) /\ ~e.pl THEN
    { <<"C09.step_rel", StepRel(A(Pre(i)), e.a, A(e.s))>>,
      \* (the fixed-point image of the reward is only compared while it fits TLC's 32-bit integers)
      <<"C09.reward_eq", RewardInt(e) = Reward(Pre(i), e.a) /\ (RewardInt(e) < 16384 => e.ts.reward.q[1] = RewardInt(e) * FX)>>,
      <<"C09.done_eq", (e.ts.type = LAST) = Done(e.s)>> }
  ELSE {}

C10(i) ==
  IF Cfg.injected THEN {} ELSE      \* injected start states (TLC dump) are not generator outputs
  (IF IsReset(i) THEN { <<"C10.wellformed_initial_board", WellFormedInstance(A(Ev(i).s))>> } ELSE {})
  \cup C10NonConstant(i, LAMBDA s : s.board)

C12(i) ==
  LET e == Ev(i)  o == Obs(e.s) IN
  { <<"C12.obs_field_board", e.ts.obs.board = o.board>>,
    <<"C12.obs_field_action_mask", e.ts.obs.action_mask = o.action_mask>>,
    <<"C12.state_mask_copy", e.s.action_mask = e.ts.obs.action_mask>> }

Clauses(i) ==
        ( (IF On("C01") THEN C01Group(i) ELSE {})
     \cup (IF On("C03") THEN C03Group(i, FALSE) ELSE {})
     \cup (IF On("C04") THEN C04(i) ELSE {})
     \cup (IF On("C05") THEN C05(i) ELSE {})
     \cup (IF On("C07") THEN C07(i) ELSE {})
     \cup (IF On("C08") THEN C08(i) ELSE {})
     \cup (IF On("C09") THEN C09(i) ELSE {})
     \cup (IF On("C10") THEN C10(i) ELSE {})
     \cup (IF On("C12") THEN C12(i) ELSE {}) )

RewardNum(i) == RewardInt(Ev(i))
MaskAllows(i) == EnvMask(i)[Ev(i).a + 1]

Init == TraceInit
Next == TraceNext(Clauses, RewardNum, Zero, MaskAllows)
Spec == Init /\ [][Next]_tvars
=============================================================================
