---------------------- MODULE Trace_RobotWarehouse ----------------------
(* Trace specification: every recorded reset/step of the real RobotWarehouse is judged against the
   reference model RobotWarehouse.tla.  One clause group per property.  Joint actions are sequences
   (a[k + 1] is agent k's action); the reward is one shared scalar; the mask is per agent. *)
EXTENDS RobotWarehouse, TraceKit

EnvMask(i) == PreTs(i).obs.action_mask                  \* the mask the implementation showed the agents
MaskedIn(i) == { k \in Agents : EnvMask(i)[k + 1][Ev(i).a[k + 1] + 1] }
MaskAllows(i) == MaskedIn(i) = Agents
RewardInt(e) == e.ts.reward.i[1]

\* shelf (0-based id) under agent k in state s, as the shelf table says; -1 if none
ShelfUnder(s, k) == IF ShelfOn(s, APos(s, k)) THEN CHOOSE j \in ShelvesOn(s, APos(s, k)) : TRUE ELSE -1

(* ---------------- C04 ---------------- *)
\* the implementation's own reaction to agent k's action: a move the mask allowed is carried out
\* (its position / direction are those the action prescribes, whatever the other agents do) ...
LegalOutcome(s, a, t, k) ==
  LET p == APos(s, k)  d == ADir(s, k)  ak == a[k + 1] IN
  CASE ak = ActForward -> APos(t, k) = Ahead(p, d) /\ ADir(t, k) = d
    [] ak = ActLeft    -> APos(t, k) = p /\ ADir(t, k) = (d + 3) % 4
    [] ak = ActRight   -> APos(t, k) = p /\ ADir(t, k) = (d + 1) % 4
    [] OTHER           -> APos(t, k) = p /\ ADir(t, k) = d
\* ... and a masked-out one is not: the agent stays where it is, faces the same way and the shelf it
\* stands on stays with it
InvalidOutcome(s, t, k) ==
  /\ APos(t, k) = APos(s, k) /\ ADir(t, k) = ADir(s, k)
  /\ ShelfUnder(s, k) # -1 => SPos(t, ShelfUnder(s, k)) = SPos(s, ShelfUnder(s, k))

C04(i) ==
  LET e == Ev(i) IN
  (IF e.ts.type # LAST /\ ~e.pl
   THEN { <<"C04.mask_eq_legal", e.ts.obs.action_mask = Mask(e.s)>> } ELSE {})
  \cup
  (IF IsStep(i) /\ ~e.pl THEN
     { <<"C04.masked_in_action_gets_legal_outcome",
           \A k \in MaskedIn(i) : LegalOutcome(Pre(i), e.a, e.s, k)>> }
     \cup (IF MaskedIn(i) # Agents
           THEN { <<"C04.masked_out_action_gets_invalid_outcome",
                      \A k \in Agents \ MaskedIn(i) : InvalidOutcome(Pre(i), e.s, k)>> }
           ELSE {})
   ELSE {})

(* ---------------- C05 (ignore-invalid family) ---------------- *)
C05(i) ==
  LET e == Ev(i) IN
  IF IsStep(i) /\ ~e.pl THEN
    LET s == Pre(i)  t == e.s
        bad == { k \in Agents : ~LegalAg(s, k, e.a[k + 1]) } IN
    IF bad = {} THEN {} ELSE
    { <<"C05.invalid_continues", e.ts.type = MID \/ Done(s, e.a)>>,   \* unless the others collide / time is up
      <<"C05.actor_keeps_position", \A k \in bad : APos(t, k) = APos(s, k) /\ ADir(t, k) = ADir(s, k)>>,
      <<"C05.actor_keeps_holdings", \A k \in bad : ACar(t, k) = ACar(s, k)>>,
      <<"C05.nothing_moved_on_its_behalf",
           \A k \in bad :
             /\ ShelfUnder(s, k) # -1 => SPos(t, ShelfUnder(s, k)) = SPos(s, ShelfUnder(s, k))
             \* the shelf it bumped into is not pushed (it may only leave with its own carrier)
             /\ LET q == Ahead(APos(s, k), ADir(s, k)) IN
                \A j \in ShelvesOn(s, q) : CarriedBy(s, j) = {} => SPos(t, j) = q>> }
  ELSE {}

(* ---------------- C07 ---------------- *)
C07(i) ==
  LET e == Ev(i)  s == e.s
      shape == GridShape(s) /\ TablesShape(s) /\ EntitiesInBounds(s) IN
  (IF ~e.pl /\ e.ts.type # LAST THEN
     { <<"C07.in_bounds", shape>>,
       <<"C07.no_two_entities_share_cell", shape => AgentsDistinct(s) /\ ShelvesDistinct(s)>>,
       <<"C07.positions_agree_with_grid", shape => AgentChanAgrees(s) /\ ShelfChanAgrees(s)>>,
       <<"C07.conserved_shelves", shape => ShelvesConserved(s)>>,
       <<"C07.carrier_stands_on_its_shelf", shape => CarrierHasShelf(s)>>,
       <<"C07.uncarried_shelf_rests_on_slot", shape => RestingOnSlots(s)>>,
       <<"C07.request_queue_distinct", QueueOK(s) /\ (shape => RequestedAgrees(s))>> }
     \cup (IF IsStep(i)
           THEN { <<"C07.conserved_carried_shelf_moves_with_agent", shape => CarriedFollows(Pre(i), s)>>,
                  <<"C07.conserved_uncarried_shelves_stay", shape => UncarriedStay(Pre(i), s)>> }
           ELSE {})
   ELSE {})

(* ---------------- C09 ---------------- *)
C09(i) ==
  LET e == Ev(i) IN
  IF IsStep(i) /\ ~e.pl THEN
    LET s == Pre(i)  t == e.s  w == Moved(s, e.a)  u == Config(t) IN
    { <<"C09.step_rel", StepRel(s, e.a, t)>>,
      <<"C09.step_rel.grid", u.ag = w.ag /\ u.sh = w.sh>>,
      <<"C09.step_rel.agents_position", u.apos = w.apos>>,
      <<"C09.step_rel.agents_direction", u.adir = w.adir>>,
      <<"C09.step_rel.agents_is_carrying", u.acar = w.acar>>,
      <<"C09.step_rel.shelves_position", u.spos = w.spos>>,
      <<"C09.step_rel.request_queue", QueueFrame(s, e.a, t)>>,
      <<"C09.nondet_choice_admissible", QueueAdmissible(s, e.a, t)>>,
      <<"C09.step_rel.shelves_is_requested",
           t.shelves.is_requested = [j1 \in 1..NumSh(s) |-> IF (j1 - 1) \in Range(t.request_queue) THEN 1 ELSE 0]>>,
      <<"C09.step_rel.step_count", t.step_count = s.step_count + 1>>,
      <<"C09.reward_eq", e.ts.reward.q[1] = RewardInt(e) * FX
                          /\ (IF QueueAdmissible(s, e.a, t) THEN RewardOK(s, e.a, t, RewardInt(e))
                              ELSE RewardInt(e) \in { o.n : o \in Outcomes(s, e.a) })>>,
      <<"C09.done_eq", (e.ts.type = LAST) = Done(s, e.a)>>,
      <<"C09.discount_eq", e.ts.discount.q[1] = (IF Done(s, e.a) THEN 0 ELSE FX)>> }
  ELSE {}

(* ---------------- C10 ---------------- *)
C10(i) ==
  LET e == Ev(i) IN
  (IF IsReset(i) THEN
     { <<"C10.wellformed_agents", WellFormedAgents(e.s)>>,
       <<"C10.wellformed_shelves_on_slots", WellFormedShelves(e.s)>>,
       <<"C10.wellformed_request_queue", WellFormedQueue(e.s)>>,
       <<"C10.wellformed_grid", e.s.step_count = 0 /\ GridShape(e.s)
                                  /\ (TablesShape(e.s) /\ EntitiesInBounds(e.s) => AgentChanAgrees(e.s) /\ ShelfChanAgrees(e.s))>> }
   ELSE {})
  \cup C10NonConstant(i, LAMBDA s : <<s.agents.position, s.agents.direction, s.request_queue>>)

(* ---------------- C11 ---------------- *)
C11(i) == C11Group(i, TimeLimit, Ev(i).s.step_count, CollisionState(Ev(i).s))

(* ---------------- C12 ---------------- *)
C12(i) ==
  LET e == Ev(i)  s == e.s  v == e.ts.obs.agents_view IN
  IF ~e.pl THEN
    { <<"C12.obs_field_action_mask", e.ts.obs.action_mask = Mask(s)>>,
      <<"C12.state_mask_copy", s.action_mask = e.ts.obs.action_mask>>,
      <<"C12.obs_field_step_count", e.ts.obs.step_count = s.step_count>>,
      <<"C12.obs_field_agents_view_shape", Len(v) = NA /\ \A k1 \in 1..NA : Len(v[k1]) = ObsLen>>,
      \* own features (position, carrying, direction, highway flag). Two agents in one cell - the terminal state of a
      \* collision - is outside the domain of the documented observation function (one entity per cell): with
      \* sensor_range 0 the implementation then writes the unexpected neighbour record over the agent's own features.
      \* As for the sensor part below, that state is not judged.
      <<"C12.obs_field_agents_view_self",
           AgentsDistinct(s) => \A k \in Agents : SubSeq(v[k + 1], 1, 8) = SubSeq(SensorVector(s, k), 1, 8)>> }
    \cup
    \* the sensor part presupposes one entity per cell: not judged on the terminal state of a collision
    (IF ~CollisionState(s) /\ AgentsDistinct(s)
     THEN { <<"C12.obs_field_agents_view", \A k \in Agents : v[k + 1] = SensorVector(s, k)>> }
     ELSE {})
  ELSE {}

Clauses(i) ==
        ( (IF On("C01") THEN C01Group(i) ELSE {})
     \cup (IF On("C03") THEN C03Group(i, FALSE) ELSE {})
     \cup (IF On("C04") THEN C04(i) ELSE {})
     \cup (IF On("C05") THEN C05(i) ELSE {})
     \cup (IF On("C07") THEN C07(i) ELSE {})
     \cup (IF On("C09") THEN C09(i) ELSE {})
     \cup (IF On("C10") THEN C10(i) ELSE {})
     \cup (IF On("C11") THEN C11(i) ELSE {})
     \cup (IF On("C12") THEN C12(i) ELSE {}) )

RewardNum(i) == RewardInt(Ev(i))

Init == TraceInit
Next == TraceNext(Clauses, RewardNum, Zero, MaskAllows)
Spec == Init /\ [][Next]_tvars
=============================================================================
