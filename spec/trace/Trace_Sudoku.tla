------------------------- MODULE Trace_Sudoku -------------------------
(* Trace specification: every recorded reset/step of the real Sudoku is judged against the
   reference model Sudoku.tla.  One clause group per property. *)
EXTENDS Sudoku, TraceKit

A(s) == [board |-> s.board]
RewQ(e) == e.ts.reward.q[1]
EnvMask(i) == PreTs(i).obs.action_mask                                  \* the mask the implementation showed the agent
EnvAllows(i) == EnvMask(i)[Ev(i).a[1] + 1][Ev(i).a[2] + 1][Ev(i).a[3] + 1]
Live(i) == IsReset(i) \/ ~Ev(i).pl                                      \* the event belongs to the episode proper

(* the reset event that started the episode of line i *)
RECURSIVE RootLine(_)
RootLine(i) == IF IsReset(i) THEN i ELSE RootLine(Ev(i).par)
InitialBoard(i) == Ev(RootLine(i)).s.board

(* the documented reaction to an invalid move: the episode ends and nothing is earned *)
InvalidOutcome(i) == Ev(i).ts.type = LAST /\ RewQ(Ev(i)) = 0

C04(i) ==
  LET e == Ev(i) IN
  (IF Live(i) /\ e.ts.type # LAST
   THEN { <<"C04.mask_eq_legal", e.ts.obs.action_mask = Mask(e.s)>> } ELSE {})
  \cup
  (IF IsStep(i) /\ ~e.pl THEN
     IF EnvAllows(i)
     THEN { <<"C04.masked_in_action_gets_legal_outcome",
                /\ At(e.s.board, SdCellOf(e.a)) = e.a[3]                      \* the digit was written ...
                /\ (e.ts.type = LAST => NoLegalAction(e.s.board)) >> }        \* ... and the move was not treated as invalid
     ELSE { <<"C04.masked_out_action_gets_invalid_outcome", InvalidOutcome(i)>> }
   ELSE {})

C05(i) ==
  LET e == Ev(i) IN
  IF IsStep(i) /\ ~e.pl /\ ~Legal(Pre(i), e.a) THEN
    { <<"C05.invalid_is_last", e.ts.type = LAST>>,
      <<"C05.invalid_reward", RewQ(e) = 0>> }
  ELSE {}

C06(i) ==
  LET e == Ev(i) IN
  IF IsReset(i) \/ (IsStep(i) /\ ~e.pl /\ mk /\ EnvAllows(i)) THEN
    { <<"C06.sudoku_no_repeat", Feasible(e.s)>> }
    \cup (IF IsStep(i) /\ e.ts.type = LAST /\ SdFull(e.s.board)
          THEN { <<"C06.completion_is_full_solution", Solved(e.s.board)>> } ELSE {})
  ELSE {}

C09(i) ==
  LET e == Ev(i) IN
  IF IsStep(i) /\ ~e.pl THEN
    { <<"C09.step_rel", StepRel(A(Pre(i)), e.a, A(e.s))>>,
      <<"C09.step_rel.board", Legal(Pre(i), e.a) => e.s.board = Place(Pre(i).board, e.a)>>,
      <<"C09.reward_eq", RewQ(e) = Reward(Pre(i), e.a) * FX>>,
      <<"C09.done_eq", (e.ts.type = LAST) = Done(Pre(i), e.a)>> }
  ELSE {}

C10(i) ==
  LET s == Ev(i).s IN
  (IF IsReset(i) THEN
     { <<"C10.wellformed_cell_values", SdShapeOK(s.board)>>,
       <<"C10.wellformed_conflict_free", NoRepeat(s.board)>>,
       <<"C10.wellformed_clue_count", SdClues(s.board) >= Cfg.min_clues>>,
       <<"C10.wellformed_instance", WellFormedInstance(A(s))>> }
   ELSE {})
  \cup (IF Cfg.constant
        THEN (IF i = NEv THEN { <<"C10.generator_constant_as_documented",
                                    Cardinality({ Ev(j).s.board : j \in ResetLines }) = 1>> } ELSE {})
        ELSE C10NonConstant(i, LAMBDA st : st.board))

(* no time limit: an episode lasts at most as many steps as the initial board has empty cells;
   while it continues every step has filled exactly one of them *)
C11(i) ==
  LET e == Ev(i)  H == Horizon(InitialBoard(i)) IN
  IF IsStep(i) /\ ~e.pl THEN
    (IF e.i >= H THEN { <<"C11.within_structural_horizon", e.ts.type = LAST>> } ELSE {})
    \cup (IF e.ts.type = MID THEN { <<"C11.progress_measure", SdEmptyCount(e.s.board) = H - e.i /\ e.i < H>> } ELSE {})
  ELSE {}

C12(i) ==
  LET e == Ev(i)  o == Obs(e.s) IN
  { <<"C12.obs_field_board", e.ts.obs.board = o.board>>,
    <<"C12.obs_field_action_mask", e.ts.obs.action_mask = o.action_mask>>,
    <<"C12.state_mask_copy", e.s.action_mask = e.ts.obs.action_mask>> }

Clauses(i) ==
        ( (IF On("C01") THEN C01Group(i) ELSE {})
     \cup (IF On("C03") THEN C03Group(i, FALSE) ELSE {})
     \cup (IF On("C04") THEN C04(i) ELSE {})
     \cup (IF On("C05") THEN C05(i) ELSE {})
     \cup (IF On("C06") THEN C06(i) ELSE {})
     \cup (IF On("C09") THEN C09(i) ELSE {})
     \cup (IF On("C10") THEN C10(i) ELSE {})
     \cup (IF On("C11") THEN C11(i) ELSE {})
     \cup (IF On("C12") THEN C12(i) ELSE {}) )

RewardNum(i) == RewQ(Ev(i))
MaskAllows(i) == EnvAllows(i)

Init == TraceInit
Next == TraceNext(Clauses, RewardNum, Zero, MaskAllows)
Spec == Init /\ [][Next]_tvars
=============================================================================
