------------------------- MODULE Trace_PacMan -------------------------
(* Trace specification: every recorded reset/step of the real PacMan is judged against the partial
   reference model PacMan.tla.  One clause group per property; see harness/envs/pacman.py for the projection. *)
EXTENDS PacMan, TraceKit

RewardInt(e) == e.ts.reward.i[1]
EnvMask(i) == PreTs(i).obs.action_mask                 \* the mask the implementation showed the agent

(* the last direction (action in 0..3) selected on the way to the post-state of line j; -1 = none yet *)
RECURSIVE LastSel(_)
LastSel(j) == IF IsReset(j) THEN -1 ELSE IF Ev(j).a \in Dirs THEN Ev(j).a ELSE LastSel(Ev(j).par)

Continues(e) == e.ts.type # LAST
RuleStep(i) == IsStep(i) /\ ~Ev(i).pl
Removed(A, B) == A \ B

(* ------------------------------------------------------------------ C04 *)
C04(i) ==
  LET e == Ev(i)  p == PlayerCell(e.s)  mask == e.ts.obs.action_mask  ld == LastSel(i) IN
  (IF (IsReset(i) \/ RuleStep(i)) /\ Continues(e) THEN
     { <<"C04.mask_eq_legal", Len(mask) = 5 /\ \A d \in Dirs : mask[d + 1] = LegalDir(p, d)>> }
     \* The no-op entry (mask[5]) is NOT judged: the docs say a no-op "takes the last action that was selected" while the
     \* implementation stands still and masks the entry out; the property cannot decide between them (DESIGN.md 9a).
   ELSE {})
  \cup
  (IF RuleStep(i) THEN
     LET p0 == PlayerCell(Pre(i))  ld0 == LastSel(e.par)  d == EffDir(e.a, ld0) IN
     { <<"C04.masked_in_action_gets_legal_outcome",
           EnvMask(i)[e.a + 1] => (d \in Dirs /\ p = Target(p0, d))>>,
       <<"C04.masked_out_action_gets_invalid_outcome",
           ~EnvMask(i)[e.a + 1] => (p = p0 /\ Removed(PelletCells(Pre(i)), PelletCells(e.s)) \subseteq {p0})>> }
   ELSE {})

(* ------------------------------------------------------------------ C05 (ignore-invalid family) *)
C05(i) ==
  LET e == Ev(i) IN
  IF RuleStep(i) /\ ~Legal(PlayerCell(Pre(i)), e.a, LastSel(e.par)) THEN
    LET p0 == PlayerCell(Pre(i)) IN
    { <<"C05.invalid_continues", e.ts.type \in {MID, LAST}
           /\ (e.ts.type = LAST => (e.s.dead \/ PelletCells(e.s) = {} \/ e.s.step_count >= TimeLimit))>>,
      <<"C05.actor_keeps_position", PlayerCell(e.s) = p0>>,
      <<"C05.nothing_moved_on_its_behalf",
           /\ Removed(PelletCells(Pre(i)), PelletCells(e.s)) \subseteq {p0}
           /\ Removed(PowerCells(Pre(i)), PowerCells(e.s)) \subseteq {p0}
           /\ (e.s.frightened_state_time = ScatterTime => p0 \in PowerCells(Pre(i)))>> }
  ELSE {}

(* ------------------------------------------------------------------ C07 *)
C07State(s) ==
  LET p == PlayerCell(s)  pel == PelletCells(s)  pow == PowerCells(s) IN
  { <<"C07.in_bounds", /\ p \in Cell
                       /\ Len(s.ghost_locations) = NGhosts
                       /\ \A k \in 1..NGhosts : GhostCell(s, k) \in Cell
                       /\ pel \subseteq Cell /\ pow \subseteq Cell>>,
    <<"C07.not_in_wall", p \in FreeCells>>,
    <<"C07.ghost_not_in_wall", \A k \in 1..NGhosts : GhostCell(s, k) \in FreeCells>>,
    <<"C07.pellets_on_free_cells", pel \subseteq FreeCells /\ pow \subseteq FreeCells>>,
    <<"C07.positions_agree_with_grid", /\ s.grid = GridOfMaze
                                       /\ s.pellets = Len(s.pellet_locations.left)
                                       /\ s.pellet_locations.n = Len(s.pellet_locations.left) + Len(s.pellet_locations.gone)>>,
    <<"C07.no_two_entities_share_cell", \A k \in 1..NGhosts : GhostCell(s, k) = p => GhostCell(s, k) = SpawnOf(k)>>,
    <<"C07.frightened_timer_upper", s.frightened_state_time <= ScatterTime>> }
    \* (the timer is decremented below zero by the implementation; the game logic only tests "> 0", so this is
    \*  an oddity of the observed value, not a physical inconsistency - no clause)

C07Step(i) ==
  LET e == Ev(i)  s == Pre(i)  t == e.s
      p0 == PlayerCell(s)  p1 == PlayerCell(t)
      pel0 == PelletCells(s)  pel1 == PelletCells(t)  pow0 == PowerCells(s)  pow1 == PowerCells(t) IN
  { <<"C07.conserved_pellets", /\ pel1 \subseteq pel0 /\ Removed(pel0, pel1) = ({p1} \cap pel0)
                               /\ t.pellets = s.pellets - Cardinality(Removed(pel0, pel1))>>,
    <<"C07.conserved_power_ups", pow1 \subseteq pow0 /\ Removed(pow0, pow1) = ({p1} \cap pow0)>>,
    <<"C07.player_moves_one_cell", p1 = p0 \/ (p1 \in NbrsWrap(p0) /\ p1 \in FreeCells)>>,
    <<"C07.ghost_moves_admissible",
         Len(t.ghost_locations) = NGhosts /\ Len(s.ghost_locations) = NGhosts
         /\ \A k \in 1..NGhosts : GhostAdmissible(GhostCell(s, k), GhostCell(t, k), SpawnOf(k), s.frightened_state_time > 0)>>,
    <<"C07.frightened_timer_law",
         IF p1 \in pow0 THEN t.frightened_state_time = ScatterTime
         ELSE IF s.frightened_state_time > 0 THEN t.frightened_state_time = s.frightened_state_time - 1
         ELSE t.frightened_state_time <= 0>>,
    <<"C07.conserved_score", t.score = s.score + RewardInt(e) /\ e.ts.reward.q[1] = RewardInt(e) * FX>> }

C07(i) ==
  LET e == Ev(i) IN
  (IF (IsReset(i) \/ RuleStep(i)) /\ Continues(e) THEN C07State(e.s) ELSE {})
  \cup (IF RuleStep(i) THEN C07Step(i) ELSE {})

(* ------------------------------------------------------------------ C10 *)
InstanceProj(s) == <<s.grid, s.player_locations, s.ghost_locations, s.pellet_locations, s.power_up_locations>>
C10(i) ==
  (IF IsReset(i) THEN
     LET s == Ev(i).s IN
     { <<"C10.wellformed_grid_is_the_requested_map", WfGrid(s)>>,
       <<"C10.wellformed_player_on_free_start_cell", WfPlayer(s)>>,
       <<"C10.wellformed_ghosts_on_free_spawn_cells", WfGhosts(s)>>,
       <<"C10.wellformed_pellets_on_free_cells", WfPellets(s)>>,
       <<"C10.wellformed_power_ups_on_free_cells", WfPowers(s)>>,
       <<"C10.wellformed_counters", WfCounters(s)>>,
       <<"C10.wellformed_entities_distinct", WfDistinct(s)>> }
   ELSE {})
  \cup
  (* the ASCII generator is documented as deterministic: "the same map is generated on each reset" *)
  (IF i = NEv /\ Cardinality(ResetLines) >= 2
   THEN { <<"C10.generator_deterministic", Cardinality({ InstanceProj(Ev(j).s) : j \in ResetLines }) = 1>> }
   ELSE {})

(* ------------------------------------------------------------------ C11 *)
C11(i) == LET e == Ev(i) IN
  IF IsStep(i) /\ ~e.pl
  THEN C11Group(i, TimeLimit, e.s.step_count, e.s.dead \/ PelletCells(e.s) = {})
       \cup { <<"C11.step_counter_advances", e.s.step_count = Pre(i).step_count + 1>> }
  ELSE {}

(* ------------------------------------------------------------------ C12 *)
C12(i) ==
  LET e == Ev(i)  s == e.s  o == e.ts.obs IN
  IF IsReset(i) \/ RuleStep(i) THEN
    { <<"C12.obs_field_grid", o.grid = s.grid /\ o.grid = GridOfMaze>>,
      <<"C12.obs_field_player_locations", o.player_locations = s.player_locations>>,
      <<"C12.obs_field_ghost_locations", o.ghost_locations = s.ghost_locations>>,
      <<"C12.obs_field_power_up_locations", o.power_up_locations = s.power_up_locations>>,
      <<"C12.obs_field_pellet_locations", o.pellet_locations = s.pellet_digest>>,
      <<"C12.obs_field_frightened_state_time", o.frightened_state_time = s.frightened_state_time>>,
      <<"C12.obs_field_score", o.score = s.score>>,
      (* derived field: the four direction entries (the no-op entry is judged by C04.mask_noop_entry) *)
      <<"C12.obs_field_action_mask", Len(o.action_mask) = 5
                                     /\ \A d \in Dirs : o.action_mask[d + 1] = MaskDirs(PlayerCell(s))[d + 1]>> }
  ELSE {}

Clauses(i) ==
        ( (IF On("C01") THEN C01Group(i) ELSE {})
     \cup (IF On("C03") THEN C03Group(i, FALSE) ELSE {})
     \cup (IF On("C04") THEN C04(i) ELSE {})
     \cup (IF On("C05") THEN C05(i) ELSE {})
     \cup (IF On("C07") THEN C07(i) ELSE {})
     \cup (IF On("C10") THEN C10(i) ELSE {})
     \cup (IF On("C11") THEN C11(i) ELSE {})
     \cup (IF On("C12") THEN C12(i) ELSE {}) )

RewardNum(i) == RewardInt(Ev(i))
MaskAllows(i) == EnvMask(i)[Ev(i).a + 1]

Init == TraceInit
Next == TraceNext(Clauses, RewardNum, Zero, MaskAllows)
Spec == Init /\ [][Next]_tvars
=============================================================================
