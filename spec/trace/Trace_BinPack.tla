-------------------------- MODULE Trace_BinPack --------------------------
(* Trace specification: every recorded reset/step of the real BinPack is judged against BinPack.tla.
   Event fields: a = [row, item]; s = projected State (boxes as 6-lists, items as 3-lists, plus `sol`, the
   generator's generate_solution for the instance, on states where nothing is placed); ts.obs likewise. *)
EXTENDS BinPack, TraceKit

Act(i)     == << Ev(i).a[1], Ev(i).a[2] >>
RewQ(e)    == e.ts.reward.q[1]
EnvMask(i) == PreTs(i).obs.action_mask          \* the mask the implementation showed the agent
EnvAllows(i) == EnvMask(i)[Ev(i).a[1] + 1][Ev(i).a[2] + 1]
RuleStep(i) == IsStep(i) /\ ~Ev(i).pl
TolSum     == NItems + 4                        \* fixed-point units: one rounding per summed reward

(* ---------------- C04: mask = legal moves ---------------- *)
C04(i) ==
  LET e == Ev(i) IN
  (IF e.ts.type # LAST /\ ~e.pl
   THEN { <<"C04.mask_eq_legal", e.ts.obs.action_mask = Mask(e.s)>> } ELSE {})
  \cup
  (IF RuleStep(i) THEN
     LET j == e.a[2] + 1
         placedNow == e.s.items_placed[j] /\ ~Pre(i).items_placed[j]
         refused   == e.ts.type = LAST /\ Problem(e.s) = Problem(Pre(i)) IN
     IF EnvAllows(i)
     THEN { <<"C04.masked_in_action_gets_legal_outcome", placedNow /\ ~refused>> }
     ELSE { <<"C04.masked_out_action_gets_invalid_outcome", refused>> }
   ELSE {})

(* ---------------- C05: illegal action = terminate, problem state untouched ---------------- *)
C05(i) ==
  LET e == Ev(i) IN
  IF RuleStep(i) /\ ~Legal(Pre(i), Act(i)) THEN
    { <<"C05.invalid_is_last", e.ts.type = LAST /\ e.ts.discount.q[1] = 0>>,
      <<"C05.invalid_reward", IF Cfg.reward = "dense" THEN RewQ(e) = 0
                              ELSE ObjectiveOK(Pre(i), RewQ(e), 2)>>,        \* sparse: current utilisation
      <<"C05.problem_state_untouched", Problem(e.s) = Problem(Pre(i))>> }
  ELSE {}

(* ---------------- C06: hard constraints under mask-respecting play ---------------- *)
C06(i) ==
  LET e == Ev(i) IN
  IF IsReset(i) \/ (RuleStep(i) /\ mk /\ EnvAllows(i)) THEN
    { <<"C06.inside_container", ItemsInside(e.s) /\ PlacedAreValid(e.s)>>,
      <<"C06.no_overlap", ItemsDisjoint(e.s)>>,
      <<"C06.ems_inside_container", EmsInside(e.s)>>,
      <<"C06.ems_disjoint_from_items", EmsFree(e.s)>> }
    \cup (IF IsStep(i) /\ e.ts.type = LAST /\ AllPlaced(e.s)
          THEN { <<"C06.completion_is_full_solution", CompleteSolution(e.s)>> } ELSE {})
  ELSE {}

(* ---------------- C08: return = volume utilisation; dense = sparse ---------------- *)
C08(i) ==
  LET e == Ev(i) IN
  IF RuleStep(i) /\ e.main /\ e.ts.type = LAST THEN
    { <<"C08.return_eq_objective", ObjectiveOK(e.s, acc + RewQ(e), TolSum)>>,
      <<"C08.dense_eq_sparse", Abs((acc + RewQ(e)) - (acc2 + e.alt.reward.q[1])) <= TolSum
                               /\ e.alt.type = LAST>> }
  ELSE {}

(* ---------------- C09: transition, reward, termination ---------------- *)
C09(i) ==
  LET e == Ev(i)  s == Pre(i)  a == Act(i)  t == e.s IN
  IF RuleStep(i) THEN
    (IF Legal(s, a) THEN
       { <<"C09.step_rel.instance_unchanged", t.container = s.container /\ t.items = s.items /\ t.items_mask = s.items_mask>>,
         <<"C09.step_rel.items_placed", t.items_placed = NextPlaced(s, a)>>,
         <<"C09.step_rel.items_location", t.items_location = NextLocs(s, a)>>,
         <<"C09.step_rel.ems", EmsFits(s, a) => EmsExact(s, a, t)>>,
         <<"C09.step_rel.ems_overflow_subset_of_maximal", ~EmsFits(s, a) => EmsOverflowSubset(s, a, t)>>,
         <<"C09.step_rel.ems_overflow_keeps_untouched", ~EmsFits(s, a) => EmsOverflowKeeps(s, a, t)>>,
         <<"C09.step_rel.ems_slots_distinct", Cardinality(EmsSet(t)) = Cardinality(ValidSlots(t))>> }
     ELSE { <<"C09.step_rel", StepRel(s, a, t)>> })
    \cup
    { <<"C09.reward_eq", RewardOK(s, a, t, RewQ(e), 2)>>,
      <<"C09.done_eq", (e.ts.type = LAST) = Done(s, a, t)>> }
  ELSE {}

(* ---------------- C10: instances ---------------- *)
C10(i) ==
  LET e == Ev(i) IN
  (IF IsReset(i) THEN
     { <<"C10.wellformed_shapes", ShapesOK(e.s)>>,
       <<"C10.wellformed_fresh_container", FreshOK(e.s)>>,
       <<"C10.wellformed_items_fit", ItemsOK(e.s)>> }
     \cup
     (IF Cfg.tiling THEN
        { <<"C10.wellformed_solution_provided", e.s.has_sol>> }
        \cup (IF e.s.has_sol THEN
                { <<"C10.wellformed_solution_same_instance", SolSameInstance(e.s, e.s.sol)>>,
                  <<"C10.wellformed_solution_all_placed", SolAllPlaced(e.s.sol)>>,
                  <<"C10.wellformed_solution_inside", SolInside(e.s.sol)>>,
                  <<"C10.wellformed_solution_disjoint", SolDisjoint(e.s.sol)>>,
                  <<"C10.wellformed_exact_tiling", SolFillsContainer(e.s.sol)>> }
              ELSE {})
      ELSE {})
   ELSE {})
  \cup (IF Cfg.random THEN C10NonConstant(i, LAMBDA s : s.items) ELSE {})

(* ---------------- C11: structural horizon (one item per step) ---------------- *)
C11(i) ==
  LET e == Ev(i) IN
  (IF IsReset(i) THEN { <<"C11.horizon_bounded_by_max_num_items", Cardinality(ValidItems(e.s)) <= NItems>> } ELSE {})
  \cup
  (IF RuleStep(i) /\ e.i >= Cardinality(ValidItems(Pre(i)))
   THEN { <<"C11.within_structural_horizon", e.ts.type = LAST>> } ELSE {})

(* ---------------- C12: observation ---------------- *)
C12(i) ==
  LET e == Ev(i)  o == e.ts.obs IN
  IF e.pl THEN {} ELSE
  { <<"C12.obs_largest_ems_order", SortedOK(e.s)>>,
    <<"C12.obs_field_ems", ObsEmsOK(e.s, o)>>,
    <<"C12.obs_field_ems_mask", ObsEmsMaskOK(e.s, o)>>,
    <<"C12.obs_field_items", ObsItemsOK(e.s, o)>>,
    <<"C12.obs_field_items_mask", o.items_mask = e.s.items_mask>>,
    <<"C12.obs_field_items_placed", o.items_placed = e.s.items_placed>>,
    <<"C12.obs_field_action_mask", o.action_mask = e.s.action_mask>> }

Clauses(i) ==
        ( (IF On("C01") THEN C01Group(i) ELSE {})
     \cup (IF On("C03") THEN C03Group(i, FALSE) ELSE {})
     \cup (IF On("C04") THEN C04(i) ELSE {})
     \cup (IF On("C05") THEN C05(i) ELSE {})
     \cup (IF On("C06") THEN C06(i) ELSE {})
     \cup (IF On("C08") THEN C08(i) ELSE {})
     \cup (IF On("C09") THEN C09(i) ELSE {})
     \cup (IF On("C10") THEN C10(i) ELSE {})
     \cup (IF On("C11") THEN C11(i) ELSE {})
     \cup (IF On("C12") THEN C12(i) ELSE {}) )

RewardNum(i)  == RewQ(Ev(i))
RewardAlt(i)  == Ev(i).alt.reward.q[1]
MaskAllows(i) == EnvAllows(i)

Init == TraceInit
Next == TraceNext(Clauses, RewardNum, RewardAlt, MaskAllows)
Spec == Init /\ [][Next]_tvars
=============================================================================
