SPECIFICATION Spec
CONSTANTS NLanes = 2  MaxLen = 2  MaxDepth = 4  UseHalf = "L"
INVARIANT StacksAgree
INVARIANT Fresh
INVARIANT ResetIsFreshInstance
CHECK_DEADLOCK FALSE
