--------------------------- MODULE TimeStepCtor ---------------------------
(***************************************************************************)
(* The four TimeStep constructors of jumanji.types, from which every       *)
(* environment builds what reset and step return (C03):                    *)
(*   restart(observation, extras, shape)           FIRST, reward 0,       *)
(*                                                 discount 1              *)
(*   transition(reward, observation, discount,     MID, the given reward,  *)
(*              extras, shape)                     discount given or 1     *)
(*   termination(reward, observation, extras,      LAST, the given reward, *)
(*               shape)                            discount 0              *)
(*   truncation(reward, observation, discount,     LAST, the given reward, *)
(*              extras, shape)                     discount given or 1     *)
(* `shape` (an int or a sequence of ints, default ()) is the shape of the  *)
(* reward and discount arrays the constructor has to make up itself; the   *)
(* observation is passed through untouched and extras default to {}.       *)
(* Numbers are 16-bit fixed point (FX = 1.0).                              *)
(***************************************************************************)
EXTENDS EnvKit

Size(shape) == IF shape = <<>> THEN 1 ELSE LET RECURSIVE P(_) P(k) == IF k = 0 THEN 1 ELSE shape[k] * P(k - 1) IN P(Len(shape))
Const(shape, v) == [j \in 1..Size(shape) |-> v]

ExpectedType(fn) == CASE fn = "restart" -> FIRST [] fn = "transition" -> MID [] OTHER -> LAST
(* the reward the constructor must return: zeros of the requested shape for restart, the caller's array otherwise *)
ExpectedReward(e) == IF e.fn = "restart" THEN [shape |-> e.shape, q |-> Const(e.shape, 0)] ELSE e.reward_given
ExpectedDiscount(e) ==
  CASE e.fn = "restart"     -> [shape |-> e.shape, q |-> Const(e.shape, FX)]
    [] e.fn = "termination" -> [shape |-> e.shape, q |-> Const(e.shape, 0)]
    [] OTHER                -> IF e.discount_given.given THEN [shape |-> e.discount_given.shape, q |-> e.discount_given.q]
                               ELSE [shape |-> e.shape, q |-> Const(e.shape, FX)]

CtorLaw(e) ==
  { <<"C03.ctor_completes", e.outcome = "ok">> }
  \cup (IF e.outcome # "ok" THEN {} ELSE
        { <<"C03.ctor_step_type", e.out.type = ExpectedType(e.fn)>>,
          <<"C03.ctor_reward", e.out.reward.shape = ExpectedReward(e).shape /\ e.out.reward.q = ExpectedReward(e).q>>,
          <<"C03.ctor_discount", e.out.discount.shape = ExpectedDiscount(e).shape /\ e.out.discount.q = ExpectedDiscount(e).q>>,
          <<"C03.ctor_float_arrays", e.fn = "restart" => (e.out.reward.dtype = "float32" /\ e.out.discount.dtype = "float32")>>,
          <<"C03.ctor_observation_untouched", e.out.obs_same>>,
          <<"C03.ctor_extras", e.out.extras_keys = e.extras_given>>,
          <<"C03.ctor_predicates", e.pred.first = (e.out.type = FIRST) /\ e.pred.mid = (e.out.type = MID)
                                    /\ e.pred.last = (e.out.type = LAST)>> })
=============================================================================
