---------------------------- MODULE Wrappers ----------------------------
(***************************************************************************)
(* Laws of jumanji's functional wrappers, stated over one recorded wrapper *)
(* call `e`.  The harness logs, next to the wrapper's output, an ORACLE    *)
(* TABLE computed from the unwrapped environment:                          *)
(*   inner    = env.step(in_state, action)                                 *)
(*   split    = jax.random.split(inner.state.key) -> (L, R)                *)
(*   reset_L / reset_R / reset_K = env.reset(L) / env.reset(R) /           *)
(*              env.reset(inner.state.key)        (R and K are decoys)     *)
(* and `match[c][part]` = "the wrapper's output part equals candidate c's  *)
(* part" (exact on ints/bools/keys, ulp-tolerant on floats).  WHICH        *)
(* candidate must match is decided here, by the law.                       *)
(***************************************************************************)
EXTENDS EnvKit

(* AutoResetWrapper.step (also each lane of VmapAutoResetWrapper.step) *)
ARStepLaw(e, used, insts) ==
  (IF e.inner.type # LAST
   THEN { <<"C13.passthrough_when_not_last",
             /\ e.match.inner.state /\ e.match.inner.obs /\ e.match.inner.extras
             /\ e.out.type = e.inner.type /\ e.out.reward = e.inner.reward /\ e.out.discount = e.inner.discount>> }
   ELSE { <<"C13.reset_state_from_left_split", e.match.reset_L.state>>,
          <<"C13.obs_replaced_by_reset_obs", e.match.reset_L.obs>>,
          <<"C13.terminal_fields_kept",
             /\ e.out.type = LAST /\ e.out.reward = e.inner.reward /\ e.out.discount = e.inner.discount
             /\ e.match.inner.extras>>,
          <<"C13.reset_keys_fresh", e.split.L \notin used /\ e.split.L # e.inner.key>> }
        \cup (IF e.big_instance_space
              THEN { <<"C13.new_instance_differs", e.match.reset_L.state => e.out.inst_d \notin insts>> }
              ELSE {}))
  \cup
  (IF e.next_obs_in_extras
   THEN { <<"C13.next_obs_is_true_successor", e.next_obs.present /\ e.next_obs.matches_inner_obs>> }
   ELSE {})

ARResetLaw(e) ==
  { <<"C13.reset_is_native_reset", e.match_native.state /\ e.match_native.obs /\ e.type = FIRST>> }
  \cup (IF e.next_obs_in_extras
        THEN { <<"C13.next_obs_is_true_successor", e.next_obs.present /\ e.next_obs.matches_inner_obs>> }
        ELSE {})

(* VmapWrapper: lane i of the batched call equals the single-instance call on lane i's inputs *)
VmapLaneLaw(e) == { <<"C14.lane_equals_single_instance", e.lane_eq_single.state /\ e.lane_eq_single.ts>> }

(* VmapAutoResetWrapper == VmapWrapper(AutoResetWrapper): same outputs on the same inputs *)
StacksLaw(e) ==
  IF e.k = "stacks_reset"
  THEN { <<"C14.stacks_agree", e.agree.state /\ e.agree.ts>> }
  ELSE { <<"C14.stacks_agree",
            e.in_states_agree =>
              /\ e.agree.state /\ e.agree.obs /\ e.agree.type /\ e.agree.reward /\ e.agree.discount /\ e.agree.extras>> }

RenderLaw(e) == { <<"C14.renders_lane_zero", e.called /\ e.is_lane0 /\ ~e.is_other_lane>> }
=============================================================================
