------------------------- MODULE Trace_Registry -------------------------
(* mem = [ids |-> the registry contents the SPECIFICATION expects within the current call sequence,
          regs |-> id -> [entry, kwargs] as given to the successful register calls of the sequence] *)
EXTENDS Registry, LibKit
Clauses(i) ==
  LET e == Ev(i) IN
  IF ~On("C18") THEN {} ELSE
  CASE e.k = "parse"    -> ParseLaw(e)
    [] e.k = "register" -> RegisterLaw(e) \cup { <<"C18.registry_continuity", AsSet(e.pre_ids) = mem.ids>> }
    [] e.k = "make"     -> MakeLaw(e, mem.regs) \cup { <<"C18.registry_continuity", AsSet(e.pre_ids) = mem.ids>> }
    [] e.k = "shipped"  -> ShippedLaw(e)
    [] e.k = "shipped_list" -> ShippedListLaw(e)
    [] e.k = "seq_start" -> {}
    [] OTHER -> { <<"MACHINERY.unknown_event_kind", FALSE>> }
Upd(f, k, v) == [x \in DOMAIN f \cup {k} |-> IF x = k THEN v ELSE f[x]]
MemNext(i) ==
  LET e == Ev(i) IN
  CASE e.k = "seq_start" -> [ids |-> AsSet(e.ids), regs |-> << >>]
    [] e.k = "register" ->
         IF Parse(e.id_chars).ok /\ Canon(e.id_chars) \notin mem.ids
         THEN [ids |-> mem.ids \cup {Canon(e.id_chars)},
               regs |-> Upd(mem.regs, Canon(e.id_chars), [entry |-> e.entry, kwargs |-> e.kwargs])]
         ELSE mem
    [] OTHER -> mem
Init == LibInit([ids |-> {}, regs |-> << >>])
Next == LibNext(Clauses, MemNext)
Spec == Init /\ [][Next]_lvars
=============================================================================
