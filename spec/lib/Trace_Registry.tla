------------------------- MODULE Trace_Registry -------------------------
(* mem = the registry contents the SPECIFICATION expects (set of ids) within the current call sequence *)
EXTENDS Registry, LibKit
Clauses(i) ==
  LET e == Ev(i) IN
  IF ~On("C18") THEN {} ELSE
  CASE e.k = "parse"    -> ParseLaw(e)
    [] e.k = "register" -> RegisterLaw(e) \cup { <<"C18.registry_continuity", AsSet(e.pre_ids) = mem>> }
    [] e.k = "make"     -> MakeLaw(e) \cup { <<"C18.registry_continuity", AsSet(e.pre_ids) = mem>> }
    [] e.k = "shipped"  -> ShippedLaw(e)
    [] e.k = "shipped_list" -> ShippedListLaw(e)
    [] e.k = "seq_start" -> {}
    [] OTHER -> { <<"MACHINERY.unknown_event_kind", FALSE>> }
MemNext(i) ==
  LET e == Ev(i) IN
  CASE e.k = "seq_start" -> AsSet(e.ids)
    [] e.k = "register" -> IF Parse(e.id_chars).ok /\ e.id \notin mem THEN mem \cup {e.id} ELSE mem
    [] OTHER -> mem
Init == LibInit({})
Next == LibNext(Clauses, MemNext)
Spec == Init /\ [][Next]_lvars
=============================================================================
