------------------------- MODULE Trace_TreeUtils -------------------------
EXTENDS TreeUtils, LibKit
Clauses(i) ==
  LET e == Ev(i) IN
  IF ~On("C19") THEN {} ELSE
  CASE e.k = "transpose"   -> TransposeLaw(e)
    [] e.k = "slice"       -> SliceLaw(e)
    [] e.k = "add_element" -> AddElementLaw(e)
    [] e.k = "is_equal"    -> IsEqualLaw(e)
    [] OTHER -> { <<"MACHINERY.unknown_event_kind", FALSE>> }
MemNext(i) == mem
Init == LibInit(0)
Next == LibNext(Clauses, MemNext)
Spec == Init /\ [][Next]_lvars
=============================================================================
