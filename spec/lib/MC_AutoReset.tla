--------------------------- MODULE MC_AutoReset ---------------------------
(***************************************************************************)
(* Design-level model of AutoResetWrapper and of the two batched stacks    *)
(* over an ABSTRACT inner environment.  PRNG keys are split-terms          *)
(* (sequences over {"L","R"} from the root key), so "fresh key" is a       *)
(* syntactic distinctness property.  The inner environment is any          *)
(* deterministic machine whose reset stores key k, L(k) or R(k) in its     *)
(* state (the three generator styles found in jumanji) and whose step      *)
(* keeps or advances the key; episode ends are nondeterministic, so TLC    *)
(* explores every termination pattern (the "schedules" of C14).            *)
(*   WStep      = AutoResetWrapper.step: inner step; if LAST, reset with   *)
(*                the LEFT half of split(terminal state's key).            *)
(*   stack A    = VmapAutoResetWrapper: step all lanes, then per-lane      *)
(*                conditional reset (two phases);                          *)
(*   stack B    = VmapWrapper(AutoResetWrapper): per-lane WStep.           *)
(***************************************************************************)
EXTENDS Integers, Sequences, FiniteSets, TLC

CONSTANTS NLanes, MaxLen, MaxDepth, UseHalf     \* UseHalf = "L" is the implementation; "K"/"R" are decoys
VARIABLES gen, stp, A, B, resets, n, lastOut
vars == <<gen, stp, A, B, resets, n, lastOut>>
Lanes == 1..NLanes
Styles == {"keep", "L", "R"}

KL(k) == Append(k, "L")
KR(k) == Append(k, "R")
Style(sty, k) == CASE sty = "keep" -> k [] sty = "L" -> KL(k) [] sty = "R" -> KR(k)
Reset(k) == [key |-> Style(gen, k), inst |-> k, t |-> 0]
Inner(s) == [s EXCEPT !.key = Style(stp, s.key), !.t = s.t + 1]
ResetKeyOf(s) == CASE UseHalf = "L" -> KL(s.key) [] UseHalf = "R" -> KR(s.key) [] UseHalf = "K" -> s.key
WStep(s, last) == IF last THEN Reset(ResetKeyOf(Inner(s))) ELSE Inner(s)

Root(i) == <<"root", i>>        \* distinct initial keys per lane
Init ==
  /\ gen \in Styles /\ stp \in Styles
  /\ A = [i \in Lanes |-> Reset(Root(i))]
  /\ B = A
  /\ resets = [i \in Lanes |-> <<Root(i)>>]
  /\ n = 0
  /\ lastOut = [i \in Lanes |-> FALSE]

Next ==
  /\ n < MaxDepth
  /\ n' = n + 1
  /\ \E pat \in [Lanes -> BOOLEAN] :
       /\ \A i \in Lanes : pat[i] \/ A[i].t + 1 < MaxLen        \* an episode lasts at most MaxLen steps
       /\ LET phase1 == [i \in Lanes |-> Inner(A[i])]             \* stack A, phase 1: step every lane
          IN  A' = [i \in Lanes |-> IF pat[i] THEN Reset(ResetKeyOf(phase1[i])) ELSE phase1[i]]   \* phase 2
       /\ B' = [i \in Lanes |-> WStep(B[i], pat[i])]
       /\ resets' = [i \in Lanes |-> IF pat[i] THEN Append(resets[i], ResetKeyOf(Inner(A[i]))) ELSE resets[i]]
       /\ lastOut' = pat
       /\ UNCHANGED <<gen, stp>>
Spec == Init /\ [][Next]_vars

(* C14: the two stacks are observationally identical for every termination pattern *)
StacksAgree == A = B
(* C13: keys passed to reset along a lane are pairwise distinct, and distinct across lanes *)
Fresh ==
  /\ \A i \in Lanes : \A a, b \in 1..Len(resets[i]) : a # b => resets[i][a] # resets[i][b]
  /\ \A i, j \in Lanes : i # j => \A a \in 1..Len(resets[i]) : \A b \in 1..Len(resets[j]) : resets[i][a] # resets[j][b]
(* C13: after an automatic reset the lane holds a brand-new instance at step 0 *)
ResetIsFreshInstance == \A i \in Lanes : lastOut[i] => A[i].t = 0 /\ A[i].inst = resets[i][Len(resets[i])]
(* C13: the reset key never coincides with a key the environment itself holds as state.key *)
ResetKeyNotStateKey == \A i \in Lanes : lastOut[i] => A[i].inst # Inner(A[i]).key
=============================================================================
