SPECIFICATION Spec
CONSTANT MaxB = 3
INVARIANT SliceOfStack
INVARIANT SetIsLocal
INVARIANT ViewAgrees
INVARIANT EqLaws
CHECK_DEADLOCK FALSE
