SPECIFICATION Spec
CONSTANTS Seeds = {0, 1}  MaxDepth = 6  KeepHalf = "R"
INVARIANT Reproducible
INVARIANT FreshWithinSeeding
INVARIANT SeedsDiffer
INVARIANT AdapterKeyNeverAResetKey
CHECK_DEADLOCK FALSE
