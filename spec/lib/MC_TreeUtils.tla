--------------------------- MODULE MC_TreeUtils ---------------------------
(* Data-level model of stacking: a leaf is a sequence of numbers, a tree a sequence of leaves of fixed
   sizes; stacking concatenates along a new leading axis.  TLC checks the laws for all trees over a
   small universe and all batch sizes 1..MaxB, all indices. *)
EXTENDS TreeUtils
CONSTANTS MaxB
VARIABLE dummy
LeafSizes == <<1, 2>>                    \* two leaves: a scalar-like and a length-2 leaf
Leaf(n) == [1..n -> 0..1]
Trees == { <<a, b>> : a \in Leaf(LeafSizes[1]), b \in Leaf(LeafSizes[2]) }
(* concrete stacking: leaf k of the stack is the concatenation of the inputs' leaf k *)
RECURSIVE Cat(_, _)
Cat(ts, k) == IF ts = <<>> THEN <<>> ELSE ts[1][k] \o Cat(Tail(ts), k)
StackData(ts) == [k \in 1..2 |-> Cat(ts, k)]
SliceData(st, i) == [k \in 1..2 |-> SubSeq(st[k], i * LeafSizes[k] + 1, (i + 1) * LeafSizes[k])]
SetData(st, i, e) == [k \in 1..2 |-> SubSeq(st[k], 1, i * LeafSizes[k]) \o e[k] \o SubSeq(st[k], (i + 1) * LeafSizes[k] + 1, Len(st[k]))]
Batches == UNION { [1..b -> Trees] : b \in 1..MaxB }
SliceOfStack == \A ts \in Batches : \A i \in 0..(Len(ts) - 1) : SliceData(StackData(ts), i) = ts[i + 1]
SetIsLocal == \A ts \in Batches : \A i \in 0..(Len(ts) - 1) : \A e \in Trees :
                 LET r == SetData(StackData(ts), i, e) IN
                 \A j \in 0..(Len(ts) - 1) : SliceData(r, j) = IF j = i THEN e ELSE ts[j + 1]
(* the view-level operators used on traces agree with the data-level ones *)
ViewAgrees == \A ts \in Batches : \A i \in 0..(Len(ts) - 1) : Slice(Stack(ts), i) = SliceData(StackData(ts), i)
EqLaws == \A a, b \in Trees :
            LET da == [k \in 1..2 |-> [shape |-> <<LeafSizes[k]>>, data |-> a[k], cls |-> "i", exact4 |-> TRUE, num4 |-> a[k]]]
                db == [k \in 1..2 |-> [shape |-> <<LeafSizes[k]>>, data |-> b[k], cls |-> "i", exact4 |-> TRUE, num4 |-> b[k]]] IN
            /\ IsEqual(da, da) /\ (IsEqual(da, db) = IsEqual(db, da)) /\ (IsEqual(da, db) <=> a = b)
Init == dummy = 0
Next == UNCHANGED dummy
Spec == Init /\ [][Next]_dummy
=============================================================================
