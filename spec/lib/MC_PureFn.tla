---------------------------- MODULE MC_PureFn ----------------------------
(* The monitor composed with a tiny abstract environment that may (Hidden = TRUE) or may not keep hidden
   state across calls.  For the pure environment the monitor never rejects, over all interleavings of
   calls in all modes; for the impure one TLC finds a rejecting history (decoy cfg), so the monitor is
   neither over-strict nor vacuous. *)
EXTENDS PureFn
Failed(group) == { c[1] : c \in { d \in group : ~d[2] } }
CONSTANTS Args, Modes, MaxCalls, Hidden
VARIABLES memo, h, n, rejected, results
vars == <<memo, h, n, rejected, results>>
F(a) == a + 10                                  \* the function of the arguments alone
Value(a) == IF Hidden THEN F(a) + h ELSE F(a)   \* what the implementation returns
ClassOf(a, v) ==                                \* class = index of v among distinct results seen for a
  LET seen == results[a] IN
  IF \E j \in 1..Len(seen) : seen[j] = v THEN (CHOOSE j \in 1..Len(seen) : seen[j] = v) - 1 ELSE Len(seen)
Init == memo = << >> /\ h = 0 /\ n = 0 /\ rejected = FALSE /\ results = [a \in Args |-> <<>>]
Call(a, m) ==
  LET v == Value(a)
      c == ClassOf(a, v)
      e == [fn |-> "f", args_d |-> a, args_after_d |-> a, outcome |-> "ok", cls |-> c, mode |-> m] IN
  /\ n < MaxCalls /\ n' = n + 1
  /\ rejected' = (rejected \/ Failed(CallLaw(e, memo)) # {})
  /\ memo' = MemoNext(e, memo)
  /\ results' = [results EXCEPT ![a] = IF c = Len(results[a]) THEN Append(results[a], v) ELSE results[a]]
  /\ h' = (h + 1) % 3
Next == \E a \in Args : \E m \in Modes : Call(a, m)
Spec == Init /\ [][Next]_vars
NeverRejects == ~rejected
=============================================================================
