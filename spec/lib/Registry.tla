---------------------------- MODULE Registry ----------------------------
(***************************************************************************)
(* Model of jumanji.registration.  Ids are sequences of one-character      *)
(* strings.  Grammar (documented): <name>-v<N>, name a non-empty string    *)
(* over word characters, ':', '.', '-', N a non-empty decimal number.      *)
(* Parse is stated directly: the version is the maximal trailing run of    *)
(* digits, which must be preceded by "-v" and a non-empty name; everything *)
(* else (other characters, no version) is rejected.                        *)
(***************************************************************************)
EXTENDS EnvKit

Digits == {"0", "1", "2", "3", "4", "5", "6", "7", "8", "9"}
Lower == {"a","b","c","d","e","f","g","h","i","j","k","l","m","n","o","p","q","r","s","t","u","v","w","x","y","z"}
Upper == {"A","B","C","D","E","F","G","H","I","J","K","L","M","N","O","P","Q","R","S","T","U","V","W","X","Y","Z"}
WordChars == Lower \cup Upper \cup Digits \cup {"_"}
NameChars == WordChars \cup {":", ".", "-"}
(* printable ASCII the harness uses that are NOT allowed; anything else (non-ASCII) is left unspecified *)
KnownBad == {" ", "/", "!", "@", "#", "$", "%", "^", "&", "*", "(", ")", "+", "=", ",", ";", "?", "\\", "\"", "'", "<", ">", "[", "]", "{", "}", "|", "~", "`", "\t", "\n", "\r"}
Specified(cs) == \A j \in 1..Len(cs) : cs[j] \in NameChars \cup KnownBad

RECURSIVE TrailDigits(_)
TrailDigits(cs) == IF cs = <<>> \/ cs[Len(cs)] \notin Digits THEN 0 ELSE 1 + TrailDigits(SubSeq(cs, 1, Len(cs) - 1))

Parse(cs) ==
  LET n == Len(cs)  k == TrailDigits(cs) IN
  IF /\ k >= 1 /\ n - k - 2 >= 1
     /\ cs[n - k - 1] = "-" /\ cs[n - k] = "v"
     /\ \A j \in 1..n : cs[j] \in NameChars
  THEN [ok |-> TRUE, name |-> SubSeq(cs, 1, n - k - 2), digits |-> SubSeq(cs, n - k + 1, n)]
  ELSE [ok |-> FALSE, name |-> <<>>, digits |-> <<>>]

RECURSIVE StripZeros(_)
StripZeros(ds) == IF Len(ds) > 1 /\ ds[1] = "0" THEN StripZeros(Tail(ds)) ELSE ds
Format(name, vdigits) == name \o <<"-", "v">> \o vdigits

ParseLaw(e) ==
  LET p == Parse(e.id) IN
  IF ~Specified(e.id) THEN
    (IF e.outcome = "ok" THEN { <<"C18.parse_value", e.format = Format(e.name, e.version_digits)>> } ELSE {})
  ELSE
    { <<"C18.parse_verdict", (e.outcome = "ok") <=> p.ok>>,
      <<"C18.parse_rejects_with_value_error", ~p.ok => e.outcome = "raise:ValueError">> }
    \cup (IF p.ok /\ e.outcome = "ok"
          THEN { <<"C18.parse_value", e.name = p.name /\ e.version_digits = StripZeros(p.digits)>>,
                 <<"C18.format_roundtrip", e.format = Format(p.name, StripZeros(p.digits))
                                            /\ (p.digits = StripZeros(p.digits) => e.format = e.id)>> }
          ELSE {})

AsSet(sq) == { sq[j] : j \in 1..Len(sq) }
Override(regkw, callkw) ==
  LET ck == { callkw[j][1] : j \in 1..Len(callkw) } IN
  { p \in AsSet(regkw) : p[1] \notin ck } \cup AsSet(callkw)

Canon(cs) == LET p == Parse(cs) IN Format(p.name, StripZeros(p.digits))     \* the id under which (name, int(version)) is stored

RegisterLaw(e) ==
  LET p == Parse(e.id_chars)  pre == AsSet(e.pre_ids)  post == AsSet(e.post_ids) IN
  IF ~p.ok THEN
    { <<"C18.malformed_registration_refused", e.outcome = "raise:ValueError" /\ post = pre /\ e.others_unchanged>> }
  ELSE IF Canon(e.id_chars) \in pre THEN
    { <<"C18.duplicate_refused_registry_unchanged", e.outcome = "raise:ValueError" /\ post = pre /\ e.others_unchanged>> }
  ELSE
    { <<"C18.register_adds_exactly_one", e.outcome = "ok" /\ post = pre \cup {Canon(e.id_chars)} /\ e.others_unchanged
                                          /\ e.new_entry = e.expected_entry>> }

EntryClass == [P |-> "reg_drive:ProbeEnv", Q |-> "reg_drive:ProbeEnv2", R |-> "reg_other:ProbeEnv"]   \* module:Class
(* regs: what the SPECIFICATION knows was registered in this call sequence: id -> [entry, kwargs] (from the
   arguments of the successful register calls, never read back from the implementation's registry). *)
MakeLaw(e, regs) ==
  LET pre == AsSet(e.pre_ids)  p == Parse(e.id_chars)  cid == Canon(e.id_chars) IN
  { <<"C18.make_leaves_registry_unchanged", AsSet(e.post_ids) = pre /\ e.entries_unchanged>> }
  \cup
  (IF p.ok /\ cid \in pre
   THEN { <<"C18.make_class", e.outcome = "ok" /\ (cid \in DOMAIN regs => e.class = EntryClass[regs[cid].entry])>>,
          <<"C18.make_kwargs_precedence",
               cid \in DOMAIN regs => AsSet(e.seen_kwargs) = Override(regs[cid].kwargs, e.call_kwargs)>> }
   ELSE { <<"C18.unknown_id_lists_registered", e.outcome = "raise:ValueError" /\ (p.ok => AsSet(e.listed_ids) = pre)>> })

ShippedLaw(e) ==
  IF e.needs_dataset /\ e.outcome # "ok" THEN {}     \* Sokoban-v0 needs its dataset (documented); offline sandbox
  ELSE
  { <<"C18.shipped_id_instantiates", e.outcome = "ok" /\ e.class_ok>>,
    <<"C18.make_twice_equal", e.specs_equal /\ e.same_behaviour>>,
    <<"C18.make_kwargs_precedence", e.kwargs_ok /\ ("override_ok" \in DOMAIN e => e.override_ok)>> }
  \cup (IF "doc" \in DOMAIN e
        THEN { <<"C18.documented_configuration", e.doc.time_limit = 20 /\ e.doc.num_scrambles = 7>> } ELSE {})
ShippedListLaw(e) == { <<"C18.api_lists_registry", e.ids = e.listed_by_api>> }
=============================================================================
