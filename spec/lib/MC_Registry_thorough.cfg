SPECIFICATION Spec
CONSTANTS MaxLen = 5  Ids = {"A-v0", "A-v1", "B-v0"}
INVARIANT RoundTrip
INVARIANT Unambiguous
INVARIANT RejectsBad
INVARIANT RejectsVersionless
INVARIANT CanonicalFixpoint
PROPERTY RefusedKeeps
PROPERTY Monotone
CHECK_DEADLOCK FALSE
