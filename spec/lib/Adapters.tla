---------------------------- MODULE Adapters ----------------------------
(***************************************************************************)
(* Laws of the stateful adapters (JumanjiToGymWrapper,                     *)
(* JumanjiToDMEnvWrapper) and of MultiToSingleWrapper.                     *)
(*                                                                         *)
(* Documented key schedule: the adapter holds a key; seed(n) sets it to    *)
(* PRNGKey(n); every reset splits it, resets the native environment with   *)
(* the FIRST half and keeps the SECOND half.  step is the native step on   *)
(* the held state.  The specification tracks the key it EXPECTS the        *)
(* adapter to hold (`key`, per adapter instance) and requires each event   *)
(* to continue from it; the logged oracle table (split of the expected     *)
(* key, native reset of both halves, native step) supplies the values.     *)
(***************************************************************************)
EXTENDS EnvKit

(* ---- gym ---- *)
GymInitLaw(e)  == { <<"C15.seed_sets_prng_key", e.key_after = e.prng>> }
GymSeedLaw(e)  == { <<"C15.seed_sets_prng_key", e.key_after = e.prng>> }

GymResetLaw(e, key, firstObs, LeafMember(_, _)) ==
  LET base == IF e.seed_arg >= 0 THEN e.prng ELSE key IN      \* reset(seed=n) seeds first
  { <<"C15.reset_continues_key_schedule", e.seed_arg >= 0 \/ e.kpre = key>>,
    <<"C15.reset_uses_first_half", e.match.L.obs /\ e.match.L.state>>,
    <<"C15.key_advances_to_second_half", e.kpost = e.split.R>>,
    <<"C15.obs_in_converted_space", LeafMember(e.lv, e) /\ e.gym_contains>> }
  \cup (IF firstObs # "none"
        THEN { <<"C15.reseed_reproduces", e.obs_d = firstObs>> }   \* same seed, same position in the schedule
        ELSE {})

GymStepLaw(e, LeafMember(_, _)) ==
  { <<"C15.step_is_native_step", e.match.obs /\ e.match.state /\ e.out.reward = e.native.reward>>,
    <<"C15.terminated_iff_zero_discount", e.out.terminated = (e.native.discount[1] = 0)>>,
    <<"C15.truncated_iff_last", e.out.truncated = (e.native.type = LAST)>>,
    <<"C15.gym_signature_types", e.out.reward_is_float /\ e.out.flags_are_bool>>,
    <<"C15.obs_in_converted_space", LeafMember(e.lv, e) /\ e.gym_contains>> }

(* ---- dm_env ---- *)
DMInitLaw(e) == { <<"C15.dm_initial_key", e.key_after = e.prng>> }
DMResetLaw(e, key) ==
  { <<"C15.reset_continues_key_schedule", e.kpre = key>>,
    <<"C15.reset_uses_first_half", e.match.L.obs /\ e.match.L.state>>,
    <<"C15.key_advances_to_second_half", e.kpost = e.split.R>>,
    <<"C15.dm_first_has_none", e.first.type = FIRST /\ e.first.reward_none /\ e.first.discount_none>>,
    <<"C15.obs_in_converted_space", e.dm_spec_ok>> }
DMStepLaw(e) ==
  { <<"C15.step_is_native_step",
       e.match.obs /\ e.match.state /\ e.out.type = e.native.type /\ e.out.reward = e.native.reward
       /\ e.out.discount = e.native.discount>>,
    <<"C15.obs_in_converted_space", e.dm_spec_ok>> }

(* ---- MultiToSingleWrapper ---- *)
Agg(name, sq) ==
  CASE name = "sum"   -> [lo |-> SumSeq(sq) - Len(sq), hi |-> SumSeq(sq) + Len(sq)]       \* fixed-point rounding per term
    [] name = "max"   -> [lo |-> SeqMax(sq), hi |-> SeqMax(sq)]
    [] name = "min"   -> [lo |-> SeqMin(sq), hi |-> SeqMin(sq)]
    [] name = "first" -> [lo |-> sq[1], hi |-> sq[1]]
    [] name = "mean"  -> [lo |-> (SumSeq(sq) \div Len(sq)) - 2, hi |-> (SumSeq(sq) \div Len(sq)) + 2]
    [] name = "sum_shift" -> [lo |-> SumSeq(sq) - Len(sq) * (FX \div 4) - Len(sq), hi |-> SumSeq(sq) - Len(sq) * (FX \div 4) + Len(sq)]
    [] name = "half_max"  -> [lo |-> (SeqMax(sq) \div 2) - 1, hi |-> (SeqMax(sq) \div 2) + 1]
M2SLaw(e) ==
  LET r == Agg(e.ragg, e.inner.reward)  d == Agg(e.dagg, e.inner.discount) IN
  { <<"C15.aggregated_reward", Len(e.out.reward) = 1 /\ e.out.reward_shape = <<>> /\ r.lo <= e.out.reward[1] /\ e.out.reward[1] <= r.hi>>,
    <<"C15.aggregated_discount", Len(e.out.discount) = 1 /\ e.out.discount_shape = <<>> /\ d.lo <= e.out.discount[1] /\ e.out.discount[1] <= d.hi>>,
    <<"C15.rest_unchanged", e.match.state /\ e.match.obs /\ e.match.extras /\ e.out.type = e.inner.type>> }

SampledActionLaw(e, decl) ==
  { <<"C15.sampled_action_valid", e.native_validate_ok>> }
=============================================================================
