---------------------------- MODULE PureFn ----------------------------
(***************************************************************************)
(* Memo-table monitor for purity (C02).  A call event carries the function *)
(* name, the exact digest of its arguments before and after the call, the  *)
(* execution mode and the equivalence class of its result among all        *)
(* results observed for the same arguments (class 0 = same value as the    *)
(* first one observed).  A pure, transformation-invariant function has     *)
(* exactly one class per argument tuple, in any mode, at any point of any  *)
(* call history, on any instance with the same configuration.              *)
(***************************************************************************)
EXTENDS EnvKit

CallLaw(e, memo) ==
  LET k == <<e.fn, e.args_d>> IN
  { <<"C02.call_completes", e.outcome = "ok">>,
    <<"C02.args_unchanged", e.args_after_d = e.args_d>> }
  \cup (IF e.outcome = "ok"
        THEN { <<"C02.memo_single_valued", IF k \in DOMAIN memo THEN e.cls = memo[k] ELSE e.cls = 0>> }
        ELSE {})
StaticLaw(e) == { <<"C02.no_effects_in_jaxpr", e.effects = <<>> /\ e.callbacks = <<>> >> }
MemoNext(e, memo) ==
  LET k == <<e.fn, e.args_d>> IN
  IF e.outcome = "ok" /\ k \notin DOMAIN memo
  THEN [x \in DOMAIN memo \cup {k} |-> IF x = k THEN e.cls ELSE memo[x]]
  ELSE memo
=============================================================================
