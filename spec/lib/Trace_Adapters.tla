------------------------- MODULE Trace_Adapters -------------------------
(* mem = [key |-> tid -> expected adapter key, first |-> <<tid, seed, nth reset since seeding>> -> obs digest,
          nth |-> tid -> <<seed, resets since that seed>>, obs_decl, act_decl] *)
EXTENDS Adapters, LibKit

Get(f, k, dflt) == IF k \in DOMAIN f THEN f[k] ELSE dflt
Upd(f, k, v) == [x \in DOMAIN f \cup {k} |-> IF x = k THEN v ELSE f[x]]

(* membership of the emitted gym observation leaves in the native declared spec (dtype, shape, bounds) *)
ByPath(dls, p) == { j \in 1..Len(dls) : dls[j].path = p }
LeafMemberIn(decl, lvs) ==
  /\ Len(lvs) = Len(decl)
  /\ \A j \in 1..Len(lvs) :
       \E d \in ByPath(decl, lvs[j].path) : LeafOK(lvs[j], decl[d]) /\ LeafBounds(lvs[j], decl[d])
ObsMember(lvs, e) == LeafMemberIn(mem.obs_decl, lvs)

SeedPos(e) ==      \* <<seed, index of this reset since the seeding>> under the documented schedule
  IF e.seed_arg >= 0 THEN <<e.seed_arg, 1>>
  ELSE LET p == Get(mem.nth, e.tid, <<-1, 0>>) IN <<p[1], p[2] + 1>>

Clauses(i) ==
  LET e == Ev(i) IN
  IF ~On("C15") THEN {} ELSE
  CASE e.k = "gym_init"  -> GymInitLaw(e)
    [] e.k = "gym_seed"  -> GymSeedLaw(e)
    [] e.k = "gym_reset" -> GymResetLaw(e, Get(mem.key, e.tid, "none"), Get(mem.first, <<e.tid, SeedPos(e)>>, "none"), ObsMember)
    [] e.k = "gym_step"  -> GymStepLaw(e, ObsMember)
    [] e.k = "gym_sample_action" ->
         SampledActionLaw(e, mem.act_decl)
         \cup { <<"C15.sampled_action_member", LeafOK(e.lv, mem.act_decl) /\ LeafBounds(e.lv, mem.act_decl)>> }
    [] e.k = "dm_init"   -> DMInitLaw(e)
    [] e.k = "dm_reset"  -> DMResetLaw(e, Get(mem.key, e.tid, "none"))
    [] e.k = "dm_step"   -> DMStepLaw(e)
    [] e.k \in {"m2s_reset", "m2s_step"} -> M2SLaw(e)
    [] OTHER -> { <<"MACHINERY.unknown_event_kind", FALSE>> }

MemNext(i) ==
  LET e == Ev(i) IN
  CASE e.k = "gym_init" ->
         [mem EXCEPT !.key = Upd(mem.key, e.tid, e.prng), !.nth = Upd(mem.nth, e.tid, <<e.seed, 0>>),
                     !.obs_decl = e.obs_decl, !.act_decl = e.act_decl]
    [] e.k = "gym_seed" ->
         [mem EXCEPT !.key = Upd(mem.key, e.tid, e.prng), !.nth = Upd(mem.nth, e.tid, <<e.seed, 0>>)]
    [] e.k = "gym_reset" ->
         LET pos == SeedPos(e) IN
         [mem EXCEPT !.key = Upd(mem.key, e.tid, e.split.R),           \* the SPEC's schedule: keep the second half
                     !.nth = Upd(mem.nth, e.tid, pos),
                     !.first = IF <<e.tid, pos>> \in DOMAIN mem.first THEN mem.first
                               ELSE Upd(mem.first, <<e.tid, pos>>, e.obs_d)]
    [] e.k = "dm_init"  -> [mem EXCEPT !.key = Upd(mem.key, e.tid, e.prng)]
    [] e.k = "dm_reset" -> [mem EXCEPT !.key = Upd(mem.key, e.tid, e.split.R)]
    [] OTHER -> mem

Init == LibInit([key |-> << >>, first |-> << >>, nth |-> << >>, obs_decl |-> << >>, act_decl |-> << >>])
Next == LibNext(Clauses, MemNext)
Spec == Init /\ [][Next]_lvars
=============================================================================
