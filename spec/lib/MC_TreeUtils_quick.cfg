SPECIFICATION Spec
CONSTANT MaxB = 2
INVARIANT SliceOfStack
INVARIANT SetIsLocal
INVARIANT ViewAgrees
INVARIANT EqLaws
CHECK_DEADLOCK FALSE
