--------------------------- MODULE Trace_Specs ---------------------------
(* C16: every recorded call on the real jumanji.specs is compared with SpecsAlgebra's prediction. *)
EXTENDS SpecsAlgebra, LibKit

Accepts(oc) == oc = "ok"
BoolOf(oc, b) == oc = (IF b THEN "true" ELSE "false")       \* a raise ("raise:...") matches neither

Clauses(i) ==
  LET e == Ev(i) IN
  IF ~On("C16") THEN {} ELSE
  CASE e.k = "generate" ->
         { <<"C16.generate_is_member", e.gen_outcome = "ok" /\ Member(e.spec, e.value)>>,
           <<"C16.generate_accepted_by_validate", e.validate_outcome = "ok">> }
    [] e.k = "validate" ->
         { <<"C16.validate_verdict", Accepts(e.outcome) <=> Member(e.spec, e.value)>> }
         \cup (IF "gym_convert" \in DOMAIN e
               THEN { <<"C16.gym_membership_agrees", e.gym_convert = "ok" /\ (Member(e.spec, e.value) => e.gym_contains)>>,
                      <<"C16.dm_membership_agrees", e.dm_convert = "ok" /\ (Member(e.spec, e.value) => e.dm_ok)>> }
               ELSE {})
    [] e.k = "eq" ->
         IF e.a.kind = e.b.kind
         THEN { <<"C16.eq_matches_model", BoolOf(e.outcome, SEq(e.a, e.b))>> }
              \cup (IF e.why \in {"same_object", "copy", "copy_sym"}
                    THEN { <<"C16.eq_reflexive", e.outcome = "true">> } ELSE {})
              \cup (IF e.why \in {"one_attribute_changed", "one_attribute_changed_sym"}
                    THEN { <<"C16.eq_discriminates", e.outcome = "false">> } ELSE {})
         ELSE {}
    [] e.k = "replace" ->
         { <<"C16.replace_changes_only_named", e.outcome = "ok" /\ ReplaceOK(e.spec, e.changes, e.result)>> }
         \cup (IF e.changes = <<>> THEN { <<"C16.replace_noargs_equal", e.eq_outcome = "true">> } ELSE {})
    [] e.k = "pickle" ->
         { <<"C16.pickle_roundtrip_equal", e.outcome = "ok" /\ SEq(e.spec, e.result) /\ e.eq_outcome = "true">> }
    [] e.k = "gym_sample" ->
         { <<"C16.gym_sample_valid", e.outcome = "ok" /\ Member(e.spec, e.value)>> }
    [] OTHER -> { <<"MACHINERY.unknown_event_kind", FALSE>> }

(* symmetry / transitivity are properties of the MODEL's SEq (checked in MC_SpecsAlgebra); since every recorded
   outcome must equal SEq, the implementation inherits them on the recorded pairs. *)
MemNext(i) == mem
Init == LibInit(0)
Next == LibNext(Clauses, MemNext)
Spec == Init /\ [][Next]_lvars
=============================================================================
