--------------------------- MODULE MC_Adapters ---------------------------
(* Design-level model of the adapters' key schedule over split-terms: seed(n) installs PRNGKey(n);
   reset uses the first half of split(key) and keeps the second.  TLC explores every interleaving of
   seed / reset / step up to MaxDepth and checks that (seed, position) determines the reset key
   (re-seeding reproduces the episode) and that reset keys never repeat within one seeding. *)
EXTENDS Integers, Sequences, FiniteSets, TLC
CONSTANTS Seeds, MaxDepth, KeepHalf       \* KeepHalf = "R" is the implementation; "L" is a decoy (reuses the reset key)
VARIABLES key, sd, cnt, log, n, held, op     \* op: the call made by the last step (read by the HIST driver)
vars == <<key, sd, cnt, log, n, held, op>>
KL(k) == Append(k, "L")
KR(k) == Append(k, "R")
Init == /\ sd \in Seeds /\ key = <<"root", sd>> /\ cnt = 0 /\ log = {} /\ n = 0 /\ held = <<>> /\ op = <<"init", sd>>
Seed(s) == /\ key' = <<"root", s>> /\ sd' = s /\ cnt' = 0 /\ op' = <<"seed", s>> /\ UNCHANGED <<log, held>>
Reset == /\ key' = (IF KeepHalf = "R" THEN KR(key) ELSE KL(key))
         /\ cnt' = cnt + 1
         /\ log' = log \cup { <<sd, cnt + 1, KL(key)>> }
         /\ held' = KL(key)
         /\ op' = <<"reset", 0>>
         /\ UNCHANGED sd
Step == held # <<>> /\ op' = <<"step", 0>> /\ UNCHANGED <<key, sd, cnt, log, held>>    \* step never touches the adapter key
Next == n < MaxDepth /\ n' = n + 1 /\ (Reset \/ Step \/ \E s \in Seeds : Seed(s))
Spec == Init /\ [][Next]_vars
Reproducible == \A x, y \in log : (x[1] = y[1] /\ x[2] = y[2]) => x[3] = y[3]
FreshWithinSeeding == \A x, y \in log : (x[1] = y[1] /\ x[2] # y[2]) => x[3] # y[3]
SeedsDiffer == \A x, y \in log : x[1] # y[1] => x[3] # y[3]
AdapterKeyNeverAResetKey == \A x \in log : x[3] # key
=============================================================================
