SPECIFICATION Spec
CONSTANTS NLanes = 3  MaxLen = 3  MaxDepth = 5  UseHalf = "L"
INVARIANT StacksAgree
INVARIANT Fresh
INVARIANT ResetIsFreshInstance
CHECK_DEADLOCK FALSE
