---------------------------- MODULE TreeUtils ----------------------------
(***************************************************************************)
(* Laws of jumanji.tree_utils and of the pytree equality helper.           *)
(* A batched tree is represented by its per-index VIEW: a sequence (one    *)
(* entry per index of the leading axis) of sequences of leaf digests.      *)
(*   Stack(ts)            = <<ts[1], ..., ts[B]>>                           *)
(*   Slice(v, i)          = v[i + 1]                                        *)
(*   AddElement(v, i, e)  = [v EXCEPT ![i + 1] = e]                         *)
(* For the equality helper leaves are described in full (shape, data).      *)
(***************************************************************************)
EXTENDS EnvKit

Stack(ts) == ts
Slice(v, i) == v[i + 1]
AddElement(v, i, e) == [v EXCEPT ![i + 1] = e]

(* elements of two leaves are equal: two float leaves (of any widths) -> the values, widened exactly to float64, coincide
   (w64: the bit patterns); otherwise the same dtype class -> exact encodings coincide; different classes (int vs float)
   -> the numeric values coincide (compared in exact quarters; the harness only builds such pairs from quarters) *)
SameElements(x, y) ==
  IF x.cls = "f" /\ y.cls = "f" THEN x.w64 = y.w64
  ELSE IF x.cls = y.cls THEN x.data = y.data ELSE x.exact4 /\ y.exact4 /\ x.num4 = y.num4
IsEqual(a, b) == /\ Len(a) = Len(b)
                 /\ \A j \in 1..Len(a) : a[j].shape = b[j].shape /\ SameElements(a[j], b[j])

TransposeLaw(e) ==
  { <<"C19.stack_view", e.outcome = "ok" /\ e.out_view = Stack(e.inputs) /\ e.out_shapes_ok>>,
    <<"C19.structure_preserved", e.out_treedef = e.in_treedef>>,
    <<"C19.dtype_preserved", e.out_dtypes = e.in_dtypes>> }
SliceLaw(e) ==
  { <<"C19.slice_of_stack", e.result = Slice(e.tree_view, e.i) /\ e.result = e.expected_input>>,
    <<"C19.structure_preserved", e.out_treedef = e.in_treedef>>,
    <<"C19.dtype_preserved", e.out_dtypes = e.in_dtypes>> }
AddElementLaw(e) ==
  { <<"C19.add_element_local", e.result_view = AddElement(e.tree_view, e.i, e.elem) /\ e.out_shapes_ok>>,
    <<"C19.structure_preserved", e.out_treedef = e.in_treedef>>,
    <<"C19.dtype_preserved", e.out_dtypes = e.in_dtypes>> }
IsEqualLaw(e) ==
  LET eq == IsEqual(e.a, e.b) IN
  { <<"C19.is_equal_truth", e.outcome = (IF eq THEN "true" ELSE "false")>>,
    <<"C19.assert_different_iff_not_equal", e.assert_different = (IF eq THEN "failed" ELSE "passed")>> }
=============================================================================
