--------------------------- MODULE Trace_PureFn ---------------------------
EXTENDS PureFn, LibKit
Clauses(i) ==
  LET e == Ev(i) IN
  IF ~On("C02") THEN {} ELSE
  CASE e.k = "call"   -> CallLaw(e, mem)
    [] e.k = "static" -> StaticLaw(e)
    [] OTHER -> { <<"MACHINERY.unknown_event_kind", FALSE>> }
MemNext(i) == IF Ev(i).k = "call" THEN MemoNext(Ev(i), mem) ELSE mem
Init == LibInit(<< >>)
Next == LibNext(Clauses, MemNext)
Spec == Init /\ [][Next]_lvars
=============================================================================
