SPECIFICATION Spec
CONSTANTS Seeds = {0, 1, 2}  MaxDepth = 8  KeepHalf = "R"
INVARIANT Reproducible
INVARIANT FreshWithinSeeding
INVARIANT SeedsDiffer
INVARIANT AdapterKeyNeverAResetKey
CHECK_DEADLOCK FALSE
