SPECIFICATION Spec
INVARIANT EqReflexive
INVARIANT EqSymmetric
INVARIANT EqTransitive
INVARIANT EqIsIdentityOfDefiningAttributes
INVARIANT GenerateIsMember
INVARIANT MemberExact
INVARIANT BoundsInclusive
INVARIANT ReplaceNoArgs
INVARIANT ReplaceNameOnly
CHECK_DEADLOCK FALSE
