--------------------------- MODULE MC_Registry ---------------------------
(* (1) the parser model over ALL strings up to MaxLen over a small alphabet: a string is accepted iff it is
   Format(name, digits) for a non-empty name over allowed characters and a non-empty digit string whose
   preceding "-v" is the last one (round trip), and canonical ids format back to themselves;
   (2) the registry as a state machine: register/make sequences over a few ids keep the invariants. *)
EXTENDS Registry
CONSTANTS MaxLen, Ids
VARIABLES reg, last
Alphabet == {"a", "B", "-", "v", "1", "0", " "}
Strings == UNION { [1..n -> Alphabet] : n \in 0..MaxLen }
RoundTrip == \A s \in Strings : LET p == Parse(s) IN p.ok => Format(p.name, p.digits) = s
Unambiguous == \A s \in Strings : \A k \in 1..Len(s) :
     \* any decomposition name ++ "-v" ++ digits with digits a maximal trailing digit run is the parse
     LET p == Parse(s) IN p.ok => (Len(p.digits) = TrailDigits(s) /\ Len(p.name) >= 1)
RejectsBad == \A s \in Strings : (\E j \in 1..Len(s) : s[j] = " ") => ~Parse(s).ok
RejectsVersionless == \A s \in Strings : TrailDigits(s) = 0 => ~Parse(s).ok
CanonicalFixpoint == \A s \in Strings : LET p == Parse(s) IN
     (p.ok /\ StripZeros(p.digits) = p.digits) => Parse(Format(p.name, StripZeros(p.digits))) = p

Init == reg = {} /\ last = "none"
Register(i) == IF i \in reg THEN reg' = reg /\ last' = "refused" ELSE reg' = reg \cup {i} /\ last' = "added"
Make(i) == reg' = reg /\ last' = (IF i \in reg THEN "made" ELSE "unknown")
Next == \E i \in Ids : Register(i) \/ Make(i)
Spec == Init /\ [][Next]_<<reg, last>>
RefusedKeeps == [][last' = "refused" => reg' = reg]_<<reg, last>>
Monotone == [][reg \subseteq reg']_<<reg, last>>
=============================================================================
