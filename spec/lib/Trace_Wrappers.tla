------------------------- MODULE Trace_Wrappers -------------------------
(* Trace specification for C13 / C14: mem = [used |-> keys passed to reset so far per trajectory,
   insts |-> instance digests seen per trajectory] - the specification's own bookkeeping. *)
EXTENDS Wrappers, LibKit

Used(tid)  == IF tid \in DOMAIN mem.used  THEN mem.used[tid]  ELSE {}
Insts(tid) == IF tid \in DOMAIN mem.insts THEN mem.insts[tid] ELSE {}

Clauses(i) ==
  LET e == Ev(i) IN
  CASE e.k = "ar_step"  -> IF On("C13") THEN ARStepLaw(e, Used(e.tid), Insts(e.tid)) ELSE {}
    [] e.k = "ar_reset" -> IF On("C13") THEN ARResetLaw(e) ELSE {}
    [] e.k = "var_lane" -> IF On("C14") THEN { <<"C14.vmapautoreset_lane_" \o c[1], c[2]>> : c \in ARStepLaw(e, Used(e.tid), Insts(e.tid)) } ELSE {}
    [] e.k \in {"vmap_reset", "vmap_step"} -> IF On("C14") THEN VmapLaneLaw(e) ELSE {}
    [] e.k \in {"stacks_reset", "stacks_step"} -> IF On("C14") THEN StacksLaw(e) ELSE {}
    [] e.k = "render" -> IF On("C14") THEN RenderLaw(e) ELSE {}
    [] OTHER -> { <<"MACHINERY.unknown_event_kind", FALSE>> }

Upd(f, k, v) == [x \in DOMAIN f \cup {k} |-> IF x = k THEN v ELSE f[x]]

MemNext(i) ==
  LET e == Ev(i) IN
  CASE e.k = "ar_reset" ->
         [used |-> Upd(mem.used, e.tid, {e.key}), insts |-> Upd(mem.insts, e.tid, {e.inst_d})]
    [] e.k \in {"ar_step", "var_lane"} /\ e.inner.type = LAST ->
         [used |-> Upd(mem.used, e.tid, Used(e.tid) \cup {e.split.L}),
          insts |-> Upd(mem.insts, e.tid, Insts(e.tid) \cup {e.out.inst_d})]
    [] OTHER -> mem

Init == LibInit([used |-> << >>, insts |-> << >>])
Next == LibNext(Clauses, MemNext)
Spec == Init /\ [][Next]_lvars
=============================================================================
