SPECIFICATION Spec
CONSTANTS NLanes = 2  MaxLen = 2  MaxDepth = 4  UseHalf = "K"
INVARIANT StacksAgree
INVARIANT Fresh
INVARIANT ResetIsFreshInstance
CHECK_DEADLOCK FALSE
