SPECIFICATION Spec
CONSTANTS Args = {1, 2}  Modes = {"eager", "jit", "vmap", "scan", "fresh"}  MaxCalls = 4  Hidden = FALSE
INVARIANT NeverRejects
CHECK_DEADLOCK FALSE
