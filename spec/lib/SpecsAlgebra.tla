---------------------------- MODULE SpecsAlgebra ----------------------------
(***************************************************************************)
(* Model of jumanji.specs.  A spec description is a record                 *)
(*   [kind, name, shape, dtype, min, max, num_values, children]            *)
(* kind in {"Array","BoundedArray","DiscreteArray","MultiDiscreteArray",   *)
(* "Spec"}; min/max are the bounds broadcast to the full shape, flattened, *)
(* as integers (floats through a monotone integer image, so every          *)
(* comparison below is an exact integer comparison); children is a         *)
(* sequence of [key, spec].  A value description is                        *)
(*   [kind |-> "leaf", shape, dtype, data, nan]                            *)
(* | [kind |-> "tree", fields |-> sequence of [key, value]]                *)
(* | [kind |-> "other"]  (anything that is not a named tuple / dataclass / *)
(*                        array-convertible leaf).                         *)
(***************************************************************************)
EXTENDS EnvKit

IsLeafKind(k) == k \in {"Array", "BoundedArray", "DiscreteArray", "MultiDiscreteArray"}
Bounded(k)    == k \in {"BoundedArray", "DiscreteArray", "MultiDiscreteArray"}

Keys(sq) == { sq[j].key : j \in 1..Len(sq) }
Child(sq, k) == (CHOOSE j \in 1..Len(sq) : sq[j].key = k)

(* ---- membership: what validate must accept ---- *)
LeafMember(S, V) ==
  /\ V.kind = "leaf"
  /\ V.shape = S.shape
  /\ V.dtype = S.dtype
  /\ Bounded(S.kind) =>
       /\ ~V.nan
       /\ Len(V.data) = Len(S.min)
       /\ \A j \in 1..Len(V.data) : S.min[j] <= V.data[j] /\ V.data[j] <= S.max[j]

RECURSIVE Member(_, _)
Member(S, V) ==
  IF IsLeafKind(S.kind) THEN LeafMember(S, V)
  ELSE /\ V.kind = "tree"
       /\ Keys(V.fields) = Keys(S.children)
       /\ Len(V.fields) = Len(S.children)
       /\ \A k \in Keys(S.children) :
            Member(S.children[Child(S.children, k)].spec, V.fields[Child(V.fields, k)].value)

(* ---- equality among specs of the same kind ---- *)
RECURSIVE SEq(_, _)
SEq(a, b) ==
  /\ a.kind = b.kind
  /\ CASE a.kind = "Array"              -> a.shape = b.shape /\ a.dtype = b.dtype /\ a.name = b.name
       [] a.kind = "BoundedArray"       -> a.shape = b.shape /\ a.dtype = b.dtype /\ a.name = b.name
                                           /\ a.min = b.min /\ a.max = b.max
       [] a.kind = "DiscreteArray"      -> a.num_values = b.num_values /\ a.dtype = b.dtype /\ a.name = b.name
       [] a.kind = "MultiDiscreteArray" -> a.num_values = b.num_values /\ a.shape = b.shape /\ a.dtype = b.dtype
                                           /\ a.name = b.name
       [] a.kind = "Spec"               -> /\ Keys(a.children) = Keys(b.children)
                                           /\ Len(a.children) = Len(b.children)
                                           /\ \A k \in Keys(a.children) :
                                                SEq(a.children[Child(a.children, k)].spec, b.children[Child(b.children, k)].spec)

(* ---- replace: exactly the named attributes change ---- *)
Canon(s) ==       \* the attributes that define a spec (derived bounds of discrete kinds are not independent)
  [kind |-> s.kind, name |-> s.name, shape |-> s.shape, dtype |-> s.dtype,
   min |-> IF s.kind = "BoundedArray" THEN s.min ELSE <<>>,
   max |-> IF s.kind = "BoundedArray" THEN s.max ELSE <<>>,
   num_values |-> s.num_values]
ApplyChange(c, ch) ==
  CASE ch.attr = "name"       -> [c EXCEPT !.name = ch.value]
    [] ch.attr = "shape"      -> [c EXCEPT !.shape = ch.value]
    [] ch.attr = "dtype"      -> [c EXCEPT !.dtype = ch.value]
    [] ch.attr = "maximum"    -> [c EXCEPT !.max = ch.value]
    [] ch.attr = "minimum"    -> [c EXCEPT !.min = ch.value]
    [] ch.attr = "num_values" -> [c EXCEPT !.num_values = ch.value]
RECURSIVE ApplyAll(_, _)
ApplyAll(c, chs) == IF chs = <<>> THEN c ELSE ApplyAll(ApplyChange(c, chs[1]), Tail(chs))

ReplaceOK(spec, changes, result) ==
  IF spec.kind = "Spec"
  THEN /\ result.kind = "Spec" /\ result.name = spec.name
       /\ Keys(result.children) = Keys(spec.children) \cup { changes[j].key : j \in 1..Len(changes) }
       /\ \A k \in Keys(result.children) :
            LET ch == { j \in 1..Len(changes) : changes[j].key = k } IN
            IF ch # {} THEN SEq(result.children[Child(result.children, k)].spec, changes[CHOOSE j \in ch : TRUE].value)
            ELSE SEq(result.children[Child(result.children, k)].spec, spec.children[Child(spec.children, k)].spec)
  ELSE Canon(result) = ApplyAll(Canon(spec), changes)
=============================================================================
