------------------------- MODULE MC_SpecsAlgebra -------------------------
(* Exhaustive check of the algebraic laws of the MODEL over a small universe of spec and value
   descriptions: equality is an equivalence that coincides with structural identity of the defining
   attributes (so it distinguishes any difference in shape, dtype, bounds, num_values or name),
   generated values are members, membership is monotone in the bounds, replace() is the identity. *)
EXTENDS SpecsAlgebra
VARIABLE dummy

Shapes == { <<>>, <<2>> }
DTypes == { "int32", "float32" }
Names  == { "", "n" }
Size(sh) == IF sh = <<>> THEN 1 ELSE sh[1]
Vals == 0..2
Vecs(n) == [1..n -> Vals]
Mk(k, nm, sh, dt, mn, mx, nv) == [kind |-> k, name |-> nm, shape |-> sh, dtype |-> dt, min |-> mn, max |-> mx,
                                  num_values |-> nv, children |-> <<>>]
Arrays   == { Mk("Array", nm, sh, dt, <<>>, <<>>, <<>>) : nm \in Names, sh \in Shapes, dt \in DTypes }
Boundeds == UNION { { Mk("BoundedArray", nm, sh, dt, mn, mx, <<>>) :
                        mn \in Vecs(Size(sh)), mx \in { v \in Vecs(Size(sh)) : \A j \in 1..Size(sh) : TRUE } } :
                    nm \in Names, sh \in Shapes, dt \in DTypes }
WFBounded == { s \in Boundeds : \A j \in 1..Len(s.min) : s.min[j] <= s.max[j] }
Discretes == { Mk("DiscreteArray", nm, <<>>, "int32", <<0>>, <<nv - 1>>, <<nv>>) : nm \in Names, nv \in 1..3 }
Leaves == Arrays \cup WFBounded \cup Discretes
SmallLeaves == { s \in Leaves : s.name = "" /\ s.dtype = "int32" }
Nested == { [kind |-> "Spec", name |-> "N", shape |-> <<>>, dtype |-> "none", min |-> <<>>, max |-> <<>>, num_values |-> <<>>,
             children |-> << [key |-> "u", spec |-> a], [key |-> "v", spec |-> b] >>] :
            a \in { s \in SmallLeaves : s.shape = <<>> }, b \in { s \in SmallLeaves : s.kind # "BoundedArray" } }
Universe == Leaves \cup Nested

Values == { [kind |-> "leaf", shape |-> sh, dtype |-> dt, data |-> d, nan |-> FALSE, fields |-> <<>>] :
              sh \in Shapes, dt \in DTypes, d \in UNION { [1..n -> 0..3] : n \in {1, 2} } }
WFValues == { v \in Values : Len(v.data) = Size(v.shape) }

Generate(s) ==   \* zeros for Array, the minimum for bounded kinds (what generate_value documents)
  [kind |-> "leaf", shape |-> s.shape, dtype |-> s.dtype, nan |-> FALSE, fields |-> <<>>,
   data |-> IF Bounded(s.kind) THEN s.min ELSE [j \in 1..Size(s.shape) |-> 0]]

EqReflexive   == \A a \in Universe : SEq(a, a)
EqSymmetric   == \A a, b \in Universe : SEq(a, b) = SEq(b, a)
EqTransitive  == \A a, b, c \in SmallLeaves \cup Nested : (SEq(a, b) /\ SEq(b, c)) => SEq(a, c)
EqIsIdentityOfDefiningAttributes == \A a, b \in Leaves : SEq(a, b) <=> (Canon(a) = Canon(b))
GenerateIsMember == \A s \in Leaves : Member(s, Generate(s))
MemberExact ==     \* membership is exactly shape, dtype and inclusive per-element bounds
  \A s \in WFBounded : \A v \in WFValues :
     Member(s, v) <=> (v.shape = s.shape /\ v.dtype = s.dtype /\ \A j \in 1..Len(v.data) : s.min[j] <= v.data[j] /\ v.data[j] <= s.max[j])
BoundsInclusive == \A s \in WFBounded :
     Member(s, [Generate(s) EXCEPT !.data = s.max]) /\ Member(s, [Generate(s) EXCEPT !.data = s.min])
ReplaceNoArgs == \A s \in Universe : ReplaceOK(s, <<>>, s)
ReplaceNameOnly == \A s \in Leaves : \A r \in Leaves :
     ReplaceOK(s, << [attr |-> "name", value |-> "n"] >>, r) <=> (Canon(r) = [Canon(s) EXCEPT !.name = "n"])

Init == dummy = 0
Next == UNCHANGED dummy
Spec == Init /\ [][Next]_dummy
=============================================================================
