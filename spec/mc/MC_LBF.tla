------------------------------ MODULE MC_LBF ------------------------------
(* Bounded model of Level-Based Foraging: NA agents and NF food items on a small G x G grid, every
   placement of the agents on distinct free cells (food on the placements listed in FoodPlacements),
   the agent levels in AgentLevels, every food level from 1 to the cap (sum of the three lowest agent
   levels, the force_coop value included), every joint action (legal or not, also after the end).

   Two families of behaviours share the model:
   * tl = NoLimit: no time limit in reach; the step counter is hidden by the VIEW (the rules read it
     only through the comparison with the limit), so the whole game graph is visited.  Properties of
     one transition are stated as invariants quantified over all joint actions of the current state
     (the dynamics are deterministic).
   * tl \in Limits: the time limits are played out with the true step counter, one step beyond the
     limit, from the placements whose agent 0 starts on TimedStarts (the time rule does not look at
     the grid).

   `ret` is the return summed over the agents, in units of 1 / (MCUnit * total food level), so that
   normalised rewards are integers. *)
EXTENDS LBF

CONSTANTS Limits,            \* time limits played out
          FoodPlacements,    \* set of sequences (length NF) of food cells
          AgentLevels,       \* set of sequences (length NA) of agent levels
          TimedStarts,       \* start cells of agent 0 in the timed family
          TimedFood          \* food placements of the timed family
VARIABLES s, type, tl, ret
vars == <<s, type, tl, ret>>

MCCfg3x3 == [grid_size |-> 3, num_agents |-> 2, num_food |-> 1, fov |-> 1, max_agent_level |-> 2,
             force_coop |-> FALSE, time_limit |-> 3, grid_observation |-> FALSE, normalize_reward |-> TRUE,
             penalty_num |-> 0, penalty_den |-> 1, injected |-> FALSE]
MCCfg4x4 == [grid_size |-> 4, num_agents |-> 2, num_food |-> 2, fov |-> 1, max_agent_level |-> 2,
             force_coop |-> FALSE, time_limit |-> 3, grid_observation |-> FALSE, normalize_reward |-> TRUE,
             penalty_num |-> 0, penalty_den |-> 1, injected |-> FALSE]

AllCells0 == (0..(G - 1)) \X (0..(G - 1))
Food3Sym == { << <<1, 1>> >>, << <<0, 1>> >>, << <<0, 0>> >> }      \* centre, edge, corner: the symmetry classes of 3 x 3
Food3All == { <<c>> : c \in AllCells0 }
Food3Centre == { << <<1, 1>> >> }
Food4Two == { << <<1, 1>>, <<2, 2>> >>, << <<1, 1>>, <<1, 3>> >>, << <<0, 0>>, <<0, 2>> >> }
LevelsQuick == { <<1, 2>>, <<2, 2>> }
LevelsAll == [1..NA -> 1..Cfg.max_agent_level]
Levels12 == { <<1, 2>> }
StartEdge == { <<0, 1>> }
StartAny == AllCells0

MCUnit == 60                                  \* divisible by every possible sum of loading levels (1..6)
ASSUME NA * Cfg.max_agent_level <= 6

CapOf(alv) == SumSeq(SubSeq(SortAsc(alv), 1, Min2(3, NA)))
AgentPlacements(fp) ==
  { ap \in [1..NA -> AllCells0] : /\ \A x, y \in 1..NA : x # y => ap[x] # ap[y]
                                  /\ \A x \in 1..NA : \A f \in 1..NF : ap[x] # fp[f] }
Instance(fp, flv, ap, alv) ==
  [agents |-> [id |-> [k \in 1..NA |-> k - 1], position |-> ap, level |-> alv, loading |-> [k \in 1..NA |-> FALSE]],
   food_items |-> [id |-> [f \in 1..NF |-> f - 1], position |-> fp, level |-> flv, eaten |-> [f \in 1..NF |-> FALSE]],
   step_count |-> 0]
Instances(timed) ==
  { Instance(q[1], q[2], q[3], q[4]) :
      q \in { p \in FoodPlacements \X [1..NF -> 1..(NA * Cfg.max_agent_level)] \X [1..NA -> AllCells0] \X AgentLevels :
                /\ p[3] \in AgentPlacements(p[1])
                /\ \A f \in 1..NF : p[2][f] <= CapOf(p[4])
                /\ timed => (p[3][1] \in TimedStarts /\ p[1] \in TimedFood) } }

NoLimit == 99
Init ==
  /\ \/ tl = NoLimit /\ s \in Instances(FALSE)
     \/ tl \in Limits /\ s \in Instances(TRUE)
  /\ type = FIRST
  /\ ret = 0

Unlimited == tl = NoLimit
IsLastMC(t) == IF Unlimited THEN AllEaten(t) ELSE IsLastT(t, tl)

\* normalised reward of agent k in units of 1 / (MCUnit * total food level), o the outcome of the joint action
RewardScaledO(st, o, k) ==
  SumFn([f \in Foods |-> IF k \in o.loaders[f] /\ o.eats[f]
                         THEN LvlA(st, k) * LvlF(st, f) * (MCUnit \div o.sum[f]) ELSE 0], Foods)
\* one joint action evaluated once: successor, scaled and fixed-point reward vectors (indexed by agent id + 1)
StepAll(st, act) ==
  LET o == Outcome(st, act) IN
  [t |-> NextStateO(st, act, o), o |-> o,
   rw |-> [k \in 1..NA |-> RewardScaledO(st, o, k - 1)],
   fx |-> RewardVecFxO(st, o)]

Step(a) ==
  LET r == TLCEval(StepAll(s, a)) IN
  /\ s' = r.t
  /\ type' = IF IsLastMC(r.t) THEN LAST ELSE MID
  /\ ret' = ret + SumSeq(r.rw)
  /\ tl' = tl

Next == \E a \in JointActions : Step(a)
Spec == Init /\ [][Next]_vars

Bounded == Unlimited \/ s.step_count <= tl + 1
View == <<s.agents, s.food_items, type, tl, ret, IF Unlimited THEN 0 ELSE s.step_count>>

Solo(k, m) == [j \in 1..NA |-> IF j = k + 1 THEN m ELSE NOOP]

(* ---- properties of one state ---- *)
(* C03 *) Protocol ==
  /\ type \in {FIRST, MID, LAST}
  /\ (type = FIRST) => s.step_count = 0
  /\ (type = MID) => (DiscountOf(s) = 1 /\ ~AllEaten(s))
  /\ (type = LAST) => \/ AllEaten(s) /\ DiscountOf(s) = 0                                \* termination
                      \/ ~Unlimited /\ s.step_count >= tl /\ ~AllEaten(s) /\ DiscountOf(s) = 1   \* truncation
(* C10 *) InitWellFormed == type = FIRST => (PhysInv(s) /\ FreshInstance(s) /\ FoodReachable(s))
(* C07 *) PhysOK == PhysInv(s) /\ IdsFixed(s)
(* C08 *) ReturnIsCollectedShare == ret = MCUnit * EatenLevel(s)
(* C08 *) NormalisedTotalOne == AllEaten(s) => ret = MCUnit * TotalFoodLevel(s)
(* C11 *) TimeLimitExact == (~Unlimited /\ type # FIRST) =>
  /\ (s.step_count >= tl => type = LAST)
  /\ (type = MID => s.step_count < tl)
  /\ ((type = LAST /\ s.step_count < tl) => AllEaten(s))
(* C04: the rules agree with the dynamics - an agent acting alone moves iff its move is allowed and
   takes part in loading some food iff load is allowed *)
MaskSound == Unlimited => \A k \in Agents :
  /\ \A m \in MoveActs : LegalAg(s, k, m) <=> PosA(NextState(s, Solo(k, m)), k) = Shift(PosA(s, k), m)
  /\ LegalAg(s, k, LOAD) <=> \E f \in Foods : k \in Loaders(s, Solo(k, LOAD), f)
  /\ LegalAg(s, k, NOOP)
(* C12: the two observers agree with each other and with the state: every entity in view is reported
   once, at the cell it occupies; nothing out of view is reported *)
Decode(k, tr) == <<tr[1] + WinOrigin(PosA(s, k))[1], tr[2] + WinOrigin(PosA(s, k))[2]>>
InWindow(k, q) == <<q[1] - PosA(s, k)[1] + Fov + 1, q[2] - PosA(s, k)[2] + Fov + 1>>
ObsAgrees == Unlimited => \A k \in Agents :
  LET vv == Triples(s, k)  gv == GridView(s, k) IN
  /\ vv[NF + 1] # Hidden /\ Decode(k, vv[NF + 1]) = PosA(s, k) /\ vv[NF + 1][3] = LvlA(s, k)
  /\ gv[1][Fov + 1][Fov + 1] = LvlA(s, k) /\ gv[3][Fov + 1][Fov + 1] = 0
  /\ \A j \in Agents \ {k} :
       LET tr == vv[NF + 1 + (IF j < k THEN j + 1 ELSE j)] IN
       IF Visible(PosA(s, k), PosA(s, j))
       THEN /\ Decode(k, tr) = PosA(s, j) /\ tr[3] = LvlA(s, j)
            /\ gv[1][InWindow(k, PosA(s, j))[1]][InWindow(k, PosA(s, j))[2]] = LvlA(s, j)
       ELSE tr = Hidden
  /\ \A f \in Foods :
       IF ~EatenF(s, f) /\ Visible(PosA(s, k), PosF(s, f))
       THEN /\ Decode(k, vv[f + 1]) = PosF(s, f) /\ vv[f + 1][3] = LvlF(s, f)
            /\ gv[2][InWindow(k, PosF(s, f))[1]][InWindow(k, PosF(s, f))[2]] = LvlF(s, f)
       ELSE vv[f + 1] = Hidden
  \* the layers hold nothing else, and a window cell is accessible iff it is an empty cell of the grid
  /\ SumTo([i \in 1..WinW |-> SumSeq(gv[1][i])], WinW)
       = SumFn([j \in Agents |-> IF Visible(PosA(s, k), PosA(s, j)) THEN LvlA(s, j) ELSE 0], Agents)
  /\ SumTo([i \in 1..WinW |-> SumSeq(gv[2][i])], WinW)
       = SumFn([f \in Foods |-> IF ~EatenF(s, f) /\ Visible(PosA(s, k), PosF(s, f)) THEN LvlF(s, f) ELSE 0], Foods)
  /\ \A i, j \in 1..WinW :
       gv[3][i][j] = (IF Inside(WinCell(PosA(s, k), i, j)) /\ WinCell(PosA(s, k), i, j) \notin OccupiedCells(s) THEN 1 ELSE 0)
  \* the mask shown is the legality of the rules, noop always allowed
  /\ Obs(s).action_mask[k + 1][1] /\ \A m \in Actions : Obs(s).action_mask[k + 1][m + 1] = LegalAg(s, k, m)

(* ---- properties of one transition s --a--> r.t (r = StepAll(s, a)) ---- *)
Aim(a, k) == Shift(PosA(s, k), a[k + 1])
(* C04 / C09: an allowed move succeeds unless another agent with an allowed move aims at the same cell, in
   which case both stay *)
LegalNeverInvalid(a, r) ==
  \A k \in Agents : (a[k + 1] \in MoveActs /\ LegalAg(s, k, a[k + 1])) =>
     LET rivals == { j \in Agents \ {k} : a[j + 1] \in MoveActs /\ LegalAg(s, j, a[j + 1]) /\ Aim(a, j) = Aim(a, k) } IN
     IF rivals = {} THEN PosA(r.t, k) = Aim(a, k)
     ELSE PosA(r.t, k) = PosA(s, k) /\ \A j \in rivals : PosA(r.t, j) = PosA(s, j)
(* C05 *) InvalidNoEffect(a, r) ==
  \A k \in Agents : ~LegalAg(s, k, a[k + 1]) =>
     /\ PosA(r.t, k) = PosA(s, k)
     /\ LvlA(r.t, k) = LvlA(s, k)
     /\ r.rw[k + 1] = 0 /\ r.fx[k + 1] = 0
     /\ \A f \in Foods : k \notin r.o.loaders[f]
(* C05 *) AllInvalidChangesNothing(a, r) ==
  (\A k \in Agents : ~LegalAg(s, k, a[k + 1]) \/ a[k + 1] = NOOP) =>
     /\ r.t.agents.position = s.agents.position /\ r.t.food_items = s.food_items
     /\ SumSeq(r.rw) = 0 /\ (AllEaten(r.t) <=> AllEaten(s))
(* C07 *) Conservation(a, r) ==
  /\ PhysInv(r.t) /\ IdsFixed(r.t) /\ OccupancyLaw(s, r.t) /\ LevelsConserved(s, r.t) /\ FoodStays(s, r.t)
  /\ EatenMonotone(s, r.t) /\ OneCellMoves(s, r.t) /\ r.t.step_count = s.step_count + 1
(* C09: the loading rule stated on the pre-state (loading agents do not move) *)
EatRule(a, r) ==
  /\ \A f \in Foods :
       LET ld == { k \in Agents : a[k + 1] = LOAD /\ Adjacent4(PosA(s, k), PosF(s, f)) }
           sm == SumFn([k \in Agents |-> LvlA(s, k)], ld) IN
       EatenF(r.t, f) <=> (EatenF(s, f) \/ (ld # {} /\ sm >= LvlF(s, f)))
  /\ \A k \in Agents : r.t.agents.loading[k + 1] <=> a[k + 1] = LOAD
(* C08 / C09: the rewards of a step sum to the share of the food eaten in it and are split in proportion
   to the levels of the agents that loaded it; the fixed-point reward agrees *)
RewardSplit(a, r) ==
  /\ SumSeq(r.rw) = MCUnit * (EatenLevel(r.t) - EatenLevel(s))
  /\ \A k \in 1..NA : r.rw[k] >= 0
  /\ \A k \in 1..NA :
       Abs(r.fx[k] * MCUnit * TotalFoodLevel(s) - r.rw[k] * FX) <= RewardTol * MCUnit * TotalFoodLevel(s)
  /\ \A k \in Agents : r.rw[k + 1] > 0 =>
        (a[k + 1] = LOAD /\ \E f \in Foods : ~EatenF(s, f) /\ EatenF(r.t, f) /\ Adjacent4(PosA(s, k), PosF(s, f)))
  /\ NF = 1 => \A k, j \in Agents : (r.rw[k + 1] > 0 /\ r.rw[j + 1] > 0)
                   => r.rw[k + 1] * LvlA(s, j) = r.rw[j + 1] * LvlA(s, k)
(* C09 *) DoneIsAbsorbing(a, r) == AllEaten(s) => (r.t.food_items = s.food_items /\ SumSeq(r.rw) = 0 /\ AllEaten(r.t))
(* the one-pass Outcome agrees with the plain statement of the rules *)
OutcomeAgrees(a, r) ==
  /\ \A k \in Agents : r.o.pos[k] = NewPos(s, a, k)
  /\ \A f \in Foods : /\ r.o.loaders[f] = Loaders(s, a, f) /\ r.o.sum[f] = LoadSum(s, a, f)
                       /\ r.o.eats[f] = EatenNow(s, a, f) /\ r.o.fails[f] = FailedLoad(s, a, f)

ForAllSteps(P(_, _)) == Unlimited => \A a \in JointActions : LET r == TLCEval(StepAll(s, a)) IN P(a, r)
TransitionsOK == ForAllSteps(LAMBDA a, r :
  /\ LegalNeverInvalid(a, r) /\ InvalidNoEffect(a, r) /\ AllInvalidChangesNothing(a, r) /\ Conservation(a, r)
  /\ EatRule(a, r) /\ RewardSplit(a, r) /\ DoneIsAbsorbing(a, r) /\ OutcomeAgrees(a, r))
Tr_LegalNeverInvalid == ForAllSteps(LegalNeverInvalid)
Tr_InvalidNoEffect == ForAllSteps(InvalidNoEffect)
Tr_AllInvalidChangesNothing == ForAllSteps(AllInvalidChangesNothing)
Tr_Conservation == ForAllSteps(Conservation)
Tr_EatRule == ForAllSteps(EatRule)
Tr_RewardSplit == ForAllSteps(RewardSplit)
Tr_DoneIsAbsorbing == ForAllSteps(DoneIsAbsorbing)
Tr_OutcomeAgrees == ForAllSteps(OutcomeAgrees)
=============================================================================
