-------------------------- MODULE MC_RubiksCube --------------------------
(* Bounded model of the Rubik's cube:
   (1) the group laws of the geometric model as CONSTANT-LEVEL checks (ASSUME, evaluated once) over all
       18 * (n div 2) moves and all ordered pairs of moves;
   (2) exhaustive exploration to depth Depth from the solved cube with every action, steps after
       termination included, checking protocol (C03), time limit (C11), observation (C12) and the
       C17 invariants (multiset, solved test, reachable solved states are rotated goals). *)
EXTENDS RubiksCube

CONSTANT Depth
VARIABLES s, last
vars == <<s, last>>

MCCfgN2T1 == [cube_size |-> 2, time_limit |-> 1, num_scrambles |-> 0, mode |-> "scramble", label |-> "colours"]
MCCfgN2T2 == [cube_size |-> 2, time_limit |-> 2, num_scrambles |-> 0, mode |-> "scramble", label |-> "colours"]
MCCfgN2T3 == [cube_size |-> 2, time_limit |-> 3, num_scrambles |-> 0, mode |-> "scramble", label |-> "colours"]
MCCfgN3T2 == [cube_size |-> 3, time_limit |-> 2, num_scrambles |-> 0, mode |-> "scramble", label |-> "colours"]
MCCfgN3T3 == [cube_size |-> 3, time_limit |-> 3, num_scrambles |-> 0, mode |-> "scramble", label |-> "colours"]
MCCfgN4T2 == [cube_size |-> 4, time_limit |-> 2, num_scrambles |-> 0, mode |-> "scramble", label |-> "colours"]
MCCfgN5T2 == [cube_size |-> 5, time_limit |-> 2, num_scrambles |-> 0, mode |-> "scramble", label |-> "colours"]

(* ------------------------------------------------------------------ *)
(* (1) constant-level laws of the model                                *)
(* ------------------------------------------------------------------ *)
P(a) == MovePerm(a)
Fl(f, d, m) == FlatOf(<<f, d, m>>)
FD == FaceIds \X (0..(ND - 1))
Axis(f) == CASE f \in {UP, DOWN} -> 3 [] f \in {FRONT, BACK} -> 2 [] f \in {LEFT, RIGHT} -> 1
\* the cell (cubie) a sticker is glued to: one doubled unit inwards from the surface
CellOfSticker(k) == LET p == PosOf[k]  nn == Normal(FaceOf(k)) IN <<p[1] - nn[1], p[2] - nn[2], p[3] - nn[3]>>
\* where the sticker at 0-based index k goes under flat action a
DestOf(a, k) == CHOOSE j \in 0..(K - 1) : MoveSrc[a][j] = k

\* the K stickers sit at K distinct surface points, each on the plane of its own face
LawGeometry ==
  /\ Cardinality({ PosOf[k] : k \in 0..(K - 1) }) = K
  /\ \A k \in 0..(K - 1) : DistFromFace(FaceOf(k), PosOf[k]) = 0 /\ IdxOf[PosOf[k]] = k
  /\ \A k \in 0..(K - 1) : \A j \in 1..3 : CellOfSticker(k)[j] \in { Od(x) : x \in 0..(N - 1) }
LawEncoding ==
  /\ \A u \in ActionTriples : FlatOf(u) \in FlatActions /\ UnflatOf(FlatOf(u)) = u
  /\ \A a \in FlatActions : UnflatOf(a) \in ActionTriples /\ FlatOf(UnflatOf(a)) = a
  /\ Cardinality(ActionTriples) = NM
LawPermutation == \A a \in FlatActions : IsPerm(P(a)) /\ P(a) # IdFlat
LawDistinctMoves == \A a, b \in FlatActions : a # b => P(a) # P(b)
\* composition table of the three amounts of one layer
LawCwCcw == \A fd \in FD : /\ PermCompose(P(Fl(fd[1], fd[2], 0)), P(Fl(fd[1], fd[2], 1))) = IdFlat
                           /\ PermCompose(P(Fl(fd[1], fd[2], 1)), P(Fl(fd[1], fd[2], 0))) = IdFlat
LawHalf == \A fd \in FD : LET cw == P(Fl(fd[1], fd[2], 0))  ccw == P(Fl(fd[1], fd[2], 1))  h == P(Fl(fd[1], fd[2], 2)) IN
             /\ h = PermCompose(cw, cw) /\ h = PermCompose(ccw, ccw) /\ PermCompose(h, h) = IdFlat
             /\ PermCompose(cw, h) = ccw /\ PermCompose(h, cw) = ccw /\ PermCompose(ccw, h) = cw
LawFour == \A fd \in FD : \A m \in {0, 1} :
             LET q == P(Fl(fd[1], fd[2], m))  q2 == PermCompose(q, q) IN PermCompose(q2, q2) = IdFlat /\ q2 # IdFlat
\* all ordered pairs of moves: two moves commute exactly when their axes are parallel
LawCommute == \A a, b \in FlatActions :
                (PermCompose(P(a), P(b)) = PermCompose(P(b), P(a))) <=> (Axis(UnflatOf(a)[1]) = Axis(UnflatOf(b)[1]))
\* rigidity: stickers glued to the same cubie stay together, a move moves exactly the stickers of one layer
\* (n^2 cubies for an inner layer ring: 4n stickers; outer layer: 4n + n^2), and fixes all others
LawRigid ==
  LET cell == TLCEval([k \in 0..(K - 1) |-> CellOfSticker(k)])
      mates == TLCEval({ pr \in (0..(K - 1)) \X (0..(K - 1)) : pr[1] < pr[2] /\ cell[pr[1]] = cell[pr[2]] })
  IN
  /\ Cardinality(mates) = 12 * (N - 2) + 8 * 3            \* edge cubies carry 2 stickers, corners 3
  /\ \A a \in FlatActions :
       LET dest == TLCEval([k \in 0..(K - 1) |-> DestOf(a, k)])
           moved == { k \in 0..(K - 1) : MoveSrc[a][k] # k }
           d == UnflatOf(a)[2]
       IN /\ \A pr \in mates : cell[dest[pr[1]]] = cell[dest[pr[2]]]
          /\ Cardinality(moved) = 4 * N + (IF d = 0 THEN NN - (IF N % 2 = 1 THEN 1 ELSE 0) ELSE 0)
\* colourings: the model move on the solved cube agrees with permuting colours, and conserves the multiset
LawColours == \A a \in FlatActions : LET c == ApplyFlat(SolvedFlat, a) IN
                 SameMultiset(c, SolvedFlat) /\ ~Solved(c) /\ c = [k \in 1..K |-> SolvedFlat[P(a)[k] + 1]]

ASSUME LawGeometry
ASSUME LawEncoding
ASSUME LawPermutation
ASSUME LawDistinctMoves
ASSUME LawCwCcw
ASSUME LawHalf
ASSUME LawFour
ASSUME LawCommute
ASSUME LawRigid
ASSUME LawColours

(* ------------------------------------------------------------------ *)
(* (2) behaviours                                                      *)
(* ------------------------------------------------------------------ *)
\* the 24 rotations of the whole cube, generated by quarter turns of the whole cube about x and z
WholeTurn(f) == [k \in 1..K |-> IdxOf[Quarters(f, PosOf[k - 1], 3)]]
RECURSIVE Closure(_)
Closure(S) == LET T == S \cup { PermCompose(p, g) : p \in S, g \in {WholeTurn(UP), WholeTurn(RIGHT)} } IN
              IF T = S THEN S ELSE Closure(T)
CubeRotations == TLCEval(Closure({IdFlat}))
RotatedGoals == TLCEval({ [k \in 1..K |-> SolvedFlat[g[k] + 1]] : g \in CubeRotations })
ASSUME Cardinality(CubeRotations) = 24 /\ Cardinality(RotatedGoals) = 24

Init ==
  /\ s = [cube |-> SolvedFlat, step_count |-> 0]
  /\ last = [type |-> FIRST, reward |-> 0, a |-> 0, pre |-> SolvedFlat, pl |-> FALSE]

Step(a) ==
  LET t == StepState(s, UnflatOf(a)) IN
  /\ s' = t
  /\ last' = [type |-> IF Done(t) THEN LAST ELSE MID, reward |-> Reward(t), a |-> a, pre |-> s.cube,
              pl |-> last.type = LAST \/ last.pl]

Next == \E a \in FlatActions : Step(a)
Spec == Init /\ [][Next]_vars
Bounded == s.step_count <= Depth

(* C03 *) Protocol == (last.type = FIRST <=> s.step_count = 0) /\ last.type \in {FIRST, MID, LAST}
(* C03 *) RewardOnlyAtSolved == last.reward \in {0, 1} /\ (last.reward = 1 => last.type = LAST)
(* C11 *) TimeLimitExact ==
            (s.step_count >= 1 /\ ~last.pl) =>
               /\ (s.step_count >= TimeLimit => last.type = LAST)
               /\ (last.type = MID => s.step_count < TimeLimit)
               /\ ((last.type = LAST /\ s.step_count < TimeLimit) => Solved(s.cube))
(* C12 *) ObsIsState == Obs(s) = [cube |-> s.cube, step_count |-> s.step_count]
(* C17 *) MultisetConserved == \A v \in FaceIds : CountOf(s.cube, v) = NN
(* C17 *) SolvedIffRotatedGoal == Solved(s.cube) <=> s.cube \in RotatedGoals
(* C17 *) RewardIffSolved == s.step_count >= 1 => (last.reward = 1 <=> Solved(s.cube))
(* C17 *) EveryMoveUndone == s.step_count >= 1 =>
             ApplyMove(s.cube, <<UnflatOf(last.a)[1], UnflatOf(last.a)[2],
                                 CASE UnflatOf(last.a)[3] = 0 -> 1 [] UnflatOf(last.a)[3] = 1 -> 0 [] OTHER -> 2>>) = last.pre
=============================================================================
