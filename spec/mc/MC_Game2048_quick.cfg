SPECIFICATION Spec
CONSTANT Cfg <- MCCfg2
CONSTANT MaxExp = 6
CONSTRAINT Bounded
INVARIANT Protocol
INVARIANT MaskSound
INVARIANT MidHasLegal
INVARIANT PhysOK
INVARIANT ReturnIsScore
INVARIANT Total
INVARIANT ObsMaskIffNotDone
PROPERTY InvalidNoEffect
PROPERTY TileSumConserved
VIEW View
CHECK_DEADLOCK FALSE
