SPECIFICATION SpecReset
CONSTANT Cfg <- MCCfg44t2
CONSTANT MaxSteps = 1
INVARIANT Protocol
INVARIANT MaskSound
INVARIANT MidHasLegal
INVARIANT PhysOK
INVARIANT StepLawAllActions
INVARIANT RewardFromTable
INVARIANT TimeLimit
INVARIANT EarlyLastHasReason
INVARIANT ObsMaskIffMove
PROPERTY InvalidIsLast
PROPERTY CellsConserved
CHECK_DEADLOCK FALSE
