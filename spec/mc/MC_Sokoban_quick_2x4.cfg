SPECIFICATION Spec
CONSTANT Cfg <- MCCfg2x
CONSTANT MaxWalls = 0
CONSTANT Limits = {2}
CONSTANT PostSteps = 1
CONSTRAINT Bounded
INVARIANT TypeOK
INVARIANT InitWellFormed
INVARIANT Protocol
INVARIANT PhysOK
INVARIANT RewardRange
INVARIANT BonusIffSolved
INVARIANT SolvedEnds
INVARIANT EndsExactlyAtLimit
INVARIANT ObsFaithful
PROPERTY InvalidNoEffect
PROPERTY LegalIffSomethingMoves
PROPERTY Conserved
PROPERTY PushRule
VIEW View
CHECK_DEADLOCK FALSE
