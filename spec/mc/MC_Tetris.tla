---------------------------- MODULE MC_Tetris ----------------------------
(* Bounded model of Tetris: every first piece, every action (legal or not, also after a LAST step),
   every next piece.  Two families of initial states:
     FromReset  - the empty grid (what reset returns), explored up to MaxSteps steps;
     AllGrids   - every grid without a full row (every position the rules can be asked about),
                  used with MaxSteps = -1 (no steps) so that only the state-level laws are evaluated. *)
EXTENDS Tetris

CONSTANTS MaxSteps
NoSteps == -1
VARIABLES s, last
vars == <<s, last>>

MCCfg44t2 == [num_rows |-> 4, num_cols |-> 4, time_limit |-> 2]
MCCfg44t3 == [num_rows |-> 4, num_cols |-> 4, time_limit |-> 3]
MCCfg45t3 == [num_rows |-> 4, num_cols |-> 5, time_limit |-> 3]
MCCfg45t1 == [num_rows |-> 4, num_cols |-> 5, time_limit |-> 1]
MCCfg54t2 == [num_rows |-> 5, num_cols |-> 4, time_limit |-> 2]

First == [type |-> 0, reward |-> 0, legal |-> TRUE, cleared |-> 0]

FromReset ==
  /\ s \in { [grid |-> [r \in 1..NR |-> EmptyRow], piece |-> p, step_count |-> 0] : p \in Pieces }
  /\ last = First

AllGrids ==
  /\ s \in { [grid |-> g, piece |-> p, step_count |-> 0] :
               g \in { h \in [1..NR -> [1..NC -> {0, 1}]] : NoFullRow(h) }, p \in Pieces }
  /\ last = First

(* An illegal action ends the episode; the model leaves the grid untouched (the documentation promises nothing). *)
Step(a) ==
  LET o == Outcome(s, a) IN
  \E p \in Pieces :
     LET t == [grid |-> o.grid, piece |-> p, step_count |-> s.step_count + 1] IN
     /\ StepRelO(s, o, t)
     /\ s' = t
     /\ last' = [type |-> IF DoneO(o, t) THEN 2 ELSE 1,
                 reward |-> o.reward, legal |-> o.legal, cleared |-> o.cleared]

(* the bound is part of Next (not a CONSTRAINT) so that the states of the last level are stored and judged once *)
Next == s.step_count <= MaxSteps /\ \E a \in Actions : Step(a)
SpecReset == FromReset /\ [][Next]_vars
SpecAll == AllGrids /\ [][Next]_vars

(* ---- an operational statement of the dynamics: the piece starts completely above the grid and moves
        down one row at a time while no cell of it that is already inside the grid overlaps ---- *)
CanBeAt(g, S, x, y) ==
  \A cl \in S : (x + cl[2]) \in 0..(NC - 1) /\ (y + cl[1] < 0 \/ EmptyAt(g, y + cl[1], x + cl[2]))
RECURSIVE Fall(_, _, _, _)
Fall(g, S, x, y) == IF CanBeAt(g, S, x, y + 1) THEN Fall(g, S, x, y + 1) ELSE y
RestY(g, S, x) == IF CanBeAt(g, S, x, -4) THEN Fall(g, S, x, -4) ELSE -5

(* C03 *) Protocol == last.type \in {0, 1, 2} /\ (last.type = 0 <=> s.step_count = 0)
(* C04 *) MaskSound ==
            \A a \in Actions :
              LET S == Shape(s.piece, a[1])  y == RestY(s.grid, S, a[2]) IN
              /\ Legal(s, a) <=> y >= 0                         \* legal iff the falling piece ends up inside the grid
              /\ Legal(s, a) => DropY(s.grid, S, a[2]) = y       \* and the declarative resting row is where it stops
(* C04 *) MidHasLegal == last.type = 1 => ~NoMove(s)
(* C05 *) InvalidIsLast == [][ ~last'.legal => (last'.type = 2 /\ last'.reward = 0) ]_vars
(* C07 *) PhysOK == PhysInv(s)
(* C07 *) CellsConserved ==
            [][ last'.legal => /\ CellCount(s'.grid) = CellCount(s.grid) + 4 - NC * last'.cleared
                               /\ CellLaw(s.grid, s'.grid) ]_vars
(* C07, C09 *) StepLawAllActions ==
            \A a \in Actions : Legal(s, a) =>
              LET S == Shape(s.piece, a[1])  o == Outcome(s, a)  g1 == o.dropped  g2 == o.grid  k == o.cleared IN
              /\ \E y \in 0..(NR - 1) : (\A yy \in 0..y : Fits(s.grid, S, a[2], yy)) /\ ~Fits(s.grid, S, a[2], y + 1)
              /\ GridBinary(g1) /\ CellCount(g1) = CellCount(s.grid) + 4     \* no overlap, inside the grid
              /\ k \in 0..4
              /\ GridBinary(g2) /\ NoFullRow(g2) /\ CellCount(g2) = CellCount(g1) - NC * k
              /\ o.reward = RewardList[k + 1] /\ k = Cardinality(FullRows(g1))
(* C09 *) RewardFromTable == last.legal => (last.cleared \in 0..4 /\ last.reward = RewardList[last.cleared + 1])
(* C11 *) TimeLimit == (s.step_count >= TL => last.type = 2) /\ (last.type = 1 => s.step_count < TL)
(* C11 *) EarlyLastHasReason == (last.type = 2 /\ s.step_count < TL) => (~last.legal \/ NoMove(s))
(* C12 *) ObsMaskIffMove ==
            /\ NoMove(s) <=> \A k \in 1..4 : \A x \in 1..NC : ~Obs(s).action_mask[k][x]
            /\ Obs(s).grid = s.grid /\ Obs(s).step_count = s.step_count
            /\ CellCount(Obs(s).tetromino) = 4
=============================================================================
