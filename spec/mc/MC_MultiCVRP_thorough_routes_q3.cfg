SPECIFICATION SpecLegal
CONSTANT Cfg <- MCCfg32
CONSTANT MinDem = 1
CONSTANT MaxDem = 3
INVARIANT FeasibleAlways
INVARIANT CompletionIsFullSolution
INVARIANT NoNegativeCapacity
INVARIANT DenseTelescopes
INVARIANT DenseEqSparse
INVARIANT SparseZeroUntilEnd
INVARIANT WithinHorizon
INVARIANT EarlyLastIsCompletion
INVARIANT CompletionEnds
CHECK_DEADLOCK FALSE
