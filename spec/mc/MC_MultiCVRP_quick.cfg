SPECIFICATION Spec
CONSTANT Cfg <- MCCfg32q2
CONSTANT MaxDem = 2
INVARIANT Protocol
INVARIANT MaskSound
INVARIANT MaskShape
INVARIANT CodeResolutionAdmissible
INVARIANT FeasibleAlways
INVARIANT CompletionIsFullSolution
INVARIANT NoNegativeCapacity
INVARIANT DenseTelescopes
INVARIANT DenseEqSparse
INVARIANT SparseZeroUntilEnd
INVARIANT Total
INVARIANT WithinHorizon
INVARIANT EarlyLastIsCompletion
INVARIANT CompletionEnds
PROPERTY IllegalGoesToDepot
CHECK_DEADLOCK FALSE
