SPECIFICATION Spec
CONSTANT Cfg <- MCCfg3x3
CONSTANT Limits = {}
CONSTANT FoodPlacements <- Food3Sym
CONSTANT AgentLevels <- Levels12
CONSTANT TimedStarts <- StartEdge
CONSTANT TimedFood <- Food3Centre
CONSTRAINT Bounded
VIEW View
INVARIANT PhysOK
CHECK_DEADLOCK FALSE
