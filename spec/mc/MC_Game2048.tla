--------------------------- MODULE MC_Game2048 ---------------------------
(* Bounded model of Game2048: every initial board, every action (legal or not), every spawn.
   Exponents are capped by MaxExp (state constraint) to keep the model finite. *)
EXTENDS Game2048

CONSTANTS MaxExp
VARIABLES s, last, ret
vars == <<s, last, ret>>

MCCfg2 == [board_size |-> 2]
MCCfg3 == [board_size |-> 3]

Init ==
  /\ s \in { [board |-> b, step_count |-> 0, score |-> 0] : b \in InitBoards }
  /\ last = [type |-> 0, reward |-> 0, legal |-> TRUE, a |-> 0]
  /\ ret = 0

Step(a) ==
  \E nb \in SuccBoards(s.board, a) :
    LET t == [board |-> nb, step_count |-> s.step_count + 1, score |-> s.score + Reward(s, a)] IN
    /\ s' = t
    /\ last' = [type |-> IF Done(t) THEN 2 ELSE 1, reward |-> Reward(s, a), legal |-> Legal(s.board, a), a |-> a]
    /\ ret' = ret + Reward(s, a)

Next == \E a \in Actions : Step(a)
Spec == Init /\ [][Next]_vars

Bounded == \A r \in Idx : \A c \in Idx : s.board[r][c] <= MaxExp
View == <<s.board, last>>          \* counters do not influence the rules

(* C03 *) Protocol == (last.type = 0 <=> s.step_count = 0) /\ last.type \in {0, 1, 2}
(* C04 *) MaskSound == \A a \in Actions : Legal(s.board, a) <=> (\E nb \in SuccBoards(s.board, a) : nb # s.board)
(* C04 *) MidHasLegal == last.type = 1 => \E a \in Actions : Legal(s.board, a)
(* C05 *) InvalidNoEffect == [][ (~last'.legal) => (s'.board = s.board /\ last'.reward = 0) ]_vars
(* C07 *) PhysOK == BoardShape(s.board)
(* C07 *) TileSumConserved == [][ TileSumLaw(s, last'.a, s') ]_vars
(* C08 *) ReturnIsScore == ret = s.score
(* C09 *) Total == \A a \in Actions : SuccBoards(s.board, a) # {}
(* C12 *) ObsMaskIffNotDone == Done(s) <=> \A j \in 1..4 : ~Obs(s).action_mask[j]
=============================================================================
