--------------------------- MODULE MC_SlidingTile ---------------------------
(* Bounded episode model of SlidingTile: every initial board of InitBoards (all boards within MCRadius moves of
   the goal: for N = 2 and radius 6 these are all 12 solvable boards), every action (legal or not), steps after
   termination included (up to TLimit + 2 steps).  Both documented reward functions are accumulated. *)
EXTENDS SlidingTile

CONSTANT MCRadius
VARIABLES s,        \* [puzzle, empty_tile_position, step_count]
          p0,       \* the board returned by reset
          last,     \* [type, a, legal, rd, rs] of the last timestep (rd / rs: dense / sparse reward)
          endStep,  \* step number of the first LAST timestep (0: none yet)
          fin,      \* the board at the first LAST timestep (<<>>: none yet)
          retD, retS   \* returns accumulated up to and including the first LAST timestep
vars == <<s, p0, last, endStep, fin, retD, retS>>

MCCfg2T1 == [grid_size |-> 2, time_limit |-> 1, reward_fn |-> "dense", generator |-> "random_walk", num_random_moves |-> 0]
MCCfg2T2 == [grid_size |-> 2, time_limit |-> 2, reward_fn |-> "dense", generator |-> "random_walk", num_random_moves |-> 0]
MCCfg2T3 == [grid_size |-> 2, time_limit |-> 3, reward_fn |-> "dense", generator |-> "random_walk", num_random_moves |-> 0]
MCCfg2T7 == [grid_size |-> 2, time_limit |-> 7, reward_fn |-> "dense", generator |-> "random_walk", num_random_moves |-> 0]
MCCfg3T2 == [grid_size |-> 3, time_limit |-> 2, reward_fn |-> "dense", generator |-> "random_walk", num_random_moves |-> 0]
MCCfg3T3 == [grid_size |-> 3, time_limit |-> 3, reward_fn |-> "dense", generator |-> "random_walk", num_random_moves |-> 0]

RECURSIVE Ball(_, _)
Ball(S, k) == IF k = 0 THEN S ELSE Ball(S \cup { Move(b, a) : b \in S, a \in Actions }, k - 1)
InitBoards == Ball({Goal}, MCRadius)

Init ==
  /\ p0 \in InitBoards
  /\ s = [puzzle |-> p0, empty_tile_position |-> Blank0(p0), step_count |-> 0]
  /\ last = [type |-> FIRST, a |-> 0, legal |-> TRUE, rd |-> 0, rs |-> 0]
  /\ endStep = 0 /\ fin = <<>> /\ retD = 0 /\ retS = 0

Step(a) ==
  LET t == StepTo(s, a)
      rd == RewardDense(s.puzzle, t.puzzle)
      rs == RewardSparse(t.puzzle)
      ended == endStep > 0 IN
  /\ s' = t
  /\ p0' = p0
  /\ last' = [type |-> IF Done(t) THEN LAST ELSE MID, a |-> a, legal |-> Legal(s.puzzle, a), rd |-> rd, rs |-> rs]
  /\ endStep' = IF ~ended /\ Done(t) THEN t.step_count ELSE endStep
  /\ fin' = IF ~ended /\ Done(t) THEN t.puzzle ELSE fin
  /\ retD' = IF ended THEN retD ELSE retD + rd
  /\ retS' = IF ended THEN retS ELSE retS + rs

Next == \E a \in Actions : Step(a)
Spec == Init /\ [][Next]_vars
Bounded == s.step_count <= TLimit + 2

(* C03 *) Protocol == (last.type = FIRST <=> s.step_count = 0) /\ last.type \in {FIRST, MID, LAST}
(* C04 *) MaskSound == \A a \in Actions : Mask(s.puzzle)[a + 1] <=> StepTo(s, a).puzzle # s.puzzle
(* C04 *) BlankInside == /\ \A k \in 1..2 : s.empty_tile_position[k] \in 0..(N - 1)
                         /\ s.puzzle[s.empty_tile_position[1] + 1][s.empty_tile_position[2] + 1] = 0
(* C05 *) InvalidNoEffect ==
            [][ (~last'.legal) => /\ s'.puzzle = s.puzzle /\ s'.empty_tile_position = s.empty_tile_position
                                  /\ last'.rd = 0
                                  /\ (last'.type = LAST <=> (Solved(s.puzzle) \/ s'.step_count >= TLimit)) ]_vars
(* C08 *) ReturnIsObjective ==
            endStep > 0 => /\ retD = ObjectiveOf("dense", p0, fin)
                           /\ retS = ObjectiveOf("sparse", p0, fin)
(* C09 *) Total == \A a \in Actions : IsPerm(StepTo(s, a).puzzle) /\ StepTo(s, a).step_count = s.step_count + 1
(* C11 *) EndsAtLimit ==
            /\ (endStep > 0 => endStep <= TLimit)                     \* never later
            /\ ((endStep > 0 /\ endStep < TLimit) => fin = Goal)      \* never earlier without the other reason
            /\ (s.step_count >= TLimit => endStep > 0)
            /\ (last.type = MID => s.step_count < TLimit)
(* C12 *) ObsFaithful == LET o == Obs(s) IN
            /\ o.empty_tile_position = s.empty_tile_position
            /\ \A a \in Actions : o.action_mask[a + 1] <=> Legal(s.puzzle, a)
(* C17 *) StaysSolvable == Solvable(s.puzzle) /\ IsPerm(s.puzzle)
(* C17 *) SolvedIffLast == (s.step_count > 0 /\ s.step_count < TLimit) => (last.type = LAST <=> s.puzzle = Goal)
=============================================================================
