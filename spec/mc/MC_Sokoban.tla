--------------------------- MODULE MC_Sokoban ---------------------------
(* Bounded model of Sokoban: a tiny num_rows x num_cols room (3 x 4) whose sides are the edge of the board,
   EVERY placement of n_boxes targets, of at most MaxWalls walls, of n_boxes boxes and of the agent on the
   remaining cells (solvable or not: a superset of sensible levels), every time limit in Limits, every action
   (legal or not) at every step, and PostSteps steps after termination.  n_boxes is the model constant
   Cfg.n_boxes (MCCfg1 / MCCfg2); smaller boards (2 x 3 with walls, 2 x 4 with two boxes: chained pushes) keep
   the quick tier small. *)
EXTENDS Sokoban

CONSTANTS MaxWalls,        \* at most this many wall cells inside the room
          Limits,          \* the time limits explored
          PostSteps        \* how many steps beyond the time limit the model keeps stepping
VARIABLES s,               \* [fixed_grid, variable_grid, agent_location, step_count]
          lim,             \* the time limit of this behaviour
          last             \* the timestep emitted by the last reset/step + facts about the action
vars == <<s, lim, last>>

MCCfg1  == [num_rows |-> 3, num_cols |-> 4, n_boxes |-> 1, time_limit |-> 0, reward |-> "dense", generator |-> "levels"]
MCCfg2  == [num_rows |-> 3, num_cols |-> 4, n_boxes |-> 2, time_limit |-> 0, reward |-> "dense", generator |-> "levels"]
MCCfg2s == [num_rows |-> 3, num_cols |-> 4, n_boxes |-> 2, time_limit |-> 0, reward |-> "sparse", generator |-> "levels"]
MCCfg1s == [num_rows |-> 3, num_cols |-> 4, n_boxes |-> 1, time_limit |-> 0, reward |-> "sparse", generator |-> "levels"]
MCCfg1x == [num_rows |-> 2, num_cols |-> 3, n_boxes |-> 1, time_limit |-> 0, reward |-> "sparse", generator |-> "levels"]
MCCfg2x == [num_rows |-> 2, num_cols |-> 4, n_boxes |-> 2, time_limit |-> 0, reward |-> "dense", generator |-> "levels"]

KSub(S, k) == { x \in SUBSET S : Cardinality(x) = k }
UpTo(S, k) == { x \in SUBSET S : Cardinality(x) <= k }

FixedOf(w, t) == [r \in 1..NR |-> [c \in 1..NC |-> IF <<r, c>> \in w THEN WALL
                                                   ELSE IF <<r, c>> \in t THEN TARGET ELSE EMPTY]]

Init ==
  /\ lim \in Limits
  /\ \E t \in KSub(AllCells, NB) : \E w \in UpTo(AllCells \ t, MaxWalls) :
     \E b \in KSub(AllCells \ w, NB) : \E ag \in AllCells \ (w \cup b) :
       /\ s = [fixed_grid |-> FixedOf(w, t), variable_grid |-> Render(ag, b),
               agent_location |-> <<ag[1] - 1, ag[2] - 1>>, step_count |-> 0]
       /\ b # t                                   \* not solved at the start
  /\ last = [type |-> FIRST, reward10 |-> 0, legal |-> TRUE, a |-> 0, ps |-> FALSE]

Step(a) ==
  LET t == StepTo(s, a)  ty == IF EndsAt(t, lim) THEN LAST ELSE MID IN
  /\ s' = t
  /\ lim' = lim
  /\ last' = [type |-> ty, reward10 |-> Reward10(s, t), legal |-> Legal(s, a), a |-> a,
              ps |-> Solved(s)]                  \* ps: the step was taken from an already solved (terminal) state

Next == \E a \in Actions : Step(a)
Spec == Init /\ [][Next]_vars

Bounded == s.step_count < lim + PostSteps
(* the action that led to a state does not influence the future; action properties are still checked on every transition *)
View == <<s, lim, last.type, last.reward10, last.ps>>

(* ------------------------------ invariants ------------------------------ *)
TypeOK == /\ ShapesOK(s) /\ s.step_count \in Nat /\ last.type \in {FIRST, MID, LAST}
          /\ s.agent_location \in (0..(NR - 1)) \X (0..(NC - 1))
InitWellFormed == s.step_count = 0 => WellFormedInstance(s)

(* C03 *) Protocol == (last.type = FIRST <=> s.step_count = 0) /\ (s.step_count = 0 => last.reward10 = 0)

(* C05 *) InvalidNoEffect ==
  [][ (~last'.legal) =>
        /\ s'.agent_location = s.agent_location /\ AgentMarks(s') = AgentMarks(s)
        /\ BoxCells(s') = BoxCells(s) /\ s'.variable_grid = s.variable_grid /\ s'.fixed_grid = s.fixed_grid
        /\ s'.step_count = s.step_count + 1
        /\ (~Solved(s) => last'.reward10 = InvalidReward10)
        /\ (last'.type = LAST => (s'.step_count >= lim \/ Solved(s))) ]_vars
(* C05 *) LegalIffSomethingMoves ==      \* the rules' notion of an ignored move is exactly "the configuration is unchanged"
  [][ last'.legal <=> s'.variable_grid # s.variable_grid ]_vars

(* C07 *) PhysOK == PhysInv(s)
(* C07 *) Conserved == [][ FixedConserved(s, s') /\ BoxesConserved(s, s') /\ MovesAtMostOneCell(s, s')
                           /\ Cardinality(TargetCells(s')) = NB ]_vars

(* C09 *) PushRule ==                     \* the documented case analysis, on the transition actually taken
  [][ LET a == last'.a  d == Shift(AgentCell(s), a)  b == Shift(d, a) IN
      /\ s'.step_count = s.step_count + 1
      /\ (~Inside(d) \/ IsWall(s, d)) => A(s') = [A(s) EXCEPT !.step_count = @ + 1]
      /\ Pushes(s, a) <=> BoxCells(s') # BoxCells(s)
      /\ Pushes(s, a) => (AgentCell(s') = d /\ BoxCells(s') = (BoxCells(s) \ {d}) \cup {b}
                          /\ b \notin BoxCells(s) /\ ~IsWall(s, b))
      /\ (Inside(d) /\ ~IsWall(s, d) /\ IsBox(s, d) /\ ~Pushes(s, a)) =>
            (~Inside(b) \/ IsWall(s, b) \/ IsBox(s, b)) /\ A(s') = [A(s) EXCEPT !.step_count = @ + 1]
      /\ Walks(s, a) => (AgentCell(s') = d /\ BoxCells(s') = BoxCells(s))
      /\ ~(Walks(s, a) /\ Pushes(s, a)) ]_vars
(* C09 *) RewardRange ==
  IF Cfg.reward = "dense"
  THEN (last.type # FIRST /\ ~last.ps) => last.reward10 \in {-11, -1, 9, 109}       \* -1.1, -0.1, 0.9, 10.9: one box moves per step
  ELSE last.reward10 \in {0, 100}
(* C09 *) BonusIffSolved == (last.type # FIRST) => ((last.reward10 >= 50) <=> Solved(s))
(* C09 *) SolvedEnds == (s.step_count > 0 /\ Solved(s)) => last.type = LAST

(* C11 *) EndsExactlyAtLimit ==
  /\ last.type = MID => (s.step_count < lim /\ ~Solved(s))
  /\ (s.step_count > 0 /\ s.step_count >= lim) => last.type = LAST
  /\ (last.type = LAST /\ s.step_count < lim) => Solved(s)

(* C12 *) ObsFaithful ==
  LET g == Obs(s).grid IN
  /\ { rc \in AllCells : At(g, rc)[1] = AGENT } = { AgentCell(s) }
  /\ { rc \in AllCells : At(g, rc)[1] = BOX } = BoxCells(s)
  /\ { rc \in AllCells : At(g, rc)[2] = WALL } = WallCells(s)
  /\ { rc \in AllCells : At(g, rc)[2] = TARGET } = TargetCells(s)
  /\ Obs(s).step_count = s.step_count
=============================================================================
