------------------------ MODULE MC_RobotWarehouse ------------------------
(* Bounded model of RobotWarehouse on the smallest floor that has shelves (shelf_rows 1, shelf_columns 3,
   column_height 1: 4 x 10 cells, 4 shelves).  Init ranges over every reset state whose agents start in
   StartCells (all directions, every request queue) and over the mid-game states in which agent 0 already
   carries one shelf of CarryShelves somewhere on the floor (so that deliveries, illegal forwards and unloads
   are within a few steps).  Next plays ANY joint action (legal or not) and keeps stepping after LAST; the
   replacement request is a nondeterministic choice.  The state record has the shape of the recorded State,
   so the invariants are the very operators the trace clauses use. *)
EXTENDS RobotWarehouse

CONSTANTS MaxDepth,      \* depth bound on step_count (guard of Next)
          StartRows,     \* agents start in StartRows \X StartCols
          StartCols,
          CarryCells,    \* cells on which agent 0 may already carry a shelf in the mid-game initial states
          CarryShelves   \* shelves (1-based ids) agent 0 may already carry in the mid-game initial states ({} = none)
VARIABLES s, last
vars == <<s, last>>

MCCfg1 == [shelf_rows |-> 1, shelf_columns |-> 3, column_height |-> 1, num_agents |-> 1, sensor_range |-> 1,
           request_queue_size |-> 1, time_limit |-> 2]
MCCfg1T3 == [shelf_rows |-> 1, shelf_columns |-> 3, column_height |-> 1, num_agents |-> 1, sensor_range |-> 1,
             request_queue_size |-> 2, time_limit |-> 3]
MCCfg1T1 == [shelf_rows |-> 1, shelf_columns |-> 3, column_height |-> 1, num_agents |-> 1, sensor_range |-> 2,
             request_queue_size |-> 3, time_limit |-> 1]
MCCfg2 == [shelf_rows |-> 1, shelf_columns |-> 3, column_height |-> 1, num_agents |-> 2, sensor_range |-> 1,
           request_queue_size |-> 1, time_limit |-> 3]

QuickRows == 0..3    QuickCols == 0..9        \* every cell of the 4 x 10 floor
OneShelf == {1}      AllShelves == 1..4       NoShelf == {}
PairRows  == 1..2    PairCols  == 2..3        \* two agents: shelf slot (1,2) and the three aisle cells next to it
QuickCells == QuickRows \X QuickCols   PairCells == PairRows \X PairCols
SecondShelf == {2}                            \* the shelf whose slot is (1,2)

(* ---------- building a State record ---------- *)
Home == [j1 \in 1..NumShelves |-> CHOOSE rc \in SlotSet : SlotRank(rc) = j1]      \* shelf j1 - 1 at its slot
Render(apos, spos) ==      \* the two channels of a configuration
  << [r \in 1..NRows |-> [c \in 1..NCols |->
        IF \E j1 \in 1..NumShelves : spos[j1] = <<r - 1, c - 1>>
        THEN CHOOSE j1 \in 1..NumShelves : spos[j1] = <<r - 1, c - 1>> ELSE 0]],
     [r \in 1..NRows |-> [c \in 1..NCols |->
        IF \E k1 \in 1..NA : apos[k1] = <<r - 1, c - 1>>
        THEN CHOOSE k1 \in 1..NA : apos[k1] = <<r - 1, c - 1>> ELSE 0]] >>
MkState(w, q, n) ==
  LET bare == [grid |-> <<w.sh, w.ag>>,
               agents |-> [position |-> [x |-> [k1 \in 1..NA |-> w.apos[k1][1]], y |-> [k1 \in 1..NA |-> w.apos[k1][2]]],
                           direction |-> w.adir, is_carrying |-> w.acar],
               shelves |-> [position |-> [x |-> [j1 \in 1..NumShelves |-> w.spos[j1][1]],
                                          y |-> [j1 \in 1..NumShelves |-> w.spos[j1][2]]],
                            is_requested |-> [j1 \in 1..NumShelves |-> IF (j1 - 1) \in Range(q) THEN 1 ELSE 0]],
               request_queue |-> q, step_count |-> n]
  IN [grid |-> bare.grid, agents |-> bare.agents, shelves |-> bare.shelves, request_queue |-> q,
      step_count |-> n, action_mask |-> Mask(bare)]

Queues == { q \in [1..QSize -> ShelfIds] : \A m, n \in 1..QSize : m # n => q[m] # q[n] }
StartCells == StartRows \X StartCols
ResetStates ==
  { MkState([ag |-> Render(ap, Home)[2], sh |-> Render(ap, Home)[1], apos |-> ap, adir |-> ad,
             acar |-> [k1 \in 1..NA |-> 0], spos |-> Home], q, 0) :
      ap \in { f \in [1..NA -> StartCells] : \A m, n \in 1..NA : m # n => f[m] # f[n] },
      ad \in [1..NA -> 0..3], q \in Queues }
\* agent 0 carries shelf j1 - 1 on cell rc (any cell that holds no other shelf); the other agents start in StartCells
CarryStatesOf(j1, rc) ==
  LET sp == [Home EXCEPT ![j1] = rc] IN
  { MkState([ag |-> Render(ap, sp)[2], sh |-> Render(ap, sp)[1], apos |-> ap, adir |-> ad,
             acar |-> [k1 \in 1..NA |-> IF k1 = 1 THEN 1 ELSE 0], spos |-> sp], q, 0) :
      ap \in { f \in [1..NA -> FloorCells] :
                 f[1] = rc /\ (\A m, n \in 1..NA : m # n => f[m] # f[n]) /\ (\A o \in 2..NA : f[o] \in StartCells) },
      ad \in [1..NA -> 0..3], q \in Queues }
FreeFor(j1) == { c \in CarryCells : \A j2 \in 1..NumShelves : j2 # j1 => Home[j2] # c }
CarryStates == UNION { UNION { CarryStatesOf(j1, rc) : rc \in FreeFor(j1) } : j1 \in CarryShelves }

Init ==
  /\ s \in ResetStates \cup CarryStates
  /\ last = [type |-> FIRST, reward |-> 0, a |-> [k1 \in 1..NA |-> 0], bad |-> {}, pl |-> FALSE]

(* ---------- the step ---------- *)
JointActions == [1..NA -> Actions]
Step(a) ==
  LET w == Moved(s, a) IN
  \E o \in QueueSuccs(s.request_queue, GoalCells, w.sh) :
    /\ s' = MkState(w, o.q, s.step_count + 1)
    /\ last' = [type |-> IF Done(s, a) THEN LAST ELSE MID, reward |-> o.n, a |-> a,
                bad |-> { k \in Agents : ~LegalAg(s, k, a[k + 1]) },
                pl |-> last.pl \/ last.type = LAST]                  \* post-terminal: the episode is over
Next == s.step_count < MaxDepth /\ \E a \in JointActions : Step(a)      \* depth bound
Spec == Init /\ [][Next]_vars

Bounded == s.step_count <= MaxDepth                      \* an invariant, by the guard of Next

(* ---------- properties ---------- *)
(* C03 *) Protocol == (last.type = FIRST <=> s.step_count = 0) /\ last.type \in {FIRST, MID, LAST}
\* C04: the mask is sound and complete for the dynamics: forward is masked out exactly when carrying it out
\* anyway would put the carried shelf on top of another one
RawForwardDestroys(k) ==
  LET w == ActOne(Config(s), k, ActForward) IN
  Cardinality({ rc \in FloorCells : Cell(w.sh, rc) # 0 }) < NumShelves
(* C04 *) MaskSound ==
  (last.type # LAST /\ ~last.pl) =>
     \A k \in Agents : /\ LegalAg(s, k, ActForward) <=> ~RawForwardDestroys(k)
                       /\ \A a \in Actions \ {ActForward} : LegalAg(s, k, a)
(* C04 *) MaskCached == s.action_mask = Mask(s)
\* C05: an agent whose action is illegal keeps position, direction and load; nothing moves on its behalf;
\* the episode continues unless the others collide or the time is up
(* C05 *) InvalidNoEffect ==
  [][ ~last'.pl => \A k \in last'.bad :
        /\ APos(s', k) = APos(s, k) /\ ADir(s', k) = ADir(s, k) /\ ACar(s', k) = ACar(s, k)
        /\ \A j \in ShelvesOn(s, APos(s, k)) : SPos(s', j) = SPos(s, j)
        /\ (NA = 1 => (Config(s') = Config(s) /\ s'.request_queue = s.request_queue /\ last'.reward = 0
                       /\ (last'.type = MID \/ s'.step_count >= TimeLimit))) ]_vars
(* C07 *) PhysOK == (last.type # LAST /\ ~last.pl) => PhysInv(s)
(* C07 *) ShelvesNeverLost == NA = 1 => ShelvesConserved(s) /\ ShelvesDistinct(s) /\ ShelfChanAgrees(s)
(* C07 *) CarriedShelfMovesWithAgent ==
  [][ (last'.type # LAST /\ ~last'.pl) => CarriedFollows(s, s') /\ UncarriedStay(s, s') ]_vars
(* C09 *) Total == \A a \in JointActions : QueueSuccs(s.request_queue, GoalCells, Moved(s, a).sh) # {}
(* C09 *) RewardOnlyAtGoal ==
  last.reward \in 0..2 /\
  (last.reward > 0 => \E n \in 1..2 : ShelfOn(s, GoalCells[n]))
(* C11 *) TimeOK ==
  /\ last.type = MID => s.step_count < TimeLimit
  /\ (s.step_count >= TimeLimit /\ s.step_count > 0) => last.type = LAST
  /\ (last.type = LAST /\ s.step_count < TimeLimit) => CollisionState(s)
(* C12 *) ObsOK ==
  LET o == Obs(s) IN
  /\ o.action_mask = s.action_mask /\ o.step_count = s.step_count
  /\ \A k \in Agents :
       LET v == o.agents_view[k + 1] IN
       /\ Len(v) = ObsLen
       /\ <<v[1], v[2]>> = APos(s, k) /\ v[3] = ACar(s, k)
       /\ \A m \in 3..ObsLen : v[m] \in {0, 1}
       \* a loaded agent sees the shelf it stands on: first shelf bit of its own cell
       /\ (PhysInv(s) /\ ACar(s, k) = 1) => v[8 + 5 * (WinCount - 1) + 2 * WinCentre + 1] = 1
=============================================================================
