SPECIFICATION SpecAll
CONSTANT Cfg <- MCCfg3
INVARIANT MultisetConserved
INVARIANT MoveIsTransposition
INVARIANT OppositeCancel
INVARIANT SolvedIffGoal
INVARIANT ParityPreserved
INVARIANT CriteriaAgree
INVARIANT SwapFlipsParity
INVARIANT MaskSound
INVARIANT BlankInside
INVARIANT MaskShape
INVARIANT InvalidNoEffect
INVARIANT DenseTelescopes
INVARIANT DenseStepBound
POSTCONDITION CountedAll
CHECK_DEADLOCK FALSE
