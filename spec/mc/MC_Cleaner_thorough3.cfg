SPECIFICATION Spec
CONSTANT Cfg <- MCCfg2x3a3
CONSTANT PostSteps = 1
CONSTANT MaxLim = 2
CONSTANT WithDefault = FALSE
CONSTRAINT Bounded
VIEW View
INVARIANT TypeOK
INVARIANT Protocol
INVARIANT MaskSound
INVARIANT MidHasLegal
INVARIANT PhysOK
INVARIANT ReturnIsObjective
INVARIANT Total
INVARIANT AllCleanEnds
INVARIANT ConnectedNeverStuck
INVARIANT EndsExactlyAtLimit
INVARIANT ObsFaithful
PROPERTY LegalOnlyNeverInvalid
PROPERTY InvalidEffect
PROPERTY Conserved
PROPERTY RewardCountsTiles
CHECK_DEADLOCK FALSE
