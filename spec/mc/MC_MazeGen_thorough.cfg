SPECIFICATION Spec
CONSTANT MaxRows = 7
CONSTANT MaxCols = 8
INVARIANT AlwaysConnected
INVARIANT OriginFreeG
INVARIANT WallParityG
INVARIANT TwoFreeCells
INVARIANT ChambersInside
INVARIANT FinishedIsPerfectGrid
INVARIANT SplitPossible
CHECK_DEADLOCK FALSE
