---------------------------- MODULE MC_MazeGen ----------------------------
(* C10 for the shared maze generator (commons/maze_utils/maze_generation.py, used by Maze's
   RandomGenerator), as its module docstring describes it -- recursive division on a pixel grid:

     "Begin with the maze's space with no walls.  Call this a chamber.  Divide the chamber with a randomly
      positioned wall where each wall contains a randomly positioned passage opening within it.  Then
      repeat the process on the subchambers until all chambers are minimum sized" (sub-chambers are kept
      only if both sides exceed 1); a chamber at least as wide as high gets a vertical wall, otherwise a
      horizontal one; "vertical walls will have an odd x coordinate while horizontal walls will have an
      odd y coordinate ... a passage through a vertical wall must be at an even y coordinate while a
      passage through a horizontal wall must be at an even x coordinate".

   The random draws become existential choices, so TLC enumerates EVERY maze the documented algorithm can
   produce for every shape in Shapes and checks what Maze's reset relies on: all free cells connected,
   origin free, wall parity, and at least two free cells (start and target can be distinct). *)
EXTENDS EnvKit

CONSTANTS MaxRows, MaxCols
VARIABLES maze,        \* rows x cols grid of BOOLEAN (TRUE = wall), 1-based
          chambers     \* stack (sequence) of chambers [x, y, w, h], 0-based pixel coordinates, x = column
vars == <<maze, chambers>>

Shapes == { rc \in (1..MaxRows) \X (1..MaxCols) : rc[1] * rc[2] >= 2 }

Odds(n)  == { k \in 0..(n - 1) : k % 2 = 1 }       \* "an odd integer between 0 (inclusive) and n (exclusive)"
Evens(n) == { k \in 0..(n - 1) : k % 2 = 0 }

Init ==
  \E rc \in Shapes :
    /\ maze = [r \in 1..rc[1] |-> [c \in 1..rc[2] |-> FALSE]]
    /\ chambers = << [x |-> 0, y |-> 0, w |-> rc[2], h |-> rc[1]] >>

Keep(stack, ch) == IF ch.w > 1 /\ ch.h > 1 THEN Append(stack, ch) ELSE stack

SplitByVerticalWall(ch, rest) ==            \* chamber at least as wide as high
  \E dx \in Odds(ch.w), py \in Evens(ch.h) :
    LET wx == ch.x + dx IN
    /\ maze' = [r \in 1..Rows(maze) |-> [c \in 1..Cols(maze) |->
                  IF c - 1 = wx /\ (r - 1) \in ch.y..(ch.y + ch.h - 1) THEN (r - 1) # ch.y + py
                  ELSE maze[r][c]]]
    /\ chambers' = Keep(Keep(rest, [x |-> ch.x, y |-> ch.y, w |-> dx, h |-> ch.h]),
                        [x |-> wx + 1, y |-> ch.y, w |-> ch.w - dx - 1, h |-> ch.h])

SplitByHorizontalWall(ch, rest) ==
  \E dy \in Odds(ch.h), px \in Evens(ch.w) :
    LET wy == ch.y + dy IN
    /\ maze' = [r \in 1..Rows(maze) |-> [c \in 1..Cols(maze) |->
                  IF r - 1 = wy /\ (c - 1) \in ch.x..(ch.x + ch.w - 1) THEN (c - 1) # ch.x + px
                  ELSE maze[r][c]]]
    /\ chambers' = Keep(Keep(rest, [x |-> ch.x, y |-> ch.y, w |-> ch.w, h |-> dy]),
                        [x |-> ch.x, y |-> wy + 1, w |-> ch.w, h |-> ch.h - dy - 1])

Next ==
  /\ chambers # <<>>
  /\ LET ch == chambers[Len(chambers)]  rest == SubSeq(chambers, 1, Len(chambers) - 1) IN
     IF ch.w >= ch.h THEN SplitByVerticalWall(ch, rest) ELSE SplitByHorizontalWall(ch, rest)
Spec == Init /\ [][Next]_vars

(* ------------------------------ what reset relies on ------------------------------ *)
Free(g) == { rc \in Cells(g) : ~At(g, rc) }
ConnectedG(g) == LET f == Free(g) IN f = {} \/ Reach(Rows(g), Cols(g), f, { CHOOSE p \in f : TRUE }) = f
ParityG(g) == \A rc \in Cells(g) : At(g, rc) => ((rc[1] - 1) % 2 = 1 \/ (rc[2] - 1) % 2 = 1)
OddOddIsWall(g) == \A rc \in Cells(g) : ((rc[1] - 1) % 2 = 1 /\ (rc[2] - 1) % 2 = 1) => At(g, rc)

(* C10 *) AlwaysConnected == ConnectedG(maze)            \* also while chambers remain: a split never disconnects
(* C10 *) OriginFreeG == ~maze[1][1]
(* C10 *) WallParityG == ParityG(maze)
(* C10 *) TwoFreeCells == Cardinality(Free(maze)) >= 2
(* C10 *) ChambersInside == \A k \in 1..Len(chambers) : LET ch == chambers[k] IN
              ch.x % 2 = 0 /\ ch.y % 2 = 0 /\ ch.x + ch.w <= Cols(maze) /\ ch.y + ch.h <= Rows(maze)
(* C10 *) FinishedIsPerfectGrid == chambers = <<>> => (Rows(maze) >= 2 /\ Cols(maze) >= 2 => OddOddIsWall(maze))
(* the generator always makes progress: a chamber that is split is never of minimum size in the split direction *)
(* C10 *) SplitPossible == \A k \in 1..Len(chambers) : LET ch == chambers[k] IN
              IF ch.w >= ch.h THEN Odds(ch.w) # {} \/ (ch.w = 1 /\ ch.h = 1) ELSE Odds(ch.h) # {}
=============================================================================
