SPECIFICATION LegalSpec
CONSTANT Cfg <- MCCfg332
CONSTANT MaxItems = 3
INVARIANT Protocol
INVARIANT MaskSound
INVARIANT MaskComplete
INVARIANT MidHasLegal
INVARIANT FeasibleInv
INVARIANT EmsAreTheMaximalFreeBoxes
INVARIANT EmsAntichain
INVARIANT CompletionIsSolution
INVARIANT DenseTelescopes
INVARIANT ReturnIsUtilisation
INVARIANT SparseSilentBeforeEnd
INVARIANT Total
INVARIANT InstanceSound
INVARIANT Horizon
INVARIANT SortedInv
INVARIANT ObsShowsLargest
CHECK_DEADLOCK FALSE
