SPECIFICATION Spec
CONSTANT Cfg <- MCCfg3
CONSTANT MaxExp = 2
CONSTRAINT Bounded
INVARIANT Protocol
INVARIANT MaskSound
INVARIANT MidHasLegal
INVARIANT PhysOK
INVARIANT ReturnIsScore
INVARIANT Total
INVARIANT ObsMaskIffNotDone
PROPERTY InvalidNoEffect
PROPERTY TileSumConserved
VIEW View
CHECK_DEADLOCK FALSE
