SPECIFICATION Spec
CONSTANT Shapes <- MCShapes
CONSTANT Rewards <- MCRewards
CONSTANT MaxLen = 3
INVARIANT FirstIffReset
INVARIANT FirstIsNeutral
INVARIANT MidDiscountNonZero
INVARIANT TerminatedDiscountZero
INVARIANT TruncatedDiscountOne
INVARIANT ShapesAgree
INVARIANT EpisodeEnds
PROPERTY NeverFirstFromStep
CHECK_DEADLOCK FALSE
