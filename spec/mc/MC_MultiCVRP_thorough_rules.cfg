SPECIFICATION Spec
CONSTANT Cfg <- MCCfg32
CONSTANT MinDem = 0
CONSTANT MaxDem = 3
INVARIANT Protocol
INVARIANT MaskSound
INVARIANT MaskShape
INVARIANT CodeResolutionAdmissible
INVARIANT NoNegativeCapacity
INVARIANT Total
INVARIANT WithinHorizon
INVARIANT EarlyLastIsCompletion
INVARIANT CompletionEnds
PROPERTY IllegalGoesToDepot
VIEW RulesView
CHECK_DEADLOCK FALSE
