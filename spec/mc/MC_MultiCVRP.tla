--------------------------- MODULE MC_MultiCVRP ---------------------------
(* Bounded model of MultiCVRP: every instance with demands in MinDem..MaxDem (<= capacity) over a fixed symbolic
   distance matrix / time windows, every joint action of the documented range (legal or not), every
   admissible conflict resolution, and steps after termination.  The state carries jumanji's own `order`
   array, so the feasibility predicates are the very operators the trace specification evaluates on the
   implementation's states (Feasible, CompleteSolution, Objective over Routes).

   Rewards: dense = minus (length + arrival penalties) of the step, accumulated in retD from the vehicles'
   local clocks tm; sparse = the objective recomputed from the routes at the last step.  The heuristic
   worst-case reward of an episode that runs into the step limit without completing is not modelled; the
   return invariants speak about completed episodes. *)
EXTENDS MultiCVRP

CONSTANTS MinDem, MaxDem    \* demands of the instances range over MinDem..MaxDem (0 = customer without demand)
VARIABLES s,                \* [nodes.demands, vehicles.capacities/positions, step_count, order]
          d0,               \* demands as generated
          tm,               \* local time (= length driven) per vehicle
          last,             \* [type, legal, pl, a]
          retD, retS        \* dense / sparse return so far
vars == <<s, d0, tm, last, retD, retS>>

MCCfg32 == [num_customers |-> 3, num_vehicles |-> 2, reward_fn |-> "dense", map_max |-> 10, max_capacity |-> 3,
            customer_demand_max |-> 3, max_start_window |-> 10, time_window_length |-> 20,
            early_coef_max_q |-> 13107, late_coef_max_q |-> 65536, gen_action |-> <<0, 0>>]
MCCfg32q2 == [MCCfg32 EXCEPT !.max_capacity = 2]
MCCfg33 == [MCCfg32 EXCEPT !.num_vehicles = 3, !.gen_action = <<0, 0, 0>>]
MCCfg42 == [MCCfg32 EXCEPT !.num_customers = 4]

(* symbolic instance: symmetric distances with distinct values, windows that make some arrivals early and some
   late, coefficients 0 at the depot (as generated), 1/2, 1 and 2 elsewhere *)
MCD == << <<0, 3, 5, 9, 11>>, <<3, 0, 4, 7, 13>>, <<5, 4, 0, 6, 8>>, <<9, 7, 6, 0, 10>>, <<11, 13, 8, 10, 0>> >>
MCInst == [D  |-> MCD,
           ws |-> <<0, 4, 0, 10, 20>>,
           we |-> <<100, 8, 6, 12, 30>>,
           ce |-> <<0, FX, FX \div 2, 2 * FX, FX>>,
           cl |-> <<0, FX, 2 * FX, FX \div 2, FX>>]

Mk(dem, cap, pos, sc, ord) ==
  [nodes |-> [demands |-> dem], vehicles |-> [capacities |-> cap, positions |-> pos], step_count |-> sc, order |-> ord]

Init ==
  /\ \E dm \in [Customers -> MinDem..Min2(MaxDem, Q)] :
        /\ d0 = [j \in 1..(N + 1) |-> IF j = 1 THEN 0 ELSE dm[j - 1]]
        /\ s = Mk(d0, [v \in Vehicles |-> Q], [v \in Vehicles |-> Depot], 1,
                  [v \in Vehicles |-> [j \in 1..Horizon |-> 0]])
  /\ tm = [v \in Vehicles |-> 0]
  /\ last = [type |-> FIRST, legal |-> TRUE, pl |-> FALSE, a |-> [v \in Vehicles |-> Depot]]
  /\ retD = 0 /\ retS = 0

StepTo(a, p) ==
  LET ab   == After(s, p)
      k    == s.step_count + 1                           \* 1-based slot of `order` this step writes
      ord  == [v \in Vehicles |-> IF k <= Horizon THEN [s.order[v] EXCEPT ![k] = p[v]] ELSE s.order[v]]
      t    == Mk(ab.demands, ab.capacities, ab.positions, ab.step_count, ord)
      tm2  == [v \in Vehicles |-> tm[v] + Dist(MCInst, Pos(s, v), p[v])]
      cost == SumTo([v \in Vehicles |-> Dist(MCInst, Pos(s, v), p[v]) + ArrivalPenalty(MCInst, p[v], tm2[v])], V)
      pl   == last.type = LAST
  IN
  /\ s' = t /\ tm' = tm2 /\ d0' = d0
  /\ last' = [type |-> IF Done(t) THEN LAST ELSE MID, legal |-> Legal(s, a), pl |-> pl, a |-> a]
  /\ retD' = IF pl THEN retD ELSE retD - cost
  /\ retS' = IF pl THEN retS
             ELSE IF Done(t) /\ Completed(t) THEN retS + Objective(MCInst, Routes(t)) ELSE retS

Step(a) == StepsDone(s) < Horizon + 2 /\ \E p \in Dests(s, a) : StepTo(a, p)
Next == \E a \in Actions : Step(a)
NextLegal == \E a \in Actions : Legal(s, a) /\ Step(a)
Spec == Init /\ [][Next]_vars
SpecLegal == Init /\ [][NextLegal]_vars

\* the rules do not depend on the history: hide `order`, d0, clocks, returns and the last action
RulesView == <<s.nodes.demands, s.vehicles.capacities, s.vehicles.positions, last.type, last.pl, s.step_count>>
\* the history matters (order, clocks, returns) but not which action produced it
RoutesView == <<s, d0, tm, last.type, last.pl, retD, retS>>
Live == ~last.pl /\ StepsDone(s) <= Horizon      \* states of the episode proper (up to and including its LAST)

(* C03 *) Protocol == (last.type = FIRST <=> s.step_count = 1) /\ last.type \in {FIRST, MID, LAST}
(* C04 *) MaskSound ==       \* the rules agree with the dynamics, per vehicle, for every joint action
  Live =>
  \A a \in Actions : \A p \in Dests(s, a) : \A v \in Vehicles :
     /\ ~LegalAg(s, v, a[v]) => p[v] = Depot
     /\ LegalAg(s, v, a[v]) => (p[v] = a[v] \/ \E w \in Vehicles : w # v /\ a[w] = a[v] /\ p[w] = a[v])
(* C04 *) MaskShape == LET m == Mask(s) IN \A v \in Vehicles : m[v][1] /\ Len(m[v]) = N + 1     \* depot always legal
(* C04 *) CodeResolutionAdmissible == Live => \A a \in Actions : FirstWins(s, a) \in Dests(s, a)
(* C06 *) FeasibleAlways == Live => Feasible(d0, s)
(* C06 *) CompletionIsFullSolution == (Live /\ Completed(s)) => CompleteSolution(d0, Routes(s), s)
(* C06 *) NoNegativeCapacity == \A v \in Vehicles : Cap(s, v) \in 0..Q
(* C08 *) DenseTelescopes == Live => retD = Objective(MCInst, Routes(s))
(* C08 *) DenseEqSparse == (Live /\ last.type = LAST /\ Completed(s)) => (retD = retS /\ retS = Objective(MCInst, Routes(s)))
(* C08 *) SparseZeroUntilEnd == (Live /\ last.type # LAST) => retS = 0
(* C09 *) Total == \A a \in Actions : Dests(s, a) # {} /\ Dests(s, a) = DestsByDefinition(s, a)
(* C11 *) WithinHorizon == (~last.pl /\ StepsDone(s) >= Horizon) => last.type = LAST
(* C11 *) EarlyLastIsCompletion == (Live /\ last.type = LAST /\ StepsDone(s) < Horizon) => Completed(s)
(* C11 *) CompletionEnds == (Live /\ Completed(s) /\ s.step_count > 1) => last.type = LAST
(* C05-like, action property *) IllegalGoesToDepot ==
  [][ \A v \in Vehicles : (~last'.pl /\ ~LegalAg(s, v, last'.a[v])) => (Pos(s', v) = Depot /\ Cap(s', v) = Q) ]_vars
=============================================================================
