SPECIFICATION Spec
CONSTANT Cfg <- MCCfg222
CONSTANT MaxItems = 3
INVARIANT Protocol
INVARIANT MaskSound
INVARIANT MaskComplete
INVARIANT MidHasLegal
INVARIANT FeasibleInv
INVARIANT EmsAreTheMaximalFreeBoxes
INVARIANT EmsAntichain
INVARIANT CompletionIsSolution
INVARIANT DenseTelescopes
INVARIANT ReturnIsUtilisation
INVARIANT SparseSilentBeforeEnd
INVARIANT Total
INVARIANT InstanceSound
INVARIANT Horizon
INVARIANT SortedInv
INVARIANT ObsShowsLargest
PROPERTY InvalidNoEffect
CHECK_DEADLOCK FALSE
