SPECIFICATION Spec
CONSTANT Cfg <- MCCfg4
CONSTANT MaxD = 3
CONSTANT Symmetric = TRUE
CONSTANT Extra = 1
INVARIANT TypeOK
INVARIANT Protocol
INVARIANT MaskSound
INVARIANT MaskRouteAgree
INVARIANT MidHasLegal
INVARIANT FeasibleAlways
INVARIANT FeasibleUnderLegalPlay
INVARIANT CompletionIsFullTour
INVARIANT DenseRunningIsPath
INVARIANT SparsePaysOnlyAtEnd
INVARIANT ReturnOfLegalEpisode
INVARIANT DenseIsSparseOnCompletion
INVARIANT Total
INVARIANT HorizonOK
INVARIANT ObsOK
PROPERTY InvalidEffect
PROPERTY ReturnAtEnd
PROPERTY ProblemDataConstant
CONSTRAINT Bounded
CHECK_DEADLOCK FALSE
