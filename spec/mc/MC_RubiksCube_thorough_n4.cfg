SPECIFICATION Spec
CONSTANT Cfg <- MCCfgN4T2
CONSTANT Depth = 2
CONSTRAINT Bounded
INVARIANT Protocol
INVARIANT RewardOnlyAtSolved
INVARIANT TimeLimitExact
INVARIANT ObsIsState
INVARIANT MultisetConserved
INVARIANT SolvedIffRotatedGoal
INVARIANT RewardIffSolved
INVARIANT EveryMoveUndone
CHECK_DEADLOCK FALSE
