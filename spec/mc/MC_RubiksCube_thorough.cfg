SPECIFICATION Spec
CONSTANT Cfg <- MCCfgN3T3
CONSTANT Depth = 4
CONSTRAINT Bounded
INVARIANT Protocol
INVARIANT RewardOnlyAtSolved
INVARIANT TimeLimitExact
INVARIANT ObsIsState
INVARIANT MultisetConserved
INVARIANT SolvedIffRotatedGoal
INVARIANT RewardIffSolved
INVARIANT EveryMoveUndone
CHECK_DEADLOCK FALSE
