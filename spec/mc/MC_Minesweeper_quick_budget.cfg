SPECIFICATION Spec
CONSTANT Cfg <- MCCfg2x3Budget
CONSTANT MineCounts = {0, 1, 2, 3, 4, 5}
CONSTANT PostSteps = 2
CONSTRAINT Bounded
INVARIANT Protocol
INVARIANT MaskSound
INVARIANT MidHasLegal
INVARIANT PhysOK
INVARIANT ReturnIsSafeRevealed
INVARIANT Total
INVARIANT SolvedIffAllSafeRevealed
INVARIANT LastHasReason
INVARIANT WithinHorizon
INVARIANT BudgetRespected
INVARIANT ObsConsistent
PROPERTY InvalidTerminates
PROPERTY MinesConserved
PROPERTY OnlyClickedCellChanges
CHECK_DEADLOCK FALSE
