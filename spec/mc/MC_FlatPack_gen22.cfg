\* Not in the index: expected to FAIL on InstanceCompletable (finding: crop-to-top-left pieces of height/width 2 at the
\* bottom/right edge cannot be put back with the corners 0..R-3 / 0..C-3 the action space offers).  Initial states only.
SPECIFICATION SpecInstances
CONSTANT Cfg <- MCCfg22
CONSTANT Rots = {0}
CONSTANT Shuffle = FALSE
CONSTANT Family = "cuts"
CONSTANT Extra = 0
INVARIANT InstanceOK
INVARIANT InstanceCompletable
CHECK_DEADLOCK FALSE
