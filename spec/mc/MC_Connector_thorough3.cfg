SPECIFICATION Spec
CONSTANT Cfg <- MCCfg3x3a3
CONSTANT Limits = {1, 2}
CONSTANT Starts0 <- CornerOnly
CONSTANT Starts1 <- NearCorner
CONSTRAINT Bounded
VIEW View
INVARIANT Protocol
INVARIANT InitWellFormed
INVARIANT MaskSound
INVARIANT MidHasMove
INVARIANT FeasibleAlways
INVARIANT CompletionIsSolution
INVARIANT PhysOK
INVARIANT TimeLimitExact
INVARIANT ObsAgrees
INVARIANT TransitionsOK
CHECK_DEADLOCK FALSE
