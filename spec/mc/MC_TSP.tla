----------------------------- MODULE MC_TSP -----------------------------
(* Bounded model of TSP: every instance with N cities and a symbolic integer distance matrix with
   off-diagonal entries in 1..MaxD (Symmetric = FALSE: direction-sensitive matrices, so that a leg taken in
   the wrong direction or charged twice shows up; Symmetric = TRUE: Euclidean-like), every action of the
   action space at every step (valid or not), including steps after the episode ended (step is total).
   Numbers are exact (Cfg.exact), the invalid-move penalty is a symbolic constant larger than any tour.
   `retD` / `retS` are the amounts charged (minus the return) by the dense and by the sparse reward function
   on the same trajectory, accumulated until the first LAST. *)
EXTENDS TSP

CONSTANTS MaxD, Symmetric, Extra      \* Extra = number of steps explored beyond the structural horizon
VARIABLES s,            \* environment state
          last,         \* last timestep: [type, dense, sparse (costs), legal, a]
          retD, retS,   \* dense / sparse cost of the episode
          steps,        \* number of step calls
          allLegal,     \* every action of the episode (up to its end) was legal
          over          \* a LAST timestep has been emitted
vars == <<s, last, retD, retS, steps, allLegal, over>>

MCCfg2 == [num_cities |-> 2, reward_fn |-> "dense", generator |-> "mc", exact |-> TRUE, unit |-> 1, penalty |-> 1000]
MCCfg3 == [num_cities |-> 3, reward_fn |-> "dense", generator |-> "mc", exact |-> TRUE, unit |-> 1, penalty |-> 1000]
MCCfg4 == [num_cities |-> 4, reward_fn |-> "dense", generator |-> "mc", exact |-> TRUE, unit |-> 1, penalty |-> 1000]

OffDiag == { p \in Cities \X Cities : p[1] # p[2] }
Upper   == { p \in Cities \X Cities : p[1] < p[2] }
Ord(i, j) == IF i < j THEN <<i, j>> ELSE <<j, i>>
Matrices ==
  IF Symmetric
  THEN { [i \in Cities |-> [j \in Cities |-> IF i = j THEN 0 ELSE f[Ord(i, j)]]] : f \in [Upper -> 1..MaxD] }
  ELSE { [i \in Cities |-> [j \in Cities |-> IF i = j THEN 0 ELSE f[<<i, j>>]]] : f \in [OffDiag -> 1..MaxD] }

Instances ==
  { [coordinates |-> [j \in Cities |-> <<0, 0>>], position |-> -1, visited_mask |-> [j \in Cities |-> FALSE],
     trajectory |-> [j \in Cities |-> -1], num_visited |-> 0, D |-> m] : m \in Matrices }

Init ==
  /\ s \in Instances
  /\ last = [type |-> FIRST, dense |-> 0, sparse |-> 0, legal |-> TRUE, a |-> 0]
  /\ retD = 0 /\ retS = 0 /\ steps = 0 /\ allLegal = TRUE /\ over = FALSE

Step(a) ==
  LET t  == Succ(s, a)
      lg == Legal(s, a)
      dn == Done(s, a, t)
      cd == DenseCost(s, a, t)
      cs == SparseCost(s, a, t) IN
  /\ s' = t
  /\ last' = [type |-> IF dn THEN LAST ELSE MID, dense |-> cd, sparse |-> cs, legal |-> lg, a |-> a]
  /\ retD' = IF over THEN retD ELSE retD + cd
  /\ retS' = IF over THEN retS ELSE retS + cs
  /\ steps' = steps + 1
  /\ allLegal' = IF over THEN allLegal ELSE allLegal /\ lg
  /\ over' = (over \/ dn)

Next == \E a \in Actions : Step(a)
NextLegal == \E a \in Actions : Legal(s, a) /\ Step(a)       \* mask-respecting play only
Spec == Init /\ [][Next]_vars
SpecLegal == Init /\ [][NextLegal]_vars

Bounded == steps <= Horizon + Extra

TypeOK ==
  /\ CounterInRange(s) /\ s.position \in -1..(N - 1)
  /\ last.type \in {FIRST, MID, LAST} /\ retD \in Nat /\ retS \in Nat
(* C03 *) Protocol ==
  /\ last.type = FIRST <=> steps = 0
  /\ ~over => last.type \in {FIRST, MID}
  /\ last.type = LAST => over
(* C04 *) MaskSound == \A a \in Actions : Legal(s, a) <=> Succ(s, a) # s            \* rules agree with the dynamics
(* C04 *) MaskRouteAgree == Mask(s) = MaskByRoute(s)                                 \* flags and route tell the same
(* C04 *) MidHasLegal == last.type = MID => \E a \in Actions : Legal(s, a)
(* C05 *) InvalidEffect == [][ (~last'.legal) => (last'.type = LAST /\ last'.dense = Penalty /\ last'.sparse = Penalty /\ s' = s) ]_vars
(* C06 *) FeasibleAlways == Feasible(s)                     \* invalid actions do not touch the state either
(* C06 *) FeasibleUnderLegalPlay == allLegal => Feasible(s)
(* C06 *) CompletionIsFullTour == (over /\ allLegal) => FullTour(s)
(* C08 *) DenseRunningIsPath == ~over => retD = PathLength(s)
(* C08 *) SparsePaysOnlyAtEnd == ~over => retS = 0
(* C08 *) ReturnAtEnd ==
  [][ (~over /\ over') =>
        ( (allLegal' => ( retD' = Objective(s') /\ retS' = retD'
                          \* the closing leg is charged exactly once, from the last city back to the first
                          /\ retD' = PathLength(s') + Dist(s', s'.position, RouteStart(s')) ))
          /\ (~allLegal' => (retS' = Penalty /\ retD' = PathLength(s') + Penalty)) ) ]_vars
(* C08 *) ReturnOfLegalEpisode == (over /\ allLegal) => (retD = Objective(s) /\ retS = retD)
(* C08 *) DenseIsSparseOnCompletion == (over /\ allLegal) => retD = retS
(* C09 *) Total == \A a \in Actions : CounterInRange(Succ(s, a)) /\ Feasible(Succ(s, a))
(* C09 *) ProblemDataConstant == [][ s'.coordinates = s.coordinates /\ s'.D = s.D ]_vars
(* C11 *) HorizonOK == (~over => (steps = NumVisited(s) /\ steps < Horizon)) /\ (steps >= Horizon => over)
(* C12 *) ObsOK == /\ Obs(s).trajectory = s.trajectory /\ Obs(s).position = s.position
                   /\ Obs(s).action_mask = Mask(s)
                   /\ (last.type = MID => \E j \in Cities : Obs(s).action_mask[j])
                   /\ ((last.type = LAST /\ last.legal) => \A j \in Cities : ~Obs(s).action_mask[j])
=============================================================================
