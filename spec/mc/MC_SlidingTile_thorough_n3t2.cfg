SPECIFICATION Spec
CONSTANT Cfg <- MCCfg3T2
CONSTANT MCRadius = 5
CONSTRAINT Bounded
INVARIANT Protocol
INVARIANT MaskSound
INVARIANT BlankInside
INVARIANT ReturnIsObjective
INVARIANT Total
INVARIANT EndsAtLimit
INVARIANT ObsFaithful
INVARIANT StaysSolvable
INVARIANT SolvedIffLast
PROPERTY InvalidNoEffect
CHECK_DEADLOCK FALSE
