----------------------------- MODULE MC_CVRP -----------------------------
(* Bounded model of CVRP: every instance with N customers, demands 1..Min(MaxD, Q), and a family of symbolic
   integer distance matrices (every symmetric matrix over DVals with zero diagonal, plus one asymmetric
   "generic" matrix whose directed legs are distinct powers of two, so that two different multisets of legs
   never have the same length).  Every action of the action space at every step (legal or not), including
   steps after the episode ended (step is total).  `ret` / `ret2` are the returns of the dense and of the
   sparse reward function on the same trajectory, accumulated until the first LAST. *)
EXTENDS CVRP

CONSTANTS MaxD,       \* largest demand
          DVals,      \* entries of the symmetric distance matrices
          Extra       \* number of steps explored beyond the structural horizon / after the end of the episode
VARIABLES s,          \* environment state (CVRP.tla fields, without coordinates)
          last,       \* last timestep: [type, dense, sparse (rewards), legal, a]
          ret, ret2,  \* dense / sparse return of the episode
          steps,      \* number of step calls
          allLegal,   \* every action of the episode (up to its end) was legal
          over,       \* a LAST timestep has been emitted
          post        \* number of step calls made after the episode ended
vars == <<s, last, ret, ret2, steps, allLegal, over, post>>

MCCfg(n, q) == [num_nodes |-> n, max_capacity |-> q, max_demand |-> q, reward_fn |-> "dense",
                generator |-> "mc", lattice |-> FALSE]
\* zero-demand customers allowed (the demand box of the observation spec is [0, max_capacity])
MCCfgZ(n, q) == [MCCfg(n, q) EXCEPT !.generator = "lattice0"]
MCCfgZ3q2 == MCCfgZ(3, 2)
MinDem == IF Cfg.generator = "lattice0" THEN 0 ELSE 1
MCCfg3q1 == MCCfg(3, 1)
MCCfg3q2 == MCCfg(3, 2)
MCCfg3q3 == MCCfg(3, 3)
MCCfg2q2 == MCCfg(2, 2)
MCCfg4q3 == MCCfg(4, 3)

Pairs == { p \in Nodes \X Nodes : p[1] < p[2] }
SymD(f) == [u \in 1..(N + 1) |-> [v \in 1..(N + 1) |->
              IF u = v THEN 0 ELSE f[<<Min2(u, v) - 1, Max2(u, v) - 1>>]]]
GenericD == [u \in 1..(N + 1) |-> [v \in 1..(N + 1) |-> IF u = v THEN 0 ELSE 2 ^ ((u - 1) * (N + 1) + (v - 1))]]
DFamily == { SymD(f) : f \in [Pairs -> DVals] } \cup { GenericD }

Instances ==
  { [demands |-> <<0>> \o d, D |-> dm, position |-> Depot, capacity |-> Q, num_total_visits |-> 1,
     visited_mask |-> [j \in 1..(N + 1) |-> j = 1], trajectory |-> [j \in 1..TrajLen |-> Depot]] :
      d \in [1..N -> MinDem..Min2(MaxD, Q)], dm \in DFamily }

Init ==
  /\ s \in Instances
  /\ last = [type |-> FIRST, dense |-> 0, sparse |-> 0, legal |-> TRUE, a |-> 0]
  /\ ret = 0 /\ ret2 = 0 /\ steps = 0 /\ allLegal = TRUE /\ over = FALSE /\ post = 0

Step(a) ==
  LET t  == Succ(s, a)
      lg == Legal(s, a)
      dn == Done(s, a, t)
      rd == DenseReward(s, a, t)
      rs == SparseReward(s, a, t) IN
  /\ s' = t
  /\ last' = [type |-> IF dn THEN LAST ELSE MID, dense |-> rd, sparse |-> rs, legal |-> lg, a |-> a]
  /\ ret'  = IF over THEN ret  ELSE ret + rd
  /\ ret2' = IF over THEN ret2 ELSE ret2 + rs
  /\ steps' = steps + 1
  /\ allLegal' = IF over THEN allLegal ELSE allLegal /\ lg
  /\ over' = (over \/ dn)
  /\ post' = IF over THEN post + 1 ELSE 0

Next == \E a \in Actions : Step(a)
NextLegal == \E a \in Actions : Legal(s, a) /\ Step(a)       \* mask-respecting play only
Spec == Init /\ [][Next]_vars
SpecLegal == Init /\ [][NextLegal]_vars

Bounded == steps <= Horizon + Extra /\ post <= Extra

TypeOK ==
  /\ ShapeOK(s) /\ DemandsOK(s) /\ s.capacity \in 0..Q /\ s.num_total_visits \in 1..(TrajLen + 1 + Extra)
  /\ last.type \in {FIRST, MID, LAST} /\ ret <= 0 /\ ret2 <= 0
(* C03 *) Protocol ==
  /\ last.type = FIRST <=> steps = 0
  /\ ~over => last.type \in {FIRST, MID}
  /\ last.type = LAST => over
(* C04 *) MaskSound == \A a \in Actions : Legal(s, a) <=> Succ(s, a) # s            \* rules agree with the dynamics
(* C04: the legal actions are exactly the moves to another node that keep the partial solution feasible *)
(* C04 *) LegalIffFeasibleMove ==
  (~over) => \A a \in Actions : Legal(s, a) <=> (a # s.position /\ Feasible(Visit(s, a)))
(* C04 *) MidHasLegal == last.type = MID => \E a \in Actions : Legal(s, a)
(* C05 *) InvalidEffect ==
  [][ (~last'.legal) => (last'.type = LAST /\ last'.dense = Penalty /\ last'.sparse = Penalty /\ s' = s) ]_vars
(* C06 *) FeasibleUnderLegalPlay == allLegal => Feasible(s)
(* C06 *) FeasibleAlways == Feasible(s)                     \* invalid actions do not touch the state either
(* C06 *) CompletionIsFullSolution == (over /\ allLegal) => (CompleteSolution(s) /\ AllServed(s))
(* C06 *) TruncationHarmless == s.num_total_visits > TrajLen => s.position = Depot   \* only a depot id is ever dropped
(* C08 *) RunningReturn == ~over => (ret = -OpenLen(s) /\ ret2 = 0)
(* C08 *) ReturnOfLegalEpisode == (over /\ allLegal) => (ret = Objective(s) /\ ret2 = ret)
(* C08 *) ReturnAtEnd ==
  [][ (~over /\ over') =>
        IF allLegal' THEN ret' = Objective(s') /\ ret2' = ret'
        ELSE ret' = -OpenLen(s) + Penalty /\ ret2' = Penalty ]_vars
(* C09 *) DepotRefills == [][ (last'.legal /\ last'.a = Depot) => (s'.capacity = Q /\ s'.position = Depot) ]_vars
(* C09 *) CustomerConsumes ==
  [][ (last'.legal /\ last'.a # Depot) => (s'.capacity = s.capacity - Dem(s, last'.a) /\ Seen(s', last'.a)) ]_vars
(* C09 *) ProblemDataConstant == [][ s'.demands = s.demands /\ s'.D = s.D ]_vars
(* C11 *) HorizonOK ==
  /\ ~over => (steps = s.num_total_visits - 1 /\ steps < Horizon)
  /\ steps >= Horizon => over
(* C12 *) ObsOK ==
  /\ (last.type = MID => \E j \in 1..(N + 1) : Mask(s)[j])
  /\ ((last.type = LAST /\ last.legal /\ allLegal) => \A j \in 1..(N + 1) : ~Mask(s)[j])
  /\ \A j \in 1..(N + 1) : ObsUnvisited(s)[j] = ~s.visited_mask[j]
=============================================================================
