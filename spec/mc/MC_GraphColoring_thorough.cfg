SPECIFICATION Spec
CONSTANT Cfg <- MCCfg4
CONSTANT Extra = 2
INVARIANT TypeOK
INVARIANT Protocol
INVARIANT MaskSound
INVARIANT MidHasLegal
INVARIANT MaskIsObsMask
INVARIANT FeasibleUnderLegalPlay
INVARIANT PrefixUnderPlay
INVARIANT CompletionIsFullSolution
INVARIANT IllegalMeansConflict
INVARIANT NothingPaidBeforeEnd
INVARIANT ReturnOfLegalEpisode
INVARIANT ReturnOfInvalidEpisode
INVARIANT Total
INVARIANT HorizonOK
INVARIANT ObsOK
PROPERTY InvalidEffect
PROPERTY ReturnAtEnd
PROPERTY GraphConstant
CONSTRAINT Bounded
CHECK_DEADLOCK FALSE
