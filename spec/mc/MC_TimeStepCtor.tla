--------------------------- MODULE MC_TimeStepCtor ---------------------------
(* The episode protocol as a consequence of the constructor laws: an environment whose reset returns restart(...) and
   whose step returns transition(...) while the episode runs and termination(...) / truncation(...) when it ends emits
   FIRST MID* LAST with zero reward and unit discount first, a non-zero discount on MID, zero discount on a terminated
   LAST and unit discount on a truncated one - for every reward shape in Shapes and every reward value in Rewards.
   After LAST the environment is reset (the next episode starts). *)
EXTENDS TimeStepCtor

CONSTANTS Shapes, Rewards, MaxLen
VARIABLES ts, n, how          \* last emitted timestep, steps taken in this episode, how the last timestep was built
vars == <<ts, n, how>>

MCShapes == {<<>>, <<1>>, <<3>>, <<2, 2>>}
MCRewards == {-65536, 0, 32768}

Mk(fn, shape, r) ==
  LET e == [fn |-> fn, shape |-> shape, reward_given |-> [shape |-> shape, q |-> Const(shape, r)],
            discount_given |-> [given |-> FALSE]] IN
  [type |-> ExpectedType(fn), reward |-> ExpectedReward(e), discount |-> ExpectedDiscount(e)]

Init == \E sh \in Shapes : ts = Mk("restart", sh, 0) /\ n = 0 /\ how = "restart"
Step(fn) == \E r \in Rewards : ts' = Mk(fn, ts.reward.shape, r) /\ n' = n + 1 /\ how' = fn
Next ==
  \/ ts.type # LAST /\ n < MaxLen /\ (Step("transition") \/ Step("termination") \/ Step("truncation"))
  \/ ts.type # LAST /\ n = MaxLen /\ (Step("termination") \/ Step("truncation"))
  \/ ts.type = LAST /\ ts' = Mk("restart", ts.reward.shape, 0) /\ n' = 0 /\ how' = "restart"
Spec == Init /\ [][Next]_vars

All(sq, v) == \A j \in 1..Len(sq) : sq[j] = v
(* C03 *) FirstIffReset == (ts.type = FIRST) <=> (n = 0)
(* C03 *) FirstIsNeutral == ts.type = FIRST => (All(ts.reward.q, 0) /\ All(ts.discount.q, FX))
(* C03 *) MidDiscountNonZero == ts.type = MID => ~All(ts.discount.q, 0)
(* C03 *) TerminatedDiscountZero == how = "termination" => (ts.type = LAST /\ All(ts.discount.q, 0))
(* C03 *) TruncatedDiscountOne == how = "truncation" => (ts.type = LAST /\ All(ts.discount.q, FX))
(* C03 *) ShapesAgree == ts.reward.shape = ts.discount.shape /\ Len(ts.reward.q) = Size(ts.reward.shape)
(* C03 *) NeverFirstFromStep == [][ n' > 0 => ts'.type \in {MID, LAST} ]_vars
(* C03 *) EpisodeEnds == n <= MaxLen + 1
=============================================================================
