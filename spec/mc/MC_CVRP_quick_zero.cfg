SPECIFICATION Spec
CONSTANT Cfg <- MCCfgZ3q2
CONSTANT MaxD = 2
CONSTANT DVals = {1}
CONSTANT Extra = 1
INVARIANT TypeOK
INVARIANT Protocol
INVARIANT MaskSound
INVARIANT LegalIffFeasibleMove
INVARIANT MidHasLegal
INVARIANT FeasibleUnderLegalPlay
INVARIANT FeasibleAlways
INVARIANT CompletionIsFullSolution
INVARIANT TruncationHarmless
INVARIANT RunningReturn
INVARIANT ReturnOfLegalEpisode
INVARIANT HorizonOK
INVARIANT ObsOK
PROPERTY InvalidEffect
PROPERTY ReturnAtEnd
PROPERTY DepotRefills
PROPERTY CustomerConsumes
PROPERTY ProblemDataConstant
CONSTRAINT Bounded
CHECK_DEADLOCK FALSE
