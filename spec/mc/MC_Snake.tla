----------------------------- MODULE MC_Snake -----------------------------
(* Bounded model of Snake: every initial placement of a length-1 snake and a fruit, every action (legal or
   not), every admissible position of a new fruit, several time limits at once (the limit T is chosen in
   Init; NoLimit stands for "larger than any episode": with it every snake reachable on the grid is explored,
   the step counter being hidden by the VIEW).  After a LAST timestep `step` stays total: the model keeps
   answering LAST and leaves the (undocumented) state alone. *)
EXTENDS Snake

CONSTANTS TimeLimits, NoLimit
VARIABLES s, T, last, ret, over
vars == <<s, T, last, ret, over>>

MCCfg2x2 == [num_rows |-> 2, num_cols |-> 2, time_limit |-> 0]     \* time_limit unused: see T
MCCfg2x3 == [num_rows |-> 2, num_cols |-> 3, time_limit |-> 0]
MCCfg3x2 == [num_rows |-> 3, num_cols |-> 2, time_limit |-> 0]
MCCfg3x3 == [num_rows |-> 3, num_cols |-> 3, time_limit |-> 0]
MCCfg3x4 == [num_rows |-> 3, num_cols |-> 4, time_limit |-> 0]

Encode(sn, f, sc) ==
  LET og == OrderGrid(sn) IN
  [body_state |-> og,
   body |-> [r \in 1..NR |-> [c \in 1..NC |-> og[r][c] > 0]],
   tail |-> [r \in 1..NR |-> [c \in 1..NC |-> og[r][c] = 1]],
   head_position |-> SnPos(sn[1]), fruit_position |-> SnPos(f), length |-> Len(sn), step_count |-> sc]

Init ==
  /\ s \in { Encode(<<h>>, f, 0) : <<h, f>> \in { p \in AllCells \X AllCells : p[1] # p[2] } }
  /\ T \in TimeLimits
  /\ last = [type |-> FIRST, reward |-> 0, legal |-> TRUE, a |-> 0]
  /\ ret = 0
  /\ over = FALSE

(* admissible cells for the fruit after the legal move a *)
FruitChoices(st, a) ==
  IF ~Eats(st, a) \/ SnFull(SuccSnake(st, a)) THEN { SnCell(st.fruit_position) } ELSE SnFree(SuccSnake(st, a))

Step(a) ==
  /\ T' = T
  /\ IF over THEN
       /\ s' = s /\ ret' = ret /\ over' = TRUE
       /\ last' = [type |-> LAST, reward |-> 0, legal |-> last.legal, a |-> a]
     ELSE IF Legal(s, a) THEN
       /\ \E f \in FruitChoices(s, a) : s' = Encode(SuccSnake(s, a), f, s.step_count + 1)
       /\ last' = [type |-> IF DoneT(s, a, T) THEN LAST ELSE MID, reward |-> Reward(s, a), legal |-> TRUE, a |-> a]
       /\ ret' = ret + Reward(s, a)
       /\ over' = DoneT(s, a, T)
     ELSE
       /\ s' = [s EXCEPT !.step_count = @ + 1]
       /\ last' = [type |-> IF DoneT(s, a, T) THEN LAST ELSE MID, reward |-> Reward(s, a), legal |-> FALSE, a |-> a]
       /\ ret' = ret + Reward(s, a)
       /\ over' = DoneT(s, a, T)

Next == \E a \in Actions : Step(a)
Spec == Init /\ [][Next]_vars

View == <<[s EXCEPT !.step_count = IF T = NoLimit THEN 0 ELSE @], T, last, ret, over>>

(* C03 *) Protocol == /\ last.type \in {FIRST, MID, LAST}
                      /\ (last.type = FIRST) <=> (s.step_count = 0)
                      /\ over <=> (last.type = LAST)
(* C03 *) LastIsAbsorbing == [][ over => (over' /\ last'.type = LAST) ]_vars
(* C04: the rule (sequence form), the order form used by masks, and the dynamics (the move yields a
        physically possible snake) agree on every reachable state -- in particular on the tail cell *)
(* C04 *) MaskSound == ~over => \A a \in Actions :
                         /\ Legal(s, a) <=> LegalByOrder(s, a)
                         /\ Legal(s, a) <=> SnValid(SuccSnake(s, a))
(* C04 *) MidHasLegal == last.type \in {FIRST, MID} => \E a \in Actions : Legal(s, a)
(* C04 *) TailCellIsLegal == ~over => \A a \in Actions :
                               (s.length >= 2 /\ InGrid(NR, NC, SnNewHead(SnakeOf(s), a))
                                /\ SnOrder(s, SnNewHead(SnakeOf(s), a)) = 1) => Legal(s, a)
(* C05 *) InvalidIsLastRewardZero == [][ (~over /\ ~last'.legal) => (last'.type = LAST /\ last'.reward = 0 /\ ret' = ret) ]_vars
(* C07 *) PhysOK == ~over => PhysInv(s)
(* C07 *) SnakeDecodes == ~over => (SnValid(SnakeOf(s)) /\ OrderGrid(SnakeOf(s)) = s.body_state)
(* C08 *) ReturnIsFruitsEaten == ret = Objective(s)
(* C09 *) Total == ~over => \A a \in Actions : Legal(s, a) => FruitChoices(s, a) # {}
(* C09 *) StepSatisfiesRel == [][ ~over => (StepRel(s, last'.a, s') /\ last'.reward = Reward(s, last'.a)) ]_vars
(* C09 *) RewardIffGrowth == [][ ~over => (s'.length = s.length + last'.reward /\ last'.reward \in {0, 1}) ]_vars
(* C11 *) TimeLimitExact == /\ (~over => s.step_count < T)
                            /\ (s.step_count >= T => over)
                            /\ s.step_count <= T
(* C11 *) EarlyLastHasReason == [][ (~over /\ over' /\ s'.step_count < T) =>
                                      (EndInvalid(s, last'.a) \/ EndCompleted(s, last'.a) \/ EndSurrounded(s, last'.a)) ]_vars
(* C12: in every live state the planes single out exactly one head (normalised order 1), one tail, one fruit
        off the body, and the body plane is the support of the normalised order *)
ObsPlanesOK ==
  LET o == [c \in AllCells |-> ObsCell(s, c)] IN
  /\ Cardinality({ c \in AllCells : o[c].head = FX }) = 1
  /\ \A c \in AllCells : o[c].head = FX => (o[c].ord = o[c].len /\ o[c].body = FX)
  /\ Cardinality({ c \in AllCells : o[c].tail = FX }) = 1
  /\ \A c \in AllCells : o[c].tail = FX => o[c].ord = 1
  /\ Cardinality({ c \in AllCells : o[c].fruit = FX }) = 1
  /\ \A c \in AllCells : o[c].fruit = FX => o[c].body = 0
  /\ \A c \in AllCells : (o[c].body = FX) <=> (o[c].ord > 0)
  /\ \A c \in AllCells : o[c].ord <= o[c].len
(* C12 *) ObsOK == ~over => ObsPlanesOK
=============================================================================
