SPECIFICATION Spec
CONSTANT Cfg <- MCCfg5
CONSTANT Limits = {1, 2, 3}
CONSTANT MinEdges = 4
CONSTANT MaxEdges = 10
CONSTANT Sample = FALSE
CONSTANT LegalOnly = TRUE
CONSTRAINT Bounded
VIEW View
INVARIANT Protocol
INVARIANT InitWellFormed
INVARIANT MaskIsLegal
INVARIANT MaskSound
INVARIANT FinishedHasNoMove
INVARIANT FeasibleAlways
INVARIANT CompletionIsSolution
INVARIANT FinishedMeansConnected
INVARIANT TimeLimitExact
INVARIANT ObsWithinSpec
INVARIANT ObsDefined
PROPERTY TieBreakExclusive
PROPERTY UtilityNeverShared
PROPERTY PathsGrow
PROPERTY FinishedStays
CHECK_DEADLOCK FALSE
