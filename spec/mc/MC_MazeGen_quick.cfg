SPECIFICATION Spec
CONSTANT MaxRows = 6
CONSTANT MaxCols = 6
INVARIANT AlwaysConnected
INVARIANT OriginFreeG
INVARIANT WallParityG
INVARIANT TwoFreeCells
INVARIANT ChambersInside
INVARIANT FinishedIsPerfectGrid
INVARIANT SplitPossible
CHECK_DEADLOCK FALSE
