------------------------ MODULE MC_SlidingTileSpace ------------------------
(* The permutation-puzzle laws of SlidingTile over the ENTIRE space of arrangements (C17, with the C04 / C05
   facts that are pure functions of the board).  State = the board only.
   SpecAll : explores all (N*N)! arrangements (solvable or not), starting from one representative of each of the
             two parity classes (the goal, and the goal with tiles 1 and 2 exchanged; postcondition CountedAll
             confirms that every arrangement was visited): every law is checked as a state invariant quantifying
             over the 4 actions, i.e. on every (board, action) pair of the space.
   SpecGoal: Init = the goal: the reachable set.  With
               ParityInv (reachable boards are Solvable)            [SpecGoal invariant]
               |reachable| = (N*N)!/2                               [SpecGoal postcondition ReachedHalf]
               |all| = (N*N)! and exchanging tiles 1 and 2 flips Solvable, a bijection solvable <-> unsolvable
                                                                    [SpecAll: SwapFlipsParity, CountedAll]
             the reachable set from the goal EQUALS the Solvable set. *)
EXTENDS SlidingTile

VARIABLES p
vars == <<p>>

MCCfg2 == [grid_size |-> 2, time_limit |-> 500, reward_fn |-> "dense", generator |-> "random_walk", num_random_moves |-> 0]
MCCfg3 == [grid_size |-> 3, time_limit |-> 500, reward_fn |-> "dense", generator |-> "random_walk", num_random_moves |-> 0]

(* exchange the numbered tiles 1 and 2 wherever they are *)
SwapTiles12(b) == [r \in Idx |-> [c \in Idx |-> IF b[r][c] = 1 THEN 2 ELSE IF b[r][c] = 2 THEN 1 ELSE b[r][c]]]

InitAll == p \in {Goal, SwapTiles12(Goal)}
InitGoal == p = Goal
Next == \E a \in Actions : p' = Move(p, a)       \* any in-spec action, legal or not
SpecAll == InitAll /\ [][Next]_vars
SpecGoal == InitGoal /\ [][Next]_vars

RECURSIVE Fact(_)
Fact(k) == IF k <= 1 THEN 1 ELSE k * Fact(k - 1)

(* C17 *) MultisetConserved == IsPerm(p) /\ \A a \in Actions : IsPerm(Move(p, a))
(* C17 *) MoveIsTransposition ==          \* the move touches exactly the blank's cell and the neighbour in the action's direction
            \A a \in Actions :
              LET b == Blank(p)  d == Dest(b, a)  q == Move(p, a) IN
              IF InGrid(N, N, d)
              THEN /\ q[b[1]][b[2]] = p[d[1]][d[2]] /\ q[d[1]][d[2]] = 0
                   /\ \A rc \in Pos : (rc # b /\ rc # d) => q[rc[1]][rc[2]] = p[rc[1]][rc[2]]
                   /\ Blank(q) = d /\ Adjacent4(b, d)
              ELSE q = p
(* C17 *) OppositeCancel ==
            \A a \in Actions : Legal(p, a) => (Legal(Move(p, a), Opp(a)) /\ Move(Move(p, a), Opp(a)) = p)
(* C17 *) SolvedIffGoal == (Solved(p) <=> Correct(p) = N * N) /\ (Solved(p) <=> Flat(p) = [k \in 1..(N * N) |-> k % (N * N)])
(* C17 *) ParityPreserved == LET sp == Solvable(p) IN \A a \in Actions : Solvable(Move(p, a)) <=> sp
(* C17 *) ParityInv == Solvable(p)                              \* SpecGoal only
(* C17 *) CriteriaAgree == Solvable(p) <=> SolvableAlt(p)
(* C17 *) SwapFlipsParity == Solvable(SwapTiles12(p)) # Solvable(p)
(* C04 *) MaskSound == \A a \in Actions : Legal(p, a) <=> Move(p, a) # p
(* C04 *) BlankInside == Cardinality(BlankCells(p)) = 1 /\ \A a \in Actions : Cardinality(BlankCells(Move(p, a))) = 1
(* C04 *) MaskShape == \A j \in 1..4 : Mask(p)[j] <=> LET b == Blank(p) IN
                          CASE j = 1 -> b[1] > 1 [] j = 2 -> b[2] < N [] j = 3 -> b[1] < N [] j = 4 -> b[2] > 1
(* C05 *) InvalidNoEffect == \A a \in Actions : ~Legal(p, a) => (Move(p, a) = p /\ RewardDense(p, Move(p, a)) = 0)
(* C08 *) DenseTelescopes == \A a \in Actions : Correct(Move(p, a)) = Correct(p) + RewardDense(p, Move(p, a))
(* C08 *) DenseStepBound == \A a \in Actions : RewardDense(p, Move(p, a)) \in -2..2

CountedAll == TLCGet("stats").distinct = Fact(N * N)            \* POSTCONDITION of SpecAll
ReachedHalf == TLCGet("stats").distinct = Fact(N * N) \div 2     \* POSTCONDITION of SpecGoal
=============================================================================
