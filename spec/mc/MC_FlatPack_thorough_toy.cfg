SPECIFICATION SpecLegal
CONSTANT Cfg <- MCCfg22
CONSTANT Rots = {0, 1}
CONSTANT Shuffle = FALSE
CONSTANT Family = "toy"
CONSTANT Extra = 0
INVARIANT TypeOK
INVARIANT Protocol
INVARIANT MaskSound
INVARIANT MaskEncoding
INVARIANT StartAllLegal
INVARIANT FeasibleUnderLegalPlay
INVARIANT FeasibleAlways
INVARIANT CompletionIsFull
INVARIANT CellReturnIsCoverage
INVARIANT BlockReturnIsPlaced
INVARIANT Total
INVARIANT InstanceOK
INVARIANT InstanceCompletable
INVARIANT HorizonOK
INVARIANT ObsOK
PROPERTY InvalidIgnored
PROPERTY ReturnAtEnd
PROPERTY ProblemDataConstant
PROPERTY PlacedOnlyGrows
CHECK_DEADLOCK FALSE
