SPECIFICATION SpecReset
CONSTANT Cfg <- MCCfg54t2
CONSTANT MaxSteps = 2
INVARIANT Protocol
INVARIANT MaskSound
INVARIANT MidHasLegal
INVARIANT PhysOK
INVARIANT StepLawAllActions
INVARIANT RewardFromTable
INVARIANT TimeLimit
INVARIANT EarlyLastHasReason
INVARIANT ObsMaskIffMove
PROPERTY InvalidIsLast
PROPERTY CellsConserved
CHECK_DEADLOCK FALSE
