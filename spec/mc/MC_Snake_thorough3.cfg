SPECIFICATION Spec
CONSTANT Cfg <- MCCfg3x4
CONSTANT TimeLimits = {1, 2, 3, 1000000}
CONSTANT NoLimit = 1000000
INVARIANT Protocol
INVARIANT MaskSound
INVARIANT MidHasLegal
INVARIANT TailCellIsLegal
INVARIANT PhysOK
INVARIANT SnakeDecodes
INVARIANT ReturnIsFruitsEaten
INVARIANT Total
INVARIANT TimeLimitExact
INVARIANT ObsOK
PROPERTY LastIsAbsorbing
PROPERTY InvalidIsLastRewardZero
PROPERTY StepSatisfiesRel
PROPERTY RewardIffGrowth
PROPERTY EarlyLastHasReason
VIEW View
CHECK_DEADLOCK FALSE
