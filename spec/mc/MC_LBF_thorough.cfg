SPECIFICATION Spec
CONSTANT Cfg <- MCCfg3x3
CONSTANT Limits = {1, 2, 3}
CONSTANT FoodPlacements <- Food3All
CONSTANT AgentLevels <- LevelsAll
CONSTANT TimedStarts <- StartEdge
CONSTANT TimedFood <- Food3Sym
CONSTRAINT Bounded
VIEW View
INVARIANT Protocol
INVARIANT InitWellFormed
INVARIANT PhysOK
INVARIANT ReturnIsCollectedShare
INVARIANT NormalisedTotalOne
INVARIANT TimeLimitExact
INVARIANT MaskSound
INVARIANT ObsAgrees
INVARIANT TransitionsOK
CHECK_DEADLOCK FALSE
