SPECIFICATION SpecRep
CONSTANT Cfg <- MCCfg2
CONSTANT Solutions <- OneSolution
CONSTANT MaxEmpty = 5
CONSTANT Extra = 1
INVARIANT TypeOK
INVARIANT Protocol
INVARIANT MaskSound
INVARIANT MaskLayout
INVARIANT ContinuesIffLegalLeft
INVARIANT IllegalUniform
INVARIANT FeasibleUnderLegalPlay
INVARIANT CompletionIsSolution
INVARIANT RewardedOnlyWhenSolved
INVARIANT Total
INVARIANT HorizonOK
INVARIANT ObsOK
PROPERTY InvalidEffect
PROPERTY OneCellPerStep
PROPERTY CluesKept
CONSTRAINT Bounded
CHECK_DEADLOCK FALSE
