SPECIFICATION Spec
CONSTANT Cfg <- MCCfg3x3
CONSTANT PostSteps = 2
CONSTRAINT Bounded
INVARIANT TypeOK
INVARIANT Protocol
INVARIANT MaskSound
INVARIANT MidHasLegal
INVARIANT PhysOK
INVARIANT Total
INVARIANT RewardIffTarget
INVARIANT TargetEnds
INVARIANT ConnectedNeverStuck
INVARIANT EndsExactlyAtLimit
INVARIANT ObsFaithful
PROPERTY OnceLastNeverMid
PROPERTY InvalidNoEffect
PROPERTY Conserved
PROPERTY LegalMoveLandsOnFreeCell
CHECK_DEADLOCK FALSE
