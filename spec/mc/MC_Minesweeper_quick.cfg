SPECIFICATION Spec
CONSTANT Cfg <- MCCfg2x2
CONSTANT MineCounts = {0, 1, 2, 3}
CONSTANT PostSteps = 3
CONSTRAINT Bounded
INVARIANT Protocol
INVARIANT MaskSound
INVARIANT MidHasLegal
INVARIANT PhysOK
INVARIANT ReturnIsSafeRevealed
INVARIANT Total
INVARIANT SolvedIffAllSafeRevealed
INVARIANT LastHasReason
INVARIANT WithinHorizon
INVARIANT ObsConsistent
PROPERTY InvalidTerminates
PROPERTY MinesConserved
PROPERTY OnlyClickedCellChanges
CHECK_DEADLOCK FALSE
