SPECIFICATION Spec
CONSTANT Cfg <- MCCfg4x4
CONSTANT Limits = {1, 2, 3}
CONSTANT FoodPlacements <- Food4Two
CONSTANT AgentLevels <- Levels12
CONSTANT TimedStarts <- StartEdge
CONSTANT TimedFood <- Food4Two
CONSTRAINT Bounded
VIEW View
INVARIANT Protocol
INVARIANT InitWellFormed
INVARIANT PhysOK
INVARIANT ReturnIsCollectedShare
INVARIANT NormalisedTotalOne
INVARIANT TimeLimitExact
INVARIANT MaskSound
INVARIANT ObsAgrees
INVARIANT TransitionsOK
CHECK_DEADLOCK FALSE
