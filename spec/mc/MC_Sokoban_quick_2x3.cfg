SPECIFICATION Spec
CONSTANT Cfg <- MCCfg1x
CONSTANT MaxWalls = 2
CONSTANT Limits = {1, 2}
CONSTANT PostSteps = 1
CONSTRAINT Bounded
INVARIANT TypeOK
INVARIANT InitWellFormed
INVARIANT Protocol
INVARIANT PhysOK
INVARIANT RewardRange
INVARIANT BonusIffSolved
INVARIANT SolvedEnds
INVARIANT EndsExactlyAtLimit
INVARIANT ObsFaithful
PROPERTY InvalidNoEffect
PROPERTY LegalIffSomethingMoves
PROPERTY Conserved
PROPERTY PushRule
VIEW View
CHECK_DEADLOCK FALSE
