--------------------------- MODULE MC_Sudoku ---------------------------
(* Bounded model of Sudoku on the 4 x 4 board (box size 2; the implementation is fixed at box size 3, the
   reference model Sudoku.tla is parametric).  Instances: every puzzle obtained from one of the solved
   grids in Solutions by blanking 1..MaxEmpty cells.  Every action of the action space at every step
   (legal or not), including steps taken after the episode ended (step is total).  The documentation is
   silent about the board after an illegal action; the model leaves it unchanged. *)
EXTENDS Sudoku

CONSTANTS MaxEmpty,   \* instances have 1..MaxEmpty empty cells
          Extra,      \* number of steps explored beyond the structural horizon
          Solutions   \* the solved grids the instances are cut from
VARIABLES s,          \* environment state [board]
          h0,         \* number of empty cells of the instance (structural horizon)
          last,       \* last timestep: [type, reward, legal]
          ret,        \* return of the episode (until its first LAST)
          steps,      \* number of step calls
          allLegal,   \* every action of the episode (up to its end) was legal
          over        \* a LAST timestep has been emitted
vars == <<s, h0, last, ret, steps, allLegal, over>>

MCCfg2 == [box |-> 2, generator |-> "mc", min_clues |-> 0, constant |-> FALSE]

Sol1 == << <<0, 1, 2, 3>>, <<2, 3, 0, 1>>, <<1, 0, 3, 2>>, <<3, 2, 1, 0>> >>
Sol2 == << <<0, 1, 2, 3>>, <<2, 3, 1, 0>>, <<1, 0, 3, 2>>, <<3, 2, 0, 1>> >>
Sol3 == << <<3, 0, 1, 2>>, <<1, 2, 3, 0>>, <<0, 3, 2, 1>>, <<2, 1, 0, 3>> >>
AllSolutions == {Sol1, Sol2, Sol3}
OneSolution == {Sol2}
ASSUME SdN = 4 /\ \A b \in AllSolutions : SdShapeOK(b) /\ Solved(b) /\ NoRepeat(b)

Blank(b, E) == [r \in SdIdx |-> [c \in SdIdx |-> IF <<r, c>> \in E THEN SdEmpty ELSE b[r][c]]]
RECURSIVE SubsetsUpTo(_, _)      \* the subsets of S with at most k elements
SubsetsUpTo(S, k) ==
  IF k = 0 \/ S = {} THEN {{}}
  ELSE LET x == CHOOSE y \in S : TRUE  R == S \ {x}
       IN  SubsetsUpTo(R, k) \cup { E \cup {x} : E \in SubsetsUpTo(R, k - 1) }
Puzzles == { Blank(b, E) : b \in Solutions, E \in SubsetsUpTo(SdCells, MaxEmpty) \ {{}} }

Init ==
  /\ s \in { [board |-> p] : p \in Puzzles }
  /\ h0 = Horizon(s.board)
  /\ last = [type |-> FIRST, reward |-> 0, legal |-> TRUE]
  /\ ret = 0 /\ steps = 0 /\ allLegal = TRUE /\ over = FALSE

Succ(st, a) == IF Legal(st, a) THEN [board |-> Place(st.board, a)] ELSE st

Step(a) ==
  LET lg == Legal(s, a)
      dn == Done(s, a)
      rw == Reward(s, a) IN
  /\ s' = Succ(s, a)
  /\ h0' = h0
  /\ last' = [type |-> IF dn THEN LAST ELSE MID, reward |-> rw, legal |-> lg]
  /\ ret' = IF over THEN ret ELSE ret + rw
  /\ steps' = steps + 1
  /\ allLegal' = IF over THEN allLegal ELSE allLegal /\ lg
  /\ over' = (over \/ dn)

Next == \E a \in Actions : Step(a)
NextLegal == \E a \in Actions : Legal(s, a) /\ Step(a)        \* mask-respecting play only
(* Step(a) depends on an illegal a only through ~Legal(s, a) (invariant IllegalUniform): for the larger
   instance families one representative illegal action is explored instead of all of them *)
IllegalRep == IF \E a \in Actions : ~Legal(s, a) THEN { CHOOSE a \in Actions : ~Legal(s, a) } ELSE {}
NextRep == NextLegal \/ \E a \in IllegalRep : Step(a)
Spec == Init /\ [][Next]_vars
SpecRep == Init /\ [][NextRep]_vars
SpecLegal == Init /\ [][NextLegal]_vars

Bounded == steps <= h0 + Extra

TypeOK ==
  /\ SdShapeOK(s.board)
  /\ last.type \in {FIRST, MID, LAST} /\ last.reward \in {0, 1} /\ ret \in {0, 1}
(* C03 *) Protocol ==
  /\ last.type = FIRST <=> steps = 0
  /\ ~over => last.type \in {FIRST, MID}
  /\ last.type = LAST => over
(* C04: the local rule (cell empty, digit unseen) is exactly "the placement keeps the board conflict-free" *)
(* C04 *) MaskSound ==
  NoRepeat(s.board) =>
    \A a \in Actions : Legal(s, a) <=> (At(s.board, SdCellOf(a)) = SdEmpty /\ NoRepeat(Place(s.board, a)))
(* C04 *) MaskLayout ==
  LET m == MaskB(s.board) IN \A a \in Actions : m[a[1] + 1][a[2] + 1][a[3] + 1] = Legal(s, a)
(* C04 *) ContinuesIffLegalLeft == last.type \in {FIRST, MID} => ~NoLegalAction(s.board)
(* C05 *) IllegalUniform ==
  \A rep \in IllegalRep : \A a \in Actions :
     ~Legal(s, a) => (Succ(s, a) = Succ(s, rep) /\ Done(s, a) = Done(s, rep) /\ Reward(s, a) = Reward(s, rep))
(* C05 *) InvalidEffect == [][ (~last'.legal) => (last'.type = LAST /\ last'.reward = 0) ]_vars
(* C06 *) FeasibleUnderLegalPlay == allLegal => Feasible(s)
(* C06 *) CompletionIsSolution == (over /\ allLegal /\ SdFull(s.board)) => (Solved(s.board) /\ ret = 1)
(* C06 *) RewardedOnlyWhenSolved == ret = 1 => (over /\ allLegal /\ Solved(s.board))
(* C09 *) Total == \A a \in Actions : SdShapeOK(Succ(s, a).board)
(* C09 *) OneCellPerStep ==
  [][ IF last'.legal
      THEN \E rc \in SdEmptyCells(s.board) :
             /\ At(s'.board, rc) \in SdDigits
             /\ s'.board = [s.board EXCEPT ![rc[1]][rc[2]] = At(s'.board, rc)]
      ELSE s' = s ]_vars
(* C09 *) CluesKept == [][ \A rc \in SdCells : At(s.board, rc) # SdEmpty => At(s'.board, rc) = At(s.board, rc) ]_vars
(* C11 *) HorizonOK ==
  /\ ~over => (steps = h0 - SdEmptyCount(s.board) /\ steps < h0)
  /\ steps >= h0 => over
(* C12 *) ObsOK ==
  LET o == Obs(s) IN
  /\ o.board = s.board
  /\ (last.type = MID => \E a \in Actions : o.action_mask[a[1] + 1][a[2] + 1][a[3] + 1])
  /\ ((last.type = LAST /\ last.legal) => \A a \in Actions : ~o.action_mask[a[1] + 1][a[2] + 1][a[3] + 1])
=============================================================================
