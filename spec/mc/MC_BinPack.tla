---------------------------- MODULE MC_BinPack ----------------------------
(***************************************************************************)
(* Bounded model of BinPack.  Instances: every way of cutting the small    *)
(* container into at most MaxItems boxes by successive guillotine cuts     *)
(* (what RandomGenerator does), the items being the pieces in a canonical  *)
(* order.  The state has the shape of jumanji's State so that Legal, Mask,  *)
(* StepRel, Done, Feasible ... of BinPack.tla are exercised unchanged; the  *)
(* EMS *set* is what matters: the buffer is the canonical listing of the   *)
(* set (lexicographic order, padded with invalid empty slots) and          *)
(* sorted_ems_indexes is the by-volume order of that listing.              *)
(* Next plays ANY action of the action space, legal or not, also after the *)
(* episode has ended.  When more spaces are created than the buffer holds  *)
(* the untouched ones stay and any of the created ones fill the buffer.    *)
(***************************************************************************)
EXTENDS BinPack

CONSTANTS MaxItems        \* instances with 1..MaxItems items
VARIABLES s, sol, last, ret, ret2
vars == <<s, sol, last, ret, ret2>>

MCCfg222 == [max_num_items |-> 3, max_num_ems |-> 6, obs_num_ems |-> 6, normalize |-> FALSE, reward |-> "dense",
             generator |-> "random", container_dims |-> <<2, 2, 2>>, tiling |-> TRUE, random |-> TRUE]
MCCfg222ovf == [max_num_items |-> 3, max_num_ems |-> 1, obs_num_ems |-> 1, normalize |-> FALSE, reward |-> "dense",
             generator |-> "random", container_dims |-> <<2, 2, 2>>, tiling |-> TRUE, random |-> TRUE]
MCCfg222obs == [max_num_items |-> 3, max_num_ems |-> 6, obs_num_ems |-> 2, normalize |-> FALSE, reward |-> "dense",
             generator |-> "random", container_dims |-> <<2, 2, 2>>, tiling |-> TRUE, random |-> TRUE]
MCCfg322 == [max_num_items |-> 4, max_num_ems |-> 8, obs_num_ems |-> 8, normalize |-> FALSE, reward |-> "dense",
             generator |-> "random", container_dims |-> <<3, 2, 2>>, tiling |-> TRUE, random |-> TRUE]
MCCfg322ovf == [max_num_items |-> 4, max_num_ems |-> 2, obs_num_ems |-> 2, normalize |-> FALSE, reward |-> "dense",
             generator |-> "random", container_dims |-> <<3, 2, 2>>, tiling |-> TRUE, random |-> TRUE]
MCCfg322obs == [max_num_items |-> 4, max_num_ems |-> 8, obs_num_ems |-> 2, normalize |-> FALSE, reward |-> "dense",
             generator |-> "random", container_dims |-> <<3, 2, 2>>, tiling |-> TRUE, random |-> TRUE]
MCCfg332 == [max_num_items |-> 5, max_num_ems |-> 10, obs_num_ems |-> 10, normalize |-> FALSE, reward |-> "dense",
             generator |-> "random", container_dims |-> <<3, 3, 2>>, tiling |-> TRUE, random |-> TRUE]

(* ---------- guillotine tilings ---------- *)
CutsOf(b) ==    \* the two halves of every axis-parallel cut of box b
  { << <<b[1], x, b[3], b[4], b[5], b[6]>>, <<x, b[2], b[3], b[4], b[5], b[6]>> >> : x \in (b[1] + 1)..(b[2] - 1) }
  \cup { << <<b[1], b[2], b[3], y, b[5], b[6]>>, <<b[1], b[2], y, b[4], b[5], b[6]>> >> : y \in (b[3] + 1)..(b[4] - 1) }
  \cup { << <<b[1], b[2], b[3], b[4], b[5], z>>, <<b[1], b[2], b[3], b[4], z, b[6]>> >> : z \in (b[5] + 1)..(b[6] - 1) }
RECURSIVE Tilings(_)
Tilings(n) ==   \* sets of boxes tiling the container, obtained by at most n - 1 successive cuts
  IF n = 1 THEN { {CBox} }
  ELSE LET prev == Tilings(n - 1) IN
       prev \cup UNION { UNION { { (T \ {b}) \cup {c[1], c[2]} : c \in CutsOf(b) } : b \in T } : T \in prev }

(* ---------- canonical listings ---------- *)
LexLess(a, b) == \E k \in 1..6 : a[k] < b[k] /\ \A j \in 1..(k - 1) : a[j] = b[j]
RECURSIVE SortBoxes(_)
SortBoxes(S) == IF S = {} THEN <<>> ELSE
  LET m == CHOOSE x \in S : \A y \in S : y = x \/ LexLess(x, y) IN <<m>> \o SortBoxes(S \ {m})
EmptySlot == <<0, 0, 0, 0, 0, 0>>
IntVol(b) == (b[2] - b[1]) * (b[4] - b[3]) * (b[6] - b[5])
\* buffer listing of a set of at most NEms spaces + its by-volume order (ties by slot, as a stable sort does)
Buffer(S) ==
  LET q == SortBoxes(S)
      ems == [k \in 1..NEms |-> IF k <= Len(q) THEN q[k] ELSE EmptySlot]
      msk == [k \in 1..NEms |-> k <= Len(q)]
      key(k) == IF msk[k] THEN IntVol(ems[k]) ELSE 0
      before(i, j) == key(i) > key(j) \/ (key(i) = key(j) /\ i < j)
      rank(k) == Cardinality({ j \in 1..NEms : before(j, k) }) + 1
      srt == [r \in 1..NEms |-> (CHOOSE k \in 1..NEms : rank(k) = r) - 1]
  IN [ems |-> ems, ems_mask |-> msk, sorted_ems_indexes |-> srt]

InstanceOf(T) ==       \* reset state of the instance whose items are the pieces of tiling T
  LET q == SortBoxes(T)  n == Len(q)  buf == Buffer({CBox}) IN
  [container |-> CBox,
   ems |-> buf.ems, ems_mask |-> buf.ems_mask, sorted_ems_indexes |-> buf.sorted_ems_indexes,
   items |-> [j \in ItemIdx |-> IF j <= n THEN BoxDims(q[j]) ELSE BoxDims(CBox)],
   items_mask |-> [j \in ItemIdx |-> j <= n],
   items_placed |-> [j \in ItemIdx |-> FALSE],
   items_location |-> [j \in ItemIdx |-> <<0, 0, 0>>]]
SolutionOf(T) ==       \* what generate_solution returns: every piece where it was cut out
  LET q == SortBoxes(T)  n == Len(q)  st == InstanceOf(T) IN
  [st EXCEPT !.items_placed = st.items_mask,
             !.items_location = [j \in ItemIdx |-> IF j <= n THEN BoxCorner(q[j]) ELSE <<0, 0, 0>>]]

TilingSet == Tilings(MaxItems)
Init ==
  /\ \E T \in TilingSet : s = InstanceOf(T) /\ sol = SolutionOf(T)
  /\ last = [type |-> FIRST, legal |-> TRUE, rew |-> 0, n |-> 0, over |-> FALSE, dropped |-> FALSE]
  /\ ret = 0 /\ ret2 = 0

(* ---------- dynamics ---------- *)
IntItemVol(d) == d[1] * d[2] * d[3]
IntPlaced(st) == SumTo([j \in ItemIdx |-> IF st.items_placed[j] THEN IntItemVol(st.items[j]) ELSE 0], NItems)
Kept(st, a) ==        \* "created spaces that do not fit in the buffer are ignored": untouched spaces stay, created ones fill up
  LET want == NextEmsSet(st, a)  surv == EmsSurvivors(st, a) IN
  IF Cardinality(want) <= NEms THEN {want}
  ELSE { surv \cup C : C \in { D \in SUBSET (want \ surv) : Cardinality(surv \cup D) = NEms } }
Succ(st, a) ==        \* successor states of action a
  IF Legal(st, a)
  THEN { LET buf == Buffer(K) IN
         [st EXCEPT !.items_placed = NextPlaced(st, a), !.items_location = NextLocs(st, a),
                    !.ems = buf.ems, !.ems_mask = buf.ems_mask, !.sorted_ems_indexes = buf.sorted_ems_indexes]
         : K \in Kept(st, a) }
  ELSE { st }
Step(a) ==
  \E t \in Succ(s, a) :
    LET lg == Legal(s, a)
        dn == Done(s, a, t)
        ov == last.over \/ last.type = LAST                 \* this step is played after the episode has ended
        dense  == IF lg THEN IntItemVol(s.items[a[2] + 1]) ELSE 0    \* rewards in volume units (x container volume)
        sparse == IF dn THEN IntPlaced(t) ELSE 0 IN
    /\ s' = t /\ sol' = sol
    /\ last' = [type |-> IF dn THEN LAST ELSE MID, legal |-> lg, rew |-> dense, n |-> IF ov THEN last.n ELSE last.n + 1,
                over |-> ov, dropped |-> last.dropped \/ (lg /\ Cardinality(NextEmsSet(s, a)) > NEms)]
    /\ ret'  = IF ov THEN ret  ELSE ret + dense
    /\ ret2' = IF ov THEN ret2 ELSE ret2 + sparse
Next == \E a \in Actions : Step(a)
LegalNext == \E a \in Actions : Legal(s, a) /\ Step(a)
Spec == Init /\ [][Next]_vars
LegalSpec == Init /\ [][LegalNext]_vars

(* ---------- properties ---------- *)
AllBoxes == { b \in (0..CDims[1]) \X (0..CDims[1]) \X (0..CDims[2]) \X (0..CDims[2]) \X (0..CDims[3]) \X (0..CDims[3]) :
              BoxNonEmpty(b) }
FreeBoxes(st) == { b \in AllBoxes : \A j \in PlacedIdx(st) : ~Overlap(b, PlacedBox(st, j)) }
Live == ~last.over                                      \* the episode's own steps (not the ones after its end)
Shown(st) == { st.ems[RowSlot(st, k)] : k \in { r \in 0..(NObs - 1) : st.ems_mask[RowSlot(st, r)] } }

(* C03 *) Protocol == last.type \in {FIRST, MID, LAST} /\ (last.type = FIRST <=> last.n = 0)
(* C04 *) MaskSound ==      \* the rules agree with the geometry: a legal placement is inside and hits nothing
  \A a \in Actions : Legal(s, a) =>
     LET I == ItemBox(s.items[a[2] + 1], PlaceAt(s, a)) IN
     Inside(I, s.container) /\ \A j \in PlacedIdx(s) : ~Overlap(I, PlacedBox(s, j))
(* C04 *) MaskComplete ==   \* no room is hidden: while no space was ever dropped and every space is shown, an unplaced
                            \* item that fits into some free box fits into a listed space ("no legal action" = "nothing fits")
  (NObs = NEms /\ ~last.dropped) =>
     \A j \in ValidItems(s) : ~s.items_placed[j] =>
        ((\E b \in FreeBoxes(s) : Fits(s.items[j], b)) => \E k \in 0..(NObs - 1) : Legal(s, <<k, j - 1>>))
(* C04 *) MidHasLegal == (last.type = MID /\ Live) => ~NoLegal(s)
(* C05 *) InvalidNoEffect == [][ (~last'.legal) => (Problem(s') = Problem(s) /\ last'.type = LAST /\ last'.rew = 0) ]_vars
(* C06 *) FeasibleInv == Feasible(s)
(* C06 *) EmsAreTheMaximalFreeBoxes == (~last.dropped) => EmsSet(s) = MaximalBoxes(FreeBoxes(s))
(* C06 *) EmsAntichain == \A e \in EmsSet(s) : \A f \in EmsSet(s) : Inside(e, f) => e = f
(* C06 *) CompletionIsSolution == (last.type = LAST /\ AllPlaced(s)) => CompleteSolution(s)
(* C08 *) DenseTelescopes == Live => ret = IntPlaced(s)
(* C08 *) ReturnIsUtilisation == (last.type = LAST /\ Live) => (ret = IntPlaced(s) /\ ret2 = ret)
(* C08 *) SparseSilentBeforeEnd == (last.type # LAST /\ Live) => ret2 = 0
(* C09 *) Total == \A a \in Actions : Succ(s, a) # {} /\ \A t \in Succ(s, a) : StepRel(s, a, t)
(* C10 *) InstanceSound ==     \* every instance is an exact tiling whose solution is feasible
  last.type = FIRST =>
     /\ ItemsOK(s) /\ FreshOK(s)
     /\ SolSameInstance(s, sol) /\ SolAllPlaced(sol) /\ SolInside(sol) /\ SolDisjoint(sol) /\ SolFillsContainer(sol)
(* C11 *) Horizon == Live => (last.n <= Cardinality(ValidItems(s)) /\ (last.n >= Cardinality(ValidItems(s)) => last.type = LAST))
(* C12 *) SortedInv == SortedOK(s)
(* C12 *) ObsShowsLargest ==   \* what the observation shows depends on the EMS set only: its NObs largest elements
  /\ Shown(s) \subseteq EmsSet(s)
  /\ Cardinality(Shown(s)) = Min2(NObs, Cardinality(EmsSet(s)))
  /\ \A e \in EmsSet(s) \ Shown(s) : \A f \in Shown(s) : IntVol(f) >= IntVol(e)
(* reachability of a completely filled container: must be VIOLATED (run by hand, not part of the cfgs) *)
NeverFull == ~(AllPlaced(s) /\ FullVolume(s))
=============================================================================
