SPECIFICATION Spec
CONSTANT Cfg <- MCCfgSmall
CONSTANT Movable <- MovFirst
CONSTANT Limits <- LimAll
CONSTANT PelletInit <- PelAll
CONSTRAINT Bounded
INVARIANT Protocol
INVARIANT MaskSound
INVARIANT MaskedInLandsOnCorridor
INVARIANT PhysOK
INVARIANT TimeLimitExact
INVARIANT Total
PROPERTY InvalidNoEffect
PROPERTY Conservation
VIEW View
CHECK_DEADLOCK FALSE
