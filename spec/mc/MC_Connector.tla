--------------------------- MODULE MC_Connector ---------------------------
(* Bounded model of Connector: every placement of K heads and K targets on distinct cells of an
   N x N grid (the starts of agents 0 and 1 restricted to Starts0 / Starts1 - all cells, or
   representatives of the symmetry classes of the square - to size the model), every joint action (legal or not, also after termination), explored without a
   time limit in reach (tl = NoLimit): the step counter is then hidden by the VIEW (the rules only read
   it through the comparison with the limit) and the whole game graph is visited.  The time limits in
   Limits are played out with the true step counter, one step beyond the limit, from the placements with
   all heads in the top row and all targets in the bottom row (the time rule does not look at the grid).  Properties about one transition are stated as invariants quantified over all joint
   actions of the current state (the dynamics are deterministic). *)
EXTENDS Connector

CONSTANTS Limits, Starts0, Starts1     \* time limits played out; admissible start cells of agents 0 and 1
VARIABLES s, type, tl
vars == <<s, type, tl>>

MCCfg3x3a2 == [grid_size |-> 3, num_agents |-> 2, time_limit |-> 3, generator |-> "all", witness |-> FALSE]
MCCfg3x3a3 == [grid_size |-> 3, num_agents |-> 3, time_limit |-> 3, generator |-> "all", witness |-> FALSE]
MCCfg4x4a2 == [grid_size |-> 4, num_agents |-> 2, time_limit |-> 3, generator |-> "all", witness |-> FALSE]
AllStarts == AllCells0
SymStarts3 == { <<0, 0>>, <<0, 1>>, <<1, 1>> }        \* one start of agent 0 per symmetry class of the 3 x 3 square
SymStarts4 == { <<0, 0>>, <<0, 1>>, <<1, 1>> }        \* same for 4 x 4
CenterOnly == { <<1, 1>> }
CornerOnly == { <<0, 0>> }
NearCorner == { <<0, 1>>, <<1, 1>> }

JointActions == [1..K -> Moves]

(* injective placements: a sequence of 2K distinct cells, starts first then targets *)
Injective(f) == \A x, y \in 1..(2 * K) : x # y => f[x] # f[y]
Placements == { f \in [1..(2 * K) -> AllCells0] : Injective(f) /\ f[1] \in Starts0 /\ f[2] \in Starts1 }
(* the few placements on which the time limits are played out step by step: heads in the top row,
   targets anywhere in the bottom row *)
TimedPlacements == { f \in [1..(2 * K) -> AllCells0] :
                       Injective(f) /\ \A k \in 1..K : f[k] = <<0, k - 1>> /\ f[K + k][1] = N - 1 }
Instance(f) ==
  LET ag == [id |-> [k \in 1..K |-> k - 1], start |-> [k \in 1..K |-> f[k]],
             target |-> [k \in 1..K |-> f[K + k]], position |-> [k \in 1..K |-> f[k]]]
      s0 == [grid |-> <<>>, step_count |-> 0, agents |-> ag]
  IN [s0 EXCEPT !.grid = EmptyBoard(s0)]

NoLimit == 99
Init ==
  /\ \/ tl = NoLimit /\ s \in { Instance(f) : f \in Placements }
     \/ tl \in Limits /\ s \in { Instance(f) : f \in TimedPlacements }
  /\ type = FIRST

Step(a) ==
  /\ s' = NextState(s, a)
  /\ type' = IF IsLastT(s', tl) THEN LAST ELSE MID
  /\ tl' = tl

Next == \E a \in JointActions : Step(a)
Spec == Init /\ [][Next]_vars

Unlimited == tl = NoLimit
Bounded == Unlimited \/ s.step_count <= tl + 1
View == <<s.grid, s.agents, type, tl, IF Unlimited THEN 0 ELSE s.step_count>>

Solo(i, m) == [k \in 1..K |-> IF k = i + 1 THEN m ELSE NOOP]

(* ---- properties of one state ---- *)
(* C03 *) Protocol ==
  /\ type \in {FIRST, MID, LAST}
  /\ (type = FIRST) => s.step_count = 0
  /\ (type = MID) => \E k \in 1..K : DiscountT(s, tl)[k] = 1
  /\ (type = LAST) => \A k \in 1..K : DiscountT(s, tl)[k] = 0
(* C10 *) InitWellFormed == type = FIRST => WellFormedInstance(s)
(* C04: the rules agree with the dynamics - an agent acting alone moves iff its move is allowed *)
MaskSound == Unlimited => \A i \in Agents : \A m \in 1..4 :
  LegalAg(s, i, m) <=> PosOf(NextState(s, Solo(i, m)), i) = Shift(PosOf(s, i), m)
(* C04 *) MidHasMove == type = MID => \E i \in Agents : \E m \in 1..4 : LegalAg(s, i, m)
(* C06 *) FeasibleAlways == Feasible(s)
(* C06 *) CompletionIsSolution == AllConnected(s) => (FullSolution(s) /\ AllDone(s))
(* C07 *) PhysOK == PhysInv(s)
(* C11 *) TimeLimitExact == type # FIRST =>
  /\ (s.step_count >= tl => type = LAST)
  /\ (type = MID => s.step_count < tl)
  /\ ((type = LAST /\ s.step_count < tl) => AllDone(s))
(* C12 *) ObsAgrees ==
  /\ Obs(s).grid = s.grid /\ Obs(s).step_count = s.step_count
  /\ \A i \in Agents : Obs(s).action_mask[i + 1][1]
                       /\ (DoneAg(s, i) <=> (Connected(s, i) \/ \A m \in 2..5 : ~Obs(s).action_mask[i + 1][m]))

(* ---- properties of one transition s --a--> t ---- *)
(* C04: an allowed move either succeeds or yields to a higher id entering the same cell *)
LegalNeverInvalid(a, t) ==
  \A i \in Agents : (a[i + 1] # NOOP /\ LegalAg(s, i, a[i + 1])) =>
     \/ PosOf(t, i) = Wants(s, a, i)
     \/ /\ PosOf(t, i) = PosOf(s, i)
        /\ \E j \in Agents : j > i /\ PosOf(t, j) = Wants(s, a, i) /\ PosOf(s, j) # PosOf(t, j)
(* C05 *) InvalidNoEffect(a, t) ==
  \A i \in Agents : ~LegalAg(s, i, a[i + 1]) =>
     /\ PosOf(t, i) = PosOf(s, i)
     /\ OwnedSame(s, t, i)
     /\ Reward100(s, t, i) = (IF Connected(s, i) THEN 0 ELSE -3)
(* C05 *) AllInvalidChangesNothing(a, t) ==
  (\A i \in Agents : ~Proposes(s, a, i)) => t = [s EXCEPT !.step_count = @ + 1]
(* C07 *) Conservation(a, t) == OccupancyLaw(s, t) /\ PathLaw(s, t)
(* C09 *) Total(a, t) == GridShape(t)
(* C09: in every contested cell the highest id is the one that arrives, everybody else stays *)
LowerIdYields(a, t) ==
  \A i, j \in Agents : (i < j /\ Proposes(s, a, i) /\ Proposes(s, a, j) /\ Wants(s, a, i) = Wants(s, a, j)) =>
     /\ PosOf(t, i) = PosOf(s, i)
     /\ \E w \in Agents : w >= j /\ PosOf(t, w) = Wants(s, a, i)
(* C09 *) UncontestedMoves(a, t) ==
  \A i \in Agents : (Proposes(s, a, i) /\ \A j \in Agents \ {i} : Proposes(s, a, j) => Wants(s, a, j) # Wants(s, a, i))
     => PosOf(t, i) = Wants(s, a, i) /\ Val(t.grid, PosOf(s, i)) = PathCode(i)
(* C09 *) RewardRange(a, t) ==
  \A i \in Agents : Reward100(s, t, i) \in {0, -3, 97}
                    /\ (Reward100(s, t, i) = 97 <=> (~Connected(s, i) /\ Connected(t, i)))
(* C09 *) DoneIsAbsorbing(a, t) == AllDone(s) => t = [s EXCEPT !.step_count = @ + 1]

(* every joint action of the current state, successor computed once; to find out which conjunct
   fails, put `INVARIANT Tr_<name>` into the cfg *)
ForAllSteps(P(_, _)) == Unlimited => \A a \in JointActions : LET t == TLCEval(NextState(s, a)) IN P(a, t)
TransitionsOK == ForAllSteps(LAMBDA a, t :
  /\ LegalNeverInvalid(a, t) /\ InvalidNoEffect(a, t) /\ AllInvalidChangesNothing(a, t) /\ Conservation(a, t)
  /\ Total(a, t) /\ LowerIdYields(a, t) /\ UncontestedMoves(a, t) /\ RewardRange(a, t) /\ DoneIsAbsorbing(a, t))
Tr_LegalNeverInvalid == ForAllSteps(LegalNeverInvalid)
Tr_InvalidNoEffect == ForAllSteps(InvalidNoEffect)
Tr_AllInvalidChangesNothing == ForAllSteps(AllInvalidChangesNothing)
Tr_Conservation == ForAllSteps(Conservation)
Tr_Total == ForAllSteps(Total)
Tr_LowerIdYields == ForAllSteps(LowerIdYields)
Tr_UncontestedMoves == ForAllSteps(UncontestedMoves)
Tr_RewardRange == ForAllSteps(RewardRange)
Tr_DoneIsAbsorbing == ForAllSteps(DoneIsAbsorbing)
=============================================================================
