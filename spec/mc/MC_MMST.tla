----------------------------- MODULE MC_MMST -----------------------------
(* Bounded model of MMST: 5 nodes, 2 agents with 2 nodes each (nodes 0,1 for agent 0 starting on 0; nodes 3,4 for
   agent 1 starting on 3; node 2 is the one utility node - every 5-node instance with that ownership pattern is
   a relabelling of one of these).  Init ranges over EVERY connected simple graph on the 5 nodes whose edge
   count lies in MinEdges..MaxEdges (all 728 of them for 4..10) - a superset of what the split generator can
   return - or, with Sample = TRUE (quick run), over seven hand-picked graphs.  Next plays every joint action (legal or not, also after termination; with LegalOnly = TRUE only joint
   actions in which every agent that has a legal node picks one) and every outcome of the tie-break.
   Without a time limit in reach (tl = NoLimit) the step counter is hidden by the VIEW and the whole game graph
   is visited; the time limits in Limits are played out with the true counter, one step beyond the limit, on two graphs. *)
EXTENDS MMST

CONSTANTS Limits, MinEdges, MaxEdges, Sample, LegalOnly
VARIABLES s, type, tl
vars == <<s, type, tl>>

MCCfg5 == [num_nodes |-> 5, num_edges |-> 0, max_degree |-> 4, num_agents |-> 2, num_nodes_per_agent |-> 2,
           time_limit |-> 3]

(* ---- instances ---- *)
Pairs == { e \in Nodes \X Nodes : e[1] < e[2] }
RECURSIVE SortedSeq(_)
SortedSeq(S) == IF S = {} THEN <<>> ELSE LET m == CHOOSE x \in S : \A y \in S : x <= y IN <<m>> \o SortedSeq(S \ {m})
NbrOf(E, u) == { v \in Nodes : <<u, v>> \in E \/ <<v, u>> \in E }
AdjOf(E) == [n |-> NumNodes, m |-> NumNodes, odd |-> <<>>, nbr |-> [u1 \in 1..NumNodes |-> SortedSeq(NbrOf(E, u1 - 1))]]
Instance(E) ==
  [adj_matrix |-> AdjOf(E),
   node_types |-> <<0, 0, -1, 1, 1>>,
   nodes_to_connect |-> << <<0, 1>>, <<3, 4>> >>,
   positions |-> <<0, 3>>,
   connected_nodes_index |-> << <<0, -1, -1, -1, -1>>, <<-1, -1, -1, 3, -1>> >>,
   step_count |-> 0]
AllInstances ==
  { x \in { Instance(E) : E \in { F \in SUBSET Pairs : Cardinality(F) \in MinEdges..MaxEdges } } : GraphConnected(x) }
(* a hand-picked sample for the quick run: path through the utility node, path with the utility node as a leaf, star
   around the utility node, cycle, two triangles sharing the utility node, a graph where both agents can take the
   utility node or go around it, the complete graph *)
SampleInstances == { Instance(E) : E \in {
    { <<0, 2>>, <<1, 2>>, <<2, 3>>, <<3, 4>> },
    { <<0, 1>>, <<1, 3>>, <<3, 4>>, <<2, 4>> },
    { <<0, 2>>, <<1, 2>>, <<2, 3>>, <<2, 4>> },
    { <<0, 1>>, <<1, 2>>, <<2, 3>>, <<3, 4>>, <<0, 4>> },
    { <<0, 1>>, <<0, 2>>, <<1, 2>>, <<2, 3>>, <<2, 4>>, <<3, 4>> },
    { <<0, 2>>, <<1, 2>>, <<2, 3>>, <<2, 4>>, <<0, 3>>, <<1, 4>>, <<0, 1>> },
    Pairs } }
Instances == IF Sample THEN SampleInstances ELSE AllInstances

JointActions == [1..NumAgents -> Nodes]
HasLegal(k) == \E v \in Nodes : LegalAg(s, k, v)
Respectful(a) == \A k \in Agents : IF HasLegal(k) THEN LegalAg(s, k, a[k + 1]) ELSE a[k + 1] = 0

(* the few graphs on which the time limits are played out step by step (the time rule does not look at the graph):
   a path through the utility node, a cycle *)
TimedInstances == { Instance(E) : E \in { { <<0, 2>>, <<1, 2>>, <<2, 3>>, <<3, 4>> },
                                          { <<0, 1>>, <<1, 2>>, <<2, 3>>, <<3, 4>>, <<0, 4>> } } }
NoLimit == 99
Init ==
  /\ \/ tl = NoLimit /\ s \in Instances
     \/ tl \in Limits /\ s \in TimedInstances
  /\ type = FIRST

Step(a) ==
  \E t \in Succs(s, a) :
    /\ s' = t
    /\ type' = IF IsLastT(t, tl) THEN LAST ELSE MID
    /\ tl' = tl

Next == \E a \in JointActions : (LegalOnly => Respectful(a)) /\ Step(a)
Spec == Init /\ [][Next]_vars

Unlimited == tl = NoLimit
Bounded == Unlimited \/ s.step_count <= tl + 1
View == <<s.adj_matrix.nbr, s.positions, s.connected_nodes_index, type, tl, IF Unlimited THEN 0 ELSE s.step_count>>

Solo(k, v) == [j \in 1..NumAgents |-> IF j = k + 1 THEN v ELSE s.positions[j]]     \* the others pick the node they are on (no loop edge)

(* ---- properties of one state ---- *)
(* C03 *) Protocol ==
  /\ type \in {FIRST, MID, LAST}
  /\ (type = FIRST) <=> (s.step_count = 0)
  /\ (type = MID) => ~IsLastT(s, tl)
  /\ (type = LAST) => IsLastT(s, tl)
(* C10 *) InitWellFormed == type = FIRST => (ShapeOK(s) /\ AdjSimple(s) /\ GraphConnected(s) /\ TypesConsistent(s) /\ StartOK(s))
(* C04: the two statements of the rules agree, and they agree with the dynamics: an agent acting alone
   reaches the node it picked iff the rules allow the pick *)
MaskIsLegal == LET m == Mask(s) IN \A k \in Agents : \A v \in Nodes : m[k + 1][v + 1] <=> LegalAg(s, k, v)
MaskSound == \A k \in Agents : \A v \in Nodes : \A t \in Succs(s, Solo(k, v)) :
  IF LegalAg(s, k, v) THEN PosOf(t, k) = v /\ v # PosOf(s, k) /\ Visited(t, k) = Visited(s, k) \cup {v}
  ELSE PosOf(t, k) = PosOf(s, k) /\ Visited(t, k) = Visited(s, k)
(* C04 *) FinishedHasNoMove == LET m == Mask(s) IN \A k \in Agents : Finished(s, k) => \A v \in Nodes : ~m[k + 1][v + 1]
(* C06 *) FeasibleAlways == Feasible(s)
(* C06 *) CompletionIsSolution == (type = LAST /\ s.step_count < tl) => FullSolution(s)
(* C06 *) FinishedMeansConnected ==
  \A k \in Agents : Finished(s, k) => Targets(s, k) \subseteq GReach(s, Visited(s, k), {s.nodes_to_connect[k + 1][1]})
(* C11 *) TimeLimitExact == type # FIRST =>
  /\ (s.step_count >= tl => type = LAST)
  /\ (type = MID => s.step_count < tl)
  /\ ((type = LAST /\ s.step_count < tl) => AllFinished(s))
(* C12 *) ObsWithinSpec == \A v \in Nodes : \A x \in (-3)..(2 * NumAgents + 2) :
  ObsTypeOK(s, v, x) => (x \in (-1)..(2 * NumAgents - 1) /\ (x = -1 <=> (IsUtility(s, v) /\ \A k \in Agents : v \notin Visited(s, k))))
(* C12 *) ObsDefined == \A v \in Nodes : \E x \in (-1)..(2 * NumAgents - 1) : ObsTypeOK(s, v, x)

(* ---- properties of one transition ---- *)
MovedAg(k) == PosOf(s', k) # PosOf(s, k)
(* C06: two agents never enter the same node in one step; a utility node on somebody's path is never entered by another *)
TieBreakExclusive == [][ \A j, k \in Agents : (j # k /\ MovedAg(j) /\ MovedAg(k)) => PosOf(s', j) # PosOf(s', k) ]_vars
UtilityNeverShared == [][ \A k \in Agents : (MovedAg(k) /\ IsUtility(s, PosOf(s', k))) => ~UsedByOther(s, k, PosOf(s', k)) ]_vars
(* C04/C05: the path only grows, by the node entered; instance data never change *)
PathsGrow == [][ /\ \A k \in Agents : Visited(s', k) = Visited(s, k) \cup {PosOf(s', k)}
                 /\ s'.adj_matrix = s.adj_matrix /\ s'.node_types = s.node_types
                 /\ s'.nodes_to_connect = s.nodes_to_connect /\ s'.step_count = s.step_count + 1 ]_vars
(* C06: finished agents stay finished and do not move *)
FinishedStays == [][ \A k \in Agents : Finished(s, k) => (Finished(s', k) /\ ~MovedAg(k)) ]_vars
=============================================================================
