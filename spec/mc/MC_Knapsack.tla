--------------------------- MODULE MC_Knapsack ---------------------------
(* Bounded model of Knapsack: every instance with NItems items, integer weights 0..MaxW, values 0..MaxV and
   total budget 0..MaxB; every action of the action space at every step (valid or not), including steps
   taken after the episode ended (step is total).  Numbers are exact (Cfg.exact), so Legal / Succ / Done /
   rewards of Knapsack.tla are used as functions.  `ret` / `ret2` are the returns of the dense and of the
   sparse reward function on the same trajectory, accumulated until the first LAST. *)
EXTENDS Knapsack

CONSTANTS MaxW, MaxV, MaxB, Extra      \* Extra = number of steps explored beyond the structural horizon
VARIABLES s,          \* environment state
          b0,         \* total budget of the instance (reset value of remaining_budget)
          last,       \* last timestep: [type, dense, sparse (rewards), legal, a]
          ret, ret2,  \* dense / sparse return of the episode
          steps,      \* number of step calls
          allLegal,   \* every action of the episode (up to its end) was legal
          over        \* a LAST timestep has been emitted
vars == <<s, b0, last, ret, ret2, steps, allLegal, over>>

MCCfg3 == [num_items |-> 3, budget_q |-> 0, reward_fn |-> "dense", generator |-> "mc", exact |-> TRUE]
MCCfg4 == [num_items |-> 4, budget_q |-> 0, reward_fn |-> "dense", generator |-> "mc", exact |-> TRUE]
MCCfg2 == [num_items |-> 2, budget_q |-> 0, reward_fn |-> "dense", generator |-> "mc", exact |-> TRUE]

Instances ==
  { [weights |-> w, values |-> v, packed_items |-> [j \in Items |-> FALSE], remaining_budget |-> b] :
      w \in [Items -> 0..MaxW], v \in [Items -> 0..MaxV], b \in 0..MaxB }

Init ==
  /\ s \in Instances
  /\ b0 = s.remaining_budget
  /\ last = [type |-> FIRST, dense |-> 0, sparse |-> 0, legal |-> TRUE, a |-> 0]
  /\ ret = 0 /\ ret2 = 0 /\ steps = 0 /\ allLegal = TRUE /\ over = FALSE

Step(a) ==
  LET t  == Succ(s, a)
      lg == Legal(s, a)
      dn == Done(s, a, t)
      rd == DenseReward(s, a)
      rs == SparseReward(s, a, t) IN
  /\ s' = t
  /\ b0' = b0
  /\ last' = [type |-> IF dn THEN LAST ELSE MID, dense |-> rd, sparse |-> rs, legal |-> lg, a |-> a]
  /\ ret'  = IF over THEN ret  ELSE ret + rd
  /\ ret2' = IF over THEN ret2 ELSE ret2 + rs
  /\ steps' = steps + 1
  /\ allLegal' = IF over THEN allLegal ELSE allLegal /\ lg
  /\ over' = (over \/ dn)

Next == \E a \in Actions : Step(a)
NextLegal == \E a \in Actions : Legal(s, a) /\ Step(a)       \* mask-respecting play only
Spec == Init /\ [][Next]_vars
SpecLegal == Init /\ [][NextLegal]_vars

Bounded == steps <= Horizon + Extra

TypeOK ==
  /\ ShapeOK(s) /\ s.remaining_budget \in 0..MaxB
  /\ last.type \in {FIRST, MID, LAST} /\ ret \in Nat /\ ret2 \in Nat
(* C03 *) Protocol ==
  /\ last.type = FIRST <=> steps = 0
  /\ ~over => last.type \in {FIRST, MID}
  /\ last.type = LAST => over
(* C04 *) MaskSound == \A a \in Actions : Legal(s, a) <=> Succ(s, a) # s            \* rules agree with the dynamics
(* C04 *) MidHasLegal == last.type = MID => \E a \in Actions : Legal(s, a)
(* C05 *) InvalidEffect == [][ (~last'.legal) => (last'.type = LAST /\ last'.dense = 0 /\ last'.sparse = 0 /\ s' = s) ]_vars
(* C06 *) FeasibleUnderLegalPlay == allLegal => FeasibleB(s, b0)
(* C06 *) FeasibleAlways == FeasibleB(s, b0)              \* invalid actions do not touch the state either
(* C06 *) CompletionIsMaximal == (over /\ allLegal) => (FeasibleB(s, b0) /\ MaximalPacking(s))
(* C08 *) DenseReturnIsValue == ~over => ret = Objective(s)
(* C08 *) SparsePaysOnlyAtEnd == ~over => ret2 = 0
(* C08 *) ReturnAtEnd == [][ (~over /\ over') => (ret' = Objective(s') /\ (allLegal' => ret2' = ret')
                                                  /\ (~allLegal' => ret2' = 0)) ]_vars
(* C08 *) ReturnOfLegalEpisode == (over /\ allLegal) => (ret = Objective(s) /\ ret2 = ret)
(* C09 *) Total == \A a \in Actions : ShapeOK(Succ(s, a)) /\ Succ(s, a).remaining_budget >= 0
(* C09 *) ProblemDataConstant == [][ s'.weights = s.weights /\ s'.values = s.values ]_vars
(* C11 *) HorizonOK == (~over => (steps = NumPacked(s) /\ steps < Horizon)) /\ (steps >= Horizon => over)
(* C12 *) ObsOK == /\ Obs(s).packed_items = s.packed_items
                   /\ (last.type = MID => \E j \in Items : Obs(s).action_mask[j])
                   /\ ((last.type = LAST /\ last.legal) => \A j \in Items : ~Obs(s).action_mask[j])
=============================================================================
