SPECIFICATION Spec
CONSTANT Cfg <- MCCfg1T3
CONSTANT MaxDepth = 4
CONSTANT StartRows <- QuickRows
CONSTANT StartCols <- QuickCols
CONSTANT CarryCells <- QuickCells
CONSTANT CarryShelves <- AllShelves
INVARIANT Bounded
INVARIANT Protocol
INVARIANT MaskSound
INVARIANT MaskCached
INVARIANT PhysOK
INVARIANT ShelvesNeverLost
INVARIANT Total
INVARIANT RewardOnlyAtGoal
INVARIANT TimeOK
INVARIANT ObsOK
PROPERTY InvalidNoEffect
PROPERTY CarriedShelfMovesWithAgent
CHECK_DEADLOCK FALSE
