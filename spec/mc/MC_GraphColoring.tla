--------------------------- MODULE MC_GraphColoring ---------------------------
(* Bounded model of GraphColoring: EVERY undirected loop-free graph on N nodes (8 graphs for N = 3, 64 for
   N = 4, 1024 for N = 5), every colour of the action space at every step (legal or not), including steps
   taken after the episode ended (step is total; the node index wraps).  The mask is the SPEC's Legal.
   `SpecLegal` restricts play to legal colours (mask-respecting play) for the C06 / C08 / C11 invariants. *)
EXTENDS GraphColoring

CONSTANT Extra          \* number of step calls explored beyond the structural horizon
VARIABLES s,            \* abstract state [adj_matrix, colors, current_node_index]
          last,         \* last timestep: [type, reward, legal, a]
          ret,          \* return of the episode (accumulated until the first LAST)
          steps,        \* number of step calls
          allLegal,     \* every action of the episode (up to its end) was legal
          over,         \* a LAST timestep has been emitted
          pl            \* the state from which the last step was taken already followed a LAST
vars == <<s, last, ret, steps, allLegal, over, pl>>

MCCfg3 == [num_nodes |-> 3, edge_pct |-> 50, generator |-> "mc"]
MCCfg4 == [num_nodes |-> 4, edge_pct |-> 50, generator |-> "mc"]
MCCfg5 == [num_nodes |-> 5, edge_pct |-> 50, generator |-> "mc"]

Pairs == { p \in Nodes \X Nodes : p[1] < p[2] }
GraphOf(E) == [u \in Nodes |-> [v \in Nodes |-> <<u, v>> \in E \/ <<v, u>> \in E]]
Instances == { [adj_matrix |-> GraphOf(E), colors |-> [v \in Nodes |-> NoColour], current_node_index |-> 0] :
               E \in SUBSET Pairs }

Init ==
  /\ s \in Instances
  /\ last = [type |-> FIRST, reward |-> 0, legal |-> TRUE, a |-> 0]
  /\ ret = 0 /\ steps = 0 /\ allLegal = TRUE /\ over = FALSE /\ pl = FALSE

Step(a) ==
  LET t  == Succ(s, a)
      lg == Legal(s, a)
      dn == Done(s, a, t)
      r  == Reward(s, a, t) IN
  /\ s' = t
  /\ last' = [type |-> IF dn THEN LAST ELSE MID, reward |-> r, legal |-> lg, a |-> a]
  /\ ret' = IF over THEN ret ELSE ret + r
  /\ steps' = steps + 1
  /\ allLegal' = IF over THEN allLegal ELSE allLegal /\ lg
  /\ over' = (over \/ dn)
  /\ pl' = over

Next == \E a \in Actions : Step(a)
NextLegal == \E a \in Actions : Legal(s, a) /\ Step(a)          \* mask-respecting play, mask = Legal
Spec == Init /\ [][Next]_vars
SpecLegal == Init /\ [][NextLegal]_vars

Bounded == steps <= Horizon + Extra

TypeOK ==
  /\ ShapeOK(s) /\ ColoursInPalette(s) /\ Symmetric(s) /\ NoSelfLoops(s)
  /\ last.type \in {FIRST, MID, LAST} /\ ret \in (-N)..0
(* C03 *) Protocol ==
  /\ last.type = FIRST <=> steps = 0
  /\ ~over => last.type \in {FIRST, MID}
  /\ last.type = LAST => over
(* C04 *) MaskSound ==          \* the rule agrees with the dynamics: a colour is legal iff writing it creates no conflict
  (~over /\ allLegal) => \A a \in Actions : Legal(s, a) <=> ProperColouring(Succ(s, a))
(* C04 *) MidHasLegal == (~over) => \E a \in Actions : Legal(s, a)       \* N colours always suffice
(* C04 *) MaskIsObsMask == \A a \in Actions : Obs(s).action_mask[a + 1] <=> Legal(s, a)
(* C05 *) InvalidEffect ==
  [][ (~pl' /\ ~last'.legal) =>
        /\ last'.type = LAST /\ last'.reward = InvalidReward
        /\ s'.adj_matrix = s.adj_matrix
        /\ \A v \in Nodes : v # Cur(s) => s'.colors[v] = s.colors[v] ]_vars
(* C06 *) FeasibleUnderLegalPlay == (allLegal /\ ~pl) => Feasible(s)
(* C06 *) PrefixUnderPlay == (~over) => ColouredPrefix(s)
(* C06 *) CompletionIsFullSolution == (over /\ allLegal /\ ~pl) => CompleteSolution(s)
(* C06 *) IllegalMeansConflict ==          \* converse: an episode that is not all-legal holds a monochromatic edge
  (over /\ ~allLegal /\ ~pl) => ~ProperColouring(s)
(* C08 *) NothingPaidBeforeEnd == (~over) => ret = 0
(* C08 *) ReturnOfLegalEpisode == (over /\ allLegal /\ ~pl) => (ret = Objective(s) /\ -ret \in 1..N)
(* C08 *) ReturnOfInvalidEpisode == (over /\ ~allLegal) => ret = InvalidReward
(* C08 *) ReturnAtEnd == [][ (~over /\ over') => ret' = (IF allLegal' THEN Objective(s') ELSE InvalidReward) ]_vars
(* C09 *) Total == \A a \in Actions : ShapeOK(Succ(s, a)) /\ ColoursInPalette(Succ(s, a))
(* C09 *) GraphConstant == [][ s'.adj_matrix = s.adj_matrix ]_vars
(* C11 *) HorizonOK ==
  /\ (~over) => (steps = NumColoured(s) /\ steps = s.current_node_index /\ steps < Horizon)
  /\ steps >= Horizon => over
(* C12 *) ObsOK ==
  /\ Obs(s).adj_matrix = s.adj_matrix /\ Obs(s).colors = s.colors
  /\ Obs(s).current_node_index = s.current_node_index
  /\ (last.type = MID /\ ~pl) => \E j \in 1..N : Obs(s).action_mask[j]
=============================================================================
