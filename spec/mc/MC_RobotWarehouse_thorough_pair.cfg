SPECIFICATION Spec
CONSTANT Cfg <- MCCfg2
CONSTANT MaxDepth = 2
CONSTANT StartRows <- PairRows
CONSTANT StartCols <- PairCols
CONSTANT CarryCells <- PairCells
CONSTANT CarryShelves <- SecondShelf
INVARIANT Bounded
INVARIANT Protocol
INVARIANT MaskSound
INVARIANT MaskCached
INVARIANT PhysOK
INVARIANT ShelvesNeverLost
INVARIANT Total
INVARIANT RewardOnlyAtGoal
INVARIANT TimeOK
INVARIANT ObsOK
PROPERTY InvalidNoEffect
PROPERTY CarriedShelfMovesWithAgent
CHECK_DEADLOCK FALSE
