SPECIFICATION Spec
CONSTANT Cfg <- MCCfg2s
CONSTANT MaxWalls = 2
CONSTANT Limits = {2}
CONSTANT PostSteps = 1
CONSTRAINT Bounded
INVARIANT TypeOK
INVARIANT InitWellFormed
INVARIANT Protocol
INVARIANT LegalIffSomethingMoves
INVARIANT PhysOK
INVARIANT Total
INVARIANT PushRule
INVARIANT RewardRange
INVARIANT BonusIffSolved
INVARIANT SolvedEnds
INVARIANT EndsExactlyAtLimit
INVARIANT ObsFaithful
PROPERTY InvalidNoEffect
PROPERTY Conserved
CHECK_DEADLOCK FALSE
