--------------------------- MODULE MC_JobShop ---------------------------
(* Bounded model of JobShop: EVERY instance with Cfg.num_jobs jobs, Cfg.num_machines machines, 1..max_num_ops
   ops per job and durations 1..max_op_duration; every joint action of the action space at every step (legal
   or not), plus `Extra` steps after the episode ended (step is total).

   Besides the environment state the model keeps a history variable `hist`: which machine actually ran which
   operation from which time on.  The problem's constraints as the documentation lists them (ops of a job in
   order, one op of a job at a time, one op on a machine at a time, each op on its own machine, started ops
   run to completion) are stated on `hist` (PhysOK), independently of the per-machine rule `LegalAg`, and
   MaskSound shows that the rule allows exactly the joint actions that keep them. *)
EXTENDS JobShop

CONSTANTS Extra
VARIABLES s,          \* environment state (jumanji's State, without the cached mask)
          last,       \* last timestep: [type, reward, legal]
          ret,        \* return accumulated until the first LAST
          over,       \* a LAST timestep has been emitted
          allLegal,   \* every action up to the end of the episode was legal
          post,       \* number of steps taken after the end
          hist        \* set of [m, j, k, t]: machine m started op k of job j at time t
vars == <<s, last, ret, over, allLegal, post, hist>>

MCCfg2222 == [num_jobs |-> 2, num_machines |-> 2, max_num_ops |-> 2, max_op_duration |-> 2, generator |-> "mc"]
MCCfg2212 == [num_jobs |-> 2, num_machines |-> 2, max_num_ops |-> 1, max_op_duration |-> 2, generator |-> "mc"]
MCCfg3221 == [num_jobs |-> 3, num_machines |-> 2, max_num_ops |-> 2, max_op_duration |-> 1, generator |-> "mc"]
MCCfg2322 == [num_jobs |-> 2, num_machines |-> 3, max_num_ops |-> 2, max_op_duration |-> 2, generator |-> "mc"]
MCCfg2223 == [num_jobs |-> 2, num_machines |-> 2, max_num_ops |-> 2, max_op_duration |-> 3, generator |-> "mc"]

(* one job = a row of <<machine, duration>> pairs: n real ops followed by <<-1, -1>> padding *)
JobRows == UNION { { [k \in OpIdx |-> IF k <= n THEN f[k] ELSE <<-1, -1>>] : f \in [1..n -> Machines \X (1..ND)] }
                   : n \in 1..NO }
Instances == [1..NJ -> JobRows]
StateOf(inst) ==
  [ ops_machine_ids |-> [j1 \in 1..NJ |-> [k \in OpIdx |-> inst[j1][k][1]]],
    ops_durations   |-> [j1 \in 1..NJ |-> [k \in OpIdx |-> inst[j1][k][2]]],
    ops_mask        |-> [j1 \in 1..NJ |-> [k \in OpIdx |-> inst[j1][k][1] # -1]],
    scheduled_times |-> [j1 \in 1..NJ |-> [k \in OpIdx |-> -1]],
    machines_job_ids |-> [m1 \in 1..NM |-> NoOp],
    machines_remaining_times |-> [m1 \in 1..NM |-> 0],
    step_count |-> 0 ]

Init ==
  /\ s \in { StateOf(inst) : inst \in Instances }
  /\ last = [type |-> FIRST, reward |-> 0, legal |-> TRUE]
  /\ ret = 0 /\ over = FALSE /\ allLegal = TRUE /\ post = 0 /\ hist = {}

(* what the joint action physically starts *)
Started(st, a) == { [m |-> m1 - 1, j |-> a[m1], k |-> NextOp(st, a[m1]), t |-> st.step_count] :
                      m1 \in { x \in 1..NM : a[x] # NoOp /\ HasNext(st, a[x]) } }
NamesOnlyUnfinished(st, a) == \A m1 \in 1..NM : a[m1] # NoOp => HasNext(st, a[m1])

Step(a) ==
  LET t == Succ(s, a)  lg == Legal(s, a)  dn == Done(s, a)  r == Reward(s, a) IN
  /\ s' = t
  /\ last' = [type |-> IF dn THEN LAST ELSE MID, reward |-> r, legal |-> lg]
  /\ ret' = IF over THEN ret ELSE ret + r
  /\ allLegal' = IF over THEN allLegal ELSE allLegal /\ lg
  /\ over' = (over \/ dn)
  /\ post' = IF over THEN post + 1 ELSE post
  /\ hist' = IF over THEN hist ELSE hist \cup Started(s, a)

MayStep == over => post < Extra                               \* at most Extra steps after the end
Next == MayStep /\ \E a \in Actions : Step(a)
NextLegal == MayStep /\ \E a \in Actions : Legal(s, a) /\ Step(a)        \* mask-respecting play only
Spec == Init /\ [][Next]_vars
SpecLegal == Init /\ [][NextLegal]_vars

Bounded == post <= Extra

(* ---- the documented constraints, on what physically ran ---- *)
HEnd(st, h) == h.t + OpDuration(st, h.j, h.k)
HDisjoint(st, h, g) == HEnd(st, h) <= g.t \/ HEnd(st, g) <= h.t
PhysOK(st, H) ==
  /\ \A h \in H : OpMachine(st, h.j, h.k) = h.m                                         \* each op on its own machine
  /\ \A h \in H : h.k > 1 => \E g \in H : g.j = h.j /\ g.k = h.k - 1 /\ HEnd(st, g) <= h.t   \* ops of a job in order
  /\ \A h \in H : \A g \in H : (h # g /\ h.j = g.j) => HDisjoint(st, h, g)              \* one op of a job at a time
  /\ \A h \in H : \A g \in H : (h # g /\ h.m = g.m) => HDisjoint(st, h, g)              \* one op on a machine at a time
HistMatchesState(st, H) ==                 \* scheduled_times records exactly what ran
  /\ \A h \in H : st.scheduled_times[h.j + 1][h.k] = h.t
  /\ \A jk \in Scheduled(st) : \E h \in H : h.j = jk[1] /\ h.k = jk[2]

TypeOK ==
  /\ InstanceShape(s) /\ OpsArePrefix(s) /\ MachinesInRange(s) /\ DurationsInRange(s)
  /\ \A m \in Machines : MJob(s, m) \in Entries /\ MRem(s, m) \in 0..(ND - 1)
  /\ last.type \in {FIRST, MID, LAST}
(* C03 *) Protocol ==
  /\ last.type = FIRST <=> s.step_count = 0
  /\ ~over => last.type \in {FIRST, MID}
  /\ last.type = LAST => over
(* C04 *) MaskSound ==         \* the rule allows exactly the joint actions that keep the documented constraints
  (~over) => \A a \in Actions :
     Legal(s, a) <=> (NamesOnlyUnfinished(s, a) /\ PhysOK(s, hist \cup Started(s, a)))
(* C04 *) MaskSoundPerMachine ==   \* same, one machine at a time with the others on no-op
  (~over) => \A m \in Machines : \A x \in Jobs :
     LET a == [m1 \in 1..NM |-> IF m1 = m + 1 THEN x ELSE NoOp] IN
     Mask(s)[m + 1][x + 1] <=> (HasNext(s, x) /\ PhysOK(s, hist \cup Started(s, a)))
(* C04 *) NoOpAllowed == \A m1 \in 1..NM : Mask(s)[m1][NoOp + 1]
(* C04 *) PenaltyAvoidable ==    \* an agent that follows the mask is never forced into the idle penalty
  (~over) => \E a \in Actions : Legal(s, a) /\ Reward(s, a) = -1
(* C05 *) InvalidEnds == [][ (~over /\ ~last'.legal) => (last'.type = LAST /\ last'.reward = -Penalty /\ over') ]_vars
(* C06 *) FeasibleUnderLegalPlay ==
  (allLegal /\ post = 0) => /\ Feasible(s) /\ ScheduleBookkeeping(s) /\ MachinesMatchSchedule(s)
                               /\ PhysOK(s, hist) /\ HistMatchesState(s, hist)
(* C06, C08 *) CompletionIsFullSolution ==
  [][ (~over /\ over' /\ last'.legal /\ ~AllIdle(s'))
        => (CompleteSolution(s') /\ ret' = Objective(s') /\ Makespan(s') >= MakespanLowerBound(s')) ]_vars
(* C08 *) ReturnCountsSteps == (~over) => ret = -s.step_count
(* C09 *) Total == \A a \in Actions : LET t == Succ(s, a) IN InstanceShape(t) /\ t.step_count = s.step_count + 1
(* C09 *) ProblemDataConstant == [][ s'.ops_machine_ids = s.ops_machine_ids /\ s'.ops_durations = s.ops_durations ]_vars
(* C09 *) IdleIffNothingRan ==      \* "all machines idle" = no op occupied the time slot just played
  [][ (~over /\ last'.legal) =>
        (AllIdle(s') <=> ~\E jk \in Scheduled(s') : StartOf(s', jk) <= s.step_count /\ s.step_count < EndOf(s', jk)) ]_vars
(* C11 *) HorizonOK == (~over) => (s.step_count < InstanceHorizon(s) /\ InstanceHorizon(s) <= Horizon)
(* C12 *) ObsOK == /\ Obs(s).action_mask = Mask(s)
                   /\ Obs(s).ops_mask = s.ops_mask
                   /\ ((~over /\ \A m \in Machines : MachineFree(s, m))
                         => \E m \in Machines : \E x \in Jobs : Obs(s).action_mask[m + 1][x + 1])
=============================================================================
