---------------------------- MODULE MC_Cleaner ----------------------------
(* Bounded model of Cleaner: EVERY wall layout of a small room whose free tiles are connected and contain the
   origin (a superset of what the recursive-division generator produces), all agents starting on the origin,
   every time limit in Limits, every joint action (legal or not) at every step, and steps after termination. *)
EXTENDS Cleaner

CONSTANTS PostSteps,       \* how many steps beyond the first LAST the model keeps stepping (step is total)
          MaxLim,          \* time limits 1..MaxLim are explored
          WithDefault      \* ... and also the documented default rows * cols
VARIABLES s,               \* [grid, agents_locations, step_count]
          lim,             \* the time limit of this behaviour
          last,            \* the timestep emitted by the last reset/step + facts about the joint action
          ret,             \* return of the episode (fixed point), frozen at the first LAST
          fl               \* history: the first LAST of the episode [at, why, obj]
vars == <<s, lim, last, ret, fl>>

Mk(r, c, n, p) == [num_rows |-> r, num_cols |-> c, num_agents |-> n, time_limit_given |-> FALSE, time_limit |-> 0,
                   penalty_q |-> p]
MCCfg2x3a1 == Mk(2, 3, 1, 32768)
MCCfg2x3a2 == Mk(2, 3, 2, 32768)
MCCfg3x2a2 == Mk(3, 2, 2, 0)
MCCfg3x3a1 == Mk(3, 3, 1, 32768)
MCCfg3x3a2 == Mk(3, 3, 2, 32768)
MCCfg2x3a3 == Mk(2, 3, 3, 0)
MCCfg3x4a1 == Mk(3, 4, 1, 32768)
MCCfg3x4a2 == Mk(3, 4, 2, 32768)

Limits == 1..MaxLim \cup (IF WithDefault THEN { DefaultTimeLimit } ELSE {})
AllGrids == { [r \in 1..NR |-> [c \in 1..NC |-> IF r = 1 /\ c = 1 THEN CLEAN ELSE w[r][c]]] :
                w \in [1..NR -> [1..NC -> {DIRTY, WALL}]] }
Origin == [ag \in Agents |-> <<0, 0>>]

Why(act, l) == (IF ~LegalAll(s, act) THEN {"invalid"} ELSE {})
               \cup (IF NoDirty(StepTo(s, act).grid) THEN {"clean"} ELSE {})
               \cup (IF s.step_count + 1 >= l THEN {"time"} ELSE {})

Init ==
  /\ lim \in Limits
  /\ s \in { [grid |-> g, agents_locations |-> Origin, step_count |-> 0] : g \in AllGrids }
  /\ WellFormedInstance(s)
  /\ last = [type |-> FIRST, reward |-> 0, legal |-> TRUE, act |-> [ag \in Agents |-> 0]]
  /\ ret = 0
  /\ fl = [at |-> 0, why |-> {}, obj |-> 0]

Step(act) ==
  LET t == StepTo(s, act)  ty == IF EndsAt(s, act, lim) THEN LAST ELSE MID  rw == RewardQ(s, act) IN
  /\ s' = t
  /\ lim' = lim
  /\ last' = [type |-> ty, reward |-> rw, legal |-> LegalAll(s, act), act |-> act]
  /\ ret' = IF fl.at = 0 THEN ret + rw ELSE ret
  /\ fl' = IF fl.at = 0 /\ ty = LAST THEN [at |-> t.step_count, why |-> Why(act, lim), obj |-> Objective(t)] ELSE fl

Next == \E act \in JointActions : Step(act)
Spec == Init /\ [][Next]_vars

\* explore PostSteps steps beyond the first LAST (and never beyond the limit + PostSteps, should LAST fail to come)
\* last.act, last.reward and last.legal are only read (primed) by the action properties, which TLC evaluates on every
\* generated transition; they do not influence the rules, so states differing only there are identified
View == <<s, lim, last.type, ret, fl>>
Bounded == /\ s.step_count <= lim + PostSteps
           /\ fl.at # 0 => s.step_count <= fl.at + PostSteps

(* ------------------------------ invariants ------------------------------ *)
TypeOK == /\ GridShape(s.grid) /\ LocsShape(s.agents_locations) /\ s.step_count \in Nat
          /\ last.type \in {FIRST, MID, LAST} /\ last.act \in JointActions

(* C03 *) Protocol == (last.type = FIRST <=> s.step_count = 0) /\ (s.step_count = 0 => last.reward = 0)

\* joint actions used by the state invariants: the agent under scrutiny plays a, the others play b
Probe(ag, a, b) == [x \in Agents |-> IF x = ag THEN a ELSE b]
(* C04 *) MaskSound ==      \* the rule "inside and not a wall" is exactly "the agent moves", whatever the others do
  \A ag \in Agents : \A a \in Actions : \A b \in Actions : LET act == Probe(ag, a, b) IN
    LET to == NextLocs(s, act)[ag]  from == s.agents_locations[ag] IN
    /\ LegalAg(s, ag, act[ag]) <=> to # from
    /\ LegalAg(s, ag, act[ag]) => (to = Dest(from, act[ag]) /\ FreeCell(s.grid, to))
    /\ Mask(s)[ag][act[ag] + 1] <=> LegalAg(s, ag, act[ag])
(* C04 *) MidHasLegal == last.type = MID => \A ag \in Agents : \E a \in Actions : LegalAg(s, ag, a)
(* C04 *) LegalOnlyNeverInvalid ==   \* mask-respecting play is never treated as an invalid move
  [][ last'.legal => (last'.type = LAST => (NoDirty(s'.grid) \/ s'.step_count >= lim)) ]_vars

(* C05 *) InvalidEffect ==
  [][ (~last'.legal) =>
        /\ last'.type = LAST
        /\ OffendersKeepPosition(s, last'.act, s')
        /\ NothingChangedForOffenders(s, last'.act, s')
        /\ (Offenders(s, last'.act) = Agents =>
              (s'.grid = s.grid /\ s'.agents_locations = s.agents_locations /\ last'.reward = -PenaltyQ)) ]_vars

(* C07 *) PhysOK == PhysInv(s)
(* C07 *) Conserved == [][ /\ WallsFixed(s, s') /\ CleanStaysClean(s, s') /\ DirtyOnlyCleanedUnderAgent(s, s')
                           /\ MovesAtMostOneCell(s, s') ]_vars

(* C08 *) ReturnIsObjective == IF fl.at = 0 THEN ret = Objective(s) ELSE ret = fl.obj

(* C09 *) Total == \A a \in Actions : LET t == StepTo(s, Probe(1, a, a)) IN PhysInv(t) /\ t.step_count = s.step_count + 1
(* C09 *) RewardCountsTiles ==
  [][ last'.reward = (CleanCount(s'.grid) - CleanCount(s.grid)) * FX - PenaltyQ
      /\ CleanCount(s'.grid) - CleanCount(s.grid) \in 0..NA ]_vars
(* C09 *) AllCleanEnds == (s.step_count > 0 /\ NoDirty(s.grid)) => last.type = LAST

(* C10 *) ConnectedNeverStuck ==      \* on a connected maze with something left to clean every agent can move
  ~NoDirty(s.grid) => \A ag \in Agents : \E a \in Actions : LegalAg(s, ag, a)

(* C11 *) EndsExactlyAtLimit ==
  /\ s.step_count >= lim => fl.at \in 1..lim                      \* never later
  /\ fl.at = 0 => (s.step_count < lim /\ last.type # LAST)
  /\ (fl.at # 0 /\ fl.at < lim) => fl.why \cap {"invalid", "clean"} # {}      \* never earlier without another reason
  /\ last.type = MID => s.step_count < lim
  /\ (s.step_count > 0 /\ s.step_count >= lim) => last.type = LAST

(* C12 *) ObsFaithful ==
  /\ Obs(s).grid = s.grid /\ Obs(s).agents_locations = s.agents_locations /\ Obs(s).step_count = s.step_count
  /\ \A ag \in Agents : \A a \in Actions :
       Obs(s).action_mask[ag][a + 1] <=>
         LET d == Dest(s.agents_locations[ag], a) IN d \in AllCells /\ s.grid[d[1] + 1][d[2] + 1] # WALL
=============================================================================
