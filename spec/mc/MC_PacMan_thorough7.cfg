SPECIFICATION Spec
CONSTANT Cfg <- MCCfgMedium
CONSTANT Movable <- MovFirst
CONSTANT Limits <- LimLong
CONSTANT PelletInit <- PelMedium7
CONSTRAINT Bounded
INVARIANT Protocol
INVARIANT MaskSound
INVARIANT MaskedInLandsOnCorridor
INVARIANT PhysOK
INVARIANT TimeLimitExact
INVARIANT Total
PROPERTY InvalidNoEffect
PROPERTY Conservation
VIEW View
CHECK_DEADLOCK FALSE
