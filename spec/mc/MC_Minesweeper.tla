--------------------------- MODULE MC_Minesweeper ---------------------------
(* Bounded model of Minesweeper: every placement of m mines (m in MineCounts) on the board of
   Cfg.num_rows x Cfg.num_cols, every click (legal or not) from every state, and PostSteps further
   clicks after the episode has ended (step is total).  The number of mines of an instance lives in
   the state (length of flat_mine_locations), as in jumanji's State; Cfg.num_mines is not used here. *)
EXTENDS Minesweeper

CONSTANTS MineCounts,     \* set of mine counts whose placements Init ranges over
          PostSteps       \* bound on post: the first LAST plus PostSteps - 1 further clicks are explored
VARIABLES s,              \* [board, step_count, flat_mine_locations]
          last,           \* the timestep just emitted: type, reward, outcome of the click, the click
          ret,            \* return of the episode (rewards up to and including the first LAST)
          post            \* 0 while the episode runs; k >= 1: the k-th timestep at or after the first LAST
vars == <<s, last, ret, post>>

MCRew == [safe |-> FX, mine |-> 0, invalid |-> 0]                       \* documented defaults
MCRewCustom == [safe |-> 2 * FX, mine |-> -FX, invalid |-> -(FX \div 2)]   \* three different values
MCCfg2x2 == [num_rows |-> 2, num_cols |-> 2, num_mines |-> -1, reward_q |-> MCRew]
MCCfg2x3 == [num_rows |-> 2, num_cols |-> 3, num_mines |-> -1, reward_q |-> MCRew]
MCCfg3x2 == [num_rows |-> 3, num_cols |-> 2, num_mines |-> -1, reward_q |-> MCRewCustom]
MCCfg2x3Budget == [num_rows |-> 2, num_cols |-> 3, num_mines |-> -1, reward_q |-> MCRew, move_budget |-> 2]   \* user done function
MCCfg3x3 == [num_rows |-> 3, num_cols |-> 3, num_mines |-> -1, reward_q |-> MCRew]

(* one representative sequence (ascending) per set of mined cells: the rules only read the set *)
RECURSIVE MCSorted(_)
MCSorted(S) == IF S = {} THEN <<>> ELSE LET m == CHOOSE x \in S : \A y \in S : x <= y IN <<m>> \o MCSorted(S \ {m})
MCPlacements == { MCSorted(S) : S \in { T \in SUBSET (0..(NR * NC - 1)) : Cardinality(T) \in MineCounts } }

Init ==
  /\ s \in { [board |-> [r \in 1..NR |-> [c \in 1..NC |-> MsUnexplored]], step_count |-> 0, flat_mine_locations |-> ml]
             : ml \in MCPlacements }
  /\ last = [type |-> FIRST, reward |-> 0, outcome |-> "none", a |-> <<0, 0>>]
  /\ ret = 0
  /\ post = 0

Step(a) ==
  LET t == Succ(s, a)
      ty == IF Done(s, a, t) THEN LAST ELSE MID IN
  /\ s' = t
  /\ last' = [type |-> ty, reward |-> Reward(s, a), outcome |-> MsOutcome(s, a), a |-> a]
  /\ ret' = IF post = 0 THEN ret + Reward(s, a) ELSE ret
  /\ post' = IF post > 0 THEN post + 1 ELSE IF ty = LAST THEN 1 ELSE 0

Next == \E a \in Actions : Step(a)
Spec == Init /\ [][Next]_vars

Bounded == post <= PostSteps             \* CONSTRAINT: the first LAST (post = 1) and PostSteps - 1 clicks after it

MCM == MsNumMines(s)
Running == post = 0                      \* the episode continues from s
NumTrue(mask) == Cardinality({ rc \in MsCells : At(mask, rc) })

(* C03 *) Protocol ==
            /\ last.type \in {FIRST, MID, LAST}
            /\ (last.type = FIRST) <=> (s.step_count = 0)
            /\ Running => last.type # LAST
            /\ post = 1 => last.type = LAST
(* C04 *) MaskSound ==      \* the rule "clickable iff unexplored" agrees with the dynamics: exactly the legal clicks reveal something
            \A a \in Actions : /\ Legal(s, a) <=> Succ(s, a).board # s.board
                               /\ Mask(s)[a[1] + 1][a[2] + 1] <=> Legal(s, a)
(* C04 *) MidHasLegal == Running => \E a \in Actions : Legal(s, a) /\ MsOutcome(s, a) = "safe"
(* C05 *) InvalidTerminates ==
            [][ last'.outcome = "invalid" =>
                  /\ last'.type = LAST /\ last'.reward = Cfg.reward_q.invalid /\ s'.board = s.board ]_vars
(* C07 *) PhysOK == Running => PhysInv(s)
(* C07 *) MinesConserved == [][ s'.flat_mine_locations = s.flat_mine_locations /\ MsRevealedKept(s, s') ]_vars
(* C07 *) OnlyClickedCellChanges ==
            [][ \A rc \in MsCells : rc # MsCellOf(last'.a) => At(s'.board, rc) = At(s.board, rc) ]_vars
(* C08 *) ReturnIsSafeRevealed ==
            /\ Running => ret = Cfg.reward_q.safe * MsSafeRevealed(s)
            /\ post = 1 => ret = Cfg.reward_q.safe * MsSafeRevealed(s)
                                 + (CASE last.outcome = "invalid" -> Cfg.reward_q.invalid
                                      [] last.outcome = "mine" -> Cfg.reward_q.mine
                                      [] OTHER -> 0)
(* C09 *) Total == \A a \in Actions : LET t == Succ(s, a) IN
                      /\ MsBoardShape(t.board) /\ MsBoardRange(t.board)
                      /\ Reward(s, a) \in { Cfg.reward_q.safe, Cfg.reward_q.mine, Cfg.reward_q.invalid }
                      /\ Done(s, a, t) \in BOOLEAN
(* C09 *) SolvedIffAllSafeRevealed == Running => ~Solved(s)
(* C09 *) LastHasReason ==
            post = 1 => \/ last.outcome \in {"invalid", "mine"}
                        \/ (last.outcome = "safe" /\ MsSafeRevealed(s) = NR * NC - MCM)
                        \/ (MoveBudget > 0 /\ s.step_count >= MoveBudget)         \* the user's done function
(* C11 *) WithinHorizon ==
            /\ Running => (s.step_count = MsSafeRevealed(s) /\ s.step_count < MsHorizonFor(MCM))
            /\ post = 1 => s.step_count <= MsHorizonFor(MCM)
(* C11: with a user's move budget the episode is over after at most that many clicks, whatever is clicked *)
(* C11 *) BudgetRespected == MoveBudget > 0 => (Running => s.step_count < MoveBudget)
(* C12 *) ObsConsistent ==
            /\ Obs(s).board = s.board /\ Obs(s).step_count = s.step_count
            /\ Running => NumTrue(Obs(s).action_mask) = NR * NC - s.step_count
            /\ \A rc \in MsCells : At(Obs(s).action_mask, rc) <=> At(Obs(s).board, rc) = -1
=============================================================================
