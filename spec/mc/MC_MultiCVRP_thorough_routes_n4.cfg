SPECIFICATION SpecLegal
CONSTANT Cfg <- MCCfg42
CONSTANT MinDem = 1
CONSTANT MaxDem = 2
INVARIANT FeasibleAlways
INVARIANT CompletionIsFullSolution
INVARIANT NoNegativeCapacity
INVARIANT DenseTelescopes
INVARIANT DenseEqSparse
INVARIANT SparseZeroUntilEnd
INVARIANT WithinHorizon
INVARIANT EarlyLastIsCompletion
INVARIANT CompletionEnds
VIEW RoutesView
CHECK_DEADLOCK FALSE
