SPECIFICATION SpecLegal
CONSTANT Cfg <- MCCfg2
CONSTANT Solutions <- OneSolution
CONSTANT MaxEmpty = 7
CONSTANT Extra = 1
INVARIANT TypeOK
INVARIANT Protocol
INVARIANT ContinuesIffLegalLeft
INVARIANT FeasibleUnderLegalPlay
INVARIANT CompletionIsSolution
INVARIANT RewardedOnlyWhenSolved
INVARIANT HorizonOK
PROPERTY InvalidEffect
PROPERTY OneCellPerStep
PROPERTY CluesKept
CONSTRAINT Bounded
CHECK_DEADLOCK FALSE
