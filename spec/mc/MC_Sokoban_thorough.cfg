SPECIFICATION Spec
CONSTANT Cfg <- MCCfg2
CONSTANT MaxWalls = 1
CONSTANT Limits = {1, 3}
CONSTANT PostSteps = 2
CONSTRAINT Bounded
INVARIANT TypeOK
INVARIANT InitWellFormed
INVARIANT Protocol
INVARIANT LegalIffSomethingMoves
INVARIANT PhysOK
INVARIANT Total
INVARIANT PushRule
INVARIANT RewardRange
INVARIANT BonusIffSolved
INVARIANT SolvedEnds
INVARIANT EndsExactlyAtLimit
INVARIANT ObsFaithful
PROPERTY InvalidNoEffect
PROPERTY Conserved
CHECK_DEADLOCK FALSE
