SPECIFICATION Spec
CONSTANT Cfg <- MCCfg2T7
CONSTANT MCRadius = 6
CONSTRAINT Bounded
INVARIANT Protocol
INVARIANT MaskSound
INVARIANT BlankInside
INVARIANT ReturnIsObjective
INVARIANT Total
INVARIANT EndsAtLimit
INVARIANT ObsFaithful
INVARIANT StaysSolvable
INVARIANT SolvedIffLast
PROPERTY InvalidNoEffect
CHECK_DEADLOCK FALSE
