SPECIFICATION SpecLegal
CONSTANT Cfg <- MCCfg3
CONSTANT MaxW = 3
CONSTANT MaxV = 2
CONSTANT MaxB = 4
CONSTANT Extra = 2
INVARIANT TypeOK
INVARIANT Protocol
INVARIANT MaskSound
INVARIANT MidHasLegal
INVARIANT FeasibleUnderLegalPlay
INVARIANT FeasibleAlways
INVARIANT CompletionIsMaximal
INVARIANT DenseReturnIsValue
INVARIANT SparsePaysOnlyAtEnd
INVARIANT ReturnOfLegalEpisode
INVARIANT Total
INVARIANT HorizonOK
INVARIANT ObsOK
PROPERTY InvalidEffect
PROPERTY ReturnAtEnd
PROPERTY ProblemDataConstant
CONSTRAINT Bounded
CHECK_DEADLOCK FALSE
