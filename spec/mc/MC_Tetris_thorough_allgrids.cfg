SPECIFICATION SpecAll
CONSTANT Cfg <- MCCfg44t2
CONSTANT MaxSteps <- NoSteps
INVARIANT Protocol
INVARIANT MaskSound
INVARIANT MidHasLegal
INVARIANT PhysOK
INVARIANT StepLawAllActions
INVARIANT RewardFromTable
INVARIANT TimeLimit
INVARIANT EarlyLastHasReason
INVARIANT ObsMaskIffMove
CHECK_DEADLOCK FALSE
