SPECIFICATION SpecGoal
CONSTANT Cfg <- MCCfg3
INVARIANT MultisetConserved
INVARIANT OppositeCancel
INVARIANT ParityInv
INVARIANT CriteriaAgree
POSTCONDITION ReachedHalf
CHECK_DEADLOCK FALSE
