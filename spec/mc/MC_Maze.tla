----------------------------- MODULE MC_Maze -----------------------------
(* Bounded model of Maze: EVERY wall layout of a small grid, agent and target on any two distinct free
   cells (connected or not: a superset of what the generators produce), every time limit in Limits,
   every action (legal or not) at every step, and steps after termination. *)
EXTENDS Maze

CONSTANTS PostSteps        \* how many steps beyond the time limit the model keeps stepping
VARIABLES s,               \* [agent_position, target_position, walls, step_count]
          lim,             \* the time limit of this behaviour
          last,            \* the timestep emitted by the last reset/step + facts about the action
          fl               \* history: the first LAST of the episode [at, why]
vars == <<s, lim, last, fl>>

MCCfg2x2 == [num_rows |-> 2, num_cols |-> 2, time_limit_given |-> FALSE, time_limit |-> 0, generator |-> "layout"]
MCCfg2x3 == [num_rows |-> 2, num_cols |-> 3, time_limit_given |-> FALSE, time_limit |-> 0, generator |-> "layout"]
MCCfg3x2 == [num_rows |-> 3, num_cols |-> 2, time_limit_given |-> FALSE, time_limit |-> 0, generator |-> "layout"]
MCCfg3x3 == [num_rows |-> 3, num_cols |-> 3, time_limit_given |-> FALSE, time_limit |-> 0, generator |-> "layout"]
MCCfg3x4 == [num_rows |-> 3, num_cols |-> 4, time_limit_given |-> FALSE, time_limit |-> 0, generator |-> "layout"]
MCCfg1x4 == [num_rows |-> 1, num_cols |-> 4, time_limit_given |-> FALSE, time_limit |-> 0, generator |-> "layout"]

Limits == 1..3 \cup { DefaultTimeLimit }         \* 1, 2, 3 and the documented default rows * cols
AllWalls == [1..NR -> [1..NC -> BOOLEAN]]
AllPos == { Pos(r, c) : r \in 0..(NR - 1), c \in 0..(NC - 1) }

Why(t, l) == (IF OnTarget(t) THEN {"target"} ELSE {}) \cup (IF Stuck(t) THEN {"stuck"} ELSE {})
             \cup (IF t.step_count >= l THEN {"time"} ELSE {})

Init ==
  /\ lim \in Limits
  /\ s \in { [agent_position |-> p, target_position |-> q, walls |-> w, step_count |-> 0] :
               p \in AllPos, q \in AllPos, w \in AllWalls }
  /\ StartOK(s)
  /\ last = [type |-> FIRST, reward |-> 0, legal |-> TRUE]
  /\ fl = [at |-> 0, why |-> {}]

Step(a) ==
  LET t == StepTo(s, a)  ty == IF EndsAt(t, lim) THEN LAST ELSE MID IN
  /\ s' = t
  /\ lim' = lim
  /\ last' = [type |-> ty, reward |-> Reward(t), legal |-> Legal(s, a)]
  /\ fl' = IF fl.at = 0 /\ ty = LAST THEN [at |-> t.step_count, why |-> Why(t, lim)] ELSE fl

Next == \E a \in Actions : Step(a)
Spec == Init /\ [][Next]_vars

Bounded == s.step_count < lim + PostSteps

(* ------------------------------ invariants ------------------------------ *)
TypeOK == /\ s.agent_position \in AllPos /\ s.target_position \in AllPos /\ s.walls \in AllWalls
          /\ s.step_count \in Nat /\ last.type \in {FIRST, MID, LAST} /\ last.reward \in {0, 1}

(* C03 *) Protocol == (last.type = FIRST <=> s.step_count = 0) /\ (s.step_count = 0 => last.reward = 0)
(* C03 *) OnceLastNeverMid == [][ (last.type = LAST /\ ~OnTarget(s) /\ ~Stuck(s)) => last'.type = LAST ]_vars
          \* (after a target/enclosed end the documented step function may emit MID again once the agent
          \*  walks off the target; after the time limit it never does)

(* C04 *) MaskSound == \A a \in Actions :
            /\ Legal(s, a) <=> StepTo(s, a).agent_position # s.agent_position
            /\ Legal(s, a) => StepTo(s, a).agent_position = Dest(s.agent_position, a)
            /\ Mask(s)[a + 1] <=> Legal(s, a)
(* C04 *) MidHasLegal == last.type = MID => \E a \in Actions : Legal(s, a)

(* C05 *) InvalidNoEffect ==
  [][ (~last'.legal) =>
        /\ s'.agent_position = s.agent_position /\ MazeConserved(s, s')
        /\ (~OnTarget(s) => last'.reward = 0)
        /\ (last'.type = LAST => (s'.step_count >= lim \/ OnTarget(s) \/ Stuck(s))) ]_vars

(* C07 *) PhysOK == PhysInv(s)
(* C07 *) Conserved == [][ MazeConserved(s, s') /\ MovesAtMostOneCell(s, s') ]_vars

(* C09 *) Total == \A a \in Actions : PhysInv(StepTo(s, a)) /\ StepTo(s, a).step_count = s.step_count + 1
(* C09 *) RewardIffTarget == last.reward = 1 <=> (s.step_count > 0 /\ OnTarget(s))
(* C09 *) TargetEnds == (s.step_count > 0 /\ OnTarget(s)) => last.type = LAST
(* C09 *) LegalMoveLandsOnFreeCell == [][ last'.legal => (FreeCell(s.walls, s'.agent_position)
                                                          /\ Adjacent4(<<s.agent_position.row, s.agent_position.col>>,
                                                                       <<s'.agent_position.row, s'.agent_position.col>>)) ]_vars

(* C10 *) ConnectedNeverStuck == (Connected(s.walls) /\ Cardinality(FreeCells(s.walls)) >= 2) => ~Stuck(s)
          \* the undocumented "no legal move" ending cannot occur on the mazes the shipped generators promise

(* C11 *) EndsExactlyAtLimit ==
  /\ s.step_count >= lim => fl.at \in 1..lim                      \* never later
  /\ fl.at = 0 => (s.step_count < lim /\ last.type # LAST)
  /\ (fl.at # 0 /\ fl.at < lim) => fl.why \cap {"target", "stuck"} # {}      \* never earlier without another reason
  /\ last.type = MID => s.step_count < lim
  /\ (s.step_count > 0 /\ s.step_count >= lim) => last.type = LAST

(* C12 *) ObsFaithful == /\ (\A j \in 1..4 : ~Obs(s).action_mask[j]) <=> Stuck(s)
                         /\ \A a \in Actions : Obs(s).action_mask[a + 1] <=>
                               LET d == Dest(s.agent_position, a) IN d \in AllPos /\ ~s.walls[d.row + 1][d.col + 1]
                         /\ Obs(s).step_count = s.step_count /\ Obs(s).walls = s.walls
                         /\ Obs(s).agent_position = s.agent_position /\ Obs(s).target_position = s.target_position
=============================================================================
