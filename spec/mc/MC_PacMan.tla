--------------------------- MODULE MC_PacMan ---------------------------
(* Bounded behaviour model of PacMan (partial reference model PacMan.tla): a tiny map, every action
   (legal or not, the no-op included), every admissible move of the ghosts listed in Movable (the others are
   frozen on their spawn cells), every time limit of Limits, and steps after termination.
   The step counter is part of the state only where it matters (limits <= 3, bounded by Bounded); for the
   long limit it is hidden by View. *)
EXTENDS PacMan

CONSTANTS Movable,      \* set of ghost indices that move
          Limits,       \* set of time limits to explore
          PelletInit    \* cells (sequence of <<row, col>>) that carry a pellet initially (<<>> = every corridor cell)
VARIABLES m, last, tl
vars == <<m, last, tl>>

(* 5 x 5: a ring of corridors around a pillar, row 2 is a tunnel that wraps; one ghost *)
MCCfgSmall == [maze |-> "mc5", rows |-> 5, cols |-> 5,
               walls |-> << <<1,1,1,1,1>>,
                            <<1,0,0,0,1>>,
                            <<0,0,1,0,0>>,
                            <<1,0,0,0,1>>,
                            <<1,1,1,1,1>> >>,
               player_start |-> <<3, 2>>, ghost_spawns |-> << <<1, 2>> >>, power_ups |-> << <<1, 1>> >>,
               time_limit |-> 1000, time_limit_given |-> FALSE, scatter_time |-> 2]
(* 7 x 7: two rings sharing the tunnel row 3, a vertical opening in column 3 (rows 0 and 6 wrap); two ghosts *)
MCCfgMedium == [maze |-> "mc7", rows |-> 7, cols |-> 7,
               walls |-> << <<1,1,1,0,1,1,1>>,
                            <<1,0,0,0,0,0,1>>,
                            <<1,0,1,0,1,0,1>>,
                            <<0,0,0,0,0,0,0>>,
                            <<1,0,1,0,1,0,1>>,
                            <<1,0,0,0,0,0,1>>,
                            <<1,1,1,0,1,1,1>> >>,
               player_start |-> <<5, 3>>, ghost_spawns |-> << <<1, 3>>, <<3, 3>> >>, power_ups |-> << <<5, 5>> >>,
               time_limit |-> 1000, time_limit_given |-> FALSE, scatter_time |-> 1]

MovNone == {}
MovFirst == {1}
MovAll == 1..NGhosts
LimSmall == {1, 2, 3}
LimAll == {1, 2, 3, 1000}
LimLong == {1000}
LimTwo == {2}
PelAll == <<>>
PelSmall5 == << <<3, 2>>, <<3, 1>>, <<2, 1>>, <<2, 0>>, <<1, 3>> >>
PelMedium7 == << <<5, 3>>, <<3, 0>>, <<0, 3>> >>

InitPellets == IF PelletInit = <<>> THEN FreeCells ELSE { CellOf(PelletInit[j]) : j \in 1..Len(PelletInit) }
InitPowers == { CellOf(Cfg.power_ups[j]) : j \in 1..Len(Cfg.power_ups) }

Init ==
  /\ m = AInit(InitPellets, InitPowers)
  /\ last = [type |-> FIRST, legal |-> TRUE, a |-> 0]
  /\ tl \in Limits

Step(a) ==
  \E gs \in GhostChoices(m, Movable) :
    LET t == AStep(m, a, gs) IN
    /\ m' = t
    /\ last' = [type |-> IF ADone(t, tl) THEN LAST ELSE MID, legal |-> Legal(m.player, a, m.lastdir), a |-> a]
    /\ tl' = tl

Next == \E a \in Actions : Step(a)
Spec == Init /\ [][Next]_vars

Bounded == tl <= 3 => m.steps <= tl + 2
View == <<[m EXCEPT !.steps = IF tl > 3 THEN 0 ELSE @], last, tl>>

(* C03 *) Protocol == last.type \in {FIRST, MID, LAST} /\ (last.type = FIRST <=> m.steps = 0)
(* C04 *) MaskSound == \A a \in Actions :
                          Mask(m.player, m.lastdir)[a + 1] <=> PlayerNext(m.player, a, m.lastdir) # m.player
(* C04 *) MaskedInLandsOnCorridor == \A a \in Actions : PlayerNext(m.player, a, m.lastdir) \in FreeCells
(* C05 *) InvalidNoEffect ==
            [][ (~last'.legal) => /\ m'.player = m.player
                                  /\ (m.pellets \ m'.pellets) \subseteq {m.player}
                                  /\ (m.powers \ m'.powers) \subseteq {m.player}
                                  /\ (m'.fright = ScatterTime => m.player \in m.powers)
                                  /\ (last'.type = LAST => (m'.dead \/ m'.pellets = {} \/ m'.steps >= tl)) ]_vars
(* C07 *) PhysOK == APhysInv(m) /\ (last.type # LAST => ANoOverlap(m))
(* C07 *) Conservation ==
            [][ /\ m'.pellets \subseteq m.pellets /\ (m.pellets \ m'.pellets) = ({m'.player} \cap m.pellets)
                /\ m'.powers \subseteq m.powers /\ (m.powers \ m'.powers) = ({m'.player} \cap m.powers)
                /\ (m'.player = m.player \/ m'.player \in NbrsWrap(m.player))
                /\ \A k \in 1..NGhosts : GhostAdmissible(m.ghosts[k], m'.ghosts[k], SpawnOf(k), m.fright > 0) ]_vars
(* C11 *) TimeLimitExact == /\ (m.steps >= tl => last.type = LAST)
                            /\ (last.type = MID => m.steps < tl)
                            /\ ((last.type = LAST /\ m.steps < tl) => (m.dead \/ m.pellets = {}))
(* C09 *) Total == \A a \in Actions : GhostChoices(m, Movable) # {}
=============================================================================
