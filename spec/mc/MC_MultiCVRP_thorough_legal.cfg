SPECIFICATION SpecLegal
CONSTANT Cfg <- MCCfg32
CONSTANT MaxDem = 3
INVARIANT Protocol
INVARIANT MaskSound
INVARIANT MaskShape
INVARIANT CodeResolutionAdmissible
INVARIANT FeasibleAlways
INVARIANT CompletionIsFullSolution
INVARIANT NoNegativeCapacity
INVARIANT DenseTelescopes
INVARIANT DenseEqSparse
INVARIANT SparseZeroUntilEnd
INVARIANT Total
INVARIANT WithinHorizon
INVARIANT EarlyLastIsCompletion
INVARIANT CompletionEnds
PROPERTY IllegalGoesToDepot
CHECK_DEADLOCK FALSE
