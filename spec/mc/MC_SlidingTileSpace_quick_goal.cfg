SPECIFICATION SpecGoal
CONSTANT Cfg <- MCCfg2
INVARIANT MultisetConserved
INVARIANT OppositeCancel
INVARIANT ParityInv
INVARIANT CriteriaAgree
POSTCONDITION ReachedHalf
CHECK_DEADLOCK FALSE
