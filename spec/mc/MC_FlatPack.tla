--------------------------- MODULE MC_FlatPack ---------------------------
(* Bounded model of FlatPack.  Instances: every way of cutting the solved grid into NB pieces in which piece (i, j)
   owns the cells of its 3x3 area that it shares with nobody and every cell of a shared line goes to one of the two
   neighbours along that line (shared columns are resolved first, then shared rows, so a crossing cell may end up
   with a diagonal neighbour); each piece is cropped to the top-left corner of a 3x3 box, turned by any number of
   quarter turns from Rots and the list is shuffled by any permutation from Perms.  Toy is the documented toy
   instance (2 x 2 blocks).  Next plays every action of the action space at every step (legal or not), including
   Extra steps after the episode ended (step is total).  ret / ret2 = returns of the cell-dense / block-dense reward
   (numerators: cells / blocks), accumulated until the first LAST. *)
EXTENDS FlatPack

CONSTANTS Rots,       \* set of quarter-turn counts the generator may apply to a piece
          Shuffle,    \* TRUE: all orders of the block list, FALSE: numbered order only
          Family,     \* "cuts" | "toy"
          Extra       \* number of steps explored beyond the structural horizon
VARIABLES s,          \* environment state [grid, blocks, placed_blocks, step_count, num_blocks]
          last,       \* last timestep: [type, cell, block (reward numerators), legal, a]
          ret, ret2,  \* cell-dense / block-dense return of the episode (numerators)
          allLegal,   \* every action of the episode (up to its end) was legal
          over        \* a LAST timestep has been emitted
vars == <<s, last, ret, ret2, allLegal, over>>

MCCfg12 == [num_row_blocks |-> 1, num_col_blocks |-> 2, reward |-> "cell", alt_reward |-> "block", generator |-> "random"]
MCCfg21 == [num_row_blocks |-> 2, num_col_blocks |-> 1, reward |-> "cell", alt_reward |-> "block", generator |-> "random"]
MCCfg22 == [num_row_blocks |-> 2, num_col_blocks |-> 2, reward |-> "cell", alt_reward |-> "block", generator |-> "toy_norot"]

(* ---------- instances ---------- *)
SharedRows == { r \in 2..(GR - 1) : r % 2 = 1 }            \* 1-based lines shared by two neighbouring blocks
SharedCols == { c \in 2..(GC - 1) : c % 2 = 1 }
OwnIdx(x, n) == IF x = 1 THEN 0 ELSE IF x = n THEN (n - 3) \div 2 ELSE (x - 2) \div 2     \* block index of an unshared line
Number(br, bc) == br * NCB + bc + 1
\* cc[r][c] \in {-1, 1} for shared columns c: take the owner of the cell to the left / right (rows: above / below)
ColResolved(cc) ==
  [r \in 1..GR |-> [c \in 1..GC |-> IF c \in SharedCols THEN c + cc[r][c] ELSE c]]
CutGrid(cc, rc) ==
  LET col == ColResolved(cc) IN
  [r \in 1..GR |-> [c \in 1..GC |->
     LET r2 == IF r \in SharedRows THEN r + rc[r][c] ELSE r         \* a shared row copies the row above / below ...
         c2 == col[r2][c]                                            \* ... after its columns were resolved
     IN Number(OwnIdx(r2, GR), OwnIdx(c2, GC))]]
Cuts == { CutGrid(cc, rc) : cc \in [1..GR -> [SharedCols -> {-1, 1}]], rc \in [SharedRows -> [1..GC -> {-1, 1}]] }

Piece(g, v) ==        \* the cells numbered v, moved to the top-left corner of a 3x3 box
  LET cs == CellsWithValue(g, v)
      r0 == MinOf({ p[1] : p \in cs })  c0 == MinOf({ p[2] : p \in cs }) IN
  [i \in 1..3 |-> [j \in 1..3 |-> IF <<r0 + i - 1, c0 + j - 1>> \in cs THEN v ELSE 0]]
Perms == IF Shuffle THEN { f \in [1..NB -> 1..NB] : \A x \in 1..NB : \E y \in 1..NB : f[y] = x }
         ELSE { [b \in 1..NB |-> b] }
ToyBlocks == << <<<<1, 1, 1>>, <<1, 1, 0>>, <<0, 1, 0>>>>, <<<<0, 2, 2>>, <<2, 2, 2>>, <<0, 0, 2>>>>,
                <<<<3, 0, 0>>, <<3, 3, 0>>, <<3, 3, 3>>>>, <<<<4, 4, 0>>, <<4, 4, 4>>, <<0, 4, 4>>>> >>
BlockLists ==
  IF Family = "toy" THEN { [b \in 1..NB |-> Rot(ToyBlocks[b], k[b])] : k \in [1..NB -> Rots] }
  ELSE { [b \in 1..NB |-> Rot(Piece(g, f[b]), k[b])] : g \in Cuts, f \in Perms, k \in [1..NB -> Rots] }
StartOf(bl) == [grid |-> [r \in 1..GR |-> [c \in 1..GC |-> 0]], blocks |-> bl,
                placed_blocks |-> [b \in 1..NB |-> FALSE], step_count |-> 0, num_blocks |-> NB]

Init ==
  /\ s \in { StartOf(bl) : bl \in BlockLists }
  /\ last = [type |-> FIRST, cell |-> 0, block |-> 0, legal |-> TRUE, a |-> <<0, 0, 0, 0>>]
  /\ ret = 0 /\ ret2 = 0 /\ allLegal = TRUE /\ over = FALSE

Step(a) ==
  LET t  == Succ(s, a)
      lg == Legal(s, a)
      dn == Done(t)
      rc == RewardOf("cell", s, a)      \* <<cells, Area>>  or <<0, 1>>
      rb == RewardOf("block", s, a) IN  \* <<1, NB>>        or <<0, 1>>
  /\ s' = t
  /\ last' = [type |-> IF dn THEN LAST ELSE MID, cell |-> rc[1], block |-> rb[1], legal |-> lg, a |-> a]
  /\ ret'  = IF over THEN ret  ELSE ret + rc[1]
  /\ ret2' = IF over THEN ret2 ELSE ret2 + rb[1]
  /\ allLegal' = IF over THEN allLegal ELSE allLegal /\ lg
  /\ over' = (over \/ dn)

InBound == s.step_count < NB + Extra         \* states at the bound are checked but not expanded
Next == InBound /\ \E a \in Actions : Step(a)
NextLegal == InBound /\ \E a \in Actions : Legal(s, a) /\ Step(a)       \* mask-respecting play only
Spec == Init /\ [][Next]_vars
SpecLegal == Init /\ [][NextLegal]_vars
SpecInstances == Init /\ [][FALSE]_vars                    \* the instances only (generator-level checks)

TypeOK ==
  /\ Len(s.grid) = GR /\ \A r \in 1..GR : Len(s.grid[r]) = GC /\ \A c \in 1..GC : s.grid[r][c] \in 0..NB
  /\ BlocksShape(s) /\ s.num_blocks = NB /\ s.step_count \in Nat
  /\ last.type \in {FIRST, MID, LAST} /\ ret \in 0..Area /\ ret2 \in 0..NB
(* C03 *) Protocol ==
  /\ last.type = FIRST <=> s.step_count = 0
  /\ ~over => last.type \in {FIRST, MID}
  /\ last.type = LAST => over
(* C04 *) MaskSound == \A a \in Actions : Legal(s, a) <=> Succ(s, a).grid # s.grid      \* rules agree with the dynamics
(* C04 *) MaskEncoding == LET m == Mask(s) IN \A a \in Actions : MaskBit(m, a) <=> Legal(s, a)
(* C04 *) StartAllLegal == s.step_count = 0 => \A a \in Actions : Legal(s, a)   \* (reset ships an all-True mask)
(* C05 *) InvalidIgnored ==
  [][ (~last'.legal) => /\ s'.grid = s.grid /\ s'.placed_blocks = s.placed_blocks
                        /\ last'.cell = 0 /\ last'.block = 0
                        /\ s'.step_count = s.step_count + 1
                        /\ (s'.step_count < NB => last'.type = MID) ]_vars
(* C06 *) FeasibleUnderLegalPlay == allLegal => Feasible(s)
(* C06 *) FeasibleAlways == Feasible(s)                    \* ignored actions cannot break the packing either
(* C06 *) CompletionIsFull == CompletionOK(s) /\ (AllPlaced(s) => (GridFull(s) /\ Feasible(s)))
(* C08 *) CellReturnIsCoverage == ~over => ret = Covered(s)
(* C08 *) BlockReturnIsPlaced == ~over => ret2 = NumPlaced(s)
(* C08 *) ReturnAtEnd == [][ (~over /\ over') => (ret' = Covered(s') /\ ret2' = NumPlaced(s')
                                                   /\ (ret' = Area <=> ret2' = NB)) ]_vars
(* C09 *) Total == \A a \in Actions : LET t == Succ(s, a) IN t.step_count = s.step_count + 1 /\ t.blocks = s.blocks
(* C09 *) ProblemDataConstant == [][ s'.blocks = s.blocks /\ s'.num_blocks = s.num_blocks ]_vars
(* C09 *) PlacedOnlyGrows == [][ \A b \in 1..NB : s.placed_blocks[b] => s'.placed_blocks[b] ]_vars
(* C10 *) InstanceOK == s.step_count = 0 => (WellFormedInstance(s) /\ TilesGrid(s))
(* C10 *) InstanceCompletable == s.step_count = 0 => CompletableByActions(s)     \* every instance can be completed by actions
(* C11 *) HorizonOK == /\ (s.step_count >= NB => over)
                       /\ (last.type = MID => s.step_count < NB)
                       /\ (last.type = LAST /\ s.step_count <= NB => s.step_count = NB)
(* C12 *) ObsOK == AllPlaced(s) => LET o == Obs(s) IN o.grid = s.grid /\ o.blocks = s.blocks /\ NoMaskBit(o.action_mask)
=============================================================================
