SPECIFICATION Spec
CONSTANT Cfg <- MCCfg3
CONSTANT MaxW = 3
CONSTANT MaxV = 1
CONSTANT MaxB = 4
CONSTANT Extra = 1
INVARIANT TypeOK
INVARIANT Protocol
INVARIANT MaskSound
INVARIANT MidHasLegal
INVARIANT FeasibleUnderLegalPlay
INVARIANT FeasibleAlways
INVARIANT CompletionIsMaximal
INVARIANT DenseReturnIsValue
INVARIANT SparsePaysOnlyAtEnd
INVARIANT ReturnOfLegalEpisode
INVARIANT Total
INVARIANT HorizonOK
INVARIANT ObsOK
PROPERTY InvalidEffect
PROPERTY ReturnAtEnd
PROPERTY ProblemDataConstant
CONSTRAINT Bounded
CHECK_DEADLOCK FALSE
