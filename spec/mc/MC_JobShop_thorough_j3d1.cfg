SPECIFICATION Spec
CONSTANT Cfg <- MCCfg3221
CONSTANT Extra = 0
INVARIANT TypeOK
INVARIANT Protocol
INVARIANT MaskSound
INVARIANT MaskSoundPerMachine
INVARIANT NoOpAllowed
INVARIANT PenaltyAvoidable
INVARIANT FeasibleUnderLegalPlay
INVARIANT ReturnCountsSteps
INVARIANT Total
INVARIANT HorizonOK
INVARIANT ObsOK
PROPERTY InvalidEnds
PROPERTY CompletionIsFullSolution
PROPERTY ProblemDataConstant
PROPERTY IdleIffNothingRan
CONSTRAINT Bounded
CHECK_DEADLOCK FALSE
