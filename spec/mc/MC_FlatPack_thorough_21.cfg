SPECIFICATION Spec
CONSTANT Cfg <- MCCfg21
CONSTANT Rots = {0, 1, 2, 3}
CONSTANT Shuffle = FALSE
CONSTANT Family = "cuts"
CONSTANT Extra = 1
INVARIANT TypeOK
INVARIANT Protocol
INVARIANT MaskSound
INVARIANT MaskEncoding
INVARIANT StartAllLegal
INVARIANT FeasibleUnderLegalPlay
INVARIANT FeasibleAlways
INVARIANT CompletionIsFull
INVARIANT CellReturnIsCoverage
INVARIANT BlockReturnIsPlaced
INVARIANT Total
INVARIANT InstanceOK
INVARIANT InstanceCompletable
INVARIANT HorizonOK
INVARIANT ObsOK
PROPERTY InvalidIgnored
PROPERTY ReturnAtEnd
PROPERTY ProblemDataConstant
PROPERTY PlacedOnlyGrows
CHECK_DEADLOCK FALSE
