SPECIFICATION Spec
CONSTANT Cfg <- MCCfg3x3a2
CONSTANT Limits = {1, 2, 3}
CONSTANT Starts0 <- AllStarts
CONSTANT Starts1 <- AllStarts
CONSTRAINT Bounded
VIEW View
INVARIANT Protocol
INVARIANT InitWellFormed
INVARIANT MaskSound
INVARIANT MidHasMove
INVARIANT FeasibleAlways
INVARIANT CompletionIsSolution
INVARIANT PhysOK
INVARIANT TimeLimitExact
INVARIANT ObsAgrees
INVARIANT TransitionsOK
CHECK_DEADLOCK FALSE
