SPECIFICATION Spec
CONSTANT Cfg <- MCCfg3x3a3
CONSTANT Limits = {1, 2, 99}
CONSTANT Starts0 <- SymStarts3
CONSTRAINT Bounded
VIEW View
INVARIANT Protocol
INVARIANT InitWellFormed
INVARIANT MaskSound
INVARIANT LegalNeverInvalid
INVARIANT MidHasMove
INVARIANT InvalidNoEffect
INVARIANT AllInvalidChangesNothing
INVARIANT FeasibleAlways
INVARIANT CompletionIsSolution
INVARIANT PhysOK
INVARIANT Conservation
INVARIANT Total
INVARIANT LowerIdYields
INVARIANT UncontestedMoves
INVARIANT RewardRange
INVARIANT DoneIsAbsorbing
INVARIANT TimeLimitExact
INVARIANT ObsAgrees
CHECK_DEADLOCK FALSE
