SPECIFICATION Spec
CONSTANT Cfg <- MCCfgSmall
CONSTANT Movable <- MovNone
CONSTANT Limits <- LimAll
CONSTANT PelletInit <- PelSmall5
CONSTRAINT Bounded
INVARIANT Protocol
INVARIANT MaskSound
INVARIANT MaskedInLandsOnCorridor
INVARIANT PhysOK
INVARIANT TimeLimitExact
INVARIANT Total
PROPERTY InvalidNoEffect
PROPERTY Conservation
VIEW View
CHECK_DEADLOCK FALSE
