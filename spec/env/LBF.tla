------------------------------- MODULE LBF -------------------------------
(***************************************************************************)
(* Reference model of jumanji's Level-Based Foraging.                      *)
(*                                                                         *)
(* NA agents and NF food items live on a G x G grid (0-based <<row, col>>  *)
(* coordinates, as in the implementation's State).  Every agent and every  *)
(* food item has a level.  Each step every agent plays one of              *)
(*    0 noop, 1 up (row - 1), 2 down (row + 1), 3 left (col - 1),          *)
(*    4 right (col + 1), 5 load.                                           *)
(* A move is legal iff its destination is inside the grid and holds        *)
(* neither another agent's current cell nor uneaten food; load is legal    *)
(* iff an uneaten food item is 4-adjacent; noop is always legal.  Illegal  *)
(* actions are ignored.  Agents with a legal move propose its destination, *)
(* all others propose their own cell; every agent whose proposal coincides *)
(* with another agent's proposal stays where it was.  A food item is eaten *)
(* iff the levels of the loading agents 4-adjacent to it sum to at least   *)
(* its level; each of those agents is rewarded level_agent * level_food,   *)
(* divided (normalised mode) by sum_of_those_levels * total_food_level so  *)
(* that the rewards of a completed episode sum to one.  A load attempt     *)
(* whose levels do not suffice costs `penalty`.  The episode terminates    *)
(* when all food is eaten (discount 0) and is truncated when the step      *)
(* count reaches the time limit (LAST, discount 1 unless also terminated). *)
(*                                                                         *)
(* Cfg = [grid_size, num_agents, num_food, fov, max_agent_level,           *)
(*        force_coop, time_limit, grid_observation, normalize_reward,      *)
(*        penalty_num, penalty_den, injected]  (penalty = num / den;       *)
(*        injected: start states come from the TLC dump, not from reset)   *)
(* State = [agents |-> [id, position, level, loading],                     *)
(*          food_items |-> [id, position, level, eaten], step_count]       *)
(***************************************************************************)
EXTENDS EnvKit

CONSTANT Cfg

G  == Cfg.grid_size
NA == Cfg.num_agents
NF == Cfg.num_food
Fov == Cfg.fov
TimeLimit == Cfg.time_limit
PenN == Cfg.penalty_num
PenD == Cfg.penalty_den

Agents == 0..(NA - 1)
Foods  == 0..(NF - 1)

NOOP == 0
UP == 1
DOWN == 2
LEFT == 3
RIGHT == 4
LOAD == 5
Actions == 0..5
MoveActs == 1..4
JointActions == [1..NA -> Actions]

(* ---------- accessors ---------- *)
PosA(s, k) == s.agents.position[k + 1]
LvlA(s, k) == s.agents.level[k + 1]
PosF(s, f) == s.food_items.position[f + 1]
LvlF(s, f) == s.food_items.level[f + 1]
EatenF(s, f) == s.food_items.eaten[f + 1]
Uneaten(s) == { f \in Foods : ~EatenF(s, f) }
AllEaten(s) == \A f \in Foods : EatenF(s, f)

Inside(p) == p[1] \in 0..(G - 1) /\ p[2] \in 0..(G - 1)
Shift(p, a) ==
  CASE a = UP    -> <<p[1] - 1, p[2]>>
    [] a = DOWN  -> <<p[1] + 1, p[2]>>
    [] a = LEFT  -> <<p[1], p[2] - 1>>
    [] a = RIGHT -> <<p[1], p[2] + 1>>
    [] OTHER     -> <<p[1], p[2]>>

FoodAt(s, p) == \E f \in Foods : ~EatenF(s, f) /\ PosF(s, f) = p
OtherAgentAt(s, k, p) == \E j \in Agents \ {k} : PosA(s, j) = p
NextToFood(s, p) == \E f \in Foods : ~EatenF(s, f) /\ Adjacent4(PosF(s, f), p)

(* ---------- legality, mask ---------- *)
LegalAg(s, k, a) ==
  CASE a = NOOP -> TRUE
    [] a \in MoveActs -> LET d == Shift(PosA(s, k), a) IN Inside(d) /\ ~OtherAgentAt(s, k, d) /\ ~FoodAt(s, d)
    [] a = LOAD -> NextToFood(s, PosA(s, k))
    [] OTHER -> FALSE

Mask(s) == [k \in 1..NA |-> [a \in 1..6 |-> LegalAg(s, k - 1, a - 1)]]

(* ---------- movement with the collision rule ---------- *)
Proposal(s, act, k) ==
  IF act[k + 1] \in MoveActs /\ LegalAg(s, k, act[k + 1]) THEN Shift(PosA(s, k), act[k + 1]) ELSE PosA(s, k)
Clash(s, act, k) == \E j \in Agents \ {k} : Proposal(s, act, j) = Proposal(s, act, k)
NewPos(s, act, k) == IF Clash(s, act, k) THEN PosA(s, k) ELSE Proposal(s, act, k)

(* ---------- loading ---------- *)
Loaders(s, act, f) ==
  IF EatenF(s, f) THEN {}
  ELSE { k \in Agents : act[k + 1] = LOAD /\ Adjacent4(NewPos(s, act, k), PosF(s, f)) }
LoadSum(s, act, f) == SumFn([k \in Agents |-> LvlA(s, k)], Loaders(s, act, f))
EatenNow(s, act, f) == Loaders(s, act, f) # {} /\ LoadSum(s, act, f) >= LvlF(s, f)
FailedLoad(s, act, f) == Loaders(s, act, f) # {} /\ LoadSum(s, act, f) < LvlF(s, f)

(* everything a joint action decides, computed once: new positions, who loads what, what is eaten *)
Outcome(s, act) ==
  LET prop == TLCEval([k \in Agents |-> Proposal(s, act, k)])
      np   == TLCEval([k \in Agents |-> IF \E j \in Agents \ {k} : prop[j] = prop[k] THEN PosA(s, k) ELSE prop[k]])
      ld   == TLCEval([f \in Foods |-> IF EatenF(s, f) THEN {}
                                       ELSE { k \in Agents : act[k + 1] = LOAD /\ Adjacent4(np[k], PosF(s, f)) }])
      sm   == TLCEval([f \in Foods |-> SumFn([k \in Agents |-> LvlA(s, k)], ld[f])])
  IN [pos |-> np, loaders |-> ld, sum |-> sm,
      eats |-> TLCEval([f \in Foods |-> ld[f] # {} /\ sm[f] >= LvlF(s, f)]),
      fails |-> TLCEval([f \in Foods |-> ld[f] # {} /\ sm[f] < LvlF(s, f)])]

NextStateO(s, act, o) ==
  [agents |-> [id |-> s.agents.id,
               position |-> [k \in 1..NA |-> o.pos[k - 1]],
               level |-> s.agents.level,
               loading |-> [k \in 1..NA |-> act[k] = LOAD]],
   food_items |-> [id |-> s.food_items.id,
                   position |-> s.food_items.position,
                   level |-> s.food_items.level,
                   eaten |-> [f \in 1..NF |-> EatenF(s, f - 1) \/ o.eats[f - 1]]],
   step_count |-> s.step_count + 1]
NextState(s, act) == NextStateO(s, act, Outcome(s, act))
StepTo(s, act) == NextState(s, act)

(* ---------- reward (fixed point, 16 fractional bits; each food term floors, error < 1 unit) ---------- *)
TotalFoodLevel(s) == SumSeq(s.food_items.level)
\* what agent k gets out of food f before normalisation, as a fraction over PenD.  The penalty of a
\* failed load attempt is charged to every agent (the documentation does not say to whom; the
\* implementation subtracts it from the whole reward vector).
RawNum(s, o, k, f) ==
  (IF k \in o.loaders[f] /\ o.eats[f] THEN LvlA(s, k) * LvlF(s, f) * PenD ELSE 0)
  - (IF o.fails[f] THEN PenN ELSE 0)
RewardFoodFx(s, o, k, f) ==
  IF o.loaders[f] = {} THEN 0
  ELSE IF Cfg.normalize_reward
       THEN (RawNum(s, o, k, f) * FX) \div (PenD * o.sum[f] * TotalFoodLevel(s))
       ELSE (RawNum(s, o, k, f) * FX) \div PenD
RewardVecFxO(s, o) == [k \in 1..NA |-> SumFn([f \in Foods |-> RewardFoodFx(s, o, k - 1, f)], Foods)]
RewardVecFx(s, act) == RewardVecFxO(s, Outcome(s, act))
RewardFx(s, act, k) == RewardVecFx(s, act)[k + 1]
RewardTol == NF + 2

(* ---------- end of episode ---------- *)
IsLastT(t, T) == AllEaten(t) \/ t.step_count >= T
IsLast(t) == IsLastT(t, TimeLimit)
TruncatedT(t, T) == ~AllEaten(t) /\ t.step_count >= T
DiscountOf(t) == IF AllEaten(t) THEN 0 ELSE 1

(* ---------- observation ---------- *)
Visible(p, q) == Abs(p[1] - q[1]) <= Fov /\ Abs(p[2] - q[2]) <= Fov
\* the window of agent at p spans p - fov .. p + fov, clipped at the top / left edge of the grid;
\* vector coordinates are relative to the clipped window's origin
WinOrigin(p) == <<Max2(0, p[1] - Fov), Max2(0, p[2] - Fov)>>
Hidden == <<-1, -1, 0>>
Seen(p, q, lvl) == IF Visible(p, q) THEN <<q[1] - WinOrigin(p)[1], q[2] - WinOrigin(p)[2], lvl>> ELSE Hidden
FoodTriple(s, k, f) == IF EatenF(s, f) THEN Hidden ELSE Seen(PosA(s, k), PosF(s, f), LvlF(s, f))
AgentTriple(s, k, j) == Seen(PosA(s, k), PosA(s, j), LvlA(s, j))
OtherId(k, m) == IF m - 1 < k THEN m - 1 ELSE m            \* m-th (1-based) other agent in id order
Triples(s, k) ==
  [m \in 1..(NF + NA) |->
     IF m <= NF THEN FoodTriple(s, k, m - 1)
     ELSE IF m = NF + 1 THEN AgentTriple(s, k, k)
     ELSE AgentTriple(s, k, OtherId(k, m - NF - 1))]
VectorView(s, k) == [x \in 1..(3 * (NF + NA)) |-> Triples(s, k)[((x - 1) \div 3) + 1][((x - 1) % 3) + 1]]
VectorObs(s) == [k \in 1..NA |-> VectorView(s, k - 1)]

AgentLevelAt(s, p) ==
  IF \E j \in Agents : PosA(s, j) = p THEN LvlA(s, CHOOSE j \in Agents : PosA(s, j) = p) ELSE 0
FoodLevelAt(s, p) ==
  IF FoodAt(s, p) THEN LvlF(s, CHOOSE f \in Foods : ~EatenF(s, f) /\ PosF(s, f) = p) ELSE 0
Access(s, p) == IF Inside(p) /\ AgentLevelAt(s, p) = 0 /\ FoodLevelAt(s, p) = 0 THEN 1 ELSE 0
WinW == 2 * Fov + 1
WinCell(p, i, j) == <<p[1] - Fov + i - 1, p[2] - Fov + j - 1>>
GridView(s, k) ==
  LET p == PosA(s, k) IN
  << [i \in 1..WinW |-> [j \in 1..WinW |-> AgentLevelAt(s, WinCell(p, i, j))]],
     [i \in 1..WinW |-> [j \in 1..WinW |-> FoodLevelAt(s, WinCell(p, i, j))]],
     [i \in 1..WinW |-> [j \in 1..WinW |-> Access(s, WinCell(p, i, j))]] >>
GridObs(s) == [k \in 1..NA |-> GridView(s, k - 1)]

Obs(s) == [agents_view |-> IF Cfg.grid_observation THEN GridObs(s) ELSE VectorObs(s),
           action_mask |-> Mask(s),
           step_count |-> s.step_count]

(* ---------- physical invariants and conservation (C07) ---------- *)
StateShape(s) ==
  /\ Len(s.agents.position) = NA /\ Len(s.agents.level) = NA /\ Len(s.agents.loading) = NA /\ Len(s.agents.id) = NA
  /\ Len(s.food_items.position) = NF /\ Len(s.food_items.level) = NF /\ Len(s.food_items.eaten) = NF
  /\ Len(s.food_items.id) = NF
  /\ \A k \in Agents : Len(PosA(s, k)) = 2
  /\ \A f \in Foods : Len(PosF(s, f)) = 2
EntitiesInside(s) == (\A k \in Agents : Inside(PosA(s, k))) /\ (\A f \in Uneaten(s) : Inside(PosF(s, f)))
OccupiedCells(s) == { PosA(s, k) : k \in Agents } \cup { PosF(s, f) : f \in Uneaten(s) }
DistinctCells(s) == Cardinality(OccupiedCells(s)) = NA + Cardinality(Uneaten(s))
PhysInv(s) == StateShape(s) /\ EntitiesInside(s) /\ DistinctCells(s)

IdsFixed(s) == s.agents.id = [k \in 1..NA |-> k - 1] /\ s.food_items.id = [f \in 1..NF |-> f - 1]
LevelsConserved(s, t) == t.agents.level = s.agents.level /\ t.food_items.level = s.food_items.level
FoodStays(s, t) == t.food_items.position = s.food_items.position
EatenMonotone(s, t) == \A f \in Foods : EatenF(s, f) => EatenF(t, f)
\* every agent is still exactly one entity that moved at most one cell
OneCellMoves(s, t) == \A k \in Agents : PosA(t, k) = PosA(s, k) \/ Adjacent4(PosA(t, k), PosA(s, k))
OccupancyLaw(s, t) ==
  Cardinality(OccupiedCells(t)) = NA + Cardinality(Uneaten(t)) /\ Cardinality(Uneaten(t)) <= Cardinality(Uneaten(s))

(* ---------- what reset may return (C10) ---------- *)
Interior(p) == p[1] \in 1..(G - 2) /\ p[2] \in 1..(G - 2)
RECURSIVE InsertSorted(_, _)
InsertSorted(x, sq) == IF sq = <<>> THEN <<x>> ELSE IF x <= sq[1] THEN <<x>> \o sq ELSE <<sq[1]>> \o InsertSorted(x, Tail(sq))
RECURSIVE SortAsc(_)
SortAsc(sq) == IF sq = <<>> THEN <<>> ELSE InsertSorted(sq[1], SortAsc(Tail(sq)))
\* "in the worst case three agents are needed": the cap of a food level is the sum of the three lowest agent levels
FoodLevelCap(s) == LET srt == SortAsc(s.agents.level) IN SumSeq(SubSeq(srt, 1, Min2(3, NA)))
FreshInstance(s) ==
  /\ s.step_count = 0
  /\ \A k \in Agents : ~s.agents.loading[k + 1]
  /\ \A f \in Foods : ~EatenF(s, f)
  /\ IdsFixed(s)
FoodInterior(s) == \A f \in Foods : Interior(PosF(s, f))
FoodApart(s) == \A f, g \in Foods : f # g => (PosF(s, f) # PosF(s, g) /\ ~Adjacent4(PosF(s, f), PosF(s, g)))
AgentLevelsOK(s) == \A k \in Agents : LvlA(s, k) \in 1..Cfg.max_agent_level
FoodLevelsOK(s) ==
  \A f \in Foods : IF Cfg.force_coop THEN LvlF(s, f) = FoodLevelCap(s) ELSE LvlF(s, f) \in 1..FoodLevelCap(s)
FoodReachable(s) == \A f \in Foods : LvlF(s, f) <= SumSeq(s.agents.level)
WellFormedInstance(s) ==
  /\ PhysInv(s) /\ FreshInstance(s) /\ FoodInterior(s) /\ FoodApart(s)
  /\ AgentLevelsOK(s) /\ FoodLevelsOK(s) /\ FoodReachable(s)

(* ---------- objective (C08): share of the total food level that has been collected ---------- *)
EatenLevel(s) == SumFn([f \in Foods |-> IF EatenF(s, f) THEN LvlF(s, f) ELSE 0], Foods)
=============================================================================
