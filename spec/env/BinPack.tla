----------------------------- MODULE BinPack -----------------------------
(***************************************************************************)
(* Reference model of jumanji's BinPack (3D bin packing, one container,    *)
(* Empty-Maximal-Space formulation), written from docs/environments/       *)
(* bin_pack.md and the class docstrings.                                   *)
(*                                                                         *)
(* A box is <<x1, x2, y1, y2, z1, z2>> (two corner points); an item is its *)
(* size <<x_len, y_len, z_len>>; a location is <<x, y, z>>.  The state     *)
(* holds the container, a buffer of max_num_ems EMS slots with a validity  *)
(* mask, the items with a validity mask, a placed flag and a location per  *)
(* item, and `sorted_ems_indexes`, the buffer slots ordered by decreasing  *)
(* volume: row k of the observation / of the action space is the slot      *)
(* sorted_ems_indexes[k].                                                  *)
(*                                                                         *)
(* Action [k, j] = put item j into the EMS shown in row k, at that EMS's   *)
(* lower corner (x1, y1, z1).  It is legal iff that EMS is valid, item j   *)
(* is valid and not yet placed, and the item is no larger than the EMS on  *)
(* every axis.  An illegal action leaves the problem state untouched and   *)
(* ends the episode; the episode also ends when no legal action remains.   *)
(* Dense reward: volume of the packed item / container volume (0 if the    *)
(* action is illegal).  Sparse reward: 0 until the episode ends, then the  *)
(* volume utilisation (placed volume / container volume), also when the    *)
(* end is caused by an illegal action.                                     *)
(*                                                                         *)
(* Volumes of the 20-ft container (5870 x 2330 x 2200 mm) exceed 32 bits:  *)
(* all volume arithmetic is done on little-endian base-2^13 numerals (Bn). *)
(* Side lengths up to 2^17 mm (131 m) are supported: volumes < 2^51, times *)
(* the fixed-point unit < 2^68, on 6 limbs = 78 bits.                      *)
(***************************************************************************)
EXTENDS EnvKit

CONSTANT Cfg   \* [max_num_items, max_num_ems, obs_num_ems, normalize, reward, generator, container_dims, tiling, random]

NItems  == Cfg.max_num_items
NEms    == Cfg.max_num_ems
NObs    == Cfg.obs_num_ems
ItemIdx == 1..NItems
Actions == (0..(NObs - 1)) \X (0..(NItems - 1))        \* <<row of the observation, item id>>, 0-based as in the code

(* ------------------------------------------------------------------ *)
(* multi-limb naturals (6 limbs of 13 bits = 78 bits)                  *)
(* ------------------------------------------------------------------ *)
BnB == 8192
BnN == 6
RECURSIVE BnCarry(_, _, _)
BnCarry(f, k, c) == IF k > BnN THEN <<>> ELSE LET v == f[k] + c IN <<v % BnB>> \o BnCarry(f, k + 1, v \div BnB)
BnOf(n)      == BnCarry(<<n, 0, 0, 0, 0, 0>>, 1, 0)                         \* 0 <= n < 2^31 - 2^18
BnMul(x, m)  == BnCarry([k \in 1..BnN |-> x[k] * m], 1, 0)               \* 0 <= m <= 2^17
BnAdd(x, y)  == BnCarry([k \in 1..BnN |-> x[k] + y[k]], 1, 0)
BnZero       == <<0, 0, 0, 0, 0, 0>>
BnLeq(x, y)  == LET d == { k \in 1..BnN : x[k] # y[k] } IN
                d = {} \/ (LET m == CHOOSE k \in d : \A j \in d : j <= k IN x[m] < y[m])
BnVol3(a, b, c) == BnMul(BnMul(BnOf(a), b), c)                            \* a < 2^31 - 2^18; b, c <= 2^17
RECURSIVE BnSumTo(_, _)
BnSumTo(f, k) == IF k = 0 THEN BnZero ELSE BnAdd(f[k], BnSumTo(f, k - 1))
\* q / 65536 ~ num / den within tol / 65536  (q, tol small ints >= 0; num, den numerals)
BnNear(q, num, den, tol) ==
  /\ q >= 0
  /\ BnLeq(BnMul(den, q), BnAdd(BnMul(num, FX), BnMul(den, tol)))
  /\ BnLeq(BnMul(num, FX), BnAdd(BnMul(den, q), BnMul(den, tol)))
\* u <= o up to the resolution of single-precision floats (relative 2^-22): (u - o) * 2^22 <= u
BnLeqF32(u, o) == BnLeq(BnMul(BnMul(u, 2048), 2048), BnAdd(BnMul(BnMul(o, 2048), 2048), u))

(* ------------------------------------------------------------------ *)
(* geometry                                                            *)
(* ------------------------------------------------------------------ *)
BoxNonEmpty(b) == b[1] < b[2] /\ b[3] < b[4] /\ b[5] < b[6]
BoxMeet(a, b)  == << Max2(a[1], b[1]), Min2(a[2], b[2]), Max2(a[3], b[3]), Min2(a[4], b[4]), Max2(a[5], b[5]), Min2(a[6], b[6]) >>
Overlap(a, b)  == BoxNonEmpty(BoxMeet(a, b))                 \* the open boxes intersect
Inside(a, b)   == a[1] >= b[1] /\ a[2] <= b[2] /\ a[3] >= b[3] /\ a[4] <= b[4] /\ a[5] >= b[5] /\ a[6] <= b[6]
BoxDims(b)     == << b[2] - b[1], b[4] - b[3], b[6] - b[5] >>
BoxCorner(b)   == << b[1], b[3], b[5] >>
ItemBox(d, p)  == << p[1], p[1] + d[1], p[2], p[2] + d[2], p[3], p[3] + d[3] >>
Fits(d, b)     == d[1] <= b[2] - b[1] /\ d[2] <= b[4] - b[3] /\ d[3] <= b[6] - b[5]
BoxVol(b)      == IF BoxNonEmpty(b) THEN BnVol3(b[2] - b[1], b[4] - b[3], b[6] - b[5]) ELSE BnZero
ItemVol(d)     == BnVol3(d[1], d[2], d[3])

(* What is left of the empty space e on each of the six sides of the box I. *)
Cuts(e, I) ==
  { c \in { << e[1], Min2(e[2], I[1]), e[3], e[4], e[5], e[6] >>,      \* below I on x
            << Max2(e[1], I[2]), e[2], e[3], e[4], e[5], e[6] >>,      \* above I on x
            << e[1], e[2], e[3], Min2(e[4], I[3]), e[5], e[6] >>,
            << e[1], e[2], Max2(e[3], I[4]), e[4], e[5], e[6] >>,
            << e[1], e[2], e[3], e[4], e[5], Min2(e[6], I[5]) >>,
            << e[1], e[2], e[3], e[4], Max2(e[5], I[6]), e[6] >> } : BoxNonEmpty(c) }
MaximalBoxes(U) == { b \in U : \A c \in U : Inside(b, c) => c = b }
(* The EMS set after a box I has been filled: untouched spaces survive, every space that I cuts into is
   replaced by its six remainders, and only inclusion-maximal spaces are kept. *)
EmsAfter(S, I) ==
  LET hit == { e \in S : Overlap(e, I) } IN
  MaximalBoxes((S \ hit) \cup UNION { Cuts(e, I) : e \in hit })

(* ------------------------------------------------------------------ *)
(* state accessors (s has jumanji's field names; sequences are 1-based)*)
(* ------------------------------------------------------------------ *)
ValidSlots(s)  == { k \in 1..Len(s.ems) : s.ems_mask[k] }
EmsSet(s)      == { s.ems[k] : k \in ValidSlots(s) }
RowSlot(s, k)  == s.sorted_ems_indexes[k + 1] + 1             \* buffer slot (1-based) shown in observation row k (0-based)
PlacedIdx(s)   == { j \in 1..Len(s.items) : s.items_placed[j] }
ValidItems(s)  == { j \in 1..Len(s.items) : s.items_mask[j] }
PlacedBox(s, j) == ItemBox(s.items[j], s.items_location[j])
ContainerVol(s) == BoxVol(s.container)
PlacedVol(s)   == BnSumTo([j \in 1..Len(s.items) |-> IF s.items_placed[j] THEN ItemVol(s.items[j]) ELSE BnZero], Len(s.items))
Problem(s)     == << s.container, s.ems, s.ems_mask, s.items, s.items_mask, s.items_placed, s.items_location >>

(* ------------------------------------------------------------------ *)
(* rules                                                               *)
(* ------------------------------------------------------------------ *)
Legal(s, a) ==
  LET slot == RowSlot(s, a[1])  j == a[2] + 1 IN
  /\ s.ems_mask[slot]
  /\ s.items_mask[j]
  /\ ~s.items_placed[j]
  /\ Fits(s.items[j], s.ems[slot])
Mask(s) == [k \in 1..NObs |-> [j \in 1..NItems |-> Legal(s, <<k - 1, j - 1>>)]]
NoLegal(s) == \A a \in Actions : ~Legal(s, a)

(* successor of a legal action, as far as it is determined: everything but the EMS buffer layout *)
PlaceAt(s, a)     == BoxCorner(s.ems[RowSlot(s, a[1])])
NextPlaced(s, a)  == [s.items_placed EXCEPT ![a[2] + 1] = TRUE]
NextLocs(s, a)    == [s.items_location EXCEPT ![a[2] + 1] = PlaceAt(s, a)]
NextEmsSet(s, a)  == EmsAfter(EmsSet(s), ItemBox(s.items[a[2] + 1], PlaceAt(s, a)))
(* The buffer holds max_num_ems spaces: "any created ems that do not fit in the buffer will be ignored during
   the environment step".  So: the exact set when it fits; otherwise the untouched spaces all stay and only
   created ones are missing. *)
EmsFits(s, a)     == Cardinality(NextEmsSet(s, a)) <= NEms
EmsSurvivors(s, a) == { e \in EmsSet(s) : ~Overlap(e, ItemBox(s.items[a[2] + 1], PlaceAt(s, a))) }
EmsExact(s, a, t)  == EmsSet(t) = NextEmsSet(s, a)
EmsOverflowSubset(s, a, t) == EmsSet(t) \subseteq NextEmsSet(s, a)
EmsOverflowKeeps(s, a, t)  == EmsSurvivors(s, a) \subseteq EmsSet(t)
EmsRel(s, a, t) ==
  IF EmsFits(s, a) THEN EmsExact(s, a, t) ELSE EmsOverflowSubset(s, a, t) /\ EmsOverflowKeeps(s, a, t)

StepRel(s, a, t) ==
  IF Legal(s, a)
  THEN /\ t.container = s.container /\ t.items = s.items /\ t.items_mask = s.items_mask
       /\ t.items_placed = NextPlaced(s, a)
       /\ t.items_location = NextLocs(s, a)
       /\ EmsRel(s, a, t)
  ELSE Problem(t) = Problem(s)

Done(s, a, t) == ~Legal(s, a) \/ NoLegal(t)

(* reward in fixed point q (q / 65536), within tol units *)
RewardOK(s, a, t, q, tol) ==
  IF Cfg.reward = "dense"
  THEN IF Legal(s, a) THEN BnNear(q, ItemVol(s.items[a[2] + 1]), ContainerVol(s), tol) ELSE q = 0
  ELSE IF Done(s, a, t) THEN BnNear(q, PlacedVol(t), ContainerVol(t), tol) ELSE q = 0
(* objective: volume utilisation of the container *)
ObjectiveOK(s, ret, tol) == BnNear(ret, PlacedVol(s), ContainerVol(s), tol)

(* ------------------------------------------------------------------ *)
(* hard constraints of the packing problem (C06), from raw arrays      *)
(* ------------------------------------------------------------------ *)
ItemsInside(s)   == \A j \in PlacedIdx(s) : Inside(PlacedBox(s, j), s.container)
ItemsDisjoint(s) == \A i \in PlacedIdx(s) : \A j \in PlacedIdx(s) : i < j => ~Overlap(PlacedBox(s, i), PlacedBox(s, j))
PlacedAreValid(s) == \A j \in PlacedIdx(s) : s.items_mask[j]
EmsInside(s)     == \A e \in EmsSet(s) : BoxNonEmpty(e) /\ Inside(e, s.container)
EmsFree(s)       == \A e \in EmsSet(s) : \A j \in PlacedIdx(s) : ~Overlap(e, PlacedBox(s, j))
Feasible(s)      == ItemsInside(s) /\ ItemsDisjoint(s) /\ PlacedAreValid(s) /\ EmsInside(s) /\ EmsFree(s)
AllPlaced(s)     == \A j \in ValidItems(s) : s.items_placed[j]
FullVolume(s)    == PlacedVol(s) = ContainerVol(s)
(* a complete solution: every item packed feasibly; if the items fill the container no empty space is left *)
CompleteSolution(s) == AllPlaced(s) /\ ItemsInside(s) /\ ItemsDisjoint(s) /\ (FullVolume(s) => EmsSet(s) = {})

(* ------------------------------------------------------------------ *)
(* instances (C10)                                                     *)
(* ------------------------------------------------------------------ *)
CDims == Cfg.container_dims
CBox  == << 0, CDims[1], 0, CDims[2], 0, CDims[3] >>
ShapesOK(s) ==
  /\ Len(s.items) = NItems /\ Len(s.items_mask) = NItems /\ Len(s.items_placed) = NItems /\ Len(s.items_location) = NItems
  /\ Len(s.ems) = NEms /\ Len(s.ems_mask) = NEms /\ Len(s.sorted_ems_indexes) = NEms
FreshOK(s) ==      \* nothing packed yet, the whole container is the only empty space
  /\ s.container = CBox
  /\ PlacedIdx(s) = {}
  /\ \A j \in 1..Len(s.items) : s.items_location[j] = <<0, 0, 0>>
  /\ ValidSlots(s) = {1} /\ s.ems[1] = CBox
ItemsOK(s) ==      \* every item to pack is a real box that fits into the empty container
  /\ ValidItems(s) # {}
  /\ \A j \in ValidItems(s) : s.items[j][1] > 0 /\ s.items[j][2] > 0 /\ s.items[j][3] > 0 /\ Fits(s.items[j], CBox)
WellFormedInstance(s) == ShapesOK(s) /\ FreshOK(s) /\ ItemsOK(s)
(* the generator's own solution `sol` for the instance s: same instance, everything placed, exact tiling *)
SolSameInstance(s, sol) == sol.items = s.items /\ sol.items_mask = s.items_mask /\ sol.container = s.container
SolAllPlaced(sol)       == sol.items_placed = sol.items_mask
SolInside(sol)          == ItemsInside(sol)
SolDisjoint(sol)        == ItemsDisjoint(sol)
SolFillsContainer(sol)  == PlacedVol(sol) = ContainerVol(sol)

(* ------------------------------------------------------------------ *)
(* observation (C12)                                                   *)
(* ------------------------------------------------------------------ *)
SlotVol(s, k) == IF s.ems_mask[k] THEN BoxVol(s.ems[k]) ELSE BnZero
(* sorted_ems_indexes lists every buffer slot once, by decreasing volume (invalid slots count as empty; ties
   are free; volumes are compared at the resolution of the single-precision floats the observation is made of) *)
SortedOK(s) ==
  LET p == s.sorted_ems_indexes IN
  /\ Len(p) = NEms
  /\ { p[k] : k \in 1..NEms } = 0..(NEms - 1)
  /\ \A k \in 1..(NEms - 1) : BnLeqF32(SlotVol(s, p[k + 1] + 1), SlotVol(s, p[k] + 1))
\* one coordinate: plain when not normalised, else fixed point of value / container length on that axis
CoordOK(q, v, len) == IF Cfg.normalize THEN Near(q, v, len, 2) ELSE q = v
ObsEmsOK(s, o) ==
  /\ Len(o.ems) = NObs
  /\ \A k \in 1..NObs :
       LET e == s.ems[RowSlot(s, k - 1)]  r == o.ems[k]  d == BoxDims(s.container) IN
       /\ CoordOK(r[1], e[1], d[1]) /\ CoordOK(r[2], e[2], d[1])
       /\ CoordOK(r[3], e[3], d[2]) /\ CoordOK(r[4], e[4], d[2])
       /\ CoordOK(r[5], e[5], d[3]) /\ CoordOK(r[6], e[6], d[3])
ObsEmsMaskOK(s, o) == o.ems_mask = [k \in 1..NObs |-> s.ems_mask[RowSlot(s, k - 1)]]
ObsItemsOK(s, o) ==
  /\ Len(o.items) = NItems
  /\ \A j \in ItemIdx : LET d == BoxDims(s.container) IN
       CoordOK(o.items[j][1], s.items[j][1], d[1]) /\ CoordOK(o.items[j][2], s.items[j][2], d[2])
       /\ CoordOK(o.items[j][3], s.items[j][3], d[3])
=============================================================================
