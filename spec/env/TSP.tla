------------------------------ MODULE TSP ------------------------------
(***************************************************************************)
(* Reference model of the travelling-salesman environment as documented by *)
(* jumanji (docs/environments/tsp.md and the class docstring):             *)
(*                                                                         *)
(*   An instance is num_cities cities with coordinates in the unit square. *)
(*   The action k (0-based) is "visit city k next".  It is valid iff city  *)
(*   k has not been visited yet.  A valid action appends k to the route,   *)
(*   marks it visited and makes it the current position.  An invalid       *)
(*   action changes nothing, is rewarded -num_cities * sqrt(2) and ends    *)
(*   the episode.  The episode also ends when all cities have been         *)
(*   visited.  Dense reward: minus the distance between the current city   *)
(*   and the chosen one; 0 for the first chosen city; for the last city it *)
(*   also includes the distance back to the first city of the route.       *)
(*   Sparse reward: minus the length of the closed tour, paid when the     *)
(*   last city is visited, else 0.                                         *)
(*                                                                         *)
(* Numbers.  TLC cannot take square roots, so Euclidean leg lengths are    *)
(* DATA: every state carries an integer distance matrix D (recorded        *)
(* traces: D[i][j] = round(dist(i, j) * 65536), computed by the harness in *)
(* float64 NumPy from the raw coordinates, independently of the reward     *)
(* code; MC: a small symbolic integer matrix).  What this module decides   *)
(* is the BOOKKEEPING: which legs are charged at which step, when the      *)
(* closing leg is added, which branch pays the penalty.  A sum of k legs   *)
(* carries a tolerance of k + 2 units (D rounding 0.5 per leg, reward      *)
(* rounding, float32 accumulation); an empty sum is exactly 0.  With       *)
(* Cfg.exact (lattice generator: integral point sets scaled by a power of  *)
(* two; MC) every leg, partial sum and export is exact and the tolerance   *)
(* is 0.                                                                   *)
(*                                                                         *)
(* Cfg = [num_cities, reward_fn ("dense" | "sparse"),                      *)
(*        generator ("uniform" | "lattice" | "mc"), exact (BOOLEAN),       *)
(*        unit (lattice step in fixed point), penalty (MC only)]           *)
(* state s = [coordinates, position, visited_mask, trajectory,             *)
(*            num_visited, D]   -- jumanji's own field names plus D        *)
(***************************************************************************)
EXTENDS EnvKit

CONSTANT Cfg

N       == Cfg.num_cities
Cities  == 1..N                     \* TLA+ index of city k (0-based id / action k) is k + 1
Actions == 0..(N - 1)
Exact   == Cfg.exact
IsMC    == Cfg.generator = "mc"

(* ---------- numbers ---------- *)
Sqrt2Q  == 92682                                        \* round(sqrt(2) * 65536)
Penalty == IF IsMC THEN Cfg.penalty ELSE N * Sqrt2Q     \* documented invalid-move penalty num_cities * sqrt(2)
PenTol  == IF IsMC THEN 0 ELSE (N \div 4) + 2           \* 0.1 unit per city (Sqrt2Q rounding) + float32 + export rounding
LegTol(k) == IF Exact \/ k = 0 THEN 0 ELSE k + 2        \* a sum of k legs; the empty sum is exactly 0
\* leg from city i to city j (0-based ids).  A leg whose endpoint is not a city (-1 in a route that should be
\* filled, as only a defective implementation produces) has the length Poison: far from every real length, so
\* the clause that sums it fails instead of raising an evaluation error (21 * Poison < 2^31).
Poison == 50000000
Dist(s, i, j) == IF i \in Actions /\ j \in Actions THEN s.D[i + 1][j + 1] ELSE Poison

(* ---------- the rules ---------- *)
Visited(s)    == { j \in Cities : s.visited_mask[j] }
NumVisited(s) == Cardinality(Visited(s))
AllVisited(s) == Visited(s) = Cities
NoneVisited(s) == Visited(s) = {}
Legal(s, a)   == ~s.visited_mask[a + 1]                  \* a city can be visited iff it has not been visited
Mask(s)       == [j \in Cities |-> Legal(s, j - 1)]

(* the same rule read off the route instead of the flags: city a does not occur among the filled entries *)
RoutePrefix(s)    == { s.trajectory[k] : k \in 1..Min2(Max2(s.num_visited, 0), N) }
LegalByRoute(s, a) == a \notin RoutePrefix(s)
MaskByRoute(s)    == [j \in Cities |-> LegalByRoute(s, j - 1)]

(* ---------- transition ---------- *)
Visit(s, a) == [s EXCEPT !.position = a,
                         !.visited_mask[a + 1] = TRUE,
                         !.trajectory[s.num_visited + 1] = a,
                         !.num_visited = s.num_visited + 1]
Succ(s, a) == IF Legal(s, a) THEN Visit(s, a) ELSE s

(* Was the recorded transition s -a-> t treated as a valid action?  (a valid action always flags city a) *)
TookCity(s, a, t) == t.visited_mask[a + 1] /\ ~s.visited_mask[a + 1]

(* ---------- termination ---------- *)
\* documented: LAST iff the action was invalid or no action can be performed afterwards (all cities visited)
Done(s, a, t) == ~Legal(s, a) \/ AllVisited(t)

(* ---------- lengths ---------- *)
\* closed tour through the route in order, returning from the last city to the first one
TourLength(t) == SumTo([k \in 1..N |-> Dist(t, t.trajectory[k], t.trajectory[(k % N) + 1])], N)
\* open path through the filled part of the route
PathLength(t) == LET m == t.num_visited IN
                 IF m <= 1 THEN 0 ELSE SumTo([k \in 1..(m - 1) |-> Dist(t, t.trajectory[k], t.trajectory[k + 1])], m - 1)
RouteStart(t) == t.trajectory[1]

(* ---------- reward: the amount CHARGED (reward = minus cost), in the unit of D ---------- *)
\* dense: leg from the current city to the chosen one (nothing for the first chosen city), plus the closing
\* leg from the chosen city back to the start of the route when it completes the tour
MoveLegs(s, a)     == IF NoneVisited(s) THEN 0 ELSE 1
ClosingLegs(t)     == IF AllVisited(t) THEN 1 ELSE 0
DenseCost(s, a, t) ==
  IF ~Legal(s, a) THEN Penalty
  ELSE (IF NoneVisited(s) THEN 0 ELSE Dist(s, s.position, a))
     + (IF AllVisited(t) THEN Dist(s, a, RouteStart(t)) ELSE 0)
DenseLegs(s, a, t) == MoveLegs(s, a) + ClosingLegs(t)
\* sparse: the whole closed tour when the last city is visited, else nothing
SparseCost(s, a, t) ==
  IF ~Legal(s, a) THEN Penalty
  ELSE IF AllVisited(t) THEN TourLength(t) ELSE 0
SparseLegs(s, a, t) == IF AllVisited(t) THEN N ELSE 0
Cost(fn, s, a, t) == IF fn = "dense" THEN DenseCost(s, a, t) ELSE SparseCost(s, a, t)
Legs(fn, s, a, t) == IF fn = "dense" THEN DenseLegs(s, a, t) ELSE SparseLegs(s, a, t)

(* r (a reward, i.e. normally <= 0) is what reward function fn pays for action a in s leading to t *)
IsPenalty(r) == Abs(r + Penalty) <= PenTol
RewardOK(fn, s, a, t, r) ==
  IF ~Legal(s, a) THEN IsPenalty(r)
  ELSE Abs(r + Cost(fn, s, a, t)) <= LegTol(Legs(fn, s, a, t))

(* ---------- observation (C12): the four documented fields ---------- *)
Obs(s) == [coordinates |-> s.coordinates, position |-> s.position, trajectory |-> s.trajectory,
           action_mask |-> [j \in Cities |-> ~s.visited_mask[j]]]

(* ---------- feasibility (C06), recomputed from the raw arrays ---------- *)
CounterInRange(s) == s.num_visited \in 0..N
\* no city is served twice: the filled entries of the route are city ids, pairwise distinct
ServedOnce(s) ==
  /\ CounterInRange(s)
  /\ \A j \in 1..s.num_visited : s.trajectory[j] \in Actions
  /\ \A j \in 1..s.num_visited : \A k \in 1..s.num_visited : j # k => s.trajectory[j] # s.trajectory[k]
\* the route and the visited flags tell the same story; unfilled entries are -1
RouteMatchesMask(s) ==
  /\ CounterInRange(s)
  /\ { s.trajectory[k] + 1 : k \in 1..s.num_visited } = Visited(s)
  /\ s.num_visited = NumVisited(s)
  /\ \A k \in (s.num_visited + 1)..N : s.trajectory[k] = -1
\* the current position is the end of the route
PositionIsRouteEnd(s) == (CounterInRange(s) /\ s.num_visited > 0) => s.position = s.trajectory[s.num_visited]
Feasible(s) == ServedOnce(s) /\ RouteMatchesMask(s) /\ PositionIsRouteEnd(s)
\* a completed episode holds a full tour: the route is a permutation of the cities
FullTour(s) == /\ AllVisited(s) /\ s.num_visited = N
               /\ { s.trajectory[k] : k \in 1..N } = Actions

(* ---------- instances (C10) ---------- *)
ShapeOK(s) ==
  /\ Len(s.coordinates) = N /\ \A j \in Cities : Len(s.coordinates[j]) = 2
  /\ Len(s.visited_mask) = N /\ Len(s.trajectory) = N
InUnitSquare(s) == \A j \in Cities : \A d \in 1..2 : 0 <= s.coordinates[j][d] /\ s.coordinates[j][d] <= FX
FreshRoute(s) ==
  /\ s.num_visited = 0 /\ NoneVisited(s) /\ s.position = -1
  /\ \A k \in Cities : s.trajectory[k] = -1
OnLattice(s, u) ==
  /\ \A j \in Cities : \A d \in 1..2 : s.coordinates[j][d] % u = 0
  /\ \A i \in Cities : \A j \in Cities : s.D[i][j] % u = 0
  /\ \A i \in Cities : \A j \in Cities : i # j => s.D[i][j] > 0       \* lattice cities are pairwise distinct
(* sanity of the harness-computed distance matrix: a metric on the unit square that agrees with the recorded
   coordinates at a coarse resolution (1/4096; squares stay below 2^31) *)
MetricOK(s) ==
  /\ Len(s.D) = N /\ \A i \in Cities : Len(s.D[i]) = N
  /\ \A i \in Cities : s.D[i][i] = 0
  /\ \A i \in Cities : \A j \in Cities : s.D[i][j] = s.D[j][i] /\ 0 <= s.D[i][j] /\ s.D[i][j] <= Sqrt2Q
Coarse(x) == x \div 16
DMatchesCoordinates(s) ==
  \A i \in Cities : \A j \in Cities :
    LET dx == Coarse(s.coordinates[i][1] - s.coordinates[j][1])
        dy == Coarse(s.coordinates[i][2] - s.coordinates[j][2])
        dc == Coarse(s.D[i][j]) IN
    Abs(dc * dc - (dx * dx + dy * dy)) <= 6 * dc + 10
WellFormedInstance(s) == ShapeOK(s) /\ InUnitSquare(s) /\ FreshRoute(s)

(* ---------- objective (C08) and horizon (C11) ---------- *)
Objective(s) == TourLength(s)      \* the return of a completed episode is MINUS this (closing leg included)
Horizon == N                       \* every non-terminal step visits one more city
=============================================================================
