------------------------------ MODULE MMST ------------------------------
(***************************************************************************)
(* Reference model of jumanji's MMST (multi minimum spanning tree) as      *)
(* documented (docs/environments/mmst.md, class docstrings).               *)
(*                                                                         *)
(* A random connected undirected graph on nodes 0..N-1.  Each of the A     *)
(* agents owns K nodes (node_types[v] = agent id; -1 = utility node owned  *)
(* by nobody) and has to connect them: it starts on one of its nodes and   *)
(* in every step picks the next node it wants to move to.  The nodes an    *)
(* agent has been on form its path (connected_nodes = the walk,            *)
(* connected_nodes_index = the same as an indicator over nodes).           *)
(* A choice is invalid when there is no edge from the agent's current node *)
(* to the chosen node, or when the chosen node is a utility node already   *)
(* used by another agent; an invalid choice leaves the agent where it is.  *)
(* When several agents validly choose the same node in one step the tie is *)
(* broken arbitrarily (here: a nondeterministic choice of the winner), the *)
(* others do not move.  An agent that has connected all of its nodes is    *)
(* finished and acts no more (its mask row is all False).  The episode     *)
(* ends when every agent is finished or after time_limit steps.            *)
(*                                                                         *)
(* The state record is jumanji's State with `adj_matrix` written as        *)
(* neighbour lists: adj_matrix.nbr[u + 1] = the nodes v with A[u][v] = 1,  *)
(* adj_matrix.odd = the entries that are neither 0 nor 1 (none expected).  *)
(* The trace specification reads more fields than the bounded model keeps  *)
(* (the walk itself is only present in recorded states).                   *)
(***************************************************************************)
EXTENDS EnvKit

CONSTANT Cfg     \* [num_nodes, num_edges, max_degree, num_agents, num_nodes_per_agent, time_limit]

NumNodes  == Cfg.num_nodes
NumAgents == Cfg.num_agents
KPer      == Cfg.num_nodes_per_agent
TimeLimit == Cfg.time_limit
Nodes  == 0..(NumNodes - 1)
Agents == 0..(NumAgents - 1)
UTIL   == -1
EMPTY  == -1

(* ---------- reading the state ---------- *)
Nbrs(s, u)      == Range(s.adj_matrix.nbr[u + 1])
HasEdge(s, u, v) == v \in Nbrs(s, u)
PosOf(s, k)     == s.positions[k + 1]
Visited(s, k)   == { v \in Nodes : s.connected_nodes_index[k + 1][v + 1] # EMPTY }      \* the agent's path as a set
Targets(s, k)   == Range(s.nodes_to_connect[k + 1])                                     \* the nodes it has to connect
IsUtility(s, v) == s.node_types[v + 1] = UTIL
Finished(s, k)  == Targets(s, k) \subseteq Visited(s, k)
AllFinished(s)  == \A k \in Agents : Finished(s, k)
UsedByOther(s, k, v) == \E j \in Agents \ {k} : v \in Visited(s, j)

(* ---------- the rules: which node may agent k pick ---------- *)
LegalAg(s, k, v) ==
  /\ ~Finished(s, k)
  /\ HasEdge(s, PosOf(s, k), v)
  /\ ~(IsUtility(s, v) /\ UsedByOther(s, k, v))

(* the mask in the layout of the observation: one row per agent, one entry per node *)
Mask(s) ==
  LET vis  == [k \in Agents |-> Visited(s, k)]
      fin  == [k \in Agents |-> Targets(s, k) \subseteq vis[k]]
      shut == [k \in Agents |-> { v \in Nodes : IsUtility(s, v) /\ \E j \in Agents \ {k} : v \in vis[j] }]
  IN [k1 \in 1..NumAgents |->
        LET k == k1 - 1  nb == Nbrs(s, PosOf(s, k)) IN
        [v1 \in 1..NumNodes |-> ~fin[k] /\ (v1 - 1) \in nb /\ (v1 - 1) \notin shut[k]]]

(* ---------- connectivity in the graph ---------- *)
RECURSIVE GReach(_, _, _)
GReach(s, allowed, front) ==                     \* nodes reachable from `front` through nodes of `allowed`
  LET nxt == (UNION { Nbrs(s, u) : u \in front }) \cap allowed IN
  IF nxt \subseteq front THEN front ELSE GReach(s, allowed, front \cup nxt)
ConnectedIn(s, S) == S = {} \/ (LET r == CHOOSE x \in S : TRUE IN GReach(s, S, {r}) = S)

(* ---------- the transition (bounded model; partial: the tie-break winner is any contender) ---------- *)
\* a joint action is a sequence of NumAgents nodes; agent k proposes a[k + 1]
Proposers(s, a) == { k \in Agents : LegalAg(s, k, a[k + 1]) }
\* the agents that move: for every node proposed by somebody exactly one of its proposers (any of them)
MoverSets(s, a) ==
  LET prop == Proposers(s, a)
      contested == { a[k + 1] : k \in prop }
  IN { { w[v] : v \in contested } : w \in { f \in [contested -> prop] : \A v \in contested : a[f[v] + 1] = v } }
MoveState(s, a, movers) ==
  [s EXCEPT !.positions = [k1 \in 1..NumAgents |-> IF (k1 - 1) \in movers THEN a[k1] ELSE s.positions[k1]],
            !.connected_nodes_index = [k1 \in 1..NumAgents |->
                 IF (k1 - 1) \in movers THEN [s.connected_nodes_index[k1] EXCEPT ![a[k1] + 1] = a[k1]]
                 ELSE s.connected_nodes_index[k1]],
            !.step_count = s.step_count + 1]
Succs(s, a) == { MoveState(s, a, movers) : movers \in MoverSets(s, a) }
IsLastT(t, tl) == AllFinished(t) \/ t.step_count >= tl

(* reward of one agent in a step s --a--> t (units of 1.0), as documented: +10 for a new connection of one of
   its own nodes, -1 when it does not connect, a further -1 for an invalid choice; finished agents earn 0.
   For the loser of a tie-break the documentation leaves open whether the step costs -1 (both admitted). *)
NewConnection(s, t, k) == PosOf(t, k) \in Targets(s, k) \ Visited(s, k)

(* ---------- feasibility (C06): recomputed from the raw arrays ---------- *)
UtilityExclusive(s) ==
  \A v \in Nodes : IsUtility(s, v) => Cardinality({ k \in Agents : v \in Visited(s, k) }) <= 1
PathConnected(s) == \A k \in Agents : ConnectedIn(s, Visited(s, k))
OnOwnPath(s) == \A k \in Agents : PosOf(s, k) \in Visited(s, k) /\ s.nodes_to_connect[k + 1][1] \in Visited(s, k)
Feasible(s) == UtilityExclusive(s) /\ PathConnected(s) /\ OnOwnPath(s)
FullSolution(s) == Feasible(s) /\ AllFinished(s)

(* the recorded walk (trace states only): a walk in the graph from the start node, whose node set is the path.
   The array has time_limit slots, position_index points at the last one written. *)
WalkLen(s, k) == Min2(s.position_index[k + 1] + 1, Len(s.connected_nodes[k + 1]))
Walk(s, k) == SubSeq(s.connected_nodes[k + 1], 1, WalkLen(s, k))
WalkOK(s, k) ==
  LET w == Walk(s, k)  cn == s.connected_nodes[k + 1]  full == s.position_index[k + 1] + 1 <= Len(cn) IN
  /\ s.position_index[k + 1] >= 0
  /\ Len(w) >= 1 /\ w[1] = s.nodes_to_connect[k + 1][1]
  /\ \A j \in 1..Len(w) : w[j] \in Nodes
  /\ \A j \in 1..(Len(w) - 1) : HasEdge(s, w[j], w[j + 1])
  /\ \A j \in (Len(w) + 1)..Len(cn) : cn[j] = EMPTY
  /\ IF full THEN w[Len(w)] = PosOf(s, k) /\ Range(w) = Visited(s, k)
             ELSE Range(w) \cup {PosOf(s, k)} = Visited(s, k)          \* the move of the very last step has no slot
  /\ \A v \in Nodes : s.connected_nodes_index[k + 1][v + 1] \in {EMPTY, v}

(* ---------- instance well-formedness (C10) ---------- *)
ShapeOK(s) ==
  /\ Len(s.node_types) = NumNodes
  /\ s.adj_matrix.n = NumNodes /\ s.adj_matrix.m = NumNodes /\ Len(s.adj_matrix.nbr) = NumNodes
  /\ Len(s.nodes_to_connect) = NumAgents /\ \A k \in Agents : Len(s.nodes_to_connect[k + 1]) = KPer
  /\ Len(s.positions) = NumAgents
  /\ Len(s.connected_nodes_index) = NumAgents /\ \A k \in Agents : Len(s.connected_nodes_index[k + 1]) = NumNodes
AdjSimple(s) ==
  /\ s.adj_matrix.odd = <<>>
  /\ \A u \in Nodes : u \notin Nbrs(s, u) /\ Nbrs(s, u) \subseteq Nodes
  /\ \A u \in Nodes : \A v \in Nbrs(s, u) : u \in Nbrs(s, v)
EdgeCount(s) == SumTo([u1 \in 1..NumNodes |-> Len(s.adj_matrix.nbr[u1])], NumNodes) \div 2
MaxDegree(s) == SeqMax([u1 \in 1..NumNodes |-> Len(s.adj_matrix.nbr[u1])])
GraphConnected(s) == ConnectedIn(s, Nodes)
TypesConsistent(s) ==
  /\ \A k \in Agents : Targets(s, k) \subseteq Nodes /\ Cardinality(Targets(s, k)) = KPer
  /\ \A j, k \in Agents : j # k => Targets(s, j) \cap Targets(s, k) = {}
  /\ \A v \in Nodes : IF \E k \in Agents : v \in Targets(s, k)
                      THEN s.node_types[v + 1] \in Agents /\ v \in Targets(s, s.node_types[v + 1])
                      ELSE s.node_types[v + 1] = UTIL
StartOK(s) ==
  /\ s.step_count = 0
  /\ \A k \in Agents : PosOf(s, k) = s.nodes_to_connect[k + 1][1] /\ Visited(s, k) = {PosOf(s, k)}
\* the split generator: the nodes are cut into NumAgents consecutive blocks (sizes differ by at most one, larger
\* ones first), block k is connected on its own and holds all the nodes of agent k - so every agent can connect
\* its nodes inside its block without touching a node another agent needs.
BlockLo(k) == k * (NumNodes \div NumAgents) + Min2(k, NumNodes % NumAgents)
Block(k) == BlockLo(k)..(BlockLo(k + 1) - 1)
Solvable(s) == \A k \in Agents : Targets(s, k) \subseteq Block(k) /\ ConnectedIn(s, Block(k))
\* weaker, generator-independent: the nodes of an agent are connected without the nodes owned by the others
SolvableAlone(s) ==
  \A k \in Agents :
    LET free == { v \in Nodes : s.node_types[v + 1] \in {UTIL, k} } IN
    Targets(s, k) \subseteq GReach(s, free, {PosOf(s, k)})
WellFormedInstance(s) ==
  ShapeOK(s) /\ AdjSimple(s) /\ GraphConnected(s) /\ TypesConsistent(s) /\ StartOK(s) /\ Solvable(s)

(* ---------- observation (C12): the view of agent 0 ---------- *)
\* a node on the path of agent k shows 2k, an unconnected node owned by k shows 2k + 1, an unused utility node -1
\* (k counted from the viewing agent 0).  A node on several paths may show any of them.
ObsTypeOK(s, v, x) ==
  LET on == { k \in Agents : v \in Visited(s, k) } IN
  IF on # {} THEN \E k \in on : x = 2 * k
  ELSE IF IsUtility(s, v) THEN x = -1 ELSE x = 2 * s.node_types[v + 1] + 1
ObsNodeTypesOK(s, nt) == Len(nt) = NumNodes /\ \A v \in Nodes : ObsTypeOK(s, v, nt[v + 1])
=============================================================================
