---------------------------- MODULE Connector ----------------------------
(***************************************************************************)
(* Reference model of jumanji's Connector, written from the documentation  *)
(* (docs/environments/connector.md and the class docstrings).              *)
(*                                                                         *)
(* K agents live on an N x N grid.  Agent i (0-based id) owns three codes: *)
(*   1 + 3i  a cell of its path (trail it left behind),                    *)
(*   2 + 3i  its head (current position),   3 + 3i  its target.            *)
(* A joint action gives every agent one of 0 no-op, 1 up, 2 right, 3 down, *)
(* 4 left.  A move is allowed for agent i iff the destination is inside    *)
(* the grid, is empty or is i's own target, and i has not connected yet;   *)
(* the no-op is always allowed.  All agents decide on the OLD grid; when   *)
(* several allowed moves name the same cell the agent with the highest id  *)
(* moves and every agent with a lower id stays where it was.  A mover      *)
(* leaves a path cell behind and its head code overwrites the destination  *)
(* (its own target when it connects).  A move that is not allowed is       *)
(* ignored (no-op for that agent).                                         *)
(* Reward per agent: +1 on the step it connects, -0.03 on every step it    *)
(* started unconnected.  An agent is done when it is connected or has no   *)
(* allowed move; the episode ends when all agents are done or the step     *)
(* counter reaches the time limit.  MID discount is 1 - done, LAST is 0.   *)
(*                                                                         *)
(* States are records shaped like jumanji's State:                         *)
(*   [grid, step_count, agents |-> [id, start, target, position]]          *)
(* grid[r][c] is 1-based, positions are 0-based <<row, col>> as in the     *)
(* data; agents.position[i + 1] is the head of agent i.                    *)
(***************************************************************************)
EXTENDS EnvKit

CONSTANT Cfg      \* [grid_size, num_agents, time_limit, generator, witness]
N == Cfg.grid_size
K == Cfg.num_agents
TimeLimit == Cfg.time_limit
Agents == 0..(K - 1)
Moves == 0..4
NOOP == 0

PathCode(i)   == 1 + 3 * i
HeadCode(i)   == 2 + 3 * i
TargetCode(i) == 3 + 3 * i
OwnerOf(v)    == (v - 1) \div 3            \* agent owning a non-zero code

(* ---------- geometry (0-based positions) ---------- *)
InB(p)        == p[1] \in 0..(N - 1) /\ p[2] \in 0..(N - 1)
Val(g, p)     == g[p[1] + 1][p[2] + 1]
Delta(a)      == CASE a = 0 -> <<0, 0>> [] a = 1 -> <<-1, 0>> [] a = 2 -> <<0, 1>>
                   [] a = 3 -> <<1, 0>> [] a = 4 -> <<0, -1>>
Shift(p, a)   == <<p[1] + Delta(a)[1], p[2] + Delta(a)[2]>>
AllCells0     == (0..(N - 1)) \X (0..(N - 1))
CellsWith(g, v) == { p \in AllCells0 : Val(g, p) = v }

PosOf(s, i)    == s.agents.position[i + 1]
TargetOf(s, i) == s.agents.target[i + 1]
StartOf(s, i)  == s.agents.start[i + 1]
Connected(s, i) == PosOf(s, i) = TargetOf(s, i)

(* ---------- the rules ---------- *)
LegalAg(s, i, a) ==
  \/ a = NOOP
  \/ LET d == Shift(PosOf(s, i), a) IN
     /\ ~Connected(s, i)
     /\ InB(d)
     /\ Val(s.grid, d) \in {0, TargetCode(i)}

Mask(s) == [i \in 1..K |-> [j \in 1..5 |-> LegalAg(s, i - 1, j - 1)]]

(* joint action `a` is the sequence of the agents' moves, a[i + 1] for agent i *)
Proposes(s, a, i) == a[i + 1] # NOOP /\ LegalAg(s, i, a[i + 1])
Wants(s, a, i)    == Shift(PosOf(s, i), a[i + 1])
Wins(s, a, i)     == /\ Proposes(s, a, i)
                     /\ \A j \in Agents : (j > i /\ Proposes(s, a, j)) => Wants(s, a, j) # Wants(s, a, i)
Yields(s, a, i)   == Proposes(s, a, i) /\ ~Wins(s, a, i)

NextPos(s, a) == [k \in 1..K |-> IF Wins(s, a, k - 1) THEN Wants(s, a, k - 1) ELSE PosOf(s, k - 1)]

(* the winners' moves written into the old grid one agent after the other (their cells are all different) *)
RECURSIVE ApplyMoves(_, _, _, _)
ApplyMoves(g, s, a, k) ==
  IF k = K THEN g
  ELSE IF Wins(s, a, k)
       THEN LET src == PosOf(s, k)  dst == Wants(s, a, k) IN
            ApplyMoves([g EXCEPT ![src[1] + 1][src[2] + 1] = PathCode(k), ![dst[1] + 1][dst[2] + 1] = HeadCode(k)],
                       s, a, k + 1)
       ELSE ApplyMoves(g, s, a, k + 1)
NextGrid(s, a) == ApplyMoves(s.grid, s, a, 0)

NextState(s, a) ==
  [grid |-> NextGrid(s, a),
   step_count |-> s.step_count + 1,
   agents |-> [id |-> s.agents.id, start |-> s.agents.start, target |-> s.agents.target,
               position |-> NextPos(s, a)]]

(* ---------- reward (in hundredths), termination, discount ---------- *)
(* DenseRewardFn(connected_reward, timestep_reward): the documented defaults are 1.0 and -0.03; a configuration may
   request other values (Cfg.connected_reward100 / Cfg.timestep_reward100, in hundredths) *)
ConnReward100 == IF "connected_reward100" \in DOMAIN Cfg THEN Cfg.connected_reward100 ELSE 100
StepReward100 == IF "timestep_reward100" \in DOMAIN Cfg THEN Cfg.timestep_reward100 ELSE -3
Reward100(s, t, i) == (IF ~Connected(s, i) /\ Connected(t, i) THEN ConnReward100 ELSE 0)
                      + (IF ~Connected(s, i) THEN StepReward100 ELSE 0)
Blocked(s, i) == \A m \in 1..4 : ~LegalAg(s, i, m)
DoneAg(s, i)  == Connected(s, i) \/ Blocked(s, i)
AllDone(s)    == \A i \in Agents : DoneAg(s, i)
AllConnected(s) == \A i \in Agents : Connected(s, i)
IsLastT(t, T) == AllDone(t) \/ t.step_count >= T             \* T = time limit
DiscountT(t, T) == [k \in 1..K |-> IF IsLastT(t, T) \/ DoneAg(t, k - 1) THEN 0 ELSE 1]
IsLast(t)     == IsLastT(t, TimeLimit)
Discount(t)   == DiscountT(t, TimeLimit)

(* ---------- observation ---------- *)
Obs(s) == [grid |-> s.grid, action_mask |-> Mask(s), step_count |-> s.step_count]

(* ---------- physical consistency (C07) ---------- *)
GridShape(s) == /\ Len(s.grid) = N
                /\ \A r \in 1..N : Len(s.grid[r]) = N /\ \A c \in 1..N : s.grid[r][c] \in 0..(3 * K)
AgentsShape(s) == /\ Len(s.agents.position) = K /\ Len(s.agents.target) = K /\ Len(s.agents.start) = K
                  /\ s.agents.id = [k \in 1..K |-> k - 1]
EntitiesInBounds(s) == \A i \in Agents : InB(PosOf(s, i)) /\ InB(TargetOf(s, i)) /\ InB(StartOf(s, i))
HeadsOnce(s)   == \A i \in Agents : Cardinality(CellsWith(s.grid, HeadCode(i))) = 1
TargetsOnce(s) == \A i \in Agents :
                    Cardinality(CellsWith(s.grid, TargetCode(i))) = (IF Connected(s, i) THEN 0 ELSE 1)
PositionsAgree(s) == \A i \in Agents :
                       /\ Val(s.grid, PosOf(s, i)) = HeadCode(i)
                       /\ (~Connected(s, i) => Val(s.grid, TargetOf(s, i)) = TargetCode(i))
                       /\ (PosOf(s, i) # StartOf(s, i) => Val(s.grid, StartOf(s, i)) = PathCode(i))
NoSharedCell(s) == \A i, j \in Agents : i # j =>
                     /\ PosOf(s, i) # PosOf(s, j)
                     /\ TargetOf(s, i) # TargetOf(s, j)
                     /\ PosOf(s, i) # TargetOf(s, j)
PhysInv(s) == GridShape(s) /\ AgentsShape(s) /\ EntitiesInBounds(s) /\ HeadsOnce(s) /\ TargetsOnce(s)
              /\ PositionsAgree(s) /\ NoSharedCell(s)

(* occupancy over one transition s -> t: nothing that was occupied is freed or changes owner, the cells
   that become occupied are exactly the cells (empty before) that a head entered; path cells are permanent
   and the new ones are exactly the cells the moving heads left *)
Occupied(g) == { p \in AllCells0 : Val(g, p) # 0 }
OwnerKept(s, t) == \A p \in AllCells0 :
  Val(s.grid, p) # 0 => (Val(t.grid, p) # 0 /\ OwnerOf(Val(t.grid, p)) = OwnerOf(Val(s.grid, p)))
Movers(s, t) == { i \in Agents : PosOf(t, i) # PosOf(s, i) }
EnteredEmpty(s, t) == { i \in Movers(s, t) : InB(PosOf(t, i)) /\ Val(s.grid, PosOf(t, i)) = 0 }
OccupancyLaw(s, t) ==
  /\ OwnerKept(s, t)
  /\ { p \in AllCells0 : Val(s.grid, p) = 0 /\ Val(t.grid, p) # 0 } = { PosOf(t, i) : i \in EnteredEmpty(s, t) }
IsPathCode(v) == v > 0 /\ v % 3 = 1
PathLaw(s, t) ==
  /\ \A p \in AllCells0 : IsPathCode(Val(s.grid, p)) => Val(t.grid, p) = Val(s.grid, p)
  /\ { p \in AllCells0 : IsPathCode(Val(t.grid, p)) /\ Val(t.grid, p) # Val(s.grid, p) } = { PosOf(s, i) : i \in Movers(s, t) }
  /\ \A i \in Movers(s, t) : Val(t.grid, PosOf(s, i)) = PathCode(i)
(* nothing owned by agent k (path, head, target) appears, disappears or changes *)
OwnedSame(s, t, k) == \A p \in AllCells0 :
  (OwnerOf(Val(s.grid, p)) = k \/ OwnerOf(Val(t.grid, p)) = k) => Val(s.grid, p) = Val(t.grid, p)

(* ---------- feasibility of the partial solution (C06), from the raw arrays ---------- *)
One(p) == <<p[1] + 1, p[2] + 1>>                      \* 0-based -> 1-based cell (EnvKit's Reach is 1-based)
Route(s, i) == CellsWith(s.grid, PathCode(i)) \cup {PosOf(s, i)}
RoutesDisjoint(s) == \A i, j \in Agents : i # j =>
                       /\ Route(s, i) \cap Route(s, j) = {}
                       /\ TargetOf(s, j) \notin Route(s, i)
                       /\ StartOf(s, j) \notin Route(s, i)
ConnectedSet(S, from) == LET S1 == { One(p) : p \in S } IN Reach(N, N, S1, {One(from)}) = S1
RouteContiguous(s) == \A i \in Agents :
                        /\ StartOf(s, i) \in Route(s, i)
                        /\ \A p \in Route(s, i) : InB(p)
                        /\ ConnectedSet(Route(s, i), StartOf(s, i))
                        /\ PosOf(s, i) \notin CellsWith(s.grid, PathCode(i))
Feasible(s) == RoutesDisjoint(s) /\ RouteContiguous(s)
FullSolution(s) == /\ Feasible(s)
                   /\ \A i \in Agents : /\ TargetOf(s, i) \in Route(s, i) /\ StartOf(s, i) \in Route(s, i)
                                        /\ Val(s.grid, TargetOf(s, i)) = HeadCode(i)
                   /\ \A p \in AllCells0 : Val(s.grid, p) # 0 => Val(s.grid, p) % 3 # 0     \* no target left open

(* ---------- instances (C10) ---------- *)
EmptyBoard(s) == [r \in 1..N |-> [c \in 1..N |->
                   LET p == <<r - 1, c - 1>> IN
                   IF \E i \in Agents : StartOf(s, i) = p THEN HeadCode(CHOOSE i \in Agents : StartOf(s, i) = p)
                   ELSE IF \E i \in Agents : TargetOf(s, i) = p THEN TargetCode(CHOOSE i \in Agents : TargetOf(s, i) = p)
                   ELSE 0]]
DistinctCells(s) == Cardinality({ StartOf(s, i) : i \in Agents } \cup { TargetOf(s, i) : i \in Agents }) = 2 * K
WellFormedInstance(s) ==
  /\ s.step_count = 0
  /\ AgentsShape(s) /\ EntitiesInBounds(s)
  /\ \A i \in Agents : PosOf(s, i) = StartOf(s, i)
  /\ DistinctCells(s)
  /\ s.grid = EmptyBoard(s)

(* the generator's own solved board `sol` is a witness of solvability: the cells carrying agent i's codes
   contain a route from its head to its target, and different agents' cells are different cells *)
Wire(sol, i) == { p \in AllCells0 : Val(sol, p) # 0 /\ OwnerOf(Val(sol, p)) = i }
WitnessMatches(s, sol) ==
  /\ Len(sol) = N /\ \A r \in 1..N : Len(sol[r]) = N /\ \A c \in 1..N : sol[r][c] \in 0..(3 * K)
  /\ \A i \in Agents : CellsWith(sol, HeadCode(i)) = {StartOf(s, i)} /\ CellsWith(sol, TargetCode(i)) = {TargetOf(s, i)}
Solvable(s, sol) == \A i \in Agents :
  One(TargetOf(s, i)) \in Reach(N, N, { One(p) : p \in Wire(sol, i) }, {One(StartOf(s, i))})
OwnNbrs(sol, i, p) == { q \in Wire(sol, i) : Abs(p[1] - q[1]) + Abs(p[2] - q[2]) = 1 }
SimpleChains(s, sol) == \A i \in Agents :
  /\ ConnectedSet(Wire(sol, i), StartOf(s, i))
  /\ \A p \in Wire(sol, i) :
       Cardinality(OwnNbrs(sol, i, p)) = (IF p \in {StartOf(s, i), TargetOf(s, i)} THEN 1 ELSE 2)
=============================================================================
