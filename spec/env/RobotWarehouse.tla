--------------------------- MODULE RobotWarehouse ---------------------------
(***************************************************************************)
(* Reference model of jumanji's RobotWarehouse (RWARE), written from        *)
(* docs/environments/robot_warehouse.md, the class docstring and the        *)
(* rule statement of DESIGN.md Appendix A.                                  *)
(*                                                                          *)
(* Floor.  shelf_rows bands of shelf clusters, every cluster two cells wide *)
(* and column_height cells high, shelf_columns (odd) clusters per band:     *)
(*     height = (column_height + 1) * shelf_rows + 2,                       *)
(*     width  = 3 * shelf_columns + 1.                                      *)
(* Every third column (0, 3, 6, ...) is a vertical aisle, every             *)
(* (column_height + 1)-th row (0, h+1, ...) a horizontal aisle, the bottom  *)
(* row is the delivery row, and the middle cluster of the LAST band is      *)
(* removed so that robots can queue in front of the two goal cells, which   *)
(* are the two cells of the bottom row below that removed cluster.  Every   *)
(* remaining cell is a shelf slot; all aisle cells are "highways".  There   *)
(* is one shelf per slot (ids in row-major order of the slots); shelves     *)
(* are moved around by the robots but never created or destroyed.           *)
(*                                                                          *)
(* Robots (agents) have a cell, a direction (0 up, 1 right, 2 down,         *)
(* 3 left; row 0 is the top row) and may carry the shelf of the cell they   *)
(* stand on.  Actions per agent: 0 noop, 1 forward, 2 turn left, 3 turn     *)
(* right, 4 toggle_load.                                                    *)
(*  - forward: one cell ahead, clamped at the border.  It is ILLEGAL (and   *)
(*    masked out) exactly when the agent carries a shelf and the cell       *)
(*    ahead (different from its own) holds a shelf; an illegal action is    *)
(*    ignored (the agent keeps position, direction and load, the episode    *)
(*    continues).  A robot that carries nothing drives under shelves.       *)
(*  - left / right: direction - 1 / + 1 modulo 4.                           *)
(*  - toggle_load: not carrying and standing on a shelf: pick it up;        *)
(*    carrying: put it down, but only on a cell that is not a highway.      *)
(*  - noop: nothing.                                                        *)
(* Agents act in id order on the evolving floor.  The floor is kept as a    *)
(* two-channel grid (channel 1 of the JSON = shelf id + 1, channel 2 =      *)
(* agent id + 1, 0 = nothing): forward writes the agent id into the         *)
(* destination (over whatever was there) and clears the origin; a carried   *)
(* shelf moves with its agent.  Two agents collide iff at the end of the    *)
(* step some agent's own cell does not show its id; a collision ends the    *)
(* episode, as does step_count >= time_limit.                               *)
(*                                                                          *)
(* Requests.  request_queue holds request_queue_size distinct shelf ids;    *)
(* a shelf is "requested" iff it is in the queue.  After the moves, for     *)
(* each goal cell (left one first) that holds a requested shelf: reward +1  *)
(* (one shared scalar reward), and its queue entry is replaced by a random  *)
(* shelf id that is not in the queue -- the only nondeterministic part.     *)
(* The second goal cell is judged after the first replacement, so a shelf   *)
(* standing on it that has just been requested is delivered at once.        *)
(*                                                                          *)
(* State record = jumanji's State without the key:                          *)
(*   grid (<<shelves channel, agents channel>>, each a seq of rows),        *)
(*   agents [position [x (row), y (col)], direction, is_carrying],          *)
(*   shelves [position [x, y], is_requested], request_queue, step_count,    *)
(*   action_mask.  Coordinates in the data are 0-based; the model works on  *)
(*   0-based <<row, col>> pairs and adds 1 when indexing a grid.            *)
(***************************************************************************)
EXTENDS EnvKit

CONSTANT Cfg   \* [shelf_rows, shelf_columns, column_height, num_agents, sensor_range,
               \*  request_queue_size, time_limit]

BandCount  == Cfg.shelf_rows
ClusterCount == Cfg.shelf_columns
ColH       == Cfg.column_height
NA         == Cfg.num_agents
SRange     == Cfg.sensor_range
QSize      == Cfg.request_queue_size
TimeLimit  == Cfg.time_limit

NRows == (ColH + 1) * BandCount + 2
NCols == 3 * ClusterCount + 1
Agents == 0..(NA - 1)

ActNoop == 0  ActForward == 1  ActLeft == 2  ActRight == 3  ActToggle == 4
Actions == 0..4                        \* per agent; a joint action is a sequence a[k + 1], k \in Agents

(* ---------- the floor plan (0-based <<row, col>>) ---------- *)
FloorCells == (0..(NRows - 1)) \X (0..(NCols - 1))
OnFloor(rc) == rc[1] \in 0..(NRows - 1) /\ rc[2] \in 0..(NCols - 1)
MidCluster == (ClusterCount - 1) \div 2                       \* index of the middle cluster
InMidCluster(c) == c \in {3 * MidCluster + 1, 3 * MidCluster + 2}
IsSlot(rc) ==
  LET r == rc[1]  c == rc[2] IN
  /\ OnFloor(rc)
  /\ c % 3 # 0                                                 \* not a vertical aisle
  /\ r % (ColH + 1) # 0                                        \* not a horizontal aisle
  /\ r < (ColH + 1) * BandCount                                \* above the last aisle and the delivery row
  /\ ~(r > (ColH + 1) * (BandCount - 1) /\ InMidCluster(c))    \* removed middle cluster of the last band
Highway(rc) == ~IsSlot(rc)
SlotSet == { rc \in FloorCells : IsSlot(rc) }
NumShelves == 2 * ColH * (BandCount * ClusterCount - 1)
RowMajorBefore(p, q) == p[1] < q[1] \/ (p[1] = q[1] /\ p[2] < q[2])
\* the k-th slot in row-major order (k = 1..NumShelves): the home of shelf id k - 1
SlotRank(rc) == Cardinality({ q \in SlotSet : RowMajorBefore(q, rc) }) + 1
GoalCells == << <<NRows - 1, 3 * MidCluster + 1>>, <<NRows - 1, 3 * MidCluster + 2>> >>   \* processing order
ShelfIds == 0..(NumShelves - 1)

(* ---------- reading the state ---------- *)
NumSh(s) == Len(s.shelves.position.x)
APos(s, k) == <<s.agents.position.x[k + 1], s.agents.position.y[k + 1]>>
ADir(s, k) == s.agents.direction[k + 1]
ACar(s, k) == s.agents.is_carrying[k + 1]
SPos(s, j) == <<s.shelves.position.x[j + 1], s.shelves.position.y[j + 1]>>      \* shelf id j, 0-based
SReq(s, j) == s.shelves.is_requested[j + 1]
ShelvesOn(s, rc) == { j \in 0..(NumSh(s) - 1) : SPos(s, j) = rc }
ShelfOn(s, rc) == ShelvesOn(s, rc) # {}
ShelfChan(s) == s.grid[1]
AgentChan(s) == s.grid[2]
Cell(g, rc) == g[rc[1] + 1][rc[2] + 1]
SetCell(g, rc, v) == [g EXCEPT ![rc[1] + 1][rc[2] + 1] = v]

(* ---------- geometry ---------- *)
Ahead(p, d) ==
  CASE d = 0 -> <<Max2(0, p[1] - 1), p[2]>>
    [] d = 1 -> <<p[1], Min2(NCols - 1, p[2] + 1)>>
    [] d = 2 -> <<Min2(NRows - 1, p[1] + 1), p[2]>>
    [] d = 3 -> <<p[1], Max2(0, p[2] - 1)>>

(* ---------- legality and mask (judged on the state the agents see) ---------- *)
LegalAg(s, k, a) ==
  LET p == APos(s, k)  q == Ahead(p, ADir(s, k)) IN
  ~(a = ActForward /\ ACar(s, k) = 1 /\ q # p /\ ShelfOn(s, q))
Mask(s) == [k1 \in 1..NA |-> [a1 \in 1..5 |-> LegalAg(s, k1 - 1, a1 - 1)]]
Effective(s, a) == [k1 \in 1..NA |-> IF LegalAg(s, k1 - 1, a[k1]) THEN a[k1] ELSE ActNoop]

(* ---------- the deterministic part of a step: agents act in id order ---------- *)
\* working configuration: both channels plus the agent and shelf tables
Config(s) ==
  [ag   |-> AgentChan(s), sh |-> ShelfChan(s),
   apos |-> [k1 \in 1..NA |-> APos(s, k1 - 1)],
   adir |-> s.agents.direction,
   acar |-> s.agents.is_carrying,
   spos |-> [j1 \in 1..NumSh(s) |-> SPos(s, j1 - 1)]]

ActOne(w, k, a) ==
  LET k1 == k + 1  p == w.apos[k1]  d == w.adir[k1]  car == w.acar[k1]  sid == Cell(w.sh, p) IN
  CASE a = ActForward ->
         LET q == Ahead(p, d)
             moved == [w EXCEPT !.apos[k1] = q, !.ag = SetCell(SetCell(w.ag, p, 0), q, k1)] IN
         IF car = 1 /\ sid > 0
         THEN [moved EXCEPT !.sh = SetCell(SetCell(w.sh, p, 0), q, sid), !.spos[sid] = q]
         ELSE moved
    [] a = ActLeft   -> [w EXCEPT !.adir[k1] = (d + 3) % 4]
    [] a = ActRight  -> [w EXCEPT !.adir[k1] = (d + 1) % 4]
    [] a = ActToggle ->
         IF car = 0 THEN (IF sid > 0 THEN [w EXCEPT !.acar[k1] = 1] ELSE w)
         ELSE (IF Highway(p) THEN w ELSE [w EXCEPT !.acar[k1] = 0])
    [] OTHER -> w                                                        \* noop: nothing

RECURSIVE ActFrom(_, _, _)
ActFrom(w, k, ea) == IF k >= NA THEN w ELSE ActFrom(ActOne(w, k, ea[k + 1]), k + 1, ea)
Moved(s, a) == ActFrom(Config(s), 0, Effective(s, a))

CollisionIn(w) == \E k1 \in 1..NA : Cell(w.ag, w.apos[k1]) # k1
CollisionState(s) == \E k \in Agents : Cell(AgentChan(s), APos(s, k)) # k + 1

(* ---------- deliveries: reward and the request queue (the nondeterministic part) ---------- *)
IndexIn(q, v) == CHOOSE n \in 1..Len(q) : q[n] = v
\* Every admissible outcome of processing the goal cells in order on the shelf channel sh, starting from
\* queue q: a set of [q |-> final queue, n |-> number of deliveries].  Each delivery replaces the entry of
\* the delivered shelf by ANY shelf id that is not in the queue at that moment.  (The second goal sees the
\* first replacement: an unrequested shelf standing on it may just have been requested, and then counts.)
RECURSIVE QueueSuccs(_, _, _)
QueueSuccs(q, goals, sh) ==
  IF goals = <<>> THEN { [q |-> q, n |-> 0] }
  ELSE LET sid == Cell(sh, Head(goals)) IN
       IF sid # 0 /\ (sid - 1) \in Range(q)
       THEN UNION { { [q |-> r.q, n |-> r.n + 1] :
                        r \in QueueSuccs([q EXCEPT ![IndexIn(q, sid - 1)] = new], Tail(goals), sh) } :
                    new \in ShelfIds \ Range(q) }
       ELSE QueueSuccs(q, Tail(goals), sh)
Outcomes(s, a) == QueueSuccs(s.request_queue, GoalCells, Moved(s, a).sh)

\* the reward r is right for the transition s -a-> t iff (successor queue, r) is one of the outcomes
RewardOK(s, a, t, r) == [q |-> t.request_queue, n |-> r] \in Outcomes(s, a)
QueueAdmissible(s, a, t) == \E o \in Outcomes(s, a) : o.q = t.request_queue
\* entries whose shelf does not stand on a goal cell after the moves are not touched
QueueFrame(s, a, t) ==
  LET onGoal == { Cell(Moved(s, a).sh, GoalCells[g]) - 1 : g \in 1..Len(GoalCells) } IN
  /\ Len(t.request_queue) = Len(s.request_queue)
  /\ \A n \in 1..Len(s.request_queue) : s.request_queue[n] \notin onGoal => t.request_queue[n] = s.request_queue[n]
Done(s, a) == CollisionIn(Moved(s, a)) \/ s.step_count + 1 >= TimeLimit

(* abstraction of a state to the rule-relevant fields *)
A(s) == [cfgn |-> Config(s), queue |-> s.request_queue, step_count |-> s.step_count,
         requested |-> s.shelves.is_requested]

StepRel(s, a, t) ==
  /\ Config(t) = Moved(s, a)
  /\ QueueFrame(s, a, t) /\ QueueAdmissible(s, a, t)
  /\ t.shelves.is_requested = [j1 \in 1..NumSh(s) |-> IF (j1 - 1) \in Range(t.request_queue) THEN 1 ELSE 0]
  /\ t.step_count = s.step_count + 1

(* ---------- observation ---------- *)
OneHot4(d) == [n \in 1..4 |-> IF n = d + 1 THEN 1 ELSE 0]
WinSide == 2 * SRange + 1
WinCount == WinSide * WinSide
WinCentre == (WinCount - 1) \div 2                       \* 0-based number of the agent's own cell
\* n-th sensor cell (0-based, row-major over the square centred on p)
WinCell(p, n) == <<p[1] - SRange + (n \div WinSide), p[2] - SRange + (n % WinSide)>>
ObsLen == 8 + 5 * (WinCount - 1) + 2 * WinCount

\* the sensor vector of agent k, entry by entry (1-based index m):
\*   1..8                     own row, own column, carrying, direction one-hot (4), on a highway
\*   next 5 * (WinCount - 1)  for every sensor cell except the agent's own, row-major:
\*                            another agent there? and its direction one-hot (zeros if none)
\*   next 2 * WinCount        for every sensor cell, own included: a shelf there? is it requested?
\* cells outside the floor hold nothing.
SensorVector(s, k) ==
  LET p == APos(s, k)
      others == { j \in Agents \ {k} : Abs(APos(s, j)[1] - p[1]) <= SRange /\ Abs(APos(s, j)[2] - p[2]) <= SRange }
      near == { j \in 0..(NumSh(s) - 1) : Abs(SPos(s, j)[1] - p[1]) <= SRange /\ Abs(SPos(s, j)[2] - p[2]) <= SRange }
      AgentFeat(rc, f) ==
        IF \E j \in others : APos(s, j) = rc
        THEN LET j == CHOOSE j \in others : APos(s, j) = rc IN
             IF f = 0 THEN 1 ELSE OneHot4(ADir(s, j))[f]
        ELSE 0
      ShelfFeat(rc, f) ==
        IF \E j \in near : SPos(s, j) = rc
        THEN LET j == CHOOSE j \in near : SPos(s, j) = rc IN
             IF f = 0 THEN 1 ELSE SReq(s, j)
        ELSE 0
  IN [m \in 1..ObsLen |->
        IF m <= 2 THEN p[m]
        ELSE IF m = 3 THEN ACar(s, k)
        ELSE IF m <= 7 THEN OneHot4(ADir(s, k))[m - 3]
        ELSE IF m = 8 THEN (IF Highway(p) THEN 1 ELSE 0)
        ELSE IF m <= 8 + 5 * (WinCount - 1)
             THEN LET z == m - 9  c == z \div 5  n == IF c < WinCentre THEN c ELSE c + 1 IN
                  AgentFeat(WinCell(p, n), z % 5)
        ELSE LET z == m - 9 - 5 * (WinCount - 1) IN ShelfFeat(WinCell(p, z \div 2), z % 2)]

Obs(s) == [agents_view |-> [k1 \in 1..NA |-> SensorVector(s, k1 - 1)],
           action_mask |-> Mask(s),
           step_count  |-> s.step_count]

(* ---------- physical consistency (C07) ---------- *)
GridShape(s) ==
  /\ Len(s.grid) = 2
  /\ \A ch \in 1..2 : Len(s.grid[ch]) = NRows /\ \A r \in 1..NRows : Len(s.grid[ch][r]) = NCols
TablesShape(s) ==
  /\ Len(s.agents.position.x) = NA /\ Len(s.agents.position.y) = NA
  /\ Len(s.agents.direction) = NA /\ Len(s.agents.is_carrying) = NA
  /\ Len(s.shelves.position.y) = NumSh(s) /\ Len(s.shelves.is_requested) = NumSh(s)
EntitiesInBounds(s) ==
  /\ \A k \in Agents : OnFloor(APos(s, k)) /\ ADir(s, k) \in 0..3 /\ ACar(s, k) \in {0, 1}
  /\ \A j \in 0..(NumSh(s) - 1) : OnFloor(SPos(s, j)) /\ SReq(s, j) \in {0, 1}
AgentsDistinct(s) == \A j, k \in Agents : j # k => APos(s, j) # APos(s, k)
ShelvesDistinct(s) == Cardinality({ SPos(s, j) : j \in 0..(NumSh(s) - 1) }) = NumSh(s)
\* both channels are exactly the rendering of the tables
AgentChanAgrees(s) ==
  \A rc \in FloorCells :
    Cell(AgentChan(s), rc) = (IF \E k \in Agents : APos(s, k) = rc THEN (CHOOSE k \in Agents : APos(s, k) = rc) + 1 ELSE 0)
ShelfChanAgrees(s) ==
  /\ \A j \in 0..(NumSh(s) - 1) : Cell(ShelfChan(s), SPos(s, j)) = j + 1
  /\ \A rc \in FloorCells : LET v == Cell(ShelfChan(s), rc) IN v # 0 => v \in 1..NumSh(s) /\ SPos(s, v - 1) = rc
ShelvesConserved(s) ==
  /\ NumSh(s) = NumShelves
  /\ LET occupied == { rc \in FloorCells : Cell(ShelfChan(s), rc) # 0 } IN
     /\ Cardinality(occupied) = NumShelves                                \* as many shelves on the floor as slots
     /\ { Cell(ShelfChan(s), rc) : rc \in occupied } = 1..NumShelves      \* and the same set of ids
CarrierHasShelf(s) == \A k \in Agents : ACar(s, k) = 1 => ShelfOn(s, APos(s, k))
\* a shelf that nobody carries rests on a shelf slot (shelves are put down only off the highways)
CarriedBy(s, j) == { k \in Agents : ACar(s, k) = 1 /\ APos(s, k) = SPos(s, j) }
RestingOnSlots(s) == \A j \in 0..(NumSh(s) - 1) : CarriedBy(s, j) = {} => IsSlot(SPos(s, j))
QueueOK(s) ==
  /\ Len(s.request_queue) = QSize
  /\ \A n \in 1..QSize : s.request_queue[n] \in ShelfIds
  /\ \A m, n \in 1..QSize : m # n => s.request_queue[m] # s.request_queue[n]
RequestedAgrees(s) == \A j \in 0..(NumSh(s) - 1) : (SReq(s, j) = 1) <=> (j \in Range(s.request_queue))
PhysInv(s) ==
  /\ GridShape(s) /\ TablesShape(s) /\ EntitiesInBounds(s) /\ AgentsDistinct(s) /\ ShelvesDistinct(s)
  /\ AgentChanAgrees(s) /\ ShelfChanAgrees(s) /\ ShelvesConserved(s) /\ CarrierHasShelf(s) /\ RestingOnSlots(s)
  /\ QueueOK(s) /\ RequestedAgrees(s)

\* conservation over one transition s -> t: a shelf that was carried is where its carrier is,
\* every other shelf is where it was
CarriedFollows(s, t) ==
  \A j \in 0..(NumSh(s) - 1) : \A k \in CarriedBy(s, j) : SPos(t, j) = APos(t, k)
UncarriedStay(s, t) ==
  \A j \in 0..(NumSh(s) - 1) : CarriedBy(s, j) = {} => SPos(t, j) = SPos(s, j)

(* ---------- what reset may return (C10) ---------- *)
WellFormedAgents(s) ==
  /\ TablesShape(s) /\ EntitiesInBounds(s) /\ AgentsDistinct(s)
  /\ \A k \in Agents : ACar(s, k) = 0
WellFormedShelves(s) ==
  /\ NumSh(s) = NumShelves
  /\ \A j \in ShelfIds : IsSlot(SPos(s, j)) /\ SlotRank(SPos(s, j)) = j + 1
WellFormedQueue(s) == QueueOK(s) /\ RequestedAgrees(s)
WellFormedInstance(s) ==
  /\ WellFormedAgents(s) /\ WellFormedShelves(s) /\ WellFormedQueue(s)
  /\ GridShape(s) /\ AgentChanAgrees(s) /\ ShelfChanAgrees(s) /\ s.step_count = 0
=============================================================================
