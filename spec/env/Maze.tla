------------------------------- MODULE Maze -------------------------------
(***************************************************************************)
(* Reference model of jumanji's Maze, written from docs/environments/      *)
(* maze.md and the class docstring.                                        *)
(*                                                                         *)
(* A maze is a num_rows x num_cols matrix of cells, each free or wall.     *)
(* One agent and one target cell.  Actions 0 up, 1 right, 2 down, 3 left   *)
(* (row 0 is the top row).  The agent moves one cell in the chosen         *)
(* direction iff the destination lies inside the maze and is free;         *)
(* otherwise "a no-op is performed and the agent's position remains        *)
(* unchanged" and the episode goes on.  Reward 1 when the agent is on the  *)
(* target after the move, 0 otherwise.  The episode ends when the target   *)
(* is reached or when the step number reaches time_limit (default when the *)
(* constructor receives None: num_rows * num_cols).  Walls and target      *)
(* never change during an episode.                                         *)
(*                                                                         *)
(* One rule is not in the documentation and was taken from the code        *)
(* (DESIGN.md, rule summary): the episode also ends when the agent has no  *)
(* legal move at all (a cell enclosed by walls).  It cannot occur with the *)
(* shipped generators (connected mazes with >= 2 free cells).              *)
(*                                                                         *)
(* State record (jumanji's own field names; positions are 0-based records  *)
(* [row, col], grids are 1-based sequences of rows):                       *)
(*   [agent_position, target_position, walls, step_count]  (+ action_mask, *)
(*   a cached copy of the mask which is judged by C04/C12, not by StepTo). *)
(***************************************************************************)
EXTENDS EnvKit

CONSTANT Cfg   \* [num_rows, num_cols, time_limit_given (BOOLEAN), time_limit (0 if not given),
               \*  generator \in {"random", "toy", "layout"}]

NR == Cfg.num_rows
NC == Cfg.num_cols
DefaultTimeLimit == NR * NC
TLimit == IF Cfg.time_limit_given THEN Cfg.time_limit ELSE DefaultTimeLimit

Actions == 0..3
UP == 0  RIGHT == 1  DOWN == 2  LEFT == 3

(* ---------- geometry ---------- *)
Pos(r, c) == [row |-> r, col |-> c]
Dest(p, a) ==
  CASE a = UP    -> Pos(p.row - 1, p.col)
    [] a = RIGHT -> Pos(p.row, p.col + 1)
    [] a = DOWN  -> Pos(p.row + 1, p.col)
    [] a = LEFT  -> Pos(p.row, p.col - 1)
Inside(p) == p.row \in 0..(NR - 1) /\ p.col \in 0..(NC - 1)
IsWall(w, p) == w[p.row + 1][p.col + 1]
FreeCell(w, p) == Inside(p) /\ ~IsWall(w, p)

(* ---------- rules ---------- *)
Legal(s, a) == FreeCell(s.walls, Dest(s.agent_position, a))
Mask(s) == [j \in 1..4 |-> Legal(s, j - 1)]

A(s) == [agent_position |-> s.agent_position, target_position |-> s.target_position,
         walls |-> s.walls, step_count |-> s.step_count]

StepTo(s, a) ==
  [agent_position  |-> IF Legal(s, a) THEN Dest(s.agent_position, a) ELSE s.agent_position,
   target_position |-> s.target_position,
   walls           |-> s.walls,
   step_count      |-> s.step_count + 1]

OnTarget(t) == t.agent_position = t.target_position
Stuck(t) == \A a \in Actions : ~Legal(t, a)
Reward(t) == IF OnTarget(t) THEN 1 ELSE 0            \* reward of the transition whose post-state is t
OtherEnd(t) == OnTarget(t) \/ Stuck(t)               \* end reasons other than the time limit
EndsAt(t, lim) == OtherEnd(t) \/ t.step_count >= lim
Done(t) == EndsAt(t, TLimit)

(* ---------- observation ---------- *)
Obs(s) == [agent_position  |-> s.agent_position,
           target_position |-> s.target_position,
           walls           |-> s.walls,
           step_count      |-> s.step_count,
           action_mask     |-> Mask(s)]

(* ---------- physical invariants (C07) ---------- *)
WallsShape(w) == Len(w) = NR /\ \A r \in 1..NR : Len(w[r]) = NC /\ \A c \in 1..NC : w[r][c] \in BOOLEAN
AgentInBounds(s)  == Inside(s.agent_position)
TargetInBounds(s) == Inside(s.target_position)
AgentNotInWall(s)  == Inside(s.agent_position)  => ~IsWall(s.walls, s.agent_position)
TargetNotInWall(s) == Inside(s.target_position) => ~IsWall(s.walls, s.target_position)
PhysInv(s) == /\ WallsShape(s.walls) /\ AgentInBounds(s) /\ TargetInBounds(s)
              /\ AgentNotInWall(s) /\ TargetNotInWall(s)
MazeConserved(s, t) == t.walls = s.walls /\ t.target_position = s.target_position
MovesAtMostOneCell(s, t) ==
  Abs(t.agent_position.row - s.agent_position.row) + Abs(t.agent_position.col - s.agent_position.col) <= 1

(* ---------- what reset may return (C10) ---------- *)
FreeCells(w) == { rc \in (1..NR) \X (1..NC) : ~w[rc[1]][rc[2]] }
Connected(w) ==
  LET free == FreeCells(w) IN
  free = {} \/ Reach(NR, NC, free, { CHOOSE p \in free : TRUE }) = free
(* maze_generation: "vertical walls will have an odd x coordinate while horizontal walls will have an odd
   y coordinate" (0-based), hence a cell whose two coordinates are even is never a wall *)
WallParity(w) == \A rc \in (1..NR) \X (1..NC) : w[rc[1]][rc[2]] => ((rc[1] - 1) % 2 = 1 \/ (rc[2] - 1) % 2 = 1)
OriginFree(w) == ~w[1][1]

ToyWalls == << <<FALSE, TRUE,  FALSE, FALSE, FALSE>>,
               <<FALSE, TRUE,  FALSE, TRUE,  TRUE>>,
               <<FALSE, TRUE,  FALSE, FALSE, FALSE>>,
               <<FALSE, FALSE, FALSE, TRUE,  TRUE>>,
               <<FALSE, FALSE, FALSE, FALSE, FALSE>> >>      \* the 5x5 example of the documentation

StartOK(s) == /\ FreeCell(s.walls, s.agent_position) /\ FreeCell(s.walls, s.target_position)
              /\ s.agent_position # s.target_position
WellFormedInstance(s) ==
  /\ WallsShape(s.walls)
  /\ s.step_count = 0
  /\ StartOK(s)
  /\ Connected(s.walls)
  /\ Cfg.generator = "random" => (OriginFree(s.walls) /\ WallParity(s.walls))
  /\ Cfg.generator = "toy" => (NR = 5 /\ NC = 5 /\ s.walls = ToyWalls
                               /\ s.agent_position = Pos(0, 0) /\ s.target_position = Pos(0, 4))
=============================================================================
