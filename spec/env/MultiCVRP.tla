---------------------------- MODULE MultiCVRP ----------------------------
(***************************************************************************)
(* Reference model (PARTIAL) of jumanji's multi-vehicle capacitated        *)
(* routing problem with soft time windows, written from                    *)
(* docs/environments/multi_cvrp.md and the docstrings of                   *)
(* multi_cvrp/{env,types,reward,generator}.py.                             *)
(*                                                                         *)
(* Nodes 0..N: node 0 is the depot (demand 0), 1..N are customers with an  *)
(* integer demand.  V vehicles of capacity Q start at the depot, full.     *)
(* A joint action names, for every vehicle, the next node to visit         *)
(* (documented range 0..N).  For ONE vehicle a customer is legal iff the   *)
(* customer still has demand and the vehicle has at least that much        *)
(* capacity left; the depot is always legal.  A vehicle whose choice is    *)
(* not legal is sent to the depot instead.  Visiting a customer collects   *)
(* its whole demand (the demand becomes 0, the vehicle's capacity drops by *)
(* it); visiting the depot restores the capacity to Q.  The episode ends   *)
(* when no customer has demand left and every vehicle is back at the       *)
(* depot, or when the step limit 2 N is reached.                           *)
(*                                                                         *)
(* Not documented, hence modelled as an admissible SET: when several       *)
(* vehicles legally choose the same customer in one step, exactly one of   *)
(* them serves it and the others are sent to the depot (the code lets the  *)
(* lowest vehicle index win; this model accepts any winner).               *)
(*                                                                         *)
(* Cost.  All vehicles drive at unit speed: a vehicle's local time is the  *)
(* length it has driven.  Arriving at node c at local time t costs         *)
(* early[c] * (start[c] - t) if t < start[c], late[c] * (t - end[c]) if    *)
(* t > end[c] (types.PenalityCoeff).  Objective = - (total length driven   *)
(* by all vehicles + all arrival penalties).  Dense reward: minus the      *)
(* length and penalties of the step; sparse: 0 until the last step, then   *)
(* the objective.  When the step limit is reached the last reward is a     *)
(* heuristic worst-case estimate: NOT modelled (any value is admissible).  *)
(*                                                                         *)
(* Numbers.  Lengths come from an integer matrix D (harness:               *)
(* round(65536 * euclidean distance) in float64 from the raw coordinates;  *)
(* MC: small symbolic integers); times, windows and coefficients are fixed *)
(* point (x * 65536).  This module decides the bookkeeping.                *)
(*                                                                         *)
(* The state record has jumanji's own layout: s.nodes.demands,             *)
(* s.vehicles.{capacities,positions}, s.order (V x 2N, entry k = node      *)
(* after the k-th step, 0-based k, entry 0 unused), s.step_count (1 after  *)
(* reset, +1 per step).                                                    *)
(***************************************************************************)
EXTENDS EnvKit

CONSTANT Cfg   \* [num_customers, num_vehicles, reward_fn ("dense"|"sparse"), map_max, max_capacity, customer_demand_max,
               \*  max_start_window, time_window_length, early_coef_max_q, late_coef_max_q, gen_action]

N         == Cfg.num_customers
V         == Cfg.num_vehicles
Q         == Cfg.max_capacity
Depot     == 0
Nodes     == 0..N
Customers == 1..N
Vehicles  == 1..V
Actions   == [Vehicles -> Nodes]          \* documented joint actions
Horizon   == 2 * N                        \* documented maximum number of steps (shape of `order`)

(* 0-based node ids index 1-based sequences *)
Dem(s, c)  == s.nodes.demands[c + 1]
Cap(s, v)  == s.vehicles.capacities[v]
Pos(s, v)  == s.vehicles.positions[v]
StepsDone(s) == s.step_count - 1

(* abstraction: the rule-relevant fields *)
A(s) == [demands |-> s.nodes.demands, capacities |-> s.vehicles.capacities, positions |-> s.vehicles.positions,
         step_count |-> s.step_count]
Clean(s) == \A v \in Vehicles : Pos(s, v) \in Nodes        \* every vehicle stands on a node of the instance

(* ---------- rules ---------- *)
LegalAg(s, v, a) == a = Depot \/ (a \in Customers /\ Dem(s, a) > 0 /\ Cap(s, v) >= Dem(s, a))
Legal(s, a) == \A v \in Vehicles : LegalAg(s, v, a[v])
Mask(s) == [v \in Vehicles |-> [j \in 1..(N + 1) |-> LegalAg(s, v, j - 1)]]

(* where vehicle v is headed: its choice if legal, else the depot *)
Wants(s, a, v) == IF a[v] \in Customers /\ LegalAg(s, v, a[v]) THEN a[v] ELSE Depot
Contenders(s, a, c) == { v \in Vehicles : Wants(s, a, v) = c }

(* admissible destination vectors p (sequence over vehicles) for joint action a *)
AdmissibleDest(s, a, p) ==
  /\ \A v \in Vehicles : p[v] \in {Depot, Wants(s, a, v)}
  /\ \A c \in Customers : Contenders(s, a, c) # {} =>
        Cardinality({ v \in Contenders(s, a, c) : p[v] = c }) = 1
DestsByDefinition(s, a) == { p \in [Vehicles -> Nodes] : AdmissibleDest(s, a, p) }
\* the same set, enumerated constructively (sets L of vehicles that lose a conflict); MC checks the equality
WantsVec(s, a) == [v \in Vehicles |-> Wants(s, a, v)]
Dests(s, a) ==
  LET w == WantsVec(s, a)
      losers == { L \in SUBSET { v \in Vehicles : w[v] # Depot } :
                    \A c \in Customers : LET cs == { v \in Vehicles : w[v] = c } IN cs # {} => Cardinality(cs \ L) = 1 }
  IN { [v \in Vehicles |-> IF v \in L THEN Depot ELSE w[v]] : L \in losers }
FirstWins(s, a) ==      \* the resolution the code implements (read from the code, not documented)
  [v \in Vehicles |-> IF Wants(s, a, v) # Depot /\ \A w \in Contenders(s, a, Wants(s, a, v)) : v <= w
                      THEN Wants(s, a, v) ELSE Depot]

(* abstract successor once the destinations are fixed *)
After(s, p) ==
  [demands    |-> [j \in 1..(N + 1) |-> IF j > 1 /\ \E v \in Vehicles : p[v] = j - 1 THEN 0 ELSE s.nodes.demands[j]],
   capacities |-> [v \in Vehicles |-> IF p[v] = Depot THEN Q ELSE Cap(s, v) - Dem(s, p[v])],
   positions  |-> [v \in Vehicles |-> p[v]],
   step_count |-> s.step_count + 1]
StepRel(s, a, t) == AdmissibleDest(s, a, t.vehicles.positions) /\ A(t) = After(s, t.vehicles.positions)

Completed(s) == (\A c \in Nodes : Dem(s, c) = 0) /\ (\A v \in Vehicles : Pos(s, v) = Depot)
AtLimit(s)   == StepsDone(s) >= Horizon
Done(s)      == Completed(s) \/ AtLimit(s)

(* ---------- routes (from the raw `order` array) ---------- *)
(* nodes vehicle v arrived at, in order; the arrival of step 2N does not fit into `order` any more and is
   read from `positions` *)
Route(s, v) ==
  LET k == Min2(s.step_count, Horizon)
      base == SubSeq(s.order[v], 2, k) IN
  IF s.step_count > Horizon THEN Append(base, Pos(s, v)) ELSE base
Routes(s) == [v \in Vehicles |-> Route(s, v)]

(* ---------- cost of a route ---------- *)
\* Inst = [D, ws, we, ce, cl] : distance matrix, window start / end, early / late coefficient (per node)
Dist(I, u, w) == I.D[u + 1][w + 1]
MulFX(x, y) == ((x \div 8192) * y) \div 8 + ((x % 8192) * y) \div FX       \* x*y/65536 without 32-bit overflow (0 <= x < 2^27, 0 <= y < 2^17)
ArrivalPenalty(I, c, tm) ==
    (IF tm < I.ws[c + 1] THEN MulFX(I.ws[c + 1] - tm, I.ce[c + 1]) ELSE 0)
  + (IF tm > I.we[c + 1] THEN MulFX(tm - I.we[c + 1], I.cl[c + 1]) ELSE 0)
RECURSIVE RouteCost(_, _, _)
RouteCost(I, r, j) ==        \* driving Depot, r[1], ..., r[j] : [len = length = local time, pen = penalties]
  IF j = 0 THEN [len |-> 0, pen |-> 0]
  ELSE LET p == RouteCost(I, r, j - 1)
           from == IF j = 1 THEN Depot ELSE r[j - 1]
           ln == p.len + Dist(I, from, r[j])
       IN  [len |-> ln, pen |-> p.pen + ArrivalPenalty(I, r[j], ln)]
TotalCost(I, rs) ==
  SumTo([v \in Vehicles |-> LET c == RouteCost(I, rs[v], Len(rs[v])) IN c.len + c.pen], V)
Objective(I, rs) == -TotalCost(I, rs)
NumLegs(rs) == SumTo([v \in Vehicles |-> Len(rs[v])], V)

(* ---------- feasibility of the partial solution (C06), recomputed from raw arrays ---------- *)
\* d0 = the demands of the instance as reset returned them; rs = Routes(s)
RouteNodesOK(rs) == \A v \in Vehicles : \A j \in 1..Len(rs[v]) : rs[v][j] \in Nodes
RECURSIVE LoadAfter(_, _, _)
LoadAfter(d0, r, j) ==                       \* load on board after arriving at r[j]
  IF j = 0 THEN 0 ELSE IF r[j] = Depot THEN 0 ELSE LoadAfter(d0, r, j - 1) + d0[r[j] + 1]
LoadWithinCapacity(d0, rs) == \A v \in Vehicles : \A j \in 1..Len(rs[v]) : LoadAfter(d0, rs[v], j) <= Q
Visits(rs, c) == { <<v, j>> \in Vehicles \X (1..Horizon) : j <= Len(rs[v]) /\ rs[v][j] = c }
ServedOnce(d0, rs) == \A c \in Customers : Cardinality(Visits(rs, c)) <= 1 /\ (d0[c + 1] = 0 => Visits(rs, c) = {})
CapacityBookkeeping(d0, rs, s) ==
  \A v \in Vehicles : Cap(s, v) = Q - LoadAfter(d0, rs[v], Len(rs[v])) /\ Cap(s, v) \in 0..Q
DemandBookkeeping(d0, rs, s) ==
  /\ Dem(s, Depot) = 0
  /\ \A c \in Customers : Dem(s, c) = IF Visits(rs, c) = {} THEN d0[c + 1] ELSE 0
RouteBookkeeping(rs, s) ==
  /\ \A v \in Vehicles : Len(rs[v]) = StepsDone(s)
                         /\ Pos(s, v) = (IF Len(rs[v]) = 0 THEN Depot ELSE rs[v][Len(rs[v])])
  /\ \A v \in Vehicles : s.order[v][1] = 0 /\ \A j \in 1..Horizon : j > s.step_count => s.order[v][j] = 0
CompleteSolution(d0, rs, s) ==
  /\ \A c \in Customers : Cardinality(Visits(rs, c)) = (IF d0[c + 1] > 0 THEN 1 ELSE 0)
  /\ \A v \in Vehicles : Pos(s, v) = Depot
  /\ LoadWithinCapacity(d0, rs)
Feasible(d0, s) ==
  LET rs == Routes(s) IN
  RouteNodesOK(rs) /\ LoadWithinCapacity(d0, rs) /\ ServedOnce(d0, rs) /\ CapacityBookkeeping(d0, rs, s)
  /\ DemandBookkeeping(d0, rs, s) /\ RouteBookkeeping(rs, s)

(* ---------- what reset may return (C10) ---------- *)
ShapeOK(s) ==
  /\ Len(s.nodes.coordinates) = N + 1 /\ Len(s.nodes.demands) = N + 1
  /\ Len(s.windows.start) = N + 1 /\ Len(s.windows.end) = N + 1
  /\ Len(s.coeffs.early) = N + 1 /\ Len(s.coeffs.late) = N + 1
  /\ Len(s.vehicles.positions) = V /\ Len(s.vehicles.capacities) = V
  /\ Len(s.order) = V /\ \A v \in Vehicles : Len(s.order[v]) = Horizon
DepotDemandZero(s)     == Dem(s, Depot) = 0
DemandsWithinCapacity(s) == \A c \in Customers : Dem(s, c) <= Q
DemandsAtMostMax(s)    == \A c \in Customers : Dem(s, c) <= Cfg.customer_demand_max
DemandsAtLeastOne(s)   == \A c \in Customers : Dem(s, c) >= 1          \* docs: "uniform between 1 and the maximum demand"
FleetCanCarryAll(s)    == SumSeq(s.nodes.demands) <= V * Q
CoordinatesInBox(s)    == \A j \in 1..(N + 1) : \A k \in 1..2 :
                             0 <= s.nodes.coordinates[j][k] /\ s.nodes.coordinates[j][k] <= Cfg.map_max * FX
WindowsConsistent(s)   == \A j \in 1..(N + 1) :
                             /\ 0 <= s.windows.start[j] /\ s.windows.start[j] <= Cfg.max_start_window * FX
                             /\ s.windows.start[j] <= s.windows.end[j]
                             /\ Abs(s.windows.end[j] - s.windows.start[j] - Cfg.time_window_length * FX) <= 3
CoefficientsInRange(s) == /\ s.coeffs.early[1] = 0 /\ s.coeffs.late[1] = 0          \* no penalty at the depot
                          /\ \A j \in 1..(N + 1) : /\ 0 <= s.coeffs.early[j] /\ s.coeffs.early[j] <= Cfg.early_coef_max_q
                                                   /\ 0 <= s.coeffs.late[j] /\ s.coeffs.late[j] <= Cfg.late_coef_max_q
FleetAtStart(s) ==
  /\ \A v \in Vehicles : Pos(s, v) = Depot /\ Cap(s, v) = Q
  /\ \A v \in Vehicles : s.vehicles.local_times[v] = 0 /\ s.vehicles.distances[v] = 0 /\ s.vehicles.time_penalties[v] = 0
  /\ \A v \in Vehicles : \A j \in 1..Horizon : s.order[v][j] = 0
=============================================================================
