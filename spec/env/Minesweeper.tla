---------------------------- MODULE Minesweeper ----------------------------
(***************************************************************************)
(* Reference model of jumanji's Minesweeper, written from the class        *)
(* docstring and docs/environments/minesweeper.md.                         *)
(*                                                                         *)
(* A num_rows x num_cols board hides num_mines mines on distinct cells     *)
(* (fixed for the whole episode).  Every cell of the visible board is -1   *)
(* (not yet explored) or the number of mines among its (at most 8)         *)
(* neighbours.  An action is a pair (row, col), 0-based.  Exploring an     *)
(* unexplored cell reveals that one cell only (no flood fill).  A cell may *)
(* be clicked iff it is unexplored; clicking an explored cell is the       *)
(* invalid action.                                                         *)
(*   reward : r_safe (default 1) for a valid click on a mine-free cell,    *)
(*            r_mine (default 0) for a valid click on a mine,              *)
(*            r_invalid (default 0) for an invalid click;                  *)
(*   the episode ends on an invalid click, on a mine, or when every        *)
(*   mine-free cell has been revealed (board solved).                      *)
(*                                                                         *)
(* State record (jumanji's field names):                                   *)
(*   board                grid, g[r][c] in -1..8                           *)
(*   step_count           int                                              *)
(*   flat_mine_locations  sequence of 0-based row-major cell indices       *)
(* Cfg == [num_rows, num_cols, num_mines,                                  *)
(*         reward_q |-> [safe, mine, invalid]]   (rewards in fixed point)  *)
(***************************************************************************)
EXTENDS EnvKit

CONSTANT Cfg

NR == Cfg.num_rows
NC == Cfg.num_cols
MsUnexplored == -1
MsCells == (1..NR) \X (1..NC)                  \* 1-based cells <<r, c>>
MsFlat(rc) == (rc[1] - 1) * NC + (rc[2] - 1)   \* the 0-based row-major index the state uses for mines

Actions == (0..(NR - 1)) \X (0..(NC - 1))      \* 0-based <<row, col>> as the agent sends them
MsCellOf(a) == <<a[1] + 1, a[2] + 1>>

(* ---------- the hidden mines ---------- *)
MsMineSet(s) == Range(s.flat_mine_locations)
MsNumMines(s) == Len(s.flat_mine_locations)
MsIsMine(s, rc) == MsFlat(rc) \in MsMineSet(s)
MsNbrs8(rc) == { q \in MsCells : q # rc /\ Abs(q[1] - rc[1]) <= 1 /\ Abs(q[2] - rc[2]) <= 1 }
MsAdjMines(s, rc) == Cardinality({ q \in MsNbrs8(rc) : MsIsMine(s, q) })

(* ---------- rules ---------- *)
MsExplored(s, rc) == At(s.board, rc) # MsUnexplored
Legal(s, a) == ~MsExplored(s, MsCellOf(a))                    \* a cell may be clicked iff unexplored
Mask(s) == [r \in 1..NR |-> [c \in 1..NC |-> ~MsExplored(s, <<r, c>>)]]

(* successor: a valid click reveals exactly the clicked cell (mine or not: the cell shows the
   number of neighbouring mines); an invalid click reveals nothing.  Mines never move. *)
Succ(s, a) ==
  LET rc == MsCellOf(a) IN
  [ board |-> IF Legal(s, a) THEN [s.board EXCEPT ![rc[1]][rc[2]] = MsAdjMines(s, rc)] ELSE s.board,
    step_count |-> s.step_count + 1,
    flat_mine_locations |-> s.flat_mine_locations ]
StepRel(s, a, t) == t = Succ(s, a)

MsOutcome(s, a) == IF ~Legal(s, a) THEN "invalid" ELSE IF MsIsMine(s, MsCellOf(a)) THEN "mine" ELSE "safe"

(* reward in fixed point *)
Reward(s, a) ==
  CASE MsOutcome(s, a) = "invalid" -> Cfg.reward_q.invalid
    [] MsOutcome(s, a) = "mine"    -> Cfg.reward_q.mine
    [] OTHER                       -> Cfg.reward_q.safe

(* board solved: every mine-free cell is revealed *)
Solved(t) == \A rc \in MsCells : MsIsMine(t, rc) \/ MsExplored(t, rc)
(* The done function is an extension point (`done_function`); the documented default ends the episode on an invalid click, on
   a mine and on the solved board.  Cfg.move_budget > 0 stands for a user-supplied done function: the default rules plus "the
   episode also ends once move_budget clicks have been made". *)
MoveBudget == IF "move_budget" \in DOMAIN Cfg THEN Cfg.move_budget ELSE 0
DefaultDone(s, a, t) == MsOutcome(s, a) \in {"invalid", "mine"} \/ Solved(t)
Done(s, a, t) == DefaultDone(s, a, t) \/ (MoveBudget > 0 /\ t.step_count >= MoveBudget)

(* ---------- observation ---------- *)
Obs(s) == [ board |-> s.board, action_mask |-> Mask(s), num_mines |-> Cfg.num_mines, step_count |-> s.step_count ]

(* ---------- physical invariants (C07) ---------- *)
MsBoardShape(b) == Len(b) = NR /\ \A r \in 1..NR : Len(b[r]) = NC
MsBoardRange(b) == \A rc \in MsCells : At(b, rc) \in -1..8
MsMinesInRange(s) == \A j \in 1..MsNumMines(s) : s.flat_mine_locations[j] \in 0..(NR * NC - 1)
MsMinesDistinct(s) == Cardinality(MsMineSet(s)) = MsNumMines(s)
(* in a state from which play continues no mine has been dug up and every revealed cell shows the
   true number of neighbouring mines *)
MsCountsTruthful(s) == \A rc \in MsCells : MsExplored(s, rc) => (~MsIsMine(s, rc) /\ At(s.board, rc) = MsAdjMines(s, rc))
PhysInv(s) == /\ MsBoardShape(s.board) /\ MsBoardRange(s.board)
              /\ MsMinesInRange(s) /\ MsMinesDistinct(s) /\ MsCountsTruthful(s)
(* revealed cells stay revealed, with the same number *)
MsRevealedKept(s, t) == \A rc \in MsCells : MsExplored(s, rc) => At(t.board, rc) = At(s.board, rc)

(* ---------- instances (C10) ---------- *)
WellFormedInstance(s) ==
  /\ MsNumMines(s) = Cfg.num_mines /\ MsMinesInRange(s) /\ MsMinesDistinct(s)
  /\ MsBoardShape(s.board) /\ \A rc \in MsCells : At(s.board, rc) = MsUnexplored
  /\ s.step_count = 0

(* ---------- objective (C08): safe squares revealed ---------- *)
MsSafeRevealed(s) == Cardinality({ rc \in MsCells : MsExplored(s, rc) /\ ~MsIsMine(s, rc) })
(* return of an episode whose last transition was (s, a, t), in fixed point *)
Objective(s, a, t) ==
  Cfg.reward_q.safe * MsSafeRevealed(t)
  + (CASE MsOutcome(s, a) = "invalid" -> Cfg.reward_q.invalid
       [] MsOutcome(s, a) = "mine"    -> Cfg.reward_q.mine
       [] OTHER                       -> 0)

(* ---------- structural horizon (C11) ---------- *)
(* every MID step reveals a new mine-free cell and revealing the last one ends the episode: at most
   rows*cols - mines steps, the last of which is LAST *)
MsHorizonFor(m) == NR * NC - m
Horizon == MsHorizonFor(Cfg.num_mines)
=============================================================================
