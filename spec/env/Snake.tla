------------------------------ MODULE Snake ------------------------------
(***************************************************************************)
(* Reference model of the game Snake as documented by jumanji              *)
(* (docs/environments/snake.md and the class docstring).                   *)
(*                                                                         *)
(* A snake lives on a num_rows x num_cols grid.  It is a sequence of       *)
(* pairwise distinct cells <<head, ..., tail>>, each 4-adjacent to the     *)
(* next one.  One fruit lies on a cell not covered by the snake.           *)
(* Actions 0 up, 1 right, 2 down, 3 left move the head by one cell.        *)
(*  - The head moves onto the fruit: the snake grows by one cell (the old  *)
(*    cells stay where they are), the reward is 1 and a new fruit appears  *)
(*    on some cell not covered by the (grown) snake.                       *)
(*  - Otherwise the whole snake advances: the new head is prepended and    *)
(*    the tail cell is vacated; reward 0; the fruit stays.                 *)
(*  - A move is INVALID iff the head leaves the grid or bumps into the     *)
(*    snake itself.  All cells advance simultaneously, so the cell the     *)
(*    tail vacates during this very step is free: stepping onto it is      *)
(*    legal (the code agrees: its mask tests the body order minus one).    *)
(*    The fruit is never on the body, so a growing move never targets the  *)
(*    tail cell and the subtlety only concerns non-growing moves.          *)
(* Episode termination (class docstring):                                  *)
(*  - an invalid action is taken (reward 0: no fruit was eaten),           *)
(*  - no action can be performed, i.e. the snake is surrounded,            *)
(*  - the time limit is reached,                                           *)
(*  - (game's definition) the snake covers the whole grid: there is no     *)
(*    cell left for a fruit, the game is won.                              *)
(* The return of an episode is the number of fruits eaten = length - 1.    *)
(*                                                                         *)
(* State encoding (jumanji's State): body_state[r][c] is 0 on free cells   *)
(* and numbers the snake's cells 1 (tail) .. length (head); body and tail  *)
(* are the boolean maps body_state > 0 and body_state = 1; head_position   *)
(* and fruit_position are 0-based [row, col] records.                      *)
(***************************************************************************)
EXTENDS EnvKit

CONSTANT Cfg            \* [num_rows |-> R, num_cols |-> C, time_limit |-> T]
NR == Cfg.num_rows
NC == Cfg.num_cols
AllCells == (1..NR) \X (1..NC)
Actions == 0..3

SnDir(a) == CASE a = 0 -> <<-1, 0>> [] a = 1 -> <<0, 1>> [] a = 2 -> <<1, 0>> [] a = 3 -> <<0, -1>>
SnCell(p) == <<p.row + 1, p.col + 1>>                   \* 0-based position record -> 1-based cell
SnPos(c)  == [row |-> c[1] - 1, col |-> c[2] - 1]

(* ---------------- the game on snakes as sequences <<head, ..., tail>> ---------------- *)
SnValid(sn) ==
  /\ Len(sn) >= 1
  /\ \A j \in 1..Len(sn) : InGrid(NR, NC, sn[j])
  /\ \A j, k \in 1..Len(sn) : j < k => sn[j] # sn[k]
  /\ \A j \in 1..(Len(sn) - 1) : Adjacent4(sn[j], sn[j + 1])

SnNewHead(sn, a) == <<sn[1][1] + SnDir(a)[1], sn[1][2] + SnDir(a)[2]>>
SnButTail(sn) == SubSeq(sn, 1, Len(sn) - 1)
SnLegal(sn, a) ==
  /\ InGrid(NR, NC, SnNewHead(sn, a))
  /\ SnNewHead(sn, a) \notin Range(SnButTail(sn))       \* the tail cell is vacated this step
SnMove(sn, a, eats) == <<SnNewHead(sn, a)>> \o (IF eats THEN sn ELSE SnButTail(sn))
SnFree(sn) == AllCells \ Range(sn)
SnFull(sn) == SnFree(sn) = {}
SnSurrounded(sn) == \A a \in Actions : ~SnLegal(sn, a)

(* ---------------- decoding / encoding jumanji's state ---------------- *)
SnOrder(s, c) == s.body_state[c[1]][c[2]]
BodyCells(s) == TLCEval({ c \in AllCells : SnOrder(s, c) > 0 })    \* (TLCEval: an enumerated set, not a lazy filter)
(* (TLC evaluates a LET definition anew at every reference but an operator ARGUMENT only once: values that are used
   many times - the set of body cells, the decoded snake - are handed down as arguments.) *)
SnakeOfCells(s, bc) == [j \in 1..s.length |-> CHOOSE c \in bc : SnOrder(s, c) = s.length + 1 - j]
SnakeOf(s) == SnakeOfCells(s, BodyCells(s))
OrderGridOf(sn, cells, rank) == [r \in 1..NR |-> [c \in 1..NC |-> IF <<r, c>> \in cells THEN rank[<<r, c>>] ELSE 0]]
OrderGrid(sn) ==
  OrderGridOf(sn, Range(sn), [c \in Range(sn) |-> Len(sn) + 1 - (CHOOSE j \in 1..Len(sn) : sn[j] = c)])

(* ---------------- physical invariants of a state (C07), from the raw arrays ---------------- *)
GridShape(g) == Len(g) = NR /\ \A r \in 1..NR : Len(g[r]) = NC
PosInGrid(p) == p.row \in 0..(NR - 1) /\ p.col \in 0..(NC - 1)
InBounds(s) ==
  /\ GridShape(s.body_state) /\ GridShape(s.body) /\ GridShape(s.tail)
  /\ PosInGrid(s.head_position) /\ PosInGrid(s.fruit_position)
  /\ s.length \in 1..(NR * NC)
  /\ \A c \in AllCells : SnOrder(s, c) \in 0..s.length
(* every order 1..length is carried by exactly one cell, consecutive orders are 4-adjacent *)
IsChain(s) ==
  LET bc == BodyCells(s) IN
  /\ Cardinality(bc) = s.length
  /\ { SnOrder(s, c) : c \in bc } = 1..s.length
  /\ \A c \in bc : SnOrder(s, c) < s.length => \E d \in Nbrs4(NR, NC, c) : SnOrder(s, d) = SnOrder(s, c) + 1
HeadAgrees(s) == PosInGrid(s.head_position) /\ SnOrder(s, SnCell(s.head_position)) = s.length
MapsAgree(s) ==
  /\ \A c \in AllCells : s.body[c[1]][c[2]] = (SnOrder(s, c) > 0)
  /\ \A c \in AllCells : s.tail[c[1]][c[2]] = (SnOrder(s, c) = 1)
PositionsAgree(s) == HeadAgrees(s) /\ MapsAgree(s)
OneTail(s) == Cardinality({ c \in AllCells : s.tail[c[1]][c[2]] }) = 1
FruitOffBody(s) == PosInGrid(s.fruit_position) /\ SnOrder(s, SnCell(s.fruit_position)) = 0
PhysInv(s) == InBounds(s) /\ IsChain(s) /\ PositionsAgree(s) /\ OneTail(s) /\ FruitOffBody(s)

(* ---------------- rules on states ---------------- *)
Decodable(s) == InBounds(s) /\ IsChain(s) /\ HeadAgrees(s)     \* the order grid reads as a snake
Legal(s, a) == SnLegal(SnakeOf(s), a)
MaskOf(sn) == [j \in 1..4 |-> SnLegal(sn, j - 1)]
Mask(s) == MaskOf(SnakeOf(s))
(* second, order-based formulation of the same rule (used by the MC model to cross-check the first):
   the target cell is inside the grid and is free or is the tail *)
LegalByOrder(s, a) ==
  LET nh == SnNewHead(<<SnCell(s.head_position)>>, a) IN InGrid(NR, NC, nh) /\ SnOrder(s, nh) <= 1

(* One move, decoded once: the snake read off the state, whether the move is legal, whether it eats, the successor
   snake.  (A record is evaluated eagerly: a trace line of a 144-cell board decodes its snake once, not once per rule.) *)
MoveOf(sn, s, a) ==
  LET nh == SnNewHead(sn, a)
      eats == nh = SnCell(s.fruit_position) IN
  [sn |-> sn, nh |-> nh, legal |-> SnLegal(sn, a), eats |-> eats, succ |-> SnMove(sn, a, eats)]
Move(s, a) == MoveOf(SnakeOf(s), s, a)

Eats(s, a) == Move(s, a).eats
SuccSnake(s, a) == Move(s, a).succ
RewardM(m) == IF m.legal /\ m.eats THEN 1 ELSE 0
Reward(s, a) == RewardM(Move(s, a))

(* field-wise transition relation; t is the (projected) successor, m == Move(s, a).  After an invalid move the episode
   is over and the documentation does not say what the state holds: only the step counter is prescribed. *)
RelBodyStateM(m, s, t) == m.legal => t.body_state = OrderGrid(m.succ)
RelHeadM(m, s, t)      == m.legal => t.head_position = SnPos(m.nh)
RelLengthM(m, s, t)    == m.legal => t.length = s.length + (IF m.eats THEN 1 ELSE 0)
RelStepCount(s, a, t)  == t.step_count = s.step_count + 1
RelFruitM(m, s, t) ==
  m.legal =>
    IF m.eats
    THEN \/ SnFull(m.succ)                                   \* no admissible cell: game over, unconstrained
         \/ PosInGrid(t.fruit_position) /\ SnCell(t.fruit_position) \in SnFree(m.succ)
    ELSE t.fruit_position = s.fruit_position
RelBodyState(s, a, t) == RelBodyStateM(Move(s, a), s, t)
RelHead(s, a, t)      == RelHeadM(Move(s, a), s, t)
RelLength(s, a, t)    == RelLengthM(Move(s, a), s, t)
RelFruit(s, a, t)     == RelFruitM(Move(s, a), s, t)
StepRelM(m, s, a, t) ==
  RelBodyStateM(m, s, t) /\ RelHeadM(m, s, t) /\ RelLengthM(m, s, t) /\ RelStepCount(s, a, t) /\ RelFruitM(m, s, t)
StepRel(s, a, t) == StepRelM(Move(s, a), s, a, t)

(* termination, with the time limit as a parameter (the MC model ranges over several limits) *)
EndInvalidM(m)    == ~m.legal
EndCompletedM(m)  == m.legal /\ SnFull(m.succ)
EndSurroundedM(m) == m.legal /\ SnSurrounded(m.succ)
EndInvalid(s, a)    == EndInvalidM(Move(s, a))
EndCompleted(s, a)  == EndCompletedM(Move(s, a))
EndSurrounded(s, a) == EndSurroundedM(Move(s, a))
EndTime(s, T)       == s.step_count + 1 >= T
DoneM(m, s, T) == EndInvalidM(m) \/ EndCompletedM(m) \/ EndSurroundedM(m) \/ EndTime(s, T)
DoneT(s, a, T) == DoneM(Move(s, a), s, T)
Done(s, a) == DoneT(s, a, Cfg.time_limit)

(* ---------------- reset (C10) ---------------- *)
WellFormedInstance(s) ==
  /\ InBounds(s)
  /\ s.length = 1 /\ s.step_count = 0
  /\ s.body_state = OrderGrid(<<SnCell(s.head_position)>>)
  /\ s.fruit_position # s.head_position
  /\ PositionsAgree(s) /\ OneTail(s)

(* ---------------- observation (C12) ---------------- *)
(* five feature planes per cell, in this order: body, head, tail, fruit, normalised body order
   (order / length: 1 at the head, 1/length at the tail, 0 on free cells); floats in fixed point *)
B2F(b) == IF b THEN FX ELSE 0
CellBody(s, c)  == B2F(SnOrder(s, c) > 0)
CellHead(s, c)  == B2F(c = SnCell(s.head_position))
CellTail(s, c)  == B2F(SnOrder(s, c) = 1)
CellFruit(s, c) == B2F(c = SnCell(s.fruit_position))
ObsCell(s, c) ==
  [body |-> CellBody(s, c), head |-> CellHead(s, c), tail |-> CellTail(s, c), fruit |-> CellFruit(s, c),
   ord |-> SnOrder(s, c), len |-> s.length]
ObsBody(g, s)  == \A c \in AllCells : g[c[1]][c[2]][1] = CellBody(s, c)
ObsHead(g, s)  == \A c \in AllCells : g[c[1]][c[2]][2] = CellHead(s, c)
ObsTail(g, s)  == \A c \in AllCells : g[c[1]][c[2]][3] = CellTail(s, c)
ObsFruit(g, s) == \A c \in AllCells : g[c[1]][c[2]][4] = CellFruit(s, c)
ObsNorm(g, s)  == \A c \in AllCells : Near(g[c[1]][c[2]][5], SnOrder(s, c), s.length, 1)
ObsGridShape(g) == Len(g) = NR /\ \A r \in 1..NR : Len(g[r]) = NC /\ \A c \in 1..NC : Len(g[r][c]) = 5

(* ---------------- objective (C08) ---------------- *)
Objective(s) == s.length - 1          \* fruits eaten
=============================================================================
