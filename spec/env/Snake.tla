------------------------------ MODULE Snake ------------------------------
(***************************************************************************)
(* Reference model of the game Snake as documented by jumanji              *)
(* (docs/environments/snake.md and the class docstring).                   *)
(*                                                                         *)
(* A snake lives on a num_rows x num_cols grid.  It is a sequence of       *)
(* pairwise distinct cells <<head, ..., tail>>, each 4-adjacent to the     *)
(* next one.  One fruit lies on a cell not covered by the snake.           *)
(* Actions 0 up, 1 right, 2 down, 3 left move the head by one cell.        *)
(*  - The head moves onto the fruit: the snake grows by one cell (the old  *)
(*    cells stay where they are), the reward is 1 and a new fruit appears  *)
(*    on some cell not covered by the (grown) snake.                       *)
(*  - Otherwise the whole snake advances: the new head is prepended and    *)
(*    the tail cell is vacated; reward 0; the fruit stays.                 *)
(*  - A move is INVALID iff the head leaves the grid or bumps into the     *)
(*    snake itself.  All cells advance simultaneously, so the cell the     *)
(*    tail vacates during this very step is free: stepping onto it is      *)
(*    legal (the code agrees: its mask tests the body order minus one).    *)
(*    The fruit is never on the body, so a growing move never targets the  *)
(*    tail cell and the subtlety only concerns non-growing moves.          *)
(* Episode termination (class docstring):                                  *)
(*  - an invalid action is taken (reward 0: no fruit was eaten),           *)
(*  - no action can be performed, i.e. the snake is surrounded,            *)
(*  - the time limit is reached,                                           *)
(*  - (game's definition) the snake covers the whole grid: there is no     *)
(*    cell left for a fruit, the game is won.                              *)
(* The return of an episode is the number of fruits eaten = length - 1.    *)
(*                                                                         *)
(* State encoding (jumanji's State): body_state[r][c] is 0 on free cells   *)
(* and numbers the snake's cells 1 (tail) .. length (head); body and tail  *)
(* are the boolean maps body_state > 0 and body_state = 1; head_position   *)
(* and fruit_position are 0-based [row, col] records.                      *)
(***************************************************************************)
EXTENDS EnvKit

CONSTANT Cfg            \* [num_rows |-> R, num_cols |-> C, time_limit |-> T]
NR == Cfg.num_rows
NC == Cfg.num_cols
AllCells == (1..NR) \X (1..NC)
Actions == 0..3

SnDir(a) == CASE a = 0 -> <<-1, 0>> [] a = 1 -> <<0, 1>> [] a = 2 -> <<1, 0>> [] a = 3 -> <<0, -1>>
SnCell(p) == <<p.row + 1, p.col + 1>>                   \* 0-based position record -> 1-based cell
SnPos(c)  == [row |-> c[1] - 1, col |-> c[2] - 1]

(* ---------------- the game on snakes as sequences <<head, ..., tail>> ---------------- *)
SnValid(sn) ==
  /\ Len(sn) >= 1
  /\ \A j \in 1..Len(sn) : InGrid(NR, NC, sn[j])
  /\ \A j, k \in 1..Len(sn) : j < k => sn[j] # sn[k]
  /\ \A j \in 1..(Len(sn) - 1) : Adjacent4(sn[j], sn[j + 1])

SnNewHead(sn, a) == <<sn[1][1] + SnDir(a)[1], sn[1][2] + SnDir(a)[2]>>
SnButTail(sn) == SubSeq(sn, 1, Len(sn) - 1)
SnLegal(sn, a) ==
  /\ InGrid(NR, NC, SnNewHead(sn, a))
  /\ SnNewHead(sn, a) \notin Range(SnButTail(sn))       \* the tail cell is vacated this step
SnMove(sn, a, eats) == <<SnNewHead(sn, a)>> \o (IF eats THEN sn ELSE SnButTail(sn))
SnFree(sn) == AllCells \ Range(sn)
SnFull(sn) == SnFree(sn) = {}
SnSurrounded(sn) == \A a \in Actions : ~SnLegal(sn, a)

(* ---------------- decoding / encoding jumanji's state ---------------- *)
SnOrder(s, c) == s.body_state[c[1]][c[2]]
BodyCells(s) == { c \in AllCells : SnOrder(s, c) > 0 }
SnakeOf(s) == LET bc == BodyCells(s) IN [j \in 1..s.length |-> CHOOSE c \in bc : SnOrder(s, c) = s.length + 1 - j]
OrderGrid(sn) ==
  [r \in 1..NR |-> [c \in 1..NC |->
     IF <<r, c>> \in Range(sn) THEN Len(sn) + 1 - (CHOOSE j \in 1..Len(sn) : sn[j] = <<r, c>>) ELSE 0]]

(* ---------------- physical invariants of a state (C07), from the raw arrays ---------------- *)
GridShape(g) == Len(g) = NR /\ \A r \in 1..NR : Len(g[r]) = NC
PosInGrid(p) == p.row \in 0..(NR - 1) /\ p.col \in 0..(NC - 1)
InBounds(s) ==
  /\ GridShape(s.body_state) /\ GridShape(s.body) /\ GridShape(s.tail)
  /\ PosInGrid(s.head_position) /\ PosInGrid(s.fruit_position)
  /\ s.length \in 1..(NR * NC)
  /\ \A c \in AllCells : SnOrder(s, c) \in 0..s.length
(* every order 1..length is carried by exactly one cell, consecutive orders are 4-adjacent *)
IsChain(s) ==
  LET bc == BodyCells(s) IN
  /\ Cardinality(bc) = s.length
  /\ { SnOrder(s, c) : c \in bc } = 1..s.length
  /\ \A c \in bc : SnOrder(s, c) < s.length => \E d \in Nbrs4(NR, NC, c) : SnOrder(s, d) = SnOrder(s, c) + 1
HeadAgrees(s) == PosInGrid(s.head_position) /\ SnOrder(s, SnCell(s.head_position)) = s.length
MapsAgree(s) ==
  /\ \A c \in AllCells : s.body[c[1]][c[2]] = (SnOrder(s, c) > 0)
  /\ \A c \in AllCells : s.tail[c[1]][c[2]] = (SnOrder(s, c) = 1)
PositionsAgree(s) == HeadAgrees(s) /\ MapsAgree(s)
OneTail(s) == Cardinality({ c \in AllCells : s.tail[c[1]][c[2]] }) = 1
FruitOffBody(s) == PosInGrid(s.fruit_position) /\ SnOrder(s, SnCell(s.fruit_position)) = 0
PhysInv(s) == InBounds(s) /\ IsChain(s) /\ PositionsAgree(s) /\ OneTail(s) /\ FruitOffBody(s)

(* ---------------- rules on states ---------------- *)
Decodable(s) == InBounds(s) /\ IsChain(s) /\ HeadAgrees(s)     \* the order grid reads as a snake
Legal(s, a) == SnLegal(SnakeOf(s), a)
Mask(s) == [j \in 1..4 |-> Legal(s, j - 1)]
(* second, order-based formulation of the same rule (used by the MC model to cross-check the first):
   the target cell is inside the grid and is free or is the tail *)
LegalByOrder(s, a) ==
  LET nh == SnNewHead(<<SnCell(s.head_position)>>, a) IN InGrid(NR, NC, nh) /\ SnOrder(s, nh) <= 1

Eats(s, a) == SnNewHead(SnakeOf(s), a) = SnCell(s.fruit_position)
SuccSnake(s, a) == SnMove(SnakeOf(s), a, Eats(s, a))

Reward(s, a) == IF Legal(s, a) /\ Eats(s, a) THEN 1 ELSE 0

(* field-wise transition relation; t is the (projected) successor.  After an invalid move the episode is
   over and the documentation does not say what the state holds: only the step counter is prescribed. *)
RelBodyState(s, a, t) == Legal(s, a) => t.body_state = OrderGrid(SuccSnake(s, a))
RelHead(s, a, t)      == Legal(s, a) => t.head_position = SnPos(SnNewHead(SnakeOf(s), a))
RelLength(s, a, t)    == Legal(s, a) => t.length = s.length + (IF Eats(s, a) THEN 1 ELSE 0)
RelStepCount(s, a, t) == t.step_count = s.step_count + 1
RelFruit(s, a, t) ==
  Legal(s, a) =>
    IF Eats(s, a)
    THEN \/ SnFull(SuccSnake(s, a))                                   \* no admissible cell: game over, unconstrained
         \/ PosInGrid(t.fruit_position) /\ SnCell(t.fruit_position) \in SnFree(SuccSnake(s, a))
    ELSE t.fruit_position = s.fruit_position
StepRel(s, a, t) ==
  RelBodyState(s, a, t) /\ RelHead(s, a, t) /\ RelLength(s, a, t) /\ RelStepCount(s, a, t) /\ RelFruit(s, a, t)

(* termination, with the time limit as a parameter (the MC model ranges over several limits) *)
EndInvalid(s, a)    == ~Legal(s, a)
EndCompleted(s, a)  == Legal(s, a) /\ SnFull(SuccSnake(s, a))
EndSurrounded(s, a) == Legal(s, a) /\ SnSurrounded(SuccSnake(s, a))
EndTime(s, T)       == s.step_count + 1 >= T
DoneT(s, a, T) == EndInvalid(s, a) \/ EndCompleted(s, a) \/ EndSurrounded(s, a) \/ EndTime(s, T)
Done(s, a) == DoneT(s, a, Cfg.time_limit)

(* ---------------- reset (C10) ---------------- *)
WellFormedInstance(s) ==
  /\ InBounds(s)
  /\ s.length = 1 /\ s.step_count = 0
  /\ s.body_state = OrderGrid(<<SnCell(s.head_position)>>)
  /\ s.fruit_position # s.head_position
  /\ PositionsAgree(s) /\ OneTail(s)

(* ---------------- observation (C12) ---------------- *)
(* five feature planes per cell, in this order: body, head, tail, fruit, normalised body order
   (order / length: 1 at the head, 1/length at the tail, 0 on free cells); floats in fixed point *)
B2F(b) == IF b THEN FX ELSE 0
ObsCell(s, c) ==
  [body  |-> B2F(SnOrder(s, c) > 0),
   head  |-> B2F(c = SnCell(s.head_position)),
   tail  |-> B2F(SnOrder(s, c) = 1),
   fruit |-> B2F(c = SnCell(s.fruit_position)),
   ord   |-> SnOrder(s, c), len |-> s.length]
PlaneEq(g, s, k, f(_)) == \A c \in AllCells : g[c[1]][c[2]][k] = f(ObsCell(s, c))
ObsBody(g, s)  == PlaneEq(g, s, 1, LAMBDA o : o.body)
ObsHead(g, s)  == PlaneEq(g, s, 2, LAMBDA o : o.head)
ObsTail(g, s)  == PlaneEq(g, s, 3, LAMBDA o : o.tail)
ObsFruit(g, s) == PlaneEq(g, s, 4, LAMBDA o : o.fruit)
ObsNorm(g, s)  == \A c \in AllCells : LET o == ObsCell(s, c) IN Near(g[c[1]][c[2]][5], o.ord, o.len, 1)
ObsGridShape(g) == Len(g) = NR /\ \A r \in 1..NR : Len(g[r]) = NC /\ \A c \in 1..NC : Len(g[r][c]) = 5

(* ---------------- objective (C08) ---------------- *)
Objective(s) == s.length - 1          \* fruits eaten
=============================================================================
