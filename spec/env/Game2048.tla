---------------------------- MODULE Game2048 ----------------------------
(***************************************************************************)
(* Reference model of the game 2048 as documented by jumanji:              *)
(* an N x N board of exponents (0 = empty, e = tile 2^e); actions          *)
(* 0 up, 1 right, 2 down, 3 left.  A move slides every line towards the    *)
(* chosen side; two equal neighbouring tiles (after sliding) merge once    *)
(* into a tile of twice the value and the reward is the sum of the values  *)
(* of the tiles created.  A move is legal iff it changes the board.  After *)
(* a legal move one empty cell receives a new tile 2 or 4 (exponent 1 or   *)
(* 2); an illegal move leaves the board untouched and spawns nothing.  The *)
(* episode ends when no move is legal.                                     *)
(***************************************************************************)
EXTENDS EnvKit

CONSTANT Cfg            \* [board_size |-> N]
N == Cfg.board_size
Idx == 1..N
Actions == 0..3

(* ---------- the slide of one line towards its head ---------- *)
Compress(row) == SelectSeq(row, LAMBDA x : x # 0)

RECURSIVE Merge(_)
Merge(r) ==
  IF Len(r) < 2 THEN [row |-> r, rew |-> 0]
  ELSE IF r[1] = r[2]
       THEN LET m == Merge(SubSeq(r, 3, Len(r)))
            IN  [row |-> <<r[1] + 1>> \o m.row, rew |-> 2 ^ (r[1] + 1) + m.rew]
       ELSE LET m == Merge(Tail(r))
            IN  [row |-> <<r[1]>> \o m.row, rew |-> m.rew]

SlideLine(row) ==
  LET m == Merge(Compress(row))
  IN  [row |-> m.row \o [j \in 1..(Len(row) - Len(m.row)) |-> 0], rew |-> m.rew]


(* line k of the board read from the side the tiles move towards *)
Line(b, a, k) ==
  CASE a = 3 -> b[k]                                   \* left : row k, left to right
    [] a = 1 -> Rev(b[k])                              \* right: row k, right to left
    [] a = 0 -> [j \in Idx |-> b[j][k]]                \* up   : column k, top to bottom
    [] a = 2 -> [j \in Idx |-> b[N + 1 - j][k]]        \* down : column k, bottom to top

(* board obtained by writing lines back *)
Unline(ls, a) ==
  CASE a = 3 -> [r \in Idx |-> ls[r]]
    [] a = 1 -> [r \in Idx |-> Rev(ls[r])]
    [] a = 0 -> [r \in Idx |-> [c \in Idx |-> ls[c][r]]]
    [] a = 2 -> [r \in Idx |-> [c \in Idx |-> ls[c][N + 1 - r]]]


Slide(b, a) ==
  LET sl == [k \in Idx |-> SlideLine(Line(b, a, k))]
  IN  [board |-> Unline([k \in Idx |-> sl[k].row], a),
       rew   |-> SumTo([k \in Idx |-> sl[k].rew], N)]

Legal(b, a) == Slide(b, a).board # b
Mask(b) == [j \in 1..4 |-> Legal(b, j - 1)]
NoMove(b) == \A a \in Actions : ~Legal(b, a)

Empty(b) == { <<r, c>> \in Idx \X Idx : b[r][c] = 0 }
Put(b, rc, v) == [b EXCEPT ![rc[1]][rc[2]] = v]

(* ---------- abstract state and transition relation ---------- *)
\* s = [board, step_count, score]
SuccBoards(b, a) ==
  IF Legal(b, a)
  THEN LET nb == Slide(b, a).board IN { Put(nb, rc, v) : rc \in Empty(nb), v \in {1, 2} }
  ELSE { b }

Reward(s, a) == Slide(s.board, a).rew

StepRel(s, a, t) ==
  /\ t.board \in SuccBoards(s.board, a)
  /\ t.step_count = s.step_count + 1
  /\ t.score = s.score + Reward(s, a)

Done(t) == NoMove(t.board)

InitBoards == { Put([r \in Idx |-> [c \in Idx |-> 0]], rc, v) : rc \in Idx \X Idx, v \in {1, 2} }
WellFormedInstance(s) == s.board \in InitBoards /\ s.step_count = 0 /\ s.score = 0

(* ---------- observation ---------- *)
Obs(s) == [board |-> s.board, action_mask |-> Mask(s.board)]

(* ---------- physical consistency / conservation (C07) ---------- *)
TileSum(b) == SumTo([k \in 1..(N * N) |->
                 LET e == b[((k - 1) \div N) + 1][((k - 1) % N) + 1] IN IF e = 0 THEN 0 ELSE 2 ^ e], N * N)
BoardShape(b) == Len(b) = N /\ \A r \in Idx : Len(b[r]) = N /\ \A c \in Idx : b[r][c] >= 0
TileSumLaw(s, a, t) ==
  IF Legal(s.board, a) THEN TileSum(t.board) - TileSum(s.board) \in {2, 4}
                       ELSE TileSum(t.board) = TileSum(s.board)
=============================================================================
