---------------------------- MODULE FlatPack ----------------------------
(***************************************************************************)
(* Reference model of jumanji's FlatPack, written from the class docstring *)
(* and docs/environments/flat_pack.md.                                     *)
(*                                                                         *)
(* A grid of NRB x NCB "blocks"; neighbouring 3x3 blocks share one line,   *)
(* so the grid has 2*NRB+1 rows and 2*NCB+1 columns (11 x 11 for 5 x 5).   *)
(* The instance is a list of NB = NRB*NCB blocks, each a 3x3 array whose   *)
(* non-zero cells carry the block's number.  An action is                  *)
(*    <<block index, number of quarter turns, row, col>>   (all 0-based)   *)
(* and asks to put the chosen block, rotated, with the top-left corner of  *)
(* its 3x3 box on grid cell (row, col).  It is legal iff the block has not *)
(* been placed yet and every non-zero cell of the rotated block falls on   *)
(* an empty cell inside the grid.  A legal action writes the block's cells *)
(* into the grid and flags the block as placed; an illegal action places   *)
(* nothing.  Every step (legal or not) counts; the episode ends when all   *)
(* blocks have been placed or NB steps have been taken.                    *)
(* Rewards: "cell"  = cells of the placed block / cells of the grid,       *)
(*          "block" = 1 / NB per placed block;  0 for an illegal action.   *)
(*                                                                         *)
(* Encoding of the action mask used by the harness (state and observation):*)
(* mask[b][k][r] is the integer  sum over columns c of 2^c * [entry        *)
(* (b,k,r,c) is True]  (b, k, r 1-based sequence indices, c 0-based bit).  *)
(***************************************************************************)
EXTENDS EnvKit

CONSTANT Cfg     \* [num_row_blocks, num_col_blocks, reward |-> "cell" | "block", alt_reward, generator |-> "random" | "toy_rot" | "toy_norot"]

NRB == Cfg.num_row_blocks
NCB == Cfg.num_col_blocks
NB  == NRB * NCB
GR  == 2 * NRB + 1                    \* 3 lines per block, one shared with the next block
GC  == 2 * NCB + 1
Area == GR * GC
AllCells == (1..GR) \X (1..GC)
PosRows == 0..(GR - 3)                \* admissible row coordinates of an action
PosCols == 0..(GC - 3)
Actions == (0..(NB - 1)) \X (0..3) \X PosRows \X PosCols
Box == (1..3) \X (1..3)

(* ---------- blocks ---------- *)
QuarterTurn(bl) == [i \in 1..3 |-> [j \in 1..3 |-> bl[4 - j][i]]]      \* one clockwise quarter turn
RECURSIVE Rot(_, _)
Rot(bl, k) == IF k = 0 THEN bl ELSE QuarterTurn(Rot(bl, k - 1))
BlockCells(bl) == { p \in Box : bl[p[1]][p[2]] # 0 }
BlockSize(bl) == Cardinality(BlockCells(bl))
BlockValue(bl) == LET p == CHOOSE q \in BlockCells(bl) : TRUE IN bl[p[1]][p[2]]
Shift(off, r, c) == { <<r + o[1], c + o[2]>> : o \in off }              \* r, c 0-based corner; offsets 1-based
PlacedCells(bl, k, r, c) == Shift(BlockCells(Rot(bl, k)), r, c)

(* ---------- legality and the mask ---------- *)
\* every cell of the offsets `off` (1-based, inside the 3x3 box), moved to corner (r, c), is an empty cell of the grid
FreeAt(s, off, r, c) ==
  \A o \in off : /\ (r + o[1]) \in 1..GR /\ (c + o[2]) \in 1..GC
                 /\ s.grid[r + o[1]][c + o[2]] = 0
Legal(s, a) ==
  /\ ~s.placed_blocks[a[1] + 1]
  /\ FreeAt(s, BlockCells(Rot(s.blocks[a[1] + 1], a[2])), a[3], a[4])
PackRow(bits, n) == SumTo([c \in 1..n |-> IF bits[c] THEN 2 ^ (c - 1) ELSE 0], n)
Mask(s) ==
  [b \in 1..NB |-> [k \in 1..4 |->
     IF s.placed_blocks[b] THEN [r \in 1..(GR - 2) |-> 0]
     ELSE LET off == BlockCells(Rot(s.blocks[b], k - 1)) IN
          [r \in 1..(GR - 2) |-> PackRow([c \in 1..(GC - 2) |-> FreeAt(s, off, r - 1, c - 1)], GC - 2)]]]
MaskBit(m, a) == (m[a[1] + 1][a[2] + 1][a[3] + 1] \div (2 ^ a[4])) % 2 = 1
NoMaskBit(m) == \A b \in 1..NB : \A k \in 1..4 : \A r \in 1..(GR - 2) : m[b][k][r] = 0

(* ---------- transition ---------- *)
\* s = [grid, blocks, placed_blocks, step_count, num_blocks]
Place(s, a) ==
  LET rb == Rot(s.blocks[a[1] + 1], a[2])
      cells == Shift(BlockCells(rb), a[3], a[4])
  IN  [s EXCEPT !.grid = [r \in 1..GR |-> [c \in 1..GC |->
                            IF <<r, c>> \in cells THEN rb[r - a[3]][c - a[4]] ELSE s.grid[r][c]]],
                !.placed_blocks = [s.placed_blocks EXCEPT ![a[1] + 1] = TRUE]]
Succ(s, a) ==
  LET t == IF Legal(s, a) THEN Place(s, a) ELSE s IN [t EXCEPT !.step_count = s.step_count + 1]

AllPlaced(s) == \A b \in 1..NB : s.placed_blocks[b]
NumPlaced(s) == Cardinality({ b \in 1..NB : s.placed_blocks[b] })
Covered(s) == Cardinality({ p \in AllCells : s.grid[p[1]][p[2]] # 0 })
Done(t) == AllPlaced(t) \/ t.step_count >= NB

(* reward as a rational <<numerator, denominator>> for reward function rf *)
RewardOf(rf, s, a) ==
  IF ~Legal(s, a) THEN <<0, 1>>
  ELSE IF rf = "cell" THEN <<BlockSize(s.blocks[a[1] + 1]), Area>>
  ELSE <<1, NB>>
Reward(s, a) == RewardOf(Cfg.reward, s, a)
(* documented objective of each reward function, as a rational *)
ObjectiveOf(rf, s) == IF rf = "cell" THEN <<Covered(s), Area>> ELSE <<NumPlaced(s), NB>>
Objective(s) == ObjectiveOf(Cfg.reward, s)

(* ---------- observation ---------- *)
Obs(s) == [grid |-> s.grid, blocks |-> s.blocks, action_mask |-> Mask(s)]

(* ---------- feasibility of the partial packing (C06), recomputed from the raw arrays ---------- *)
CellsWithValue(g, v) == { p \in AllCells : g[p[1]][p[2]] = v }
MinOf(S) == CHOOSE x \in S : \A y \in S : x <= y
\* the cells carrying block b's number are one complete rotated, translated copy of block b lying inside the grid
\* (if a translation exists it is the one that aligns the top-left corners of the two bounding boxes)
IntactCopy(s, b) ==
  LET cs == CellsWithValue(s.grid, BlockValue(s.blocks[b])) IN
  /\ cs # {}
  /\ \E k \in 0..3 :
       LET off == BlockCells(Rot(s.blocks[b], k)) IN
       cs = Shift(off, MinOf({ p[1] : p \in cs }) - MinOf({ o[1] : o \in off }),
                       MinOf({ p[2] : p \in cs }) - MinOf({ o[2] : o \in off }))
InsideContainer(s) == \A b \in 1..NB : s.placed_blocks[b] => IntactCopy(s, b)
NoOverlap(s) ==
  /\ \A p \in AllCells : s.grid[p[1]][p[2]] # 0 =>
         \E b \in 1..NB : s.placed_blocks[b] /\ BlockValue(s.blocks[b]) = s.grid[p[1]][p[2]]
  /\ Covered(s) = SumTo([b \in 1..NB |-> IF s.placed_blocks[b] THEN BlockSize(s.blocks[b]) ELSE 0], NB)
Feasible(s) == InsideContainer(s) /\ NoOverlap(s)
GridFull(s) == Covered(s) = Area
CompletionOK(s) == AllPlaced(s) <=> GridFull(s)

(* ---------- instances (C10) ---------- *)
BlocksShape(s) ==
  /\ Len(s.blocks) = NB
  /\ \A b \in 1..NB : Len(s.blocks[b]) = 3 /\ \A i \in 1..3 : Len(s.blocks[b][i]) = 3
  /\ \A b \in 1..NB : \A p \in Box : s.blocks[b][p[1]][p[2]] \in 0..NB
BlocksNumbered(s) ==     \* every block is non-empty and carries one number; the numbers are a permutation of 1..NB
  /\ \A b \in 1..NB : BlockCells(s.blocks[b]) # {}
  /\ \A b \in 1..NB : \A p \in BlockCells(s.blocks[b]) : s.blocks[b][p[1]][p[2]] = BlockValue(s.blocks[b])
  /\ { BlockValue(s.blocks[b]) : b \in 1..NB } = 1..NB
CellCountIsArea(s) == SumTo([b \in 1..NB |-> BlockSize(s.blocks[b])], NB) = Area
EmptyStart(s) ==
  /\ Len(s.grid) = GR /\ \A r \in 1..GR : Len(s.grid[r]) = GC
  /\ \A p \in AllCells : s.grid[p[1]][p[2]] = 0
  /\ \A b \in 1..NB : ~s.placed_blocks[b]
  /\ s.step_count = 0
  /\ s.num_blocks = NB

(* pl[b] = <<k, r, c>>: a claimed placement of every block.  It is an exact tiling iff the placed cells cover the
   grid and their number is the area (then they are inside the grid and pairwise disjoint). *)
IsTiling(s, pl, rows, cols) ==
  /\ Len(pl) = NB
  /\ \A b \in 1..NB : pl[b][1] \in 0..3 /\ pl[b][2] \in rows /\ pl[b][3] \in cols
  /\ UNION { PlacedCells(s.blocks[b], pl[b][1], pl[b][2], pl[b][3]) : b \in 1..NB } = AllCells
  /\ CellCountIsArea(s)
(* exhaustive search (small instances).  P[b] = the cell sets block b can occupy; the first uncovered cell (row-major)
   must be covered by some remaining block, which makes the search exact and short. *)
PlacementSets(s, b, rots, rows, cols) ==
  { cs \in { PlacedCells(s.blocks[b], k, r, c) : k \in rots, r \in rows, c \in cols } : cs \subseteq AllCells }
RECURSIVE Cover(_, _, _)
Cover(P, todo, occ) ==
  IF todo = {} THEN occ = AllCells
  ELSE LET free == AllCells \ occ IN
       IF free = {} THEN FALSE
       ELSE LET tgt == CHOOSE p \in free : \A q \in free : p[1] < q[1] \/ (p[1] = q[1] /\ p[2] <= q[2]) IN
            \E b \in todo : \E cs \in P[b] : tgt \in cs /\ cs \cap occ = {} /\ Cover(P, todo \ {b}, occ \cup cs)
TilingExists(s, rots, rows, cols) ==
  Cover(TLCEval([b \in 1..NB |-> PlacementSets(s, b, rots, rows, cols)]), 1..NB, {})    \* (TLCEval: tabulate once)
FreeRows == -2..(GR - 1)       \* any translation that keeps the cells inside the grid
FreeCols == -2..(GC - 1)
TilesGrid(s) == TilingExists(s, 0..3, FreeRows, FreeCols)                \* the blocks exactly tile the grid
CompletableByActions(s) == TilingExists(s, 0..3, PosRows, PosCols)       \* ... using placements the action space offers
TilesUnrotated(s) == TilingExists(s, {0}, FreeRows, FreeCols)

WellFormedInstance(s) == BlocksShape(s) /\ BlocksNumbered(s) /\ CellCountIsArea(s) /\ EmptyStart(s)
=============================================================================
