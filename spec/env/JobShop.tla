----------------------------- MODULE JobShop -----------------------------
(***************************************************************************)
(* Reference model of jumanji's JobShop (job shop scheduling), written     *)
(* from docs/environments/job_shop.md and the class docstrings.            *)
(*                                                                         *)
(* N jobs, each a sequence of operations; operation (j, k) needs one       *)
(* given machine for a given number of time steps.  Precedence: the ops    *)
(* of a job run in order; at most one op of a job runs at a time; a        *)
(* machine runs at most one op at a time; a started op runs to its end.    *)
(* Time is discrete: one environment step = one unit of time (the clock    *)
(* is `step_count`).  At every step every machine names a job (its next    *)
(* unscheduled op starts now, on that machine) or the no-op `num_jobs`.    *)
(*                                                                         *)
(* An op of duration d started at clock t occupies the slots t .. t+d-1;   *)
(* after the step the machine shows (job, d - 1) and is available again    *)
(* when its remaining time is 0, i.e. at clock t + d.                      *)
(*                                                                         *)
(* Episode end: (a) some machine's entry is not allowed (invalid action),  *)
(* (b) all machines are simultaneously idle (nothing ran in the slot just  *)
(* played), (c) every op has been scheduled and has run to completion.     *)
(* Reward -1 per step, but -num_jobs*max_num_ops*max_op_duration for (a)   *)
(* and (b).  The return of a completed schedule is minus its makespan.     *)
(*                                                                         *)
(* State record = jumanji's State (JSON): ops_machine_ids, ops_durations   *)
(* (-1 = padding), ops_mask (TRUE = still to be scheduled),                *)
(* machines_job_ids, machines_remaining_times, action_mask, step_count,    *)
(* scheduled_times (-1 = not scheduled).  Jobs / machines / actions are    *)
(* 0-based in the data; sequences are 1-based.                             *)
(***************************************************************************)
EXTENDS EnvKit

CONSTANT Cfg    \* [num_jobs, num_machines, max_num_ops, max_op_duration, generator]
NJ == Cfg.num_jobs
NM == Cfg.num_machines
NO == Cfg.max_num_ops
ND == Cfg.max_op_duration

Jobs     == 0..(NJ - 1)
Machines == 0..(NM - 1)
OpIdx    == 1..NO
NoOp     == NJ                               \* the "job id" of a no-op
Entries  == 0..NJ                            \* what one machine may be told
Actions  == [1..NM -> Entries]               \* joint actions (sequences of length NM)
Penalty  == NJ * NO * ND                     \* documented upper bound on the makespan

(* ---------- the instance ---------- *)
IsReal(s, j, k)   == s.ops_machine_ids[j + 1][k] # -1           \* k-th op (1-based) of job j exists
OpMachine(s, j, k)  == s.ops_machine_ids[j + 1][k]
OpDuration(s, j, k) == s.ops_durations[j + 1][k]
RealOps(s) == { jk \in Jobs \X OpIdx : IsReal(s, jk[1], jk[2]) }

(* ---------- progress of a job ---------- *)
Pending(s, j)  == { k \in OpIdx : s.ops_mask[j + 1][k] }          \* ops still to be scheduled
HasNext(s, j)  == Pending(s, j) # {}
NextOp(s, j)   == CHOOSE k \in Pending(s, j) : \A k2 \in Pending(s, j) : k <= k2   \* first unscheduled op

(* ---------- machines ---------- *)
MJob(s, m) == s.machines_job_ids[m + 1]
MRem(s, m) == s.machines_remaining_times[m + 1]
MachineFree(s, m) == MRem(s, m) = 0
JobRunning(s, j)  == \E m \in Machines : MJob(s, m) = j /\ MRem(s, m) > 0

(* ---------- the rules: what one machine may be told ---------- *)
LegalAg(s, m, x) ==
  \/ x = NoOp
  \/ /\ x \in Jobs
     /\ HasNext(s, x)                                   \* the job is not finished
     /\ MachineFree(s, m)                               \* a machine works on one op at a time
     /\ OpMachine(s, x, NextOp(s, x)) = m               \* ops in order, each on its own machine
     /\ ~JobRunning(s, x)                               \* one op of a job at a time, run to completion
Legal(s, a) == \A m \in Machines : LegalAg(s, m, a[m + 1])
Mask(s) == [m1 \in 1..NM |-> [x1 \in 1..(NJ + 1) |-> LegalAg(s, m1 - 1, x1 - 1)]]

(* ---------- transition (deterministic) ---------- *)
Named(a, j) == \E m1 \in 1..NM : a[m1] = j                       \* some machine starts job j now
Starts(s, a, j, k) == Named(a, j) /\ HasNext(s, j) /\ k = NextOp(s, j)
(* Total function; the documentation only prescribes the successor of a legal action.  For an entry that
   names a finished job nothing can start; the machine is then shown as (job, 0). *)
Succ(s, a) ==
  [ ops_machine_ids |-> s.ops_machine_ids,
    ops_durations   |-> s.ops_durations,
    ops_mask        |-> [j1 \in 1..NJ |-> [k \in OpIdx |-> s.ops_mask[j1][k] /\ ~Starts(s, a, j1 - 1, k)]],
    scheduled_times |-> [j1 \in 1..NJ |-> [k \in OpIdx |->
                           IF Starts(s, a, j1 - 1, k) THEN s.step_count ELSE s.scheduled_times[j1][k]]],
    machines_job_ids |-> [m1 \in 1..NM |->
                           IF a[m1] # NoOp THEN a[m1]
                           ELSE IF s.machines_remaining_times[m1] = 0 THEN NoOp
                           ELSE s.machines_job_ids[m1]],
    machines_remaining_times |-> [m1 \in 1..NM |->
                           IF a[m1] # NoOp
                           THEN (IF HasNext(s, a[m1]) THEN OpDuration(s, a[m1], NextOp(s, a[m1])) - 1 ELSE 0)
                           ELSE Max2(s.machines_remaining_times[m1] - 1, 0)],
    step_count |-> s.step_count + 1 ]

(* abstraction: the rule-relevant fields (the cached action mask is judged by C04 / C12) *)
A(s) == [ ops_machine_ids |-> s.ops_machine_ids, ops_durations |-> s.ops_durations, ops_mask |-> s.ops_mask,
          scheduled_times |-> s.scheduled_times, machines_job_ids |-> s.machines_job_ids,
          machines_remaining_times |-> s.machines_remaining_times, step_count |-> s.step_count ]

(* ---------- termination and reward ---------- *)
AllIdle(t)      == \A m \in Machines : MJob(t, m) = NoOp /\ MRem(t, m) = 0
AllScheduled(t) == \A j \in Jobs : ~HasNext(t, j)
Finished(t)     == AllScheduled(t) /\ \A m \in Machines : MRem(t, m) = 0
Done(s, a)   == ~Legal(s, a) \/ (LET t == Succ(s, a) IN AllIdle(t) \/ Finished(t))
Reward(s, a) == IF ~Legal(s, a) \/ AllIdle(Succ(s, a)) THEN -Penalty ELSE -1

(* ---------- observation: copies of the state fields + the mask given by the rules ---------- *)
Obs(s) == [ ops_machine_ids |-> s.ops_machine_ids, ops_durations |-> s.ops_durations, ops_mask |-> s.ops_mask,
            machines_job_ids |-> s.machines_job_ids, machines_remaining_times |-> s.machines_remaining_times,
            action_mask |-> Mask(s) ]

(* ---------- the schedule, recomputed from scheduled_times and durations only (C06) ---------- *)
StartOf(s, jk) == s.scheduled_times[jk[1] + 1][jk[2]]
EndOf(s, jk)   == StartOf(s, jk) + OpDuration(s, jk[1], jk[2])
Scheduled(s)   == { jk \in RealOps(s) : StartOf(s, jk) >= 0 }
Disjoint(s, p, q) == EndOf(s, p) <= StartOf(s, q) \/ EndOf(s, q) <= StartOf(s, p)

(* precedence: an op is scheduled only after its predecessor, and starts no earlier than the predecessor ends *)
JobOrder(s) == \A jk \in Scheduled(s) :
                  jk[2] > 1 => /\ <<jk[1], jk[2] - 1>> \in Scheduled(s)
                               /\ EndOf(s, <<jk[1], jk[2] - 1>>) <= StartOf(s, jk)
(* at most one op of a job at a time *)
JobExclusive(s) == LET S == Scheduled(s) IN
                   \A p \in S : \A q \in S : (p # q /\ p[1] = q[1]) => Disjoint(s, p, q)
(* at most one op on a machine at a time *)
MachineExclusive(s) == LET S == Scheduled(s) IN
                   \A p \in S : \A q \in S :
                     (p # q /\ OpMachine(s, p[1], p[2]) = OpMachine(s, q[1], q[2])) => Disjoint(s, p, q)
(* bookkeeping: ops_mask is exactly "real and not yet scheduled"; nothing is scheduled in the future *)
ScheduleBookkeeping(s) ==
  \A j \in Jobs : \A k \in OpIdx :
     IF IsReal(s, j, k)
     THEN /\ s.ops_mask[j + 1][k] <=> (s.scheduled_times[j + 1][k] = -1)
          /\ s.scheduled_times[j + 1][k] \in -1..(s.step_count - 1)
     ELSE ~s.ops_mask[j + 1][k] /\ s.scheduled_times[j + 1][k] = -1
(* the machines show what the schedule says: remaining time = time to the end of the op running on it *)
OpsOn(s, m)  == { jk \in Scheduled(s) : OpMachine(s, jk[1], jk[2]) = m }
BusyUntil(s, m) == LET E == { EndOf(s, jk) : jk \in OpsOn(s, m) } IN
                   IF E = {} THEN 0 ELSE CHOOSE x \in E : \A y \in E : y <= x
MachinesMatchSchedule(s) ==
  \A m \in Machines :
     /\ MRem(s, m) = Max2(BusyUntil(s, m) - s.step_count, 0)
     /\ MRem(s, m) > 0 => \E jk \in OpsOn(s, m) : jk[1] = MJob(s, m) /\ EndOf(s, jk) = BusyUntil(s, m)
Feasible(s) == JobOrder(s) /\ JobExclusive(s) /\ MachineExclusive(s)

Makespan(s) == LET E == { EndOf(s, jk) : jk \in RealOps(s) } IN CHOOSE x \in E : \A y \in E : y <= x
CompleteSolution(s) == /\ Scheduled(s) = RealOps(s)
                       /\ Feasible(s)
                       /\ Makespan(s) = s.step_count        \* everything has run to completion, just now
Objective(s) == -Makespan(s)

(* ---------- instances (C10) ---------- *)
NumOps(s, j) == Cardinality({ k \in OpIdx : IsReal(s, j, k) })
InstanceShape(s) ==
  /\ Len(s.ops_machine_ids) = NJ /\ Len(s.ops_durations) = NJ /\ Len(s.ops_mask) = NJ
  /\ Len(s.scheduled_times) = NJ
  /\ \A j1 \in 1..NJ : Len(s.ops_machine_ids[j1]) = NO /\ Len(s.ops_durations[j1]) = NO
                       /\ Len(s.ops_mask[j1]) = NO /\ Len(s.scheduled_times[j1]) = NO
  /\ Len(s.machines_job_ids) = NM /\ Len(s.machines_remaining_times) = NM
(* every job has 1..max_num_ops ops, stored as a prefix, the rest is -1 padding in both arrays *)
OpsArePrefix(s)   == \A j \in Jobs : NumOps(s, j) >= 1 /\ \A k \in OpIdx : IsReal(s, j, k) <=> k <= NumOps(s, j)
MachinesInRange(s)  == \A j \in Jobs : \A k \in OpIdx : IF IsReal(s, j, k) THEN OpMachine(s, j, k) \in Machines
                                                                             ELSE OpMachine(s, j, k) = -1
DurationsInRange(s) == \A j \in Jobs : \A k \in OpIdx : IF IsReal(s, j, k) THEN OpDuration(s, j, k) \in 1..ND
                                                                             ELSE OpDuration(s, j, k) = -1
FreshStart(s) ==
  /\ s.step_count = 0
  /\ \A m \in Machines : MJob(s, m) = NoOp /\ MRem(s, m) = 0
  /\ \A j \in Jobs : \A k \in OpIdx : s.scheduled_times[j + 1][k] = -1 /\ (s.ops_mask[j + 1][k] <=> IsReal(s, j, k))
WellFormedInstance(s) == InstanceShape(s) /\ OpsArePrefix(s) /\ MachinesInRange(s) /\ DurationsInRange(s) /\ FreshStart(s)

(* the instance ToyGenerator documents: 5 jobs, 4 machines, <= 4 ops, durations <= 4, optimum 8 *)
ToyMachineIds == << <<2, 3, 1, 2>>, <<3, 2, 0, -1>>, <<1, 3, -1, -1>>, <<0, 3, 0, 0>>, <<1, 0, 1, -1>> >>
ToyDurations  == << <<2, 2, 1, 2>>, <<2, 4, 1, -1>>, <<2, 3, -1, -1>>, <<4, 1, 1, 1>>, <<3, 1, 2, -1>> >>
(* lower bounds on any makespan: longest job, most loaded machine *)
WorkWhere(s, P(_, _)) ==      \* total duration of the real ops (j, k) with P(j, k)
  SumTo([j1 \in 1..NJ |-> SumTo([k \in OpIdx |-> IF IsReal(s, j1 - 1, k) /\ P(j1 - 1, k)
                                                 THEN OpDuration(s, j1 - 1, k) ELSE 0], NO)], NJ)
JobLength(s, j)   == WorkWhere(s, LAMBDA j2, k : j2 = j)
MachineLoad(s, m) == WorkWhere(s, LAMBDA j2, k : OpMachine(s, j2, k) = m)
TotalWork(s)      == WorkWhere(s, LAMBDA j2, k : TRUE)
MakespanLowerBound(s) == LET B == { JobLength(s, j) : j \in Jobs } \cup { MachineLoad(s, m) : m \in Machines }
                         IN CHOOSE x \in B : \A y \in B : y <= x

(* ---------- horizon (C11) ---------- *)
(* Every non-final step of a legal episode has some op occupying its time slot, and the step that uses up
   the last unit of work is final; so an episode has at most TotalWork <= Penalty steps. *)
Horizon == Penalty
InstanceHorizon(s) == TotalWork(s)
=============================================================================
