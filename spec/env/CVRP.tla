------------------------------ MODULE CVRP ------------------------------
(***************************************************************************)
(* Reference model of the capacitated vehicle routing problem as jumanji   *)
(* documents it (docs/environments/cvrp.md, class docstring).              *)
(*                                                                         *)
(* Nodes 0..N: node 0 is the depot, 1..N are customers with an integer     *)
(* demand in 1..max_demand (<= max_capacity); the depot's demand is 0.     *)
(* One vehicle of capacity Q starts at the depot with a full load.  An     *)
(* action names the next node to visit.  Visiting a customer is allowed    *)
(* iff it has not been served yet and its demand fits into the remaining   *)
(* capacity; visiting the depot is allowed iff the vehicle is not already  *)
(* there, and refills the capacity.  An action that is not allowed ends    *)
(* the episode with the penalty -2 N sqrt 2 and leaves the state as it     *)
(* was.  The episode also ends when no action can be performed any more:   *)
(* every customer served and the vehicle back at the depot.                *)
(* Dense reward: minus the length of the leg just driven (plus, on the     *)
(* step that completes the tour, the distance from the new node to the     *)
(* depot).  Sparse reward: 0 until the end, then minus the length of the   *)
(* whole route (closed at the depot).                                      *)
(*                                                                         *)
(* Numbers.  Euclidean lengths are not computed here: every state carries  *)
(* an integer matrix D (harness: round(65536 * distance), float64, from    *)
(* the raw coordinates; MC: small symbolic integers).  This module decides *)
(* the BOOKKEEPING: which legs are summed, when the tour is closed, which  *)
(* branch pays the penalty.  Nominal rewards are exact integers over D;    *)
(* the trace module compares them with the float32 rewards within          *)
(* SumTol(k), k = number of legs whose length is not exactly representable.*)
(* With Cfg.lattice (coordinates on the k/8 grid) a leg whose squared      *)
(* length is a perfect square (axis-parallel, 3-4-5, 6-8-10 ...) is exact  *)
(* and is compared with tolerance 0.                                       *)
(***************************************************************************)
EXTENDS EnvKit

CONSTANT Cfg    \* [num_nodes, max_capacity, max_demand, reward_fn ("dense"|"sparse"), generator, lattice (BOOLEAN)]

N        == Cfg.num_nodes          \* number of customers
Q        == Cfg.max_capacity
Depot    == 0
Nodes    == 0..N
Customers == 1..N
Actions  == Nodes
TrajLen  == 2 * N                  \* documented shape of `trajectory`
Horizon  == 2 * N                  \* structural horizon (C11): N customers, at most N returns to the depot

(* 0-based node ids index 1-based sequences *)
Dem(s, v)     == s.demands[v + 1]
Seen(s, v)    == s.visited_mask[v + 1]
Dist(s, u, v) == s.D[u + 1][v + 1]

(* ---------- rules ---------- *)
Legal(s, a) ==
  IF a = Depot THEN s.position # Depot
  ELSE ~Seen(s, a) /\ Dem(s, a) <= s.capacity
Mask(s) == [j \in 1..(N + 1) |-> Legal(s, j - 1)]
NoLegal(s) == \A a \in Actions : ~Legal(s, a)
AllServed(s) == \A c \in Customers : Seen(s, c)

(* The successor after a legal visit.  The depot's own entry of visited_mask says whether the vehicle
   is standing at the depot (it has to be "visited" again whenever the vehicle is away).  The route is
   recorded in `trajectory` (2 N entries, padded with the depot id); a visit that does not fit any more -
   only the closing return of a route that went back to the depot after every single customer - is not
   recorded, which cannot be told from the padding. *)
Visit(s, a) ==
  [s EXCEPT
     !.position = a,
     !.capacity = IF a = Depot THEN Q ELSE s.capacity - Dem(s, a),
     !.visited_mask = [j \in 1..(N + 1) |-> IF j = 1 THEN a = Depot ELSE (s.visited_mask[j] \/ j = a + 1)],
     !.trajectory = IF s.num_total_visits < TrajLen
                    THEN [s.trajectory EXCEPT ![s.num_total_visits + 1] = a]
                    ELSE s.trajectory,
     !.num_total_visits = s.num_total_visits + 1]

Succ(s, a) == IF Legal(s, a) THEN Visit(s, a) ELSE s           \* invalid action: state untouched
Done(s, a, t) == ~Legal(s, a) \/ NoLegal(t)

(* ---------- route and lengths ---------- *)
Route(s) ==                                                  \* nodes visited so far, in order (starts at the depot)
  LET k == Min2(s.num_total_visits, TrajLen)
      r == SubSeq(s.trajectory, 1, k) IN
  IF s.num_total_visits > TrajLen THEN r \o <<Depot>> ELSE r
OpenLen(s) ==                                                \* length driven so far
  LET r == Route(s) IN SumTo([j \in 1..(Len(r) - 1) |-> Dist(s, r[j], r[j + 1])], Len(r) - 1)
RouteLen(s) ==                                               \* ... closed at the depot
  LET r == Route(s) IN OpenLen(s) + Dist(s, r[Len(r)], Depot)

(* ---------- nominal rewards (integers over D) ---------- *)
Sqrt2x10 == 926819                        \* 10 * 65536 * sqrt 2 = 926819.0002
Penalty  == -((2 * N * Sqrt2x10) \div 10) \* nominal -2 N sqrt 2 (fixed point, truncated)
PenaltyNear(q) == Abs(10 * q + 2 * N * Sqrt2x10) <= 20        \* float32 reward q vs -2 N sqrt 2, within 2 units

DenseReward(s, a, t) ==
  IF ~Legal(s, a) THEN Penalty
  ELSE -(Dist(s, s.position, a) + (IF NoLegal(t) THEN Dist(s, a, Depot) ELSE 0))
SparseReward(s, a, t) ==
  IF ~Legal(s, a) THEN Penalty
  ELSE IF NoLegal(t) THEN -RouteLen(t) ELSE 0
Objective(s) == -RouteLen(s)

(* ---------- exactness of legs, tolerances ---------- *)
GridQ == FX \div 8
OnGridPt(p) == p[1] % GridQ = 0 /\ p[2] % GridQ = 0
ExactLeg(s, u, v) ==
  /\ Cfg.lattice
  /\ LET p == s.coordinates[u + 1]  r == s.coordinates[v + 1]  d == Dist(s, u, v) IN
     /\ OnGridPt(p) /\ OnGridPt(r) /\ d % GridQ = 0
     /\ LET dx == (p[1] - r[1]) \div GridQ  dy == (p[2] - r[2]) \div GridQ  m == d \div GridQ IN
        m * m = dx * dx + dy * dy
Inexact(s, u, v) == IF ExactLeg(s, u, v) THEN 0 ELSE 1
RouteInexact(s) ==                                           \* number of inexact legs of the closed route
  LET r == Route(s) IN
  SumTo([j \in 1..(Len(r) - 1) |-> Inexact(s, r[j], r[j + 1])], Len(r) - 1) + Inexact(s, r[Len(r)], Depot)
SumTol(k) == IF k = 0 THEN 0 ELSE 2 + k                      \* fixed-point units for a sum with k inexact legs

(* ---------- observation (C12) ---------- *)
(* coordinates, position, trajectory: copies; demands and capacity divided by max_capacity;
   unvisited_nodes = complement of visited_mask; action_mask = Mask. *)
ObsUnvisited(s) == [j \in 1..(N + 1) |-> ~s.visited_mask[j]]
ObsDemandsOK(got, s) == Len(got) = N + 1 /\ \A j \in 1..(N + 1) : Near(got[j], s.demands[j], Q, 1)
ObsCapacityOK(got, s) == Near(got, s.capacity, Q, 1)

(* ---------- feasibility of the partial solution (C06), recomputed from the raw arrays ---------- *)
RECURSIVE LoadAfter(_, _, _)
LoadAfter(s, r, j) ==                                        \* load on board after visiting r[1..j]
  IF j = 0 THEN 0
  ELSE IF r[j] = Depot THEN 0 ELSE LoadAfter(s, r, j - 1) + Dem(s, r[j])
LoadWithinCapacity(s) == LET r == Route(s) IN \A j \in 1..Len(r) : LoadAfter(s, r, j) <= Q
ServedOnce(s) == LET r == Route(s) IN \A j, k \in 1..Len(r) : (j < k /\ r[j] = r[k]) => r[j] = Depot
RouteMatchesVisited(s) ==
  LET r == Route(s) IN
  /\ Len(r) >= 1 /\ r[1] = Depot
  /\ \A j \in 1..Len(r) : r[j] \in Nodes
  /\ { r[j] : j \in 1..Len(r) } \ {Depot} = { c \in Customers : Seen(s, c) }
  /\ r[Len(r)] = s.position
  /\ Seen(s, Depot) = (s.position = Depot)
  /\ \A j \in 1..TrajLen : j > s.num_total_visits => s.trajectory[j] = Depot        \* padding
CapacityBookkeeping(s) ==
  LET r == Route(s) IN s.capacity = Q - LoadAfter(s, r, Len(r)) /\ s.capacity \in 0..Q
CompleteSolution(s) ==
  LET r == Route(s) IN
  /\ \A c \in Customers : Cardinality({ j \in 1..Len(r) : r[j] = c }) = 1
  /\ r[1] = Depot /\ r[Len(r)] = Depot /\ s.position = Depot
  /\ LoadWithinCapacity(s)
Feasible(s) == LoadWithinCapacity(s) /\ ServedOnce(s) /\ RouteMatchesVisited(s) /\ CapacityBookkeeping(s)

(* ---------- what reset may return (C10) ---------- *)
ShapeOK(s) ==
  /\ Len(s.demands) = N + 1 /\ Len(s.visited_mask) = N + 1 /\ Len(s.trajectory) = TrajLen
  /\ s.position \in Nodes
DemandsOK(s) ==
  /\ Dem(s, Depot) = 0
  \* (the harness's "lattice0" generator deliberately emits zero-demand customers, which the demand box allows)
  /\ \A c \in Customers : (IF Cfg.generator = "lattice0" THEN 0 ELSE 1) <= Dem(s, c)
                           /\ Dem(s, c) <= Cfg.max_demand /\ Dem(s, c) <= Q
InUnitSquare(s) ==
  /\ Len(s.coordinates) = N + 1
  /\ \A j \in 1..(N + 1) : Len(s.coordinates[j]) = 2 /\ \A k \in 1..2 : 0 <= s.coordinates[j][k] /\ s.coordinates[j][k] <= FX
FreshStart(s) ==
  /\ s.position = Depot /\ s.capacity = Q /\ s.num_total_visits = 1
  /\ s.visited_mask = [j \in 1..(N + 1) |-> j = 1]
  /\ s.trajectory = [j \in 1..TrajLen |-> Depot]
WellFormedInstance(s) == ShapeOK(s) /\ DemandsOK(s) /\ InUnitSquare(s) /\ FreshStart(s)
=============================================================================
