---------------------------- MODULE Knapsack ----------------------------
(***************************************************************************)
(* Reference model of the 0/1 knapsack environment as documented by        *)
(* jumanji (docs/environments/knapsack.md and the class docstring):        *)
(*                                                                         *)
(*   An instance is num_items items, item k with a weight and a value      *)
(*   drawn from [0, 1), and a knapsack with a total budget.  The action k  *)
(*   (0-based) packs item k.  The action is valid iff the item is not      *)
(*   packed yet and its weight is not larger than the remaining capacity.  *)
(*   A valid action packs the item and charges its weight to the budget.   *)
(*   An invalid action changes nothing, is rewarded 0 and ends the         *)
(*   episode.  The episode also ends when no further item can be added     *)
(*   (all packed, or every remaining item is heavier than the remaining    *)
(*   capacity).  Dense reward: the value of the item just packed.  Sparse  *)
(*   reward: the total value of the packed items, paid when the episode    *)
(*   ends after a valid action.  In both cases 0 for an invalid action.    *)
(*                                                                         *)
(* Numbers.  weights, values and remaining_budget are numbers in an        *)
(* arbitrary integer unit: small integers in the MC model, fixed point     *)
(* (x * 65536, rounded) in recorded traces.  Cfg.exact says whether the    *)
(* unit represents the implementation's float32 numbers exactly (MC; the   *)
(* dyadic generator, multiples of 1/64) or only up to rounding (uniform    *)
(* generator).  In the latter case comparisons of budget against weight    *)
(* that are closer than TieTol units cannot be decided from the recorded   *)
(* data ("tie"); every rule below states explicitly what is demanded for   *)
(* a tie, and sums of k rounded terms carry a tolerance of k + 2 units.    *)
(*                                                                         *)
(* Cfg = [num_items, budget_q (total budget in the unit), reward_fn        *)
(*        ("dense" | "sparse"), generator ("uniform" | "dyadic" | "mc"),   *)
(*        exact (BOOLEAN)]                                                 *)
(* state s = [weights, values, packed_items, remaining_budget]             *)
(***************************************************************************)
EXTENDS EnvKit

CONSTANT Cfg

NItems  == Cfg.num_items
Items   == 1..NItems                  \* TLA+ index of item k (0-based action k) is k + 1
Actions == 0..(NItems - 1)
Budget  == Cfg.budget_q

(* ---------- tolerances (all 0 when the numbers are exact) ---------- *)
TieTol      == IF Cfg.exact THEN 0 ELSE 2      \* |remaining_budget - weight| <= TieTol is undecidable from fixed point
DiffTol     == IF Cfg.exact THEN 0 ELSE 2      \* one float32 subtraction seen through three roundings
SumTol(k)   == IF Cfg.exact THEN 0 ELSE k + 2  \* a sum of k rounded terms (0.5 unit each) plus float32 accumulation

(* ---------- the rules ---------- *)
Packed(s)      == { j \in Items : s.packed_items[j] }
NumPacked(s)   == Cardinality(Packed(s))
PackedWeight(s) == SumFn(s.weights, Packed(s))
PackedValue(s)  == SumFn(s.values, Packed(s))

(* A recorded state may carry `fits`: the float32 comparisons weight <= remaining_budget themselves, computed by the
   harness's projection from the state's own arrays (a pure function of the state).  Where they are present the rule is
   decided on them - exactly, down to one unit in the last place - and nothing is left undecided. *)
HasFits(s)  == "fits" \in DOMAIN s
Fits(s, j)  == IF HasFits(s) THEN s.fits[j]
               ELSE s.weights[j] <= s.remaining_budget                  \* "weight not larger than the bag capacity"
Tie(s, j)   == ~Cfg.exact /\ ~HasFits(s) /\ Abs(s.remaining_budget - s.weights[j]) <= TieTol
Legal(s, a) == ~s.packed_items[a + 1] /\ Fits(s, a + 1)                 \* the rule, on the numbers as given
(* What the recorded numbers allow us to conclude about the real (float32) comparison: *)
LegalForSure(s, a)   == ~s.packed_items[a + 1] /\ Fits(s, a + 1) /\ ~Tie(s, a + 1)
IllegalForSure(s, a) == s.packed_items[a + 1] \/ (~Fits(s, a + 1) /\ ~Tie(s, a + 1))
\* exact numbers: LegalForSure = Legal and IllegalForSure = ~Legal

Mask(s) == [j \in Items |-> Legal(s, j - 1)]
(* m agrees with the rules on every entry; an entry may deviate from Legal only for an unpacked item in a tie *)
MaskAgrees(m, s) ==
  /\ Len(m) = NItems
  /\ \A j \in Items : (LegalForSure(s, j - 1) => m[j]) /\ (IllegalForSure(s, j - 1) => ~m[j])

NoneAvailableForSure(s) == \A a \in Actions : IllegalForSure(s, a)
SomeAvailableForSure(s) == \E a \in Actions : LegalForSure(s, a)

(* ---------- transition ---------- *)
Pack(s, a) == [s EXCEPT !.packed_items[a + 1] = TRUE, !.remaining_budget = s.remaining_budget - s.weights[a + 1]]
Succ(s, a) == IF Legal(s, a) THEN Pack(s, a) ELSE s           \* exact numbers: the successor is a function

(* t is the state after packing item a from s, remaining budget up to DiffTol *)
PackRel(s, a, t) ==
  /\ t.weights = s.weights
  /\ t.values = s.values
  /\ t.packed_items = [s.packed_items EXCEPT ![a + 1] = TRUE]
  /\ Abs(t.remaining_budget - (s.remaining_budget - s.weights[a + 1])) <= DiffTol
StepRel(s, a, t) ==
  \/ ~IllegalForSure(s, a) /\ PackRel(s, a, t)       \* valid (or tie): the item is packed
  \/ ~LegalForSure(s, a) /\ t = s                    \* invalid (or tie): nothing happens

(* Was the recorded transition s -a-> t treated as a valid action?  (a valid action always flips packed_items[a]) *)
TookItem(s, a, t) == t.packed_items[a + 1] /\ ~s.packed_items[a + 1]

(* ---------- termination ---------- *)
\* documented: LAST iff the action was invalid or no action can be performed afterwards
DoneForSure(s, a, t)    == IllegalForSure(s, a) \/ NoneAvailableForSure(t)
NotDoneForSure(s, a, t) == LegalForSure(s, a) /\ SomeAvailableForSure(t)
Done(s, a, t) == ~Legal(s, a) \/ \A b \in Actions : ~Legal(t, b)          \* exact numbers

(* ---------- reward (in the unit) ---------- *)
DenseReward(s, a)      == IF Legal(s, a) THEN s.values[a + 1] ELSE 0
SparseReward(s, a, t)  == IF Legal(s, a) /\ Done(s, a, t) THEN PackedValue(t) ELSE 0
Reward(s, a, t) == IF Cfg.reward_fn = "dense" THEN DenseReward(s, a) ELSE SparseReward(s, a, t)

(* r is an admissible reward of reward function fn for action a played in s, given whether the step ended
   the episode (last).  Dense: the very number values[a] (no arithmetic: exact in every unit).  Sparse: a
   float32 sum of NumPacked(s) + 1 terms compared with the sum of their fixed-point images. *)
ValidReward(fn, s, a, last, r) ==
  IF fn = "dense" THEN r = s.values[a + 1]
  ELSE IF last THEN Abs(r - (PackedValue(s) + s.values[a + 1])) <= SumTol(NumPacked(s) + 1)
  ELSE r = 0
RewardOK(fn, s, a, last, r) ==
  \/ ~IllegalForSure(s, a) /\ ValidReward(fn, s, a, last, r)
  \/ ~LegalForSure(s, a) /\ r = 0

(* ---------- observation (C12): the four documented fields ---------- *)
Obs(s) == [weights |-> s.weights, values |-> s.values, packed_items |-> s.packed_items, action_mask |-> Mask(s)]

(* ---------- feasibility (C06), recomputed from the raw arrays ---------- *)
\* (B = total budget of the instance: Cfg.budget_q, or the instance's own budget in the MC model)
WeightWithinBudgetB(s, B) == PackedWeight(s) <= B + SumTol(NumPacked(s))
BudgetNonNegative(s)      == s.remaining_budget >= 0          \* b >= w >= 0 => b - w >= 0 also in float32
BudgetBookkeepingB(s, B)  == Abs(s.remaining_budget + PackedWeight(s) - B) <= SumTol(NumPacked(s))
FeasibleB(s, B) == WeightWithinBudgetB(s, B) /\ BudgetNonNegative(s) /\ BudgetBookkeepingB(s, B)
WeightWithinBudget(s) == WeightWithinBudgetB(s, Budget)
BudgetBookkeeping(s)  == BudgetBookkeepingB(s, Budget)
Feasible(s) == FeasibleB(s, Budget)
(* a completed episode holds a maximal packing: nothing that is left fits any more *)
MaximalPacking(s) == ~SomeAvailableForSure(s)       \* (an item in a tie may or may not have fitted)

(* ---------- instances (C10) ---------- *)
ShapeOK(s) ==
  /\ Len(s.weights) = NItems /\ Len(s.values) = NItems /\ Len(s.packed_items) = NItems
InBox(sq, one) == \A j \in 1..Len(sq) : 0 <= sq[j] /\ sq[j] <= one        \* the declared box [0, 1]
OnLattice(sq, step, one) == \A j \in 1..Len(sq) : sq[j] % step = 0 /\ sq[j] < one
FreshKnapsack(s) == (\A j \in Items : ~s.packed_items[j]) /\ s.remaining_budget = Budget

(* ---------- objective (C08) and horizon (C11) ---------- *)
Objective(s) == PackedValue(s)
Horizon == NItems                 \* every non-terminal step packs one more item
=============================================================================
