---------------------------- MODULE Sudoku ----------------------------
(***************************************************************************)
(* Reference model of jumanji's Sudoku, written from the documentation     *)
(* (docs/environments/sudoku.md, class and reward docstrings) and the      *)
(* rules of the puzzle.                                                    *)
(*                                                                         *)
(* The board is N x N with N = B * B (B = box size; jumanji ships B = 3).  *)
(* A cell holds -1 (empty) or a digit 0..N-1 (the "figure" d+1).  An       *)
(* action <<r, c, d>> (0-based row, column, digit) writes digit d into the *)
(* cell (r, c).  It is legal iff that cell is empty and d does not occur   *)
(* in the cell's row, column or B x B box.  The mask has one entry per     *)
(* (row, column, digit).  An illegal action ends the episode; otherwise    *)
(* the episode ends when no legal action is left: the board is solved or   *)
(* the agent is in a dead end.  Reward: 1 at the end of the episode if the *)
(* board is correctly solved, 0 in every other case.                       *)
(***************************************************************************)
EXTENDS EnvKit

CONSTANT Cfg            \* [box |-> B, generator |-> "mixed" | "very-easy" | "dummy" | ..., min_clues |-> k, constant |-> BOOLEAN]

SdB == Cfg.box
SdN == SdB * SdB
SdIdx == 1..SdN
SdDigits == 0..(SdN - 1)
SdEmpty == -1
SdCells == SdIdx \X SdIdx
Actions == { <<r, c, d>> : r \in 0..(SdN - 1), c \in 0..(SdN - 1), d \in SdDigits }

(* ---------- the 3 N units of the puzzle ---------- *)
SdRowUnit(r) == { <<r, c>> : c \in SdIdx }
SdColUnit(c) == { <<r, c>> : r \in SdIdx }
SdBoxUnit(br, bc) == { <<r, c>> : r \in (br * SdB + 1)..(br * SdB + SdB), c \in (bc * SdB + 1)..(bc * SdB + SdB) }
SdUnits == { SdRowUnit(r) : r \in SdIdx } \cup { SdColUnit(c) : c \in SdIdx }
             \cup { SdBoxUnit(br, bc) : br \in 0..(SdB - 1), bc \in 0..(SdB - 1) }
(* the cells that see the cell rc (its row, its column, its box; rc itself included) *)
SdSeesDef(rc) == SdRowUnit(rc[1]) \cup SdColUnit(rc[2]) \cup SdBoxUnit((rc[1] - 1) \div SdB, (rc[2] - 1) \div SdB)
(* the same two notions tabulated once (they depend on the box size only): evaluation aid for TLC *)
SdUnitsTab == TLCEval(SdUnits)
SdSeesTab == TLCEval([r \in SdIdx |-> [c \in SdIdx |-> SdSeesDef(<<r, c>>)]])
SdSees(rc) == SdSeesTab[rc[1]][rc[2]]

(* ---------- boards ---------- *)
SdShapeOK(b) == Len(b) = SdN /\ \A r \in SdIdx : Len(b[r]) = SdN /\ \A c \in SdIdx : b[r][c] \in SdDigits \cup {SdEmpty}
SdEmptyCells(b) == { rc \in SdCells : At(b, rc) = SdEmpty }
SdEmptyCount(b) == Cardinality(SdEmptyCells(b))
SdFull(b) == SdEmptyCells(b) = {}
(* no digit twice in a unit: its filled cells carry as many different digits as there are filled cells *)
SdUnitNoRepeat(b, u) ==
  LET filled == { q \in u : At(b, q) # SdEmpty } IN Cardinality({ At(b, q) : q \in filled }) = Cardinality(filled)
NoRepeat(b) == \A u \in SdUnitsTab : SdUnitNoRepeat(b, u)
(* every unit shows every digit *)
Solved(b) == \A u \in SdUnitsTab : { At(b, q) : q \in u } = SdDigits

(* ---------- rules ---------- *)
SdCellOf(a) == <<a[1] + 1, a[2] + 1>>
LegalB(b, a) ==
  /\ At(b, SdCellOf(a)) = SdEmpty
  /\ \A q \in SdSees(SdCellOf(a)) : At(b, q) # a[3]
Legal(s, a) == LegalB(s.board, a)

(* the mask in the layout of the observation: m[r][c][d], all 1-based images of the 0-based indices *)
MaskB(b) == [r \in SdIdx |-> [c \in SdIdx |-> [d \in SdIdx |-> LegalB(b, <<r - 1, c - 1, d - 1>>)]]]
Mask(s) == MaskB(s.board)
NoLegalAction(b) == \A rc \in SdEmptyCells(b) : \A d \in SdDigits : ~LegalB(b, <<rc[1] - 1, rc[2] - 1, d>>)

Place(b, a) == [b EXCEPT ![a[1] + 1][a[2] + 1] = a[3]]

(* abstract state: s = [board]; the cached mask of jumanji's State is judged by C04 / C12.
   The documentation says nothing about the board after an illegal action (the episode is over):
   the relation only constrains legal placements. *)
StepRel(s, a, t) == Legal(s, a) => t.board = Place(s.board, a)
Done(s, a) == ~Legal(s, a) \/ NoLegalAction(Place(s.board, a))
Reward(s, a) == IF Legal(s, a) /\ Solved(Place(s.board, a)) THEN 1 ELSE 0

(* ---------- observation ---------- *)
Obs(s) == [board |-> s.board, action_mask |-> Mask(s)]

(* ---------- feasibility (C06) and instances (C10) ---------- *)
Feasible(s) == SdShapeOK(s.board) /\ NoRepeat(s.board)
SdClues(b) == SdN * SdN - SdEmptyCount(b)
WellFormedInstance(s) == SdShapeOK(s.board) /\ NoRepeat(s.board) /\ SdClues(s.board) >= Cfg.min_clues

(* structural horizon of an episode that starts on board b0 *)
Horizon(b0) == SdEmptyCount(b0)
=============================================================================
