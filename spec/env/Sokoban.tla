------------------------------ MODULE Sokoban ------------------------------
(***************************************************************************)
(* Reference model of jumanji's Sokoban, written from                      *)
(* docs/environments/sokoban.md and the class docstrings (Sokoban,         *)
(* DenseReward, SparseReward, State, Observation).                         *)
(*                                                                         *)
(* A level is a num_rows x num_cols board (10 x 10 in jumanji).  Every     *)
(* cell of the FIXED grid is empty (0), a wall (1) or a target (2); every  *)
(* cell of the VARIABLE grid is empty (0), the agent (3) or a box (4).     *)
(* There is one agent and there are n_boxes (4) boxes.  Actions            *)
(* 0 up, 1 right, 2 down, 3 left (class docstring and action_spec; row 0   *)
(* is the top row).                                                        *)
(*                                                                         *)
(* The agent tries to move one cell in the chosen direction:               *)
(*  - destination outside the board or a wall: nothing moves;              *)
(*  - destination holds a box: the box is pushed one cell further iff the  *)
(*    cell behind it is inside the board, not a wall and not another box   *)
(*    ("chained box pushes are not allowed"); otherwise nothing moves;     *)
(*  - otherwise the agent moves.                                           *)
(* In every case "the step count is incremented by one" and the episode    *)
(* goes on.                                                                *)
(*                                                                         *)
(* Dense reward : +1 for each box moved onto a target, -1 for each box     *)
(*                moved off a target, -0.1 for each step, +10 when all     *)
(*                boxes are on targets.                                    *)
(* Sparse reward: 10 when all boxes are on targets, else 0.                *)
(* The episode ends when all boxes are on targets or when the step count   *)
(* reaches time_limit.                                                     *)
(*                                                                         *)
(* State record = jumanji's State without the key:                         *)
(*   [fixed_grid, variable_grid, agent_location (0-based <<row, col>>),    *)
(*    step_count].  Grids are 1-based sequences of rows.                   *)
(* The rules below are stated on the abstract configuration (agent cell,   *)
(* set of box cells); the variable grid of the successor is the rendering  *)
(* of the successor configuration.                                         *)
(***************************************************************************)
EXTENDS EnvKit

CONSTANT Cfg   \* [num_rows, num_cols, n_boxes, time_limit, reward \in {"dense", "sparse"},
               \*  generator \in {"toy", "simple", "levels", "single"}]   ("single": one hand-written level)

NR == Cfg.num_rows
NC == Cfg.num_cols
NB == Cfg.n_boxes
TLimit == Cfg.time_limit

Actions == 0..3
EMPTY == 0  WALL == 1  TARGET == 2  AGENT == 3  BOX == 4

AllCells == (1..NR) \X (1..NC)                      \* 1-based <<row, col>>
Inside(rc) == InGrid(NR, NC, rc)

(* ---------- geometry ---------- *)
Delta(a) == CASE a = 0 -> <<-1, 0>>                  \* up
              [] a = 1 -> <<0, 1>>                   \* right
              [] a = 2 -> <<1, 0>>                   \* down
              [] a = 3 -> <<0, -1>>                  \* left
Shift(rc, a) == <<rc[1] + Delta(a)[1], rc[2] + Delta(a)[2]>>

(* ---------- abstract configuration read off the state ---------- *)
AgentCell(s)  == <<s.agent_location[1] + 1, s.agent_location[2] + 1>>     \* 1-based
BoxCells(s)   == { rc \in AllCells : At(s.variable_grid, rc) = BOX }
AgentMarks(s) == { rc \in AllCells : At(s.variable_grid, rc) = AGENT }
WallCells(s)  == { rc \in AllCells : At(s.fixed_grid, rc) = WALL }
TargetCells(s) == { rc \in AllCells : At(s.fixed_grid, rc) = TARGET }

IsWall(s, rc) == At(s.fixed_grid, rc) = WALL
IsBox(s, rc)  == At(s.variable_grid, rc) = BOX
Open(s, rc)   == Inside(rc) /\ ~IsWall(s, rc)         \* a cell something can stand on
Clear(s, rc)  == Open(s, rc) /\ ~IsBox(s, rc)         \* ... and that holds no box

(* ---------- rules ---------- *)
Pushes(s, a) ==                                       \* the move is a (successful) box push
  LET d == Shift(AgentCell(s), a) IN Open(s, d) /\ IsBox(s, d) /\ Clear(s, Shift(d, a))
Walks(s, a) == Clear(s, Shift(AgentCell(s), a))       \* the move is a plain walk
Legal(s, a) == Walks(s, a) \/ Pushes(s, a)

Render(agent, boxes) ==
  [r \in 1..NR |-> [c \in 1..NC |-> IF <<r, c>> = agent THEN AGENT
                                     ELSE IF <<r, c>> \in boxes THEN BOX ELSE EMPTY]]

A(s) == [fixed_grid |-> s.fixed_grid, variable_grid |-> s.variable_grid,
         agent_location |-> s.agent_location, step_count |-> s.step_count]

StepTo(s, a) ==
  LET ag == AgentCell(s)
      d  == Shift(ag, a)
      bx == BoxCells(s)
      nag == IF Legal(s, a) THEN d ELSE ag
      nbx == IF Pushes(s, a) THEN (bx \ {d}) \cup {Shift(d, a)} ELSE bx
  IN [fixed_grid     |-> s.fixed_grid,
      variable_grid  |-> IF Legal(s, a) THEN Render(nag, nbx) ELSE s.variable_grid,
      agent_location |-> <<nag[1] - 1, nag[2] - 1>>,
      step_count     |-> s.step_count + 1]

OnTarget(s) == Cardinality(BoxCells(s) \cap TargetCells(s))       \* boxes standing on targets
Solved(s) == OnTarget(s) = NB                                       \* all (four) boxes on targets

(* reward of the transition s -> t, as ten times its value (an integer): *)
DenseReward10(s, t)  == 10 * (OnTarget(t) - OnTarget(s)) + (IF Solved(t) THEN 100 ELSE 0) - 1
SparseReward10(s, t) == IF Solved(t) THEN 100 ELSE 0
Reward10(s, t) == IF Cfg.reward = "dense" THEN DenseReward10(s, t) ELSE SparseReward10(s, t)
InvalidReward10 == IF Cfg.reward = "dense" THEN -1 ELSE 0           \* an ignored move only costs the step

EndsAt(t, lim) == Solved(t) \/ t.step_count >= lim
Done(t) == EndsAt(t, TLimit)

(* ---------- observation ---------- *)
Obs(s) == [grid |-> [r \in 1..NR |-> [c \in 1..NC |-> <<s.variable_grid[r][c], s.fixed_grid[r][c]>>]],
           step_count |-> s.step_count]

(* ---------- physical invariants (C07) ---------- *)
GridShape(g, vals) == Len(g) = NR /\ \A r \in 1..NR : Len(g[r]) = NC /\ \A c \in 1..NC : g[r][c] \in vals
ShapesOK(s) == /\ GridShape(s.fixed_grid, {EMPTY, WALL, TARGET})
               /\ GridShape(s.variable_grid, {EMPTY, AGENT, BOX})
               /\ Len(s.agent_location) = 2
AgentInBounds(s)   == Inside(AgentCell(s))
AgentNotInWall(s)  == AgentInBounds(s) => ~IsWall(s, AgentCell(s))
BoxesNotInWall(s)  == BoxCells(s) \cap WallCells(s) = {}
AgentNotOnBox(s)   == AgentInBounds(s) => ~IsBox(s, AgentCell(s))
MarksOffWalls(s)   == AgentMarks(s) \cap WallCells(s) = {}
OneAgent(s)        == Cardinality(AgentMarks(s)) = 1
AgentAgrees(s)     == AgentMarks(s) = {AgentCell(s)}                 \* agent_location = the cell encoded 3
BoxCount(s)        == Cardinality(BoxCells(s))
PhysInv(s) == /\ ShapesOK(s) /\ AgentInBounds(s) /\ AgentNotInWall(s) /\ BoxesNotInWall(s) /\ AgentNotOnBox(s)
              /\ MarksOffWalls(s) /\ OneAgent(s) /\ AgentAgrees(s) /\ BoxCount(s) = NB
FixedConserved(s, t) == t.fixed_grid = s.fixed_grid
BoxesConserved(s, t) == BoxCount(t) = BoxCount(s)
MovesAtMostOneCell(s, t) ==           \* the agent moves 0 or 1 cells; at most one box moves, by one cell, ahead of it
  /\ AgentCell(t) = AgentCell(s) \/ Adjacent4(AgentCell(s), AgentCell(t))
  /\ Cardinality(BoxCells(s) \ BoxCells(t)) <= 1
  /\ (BoxCells(s) \ BoxCells(t) # {} =>
        /\ BoxCells(s) \ BoxCells(t) = {AgentCell(t)}
        /\ \E a \in Actions : AgentCell(t) = Shift(AgentCell(s), a) /\ BoxCells(t) \ BoxCells(s) = {Shift(AgentCell(t), a)})

(* ---------- instance well-formedness (C10) ---------- *)
WellFormedInstance(s) ==
  /\ ShapesOK(s)
  /\ s.step_count = 0
  /\ BoxCount(s) = NB
  /\ Cardinality(TargetCells(s)) = NB
  /\ OneAgent(s) /\ AgentAgrees(s)
  /\ (AgentMarks(s) \cup BoxCells(s)) \cap WallCells(s) = {}        \* entities start on free cells
  /\ ~Solved(s)
=============================================================================
