------------------------------ MODULE Tetris ------------------------------
(***************************************************************************)
(* Reference model of jumanji's Tetris, written from the documentation     *)
(* (docs/environments/tetris.md, class docstring) and the game's rules.    *)
(*                                                                         *)
(* A grid of num_rows x num_cols cells, each empty (0) or filled (1).      *)
(* The player holds one of the seven tetrominoes; an action <<k, x>>       *)
(* chooses a rotation k (k quarter turns, clockwise) and the column x of   *)
(* the leftmost cell of the rotated piece.  The piece enters from above    *)
(* the grid and falls straight down until it rests on a filled cell or on  *)
(* the floor.  The action is legal iff the piece can enter the grid        *)
(* completely: every cell it sweeps on its way to the top of the grid is   *)
(* inside the grid and empty.  After a legal drop, every completely filled *)
(* row disappears and the rows above move down; the reward is              *)
(* 0, 40, 100, 300, 1200 for 0..4 rows cleared at once.  Then a new piece  *)
(* is drawn (any of the seven: the only nondeterministic part).            *)
(* The episode ends when the action was illegal (reward 0), when the new   *)
(* piece cannot be placed anywhere, or when step_count reaches time_limit. *)
(*                                                                         *)
(* Coordinates inside this module are 0-based <<row, col>>, row 0 on top   *)
(* (as in the implementation's data); grids are 1-based seq of seq.        *)
(***************************************************************************)
EXTENDS EnvKit

CONSTANT Cfg         \* [num_rows |-> .., num_cols |-> .., time_limit |-> .., ...]
NR == Cfg.num_rows
NC == Cfg.num_cols
TL == Cfg.time_limit

Pieces    == 0..6
Rotations == 0..3
Actions   == { <<k, x>> : k \in Rotations, x \in 0..(NC - 1) }
RewardList == <<0, 40, 100, 300, 1200>>          \* docs: reward_list, indexed by #cleared lines

(* ---------- the seven tetrominoes ---------- *)
(* Rotation 0 of each piece as a set of cells, bounding box anchored at <<0, 0>>.
   Order of the implementation's table: I, S, Z, O, T, L, J. *)
BaseCells ==
  << { <<0,0>>, <<1,0>>, <<2,0>>, <<3,0>> },      \* 0  I   #      (upright)
                                                  \*        #
                                                  \*        #
                                                  \*        #
     { <<0,1>>, <<0,2>>, <<1,0>>, <<1,1>> },      \* 1  S   .##
                                                  \*        ##.
     { <<0,0>>, <<0,1>>, <<1,1>>, <<1,2>> },      \* 2  Z   ##.
                                                  \*        .##
     { <<0,0>>, <<0,1>>, <<1,0>>, <<1,1>> },      \* 3  O   ##
                                                  \*        ##
     { <<0,0>>, <<0,1>>, <<0,2>>, <<1,1>> },      \* 4  T   ###
                                                  \*        .#.
     { <<0,0>>, <<1,0>>, <<2,0>>, <<2,1>> },      \* 5  L   #.
                                                  \*        #.
                                                  \*        ##
     { <<0,1>>, <<1,1>>, <<2,0>>, <<2,1>> } >>    \* 6  J   .#
                                                  \*        .#
                                                  \*        ##

ShapeHeight(S) == 1 + (CHOOSE m \in { cl[1] : cl \in S } : \A cl \in S : cl[1] <= m)
(* a quarter turn clockwise; the image is again anchored at <<0, 0>> *)
QuarterTurn(S) == LET H == ShapeHeight(S) IN { <<cl[2], H - 1 - cl[1]>> : cl \in S }
RECURSIVE Turned(_, _)
Turned(S, k) == IF k = 0 THEN S ELSE QuarterTurn(Turned(S, k - 1))

ShapeTable == TLCEval([p \in Pieces |-> [k \in Rotations |-> Turned(BaseCells[p + 1], k)]])
Shape(p, k) == IF p \in Pieces /\ k \in Rotations THEN ShapeTable[p][k] ELSE {}
ShapeMatrix(S) == [r \in 1..4 |-> [c \in 1..4 |-> IF <<r - 1, c - 1>> \in S THEN 1 ELSE 0]]
TetrominoTable == [p \in 1..7 |-> [k \in 1..4 |-> ShapeMatrix(Shape(p - 1, k - 1))]]   \* layout of constants.TETROMINOES_LIST

(* ---------- legality: the piece can enter the grid from above ---------- *)
\* abstract state  s = [grid (NR x NC of 0/1), piece, step_count]
EmptyAt(g, r, c) == r \in 0..(NR - 1) /\ c \in 0..(NC - 1) /\ g[r + 1][c + 1] = 0

(* cells swept while the piece slides from above the grid down to y = 0 at column x *)
Swept(S, x) == UNION { { <<rr, x + cl[2]>> : rr \in 0..cl[1] } : cl \in S }
EntersGrid(g, S, x) == \A cl \in Swept(S, x) : EmptyAt(g, cl[1], cl[2])

Legal(s, a) == s.piece \in Pieces /\ EntersGrid(s.grid, Shape(s.piece, a[1]), a[2])
Mask(s) == [k \in 1..4 |-> [x \in 1..NC |-> Legal(s, <<k - 1, x - 1>>)]]          \* (rotation, column) layout
NoMove(s) == \A a \in Actions : ~Legal(s, a)

(* ---------- the drop ---------- *)
Fits(g, S, x, y) == \A cl \in S : EmptyAt(g, y + cl[1], x + cl[2])
(* resting row: the piece keeps falling while it fits one row lower *)
DropY(g, S, x) == CHOOSE y \in 0..(NR - 1) : (\A yy \in 0..y : Fits(g, S, x, yy)) /\ ~Fits(g, S, x, y + 1)
Place(g, S, x, y) == [r \in 1..NR |-> [c \in 1..NC |-> IF <<r - 1 - y, c - 1 - x>> \in S THEN 1 ELSE g[r][c]]]
Dropped(g, S, x) == Place(g, S, x, DropY(g, S, x))

(* ---------- line clearing ---------- *)
RowFull(row) == \A c \in 1..NC : row[c] = 1
FullRows(g) == { r \in 1..NR : RowFull(g[r]) }
EmptyRow == [c \in 1..NC |-> 0]
ClearLines(g) ==
  LET kept == SelectSeq(g, LAMBDA row : ~RowFull(row))
  IN  [j \in 1..(NR - Len(kept)) |-> EmptyRow] \o kept

(* ---------- transition relation, reward, termination ---------- *)
AfterDrop(s, a) == Dropped(s.grid, Shape(s.piece, a[1]), a[2])             \* grid with the piece, before clearing

(* Everything the rules determine about playing a in s.  An illegal action ends the episode with reward 0;
   the documentation promises nothing about the grid then (`grid` is only meaningful when `legal`). *)
Outcome(s, a) ==
  IF Legal(s, a)
  THEN LET g1 == AfterDrop(s, a)  full == FullRows(g1) IN
       [legal |-> TRUE, dropped |-> g1, full |-> full, cleared |-> Cardinality(full),
        grid |-> ClearLines(g1), reward |-> RewardList[Cardinality(full) + 1]]
  ELSE [legal |-> FALSE, dropped |-> s.grid, full |-> {}, cleared |-> 0, grid |-> s.grid, reward |-> 0]

NumCleared(s, a) == Outcome(s, a).cleared
NextGrid(s, a) == Outcome(s, a).grid
Reward(s, a) == Outcome(s, a).reward

(* o is Outcome(s, a): the variants with suffix O let callers evaluate the outcome once *)
StepRelO(s, o, t) ==
  /\ t.step_count = s.step_count + 1
  /\ t.piece \in Pieces                                                      \* any of the seven
  /\ o.legal => t.grid = o.grid
DoneO(o, t) == ~o.legal \/ t.step_count >= TL \/ NoMove(t)

StepRel(s, a, t) == StepRelO(s, Outcome(s, a), t)
Done(s, a, t) == DoneO(Outcome(s, a), t)

(* ---------- observation ---------- *)
Obs(s) == [grid |-> s.grid,
           tetromino |-> ShapeMatrix(Shape(s.piece, 0)),
           action_mask |-> Mask(s),
           step_count |-> s.step_count]

(* ---------- physical consistency / conservation (C07) ---------- *)
CellCount(g) == GridSum(g)
GridBinary(g) == Len(g) = NR /\ \A r \in 1..NR : Len(g[r]) = NC /\ \A c \in 1..NC : g[r][c] \in {0, 1}
NoFullRow(g) == FullRows(g) = {}
PhysInv(s) == GridBinary(s.grid) /\ NoFullRow(s.grid)
(* every placed piece adds 4 cells, every cleared row removes num_cols cells *)
CellLaw(g, g2) == \E k \in 0..4 : CellCount(g2) = CellCount(g) + 4 - NC * k

(* ---------- what reset returns (C10) ---------- *)
WellFormedInstance(s) == s.grid = [r \in 1..NR |-> EmptyRow] /\ s.step_count = 0 /\ s.piece \in Pieces
=============================================================================
