---------------------------- MODULE SlidingTile ----------------------------
(***************************************************************************)
(* Reference model of the sliding tile puzzle ((N*N - 1)-puzzle) as        *)
(* documented by jumanji (docs/environments/sliding_tile_puzzle.md and the *)
(* class / reward docstrings).                                             *)
(*                                                                         *)
(* An N x N grid holds the tiles 1 .. N*N-1 and the empty tile 0, each     *)
(* exactly once.  Actions move the EMPTY tile: 0 up, 1 right, 2 down,      *)
(* 3 left.  A move is legal iff the empty tile stays inside the grid; a    *)
(* legal move swaps the empty tile with the neighbour in that direction,   *)
(* an illegal move is ignored (nothing changes, the episode continues).    *)
(* The goal is 1, 2, ..., N*N-1 in reading order with the empty tile in    *)
(* the bottom-right corner.  The episode ends when the puzzle is solved or *)
(* after time_limit steps.                                                 *)
(* Dense reward: (+1 per newly correctly placed tile, -1 per newly         *)
(* incorrectly placed tile), i.e. the change of the number of correctly    *)
(* placed tiles (the empty tile is a tile).  Sparse reward: 1 if the       *)
(* puzzle is solved after the move, 0 otherwise.                           *)
(*                                                                         *)
(* Data conventions: puzzle = sequence of rows (1-based in TLA+),          *)
(* empty_tile_position = <<row, col>> 0-based as in the implementation.    *)
(***************************************************************************)
EXTENDS EnvKit

CONSTANT Cfg   \* [grid_size, time_limit, reward_fn ("dense"|"sparse"), generator ("random_walk"|"enum"|"randperm"), num_random_moves]

N == Cfg.grid_size
TLimit == Cfg.time_limit
Idx == 1..N
Pos == Idx \X Idx
Actions == 0..3                    \* up, right, down, left (of the empty tile)
Opp(a) == (a + 2) % 4              \* the opposite direction

Delta(a) == CASE a = 0 -> <<-1, 0>> [] a = 1 -> <<0, 1>> [] a = 2 -> <<1, 0>> [] a = 3 -> <<0, -1>>

(* ---------- boards ---------- *)
Goal == [r \in Idx |-> [c \in Idx |-> IF r = N /\ c = N THEN 0 ELSE (r - 1) * N + c]]

GridShape(p) == Len(p) = N /\ \A r \in Idx : Len(p[r]) = N
TileCount(p, v) == Cardinality({ rc \in Pos : p[rc[1]][rc[2]] = v })
(* the multiset of pieces is exactly {0, 1, ..., N*N-1}, each once *)
IsPerm(p) == GridShape(p) /\ \A v \in 0..(N * N - 1) : TileCount(p, v) = 1

BlankCells(p) == { rc \in Pos : p[rc[1]][rc[2]] = 0 }
Blank(p) == CHOOSE rc \in BlankCells(p) : TRUE            \* 1-based cell of the empty tile (IsPerm(p) assumed)
Blank0(p) == <<Blank(p)[1] - 1, Blank(p)[2] - 1>>          \* 0-based, as the implementation reports it

Dest(b, a) == <<b[1] + Delta(a)[1], b[2] + Delta(a)[2]>>
Legal(p, a) == InGrid(N, N, Dest(Blank(p), a))            \* the empty tile stays inside the grid
Mask(p) == [j \in 1..4 |-> Legal(p, j - 1)]

(* exchange the contents of cells x and y, every other cell untouched: a transposition of positions *)
SwapCells(p, x, y) ==
  [r \in Idx |-> [c \in Idx |-> IF <<r, c>> = x THEN p[y[1]][y[2]]
                                ELSE IF <<r, c>> = y THEN p[x[1]][x[2]] ELSE p[r][c]]]

Move(p, a) == IF Legal(p, a) THEN SwapCells(p, Blank(p), Dest(Blank(p), a)) ELSE p

(* ---------- objective / reward / termination ---------- *)
Solved(p) == p = Goal
Correct(p) == Cardinality({ rc \in Pos : p[rc[1]][rc[2]] = Goal[rc[1]][rc[2]] })   \* correctly placed tiles (empty tile included)
RewardDense(p, q) == Correct(q) - Correct(p)
RewardSparse(q) == IF Solved(q) THEN 1 ELSE 0
RewardOf(fn, p, q) == IF fn = "dense" THEN RewardDense(p, q) ELSE RewardSparse(q)
OtherFn(fn) == IF fn = "dense" THEN "sparse" ELSE "dense"
(* documented return of an episode that started in p0 and ended in q *)
ObjectiveOf(fn, p0, q) == IF fn = "dense" THEN Correct(q) - Correct(p0) ELSE (IF Solved(q) THEN 1 ELSE 0)

(* ---------- abstract state and transition ---------- *)
\* s = [puzzle, empty_tile_position, step_count]
StepTo(s, a) ==
  LET q == Move(s.puzzle, a) IN
  [puzzle |-> q, empty_tile_position |-> Blank0(q), step_count |-> s.step_count + 1]
Reward(s, a, t) == RewardOf(Cfg.reward_fn, s.puzzle, t.puzzle)
Done(t) == Solved(t.puzzle) \/ t.step_count >= TLimit

Obs(s) == [puzzle |-> s.puzzle, empty_tile_position |-> Blank0(s.puzzle),
           action_mask |-> Mask(s.puzzle), step_count |-> s.step_count]

(* ---------- solvability (classical criterion, en.wikipedia.org/wiki/15_puzzle) ---------- *)
Flat(p) == [k \in 1..(N * N) |-> p[((k - 1) \div N) + 1][((k - 1) % N) + 1]]
(* inversions among the numbered tiles (the empty tile is skipped) *)
Inversions(p) ==
  LET f == Flat(p) IN
  Cardinality({ ij \in (1..(N * N)) \X (1..(N * N)) : ij[1] < ij[2] /\ f[ij[1]] # 0 /\ f[ij[2]] # 0 /\ f[ij[1]] > f[ij[2]] })
BlankRowFromBottom(p) == N - Blank(p)[1] + 1              \* 1 = bottom row
Solvable(p) ==
  IF N % 2 = 1 THEN Inversions(p) % 2 = 0
  ELSE (Inversions(p) + BlankRowFromBottom(p)) % 2 = 1

(* A second, independent criterion used to cross-check the first in the MC model: read the empty tile as
   the piece N*N; every move is a transposition (flips the permutation parity) and moves the empty tile by
   one cell (flips the parity of its taxicab distance to the goal corner). *)
InversionsAll(p) ==
  LET f == [k \in 1..(N * N) |-> IF Flat(p)[k] = 0 THEN N * N ELSE Flat(p)[k]] IN
  Cardinality({ ij \in (1..(N * N)) \X (1..(N * N)) : ij[1] < ij[2] /\ f[ij[1]] > f[ij[2]] })
BlankDist(p) == (N - Blank(p)[1]) + (N - Blank(p)[2])     \* taxicab distance of the empty tile to its goal cell
SolvableAlt(p) == (InversionsAll(p) + BlankDist(p)) % 2 = 0

(* ---------- what reset may return ---------- *)
WellFormedInstance(s) ==
  /\ IsPerm(s.puzzle)
  /\ s.empty_tile_position = Blank0(s.puzzle)
  /\ s.step_count = 0
  /\ Solvable(s.puzzle)
(* a walk of K valid moves from the goal: the empty tile is at taxicab distance <= K of its corner, same parity as K *)
WalkParity(p, K) == BlankDist(p) <= K /\ BlankDist(p) % 2 = K % 2
=============================================================================
