------------------------------ MODULE Cleaner ------------------------------
(***************************************************************************)
(* Reference model of jumanji's Cleaner, written from                      *)
(* docs/environments/cleaner.md and the class docstring.                   *)
(*                                                                         *)
(* A room is a num_rows x num_cols matrix of tiles: dirty (0), clean (1)   *)
(* or wall (2).  num_agents agents stand on tiles (several agents may       *)
(* share a tile; they all start in the top left corner, which is clean).   *)
(* A joint action gives every agent one of up (0), right (1), down (2),    *)
(* left (3); row 0 is the top row.  An agent's move is LEGAL iff the tile  *)
(* it leads to lies inside the room and is not a wall ("an action is       *)
(* masked if it leads to a WALL or out of the maze").  Every agent whose   *)
(* own move is legal moves one tile; an agent whose move is illegal keeps  *)
(* its position ("the agent's position remains unchanged") and the episode *)
(* terminates.  Every dirty tile under an agent becomes clean.  The reward *)
(* is shared: the number of tiles cleaned during the step minus            *)
(* penalty_per_timestep (0.5 by default).  The episode ends when some      *)
(* agent's action was illegal, when no dirty tile is left, or when the     *)
(* step number reaches time_limit (default num_rows * num_cols).  Walls    *)
(* never change and a clean tile never becomes dirty again.                *)
(*                                                                         *)
(* State record (jumanji's field names):                                   *)
(*   grid             1-based sequence of rows of tile codes               *)
(*   agents_locations sequence (one entry per agent) of 0-based <<row,col>>*)
(*   step_count                                                            *)
(*   (+ action_mask, a cached copy of the mask judged by C04/C12)          *)
(* A joint action is a sequence act[1..num_agents] of 0..3.                *)
(***************************************************************************)
EXTENDS EnvKit

CONSTANT Cfg   \* [num_rows, num_cols, num_agents, time_limit_given (BOOLEAN), time_limit (0 if not given),
               \*  penalty_q (penalty_per_timestep in fixed point, round(p * 65536))]

NR == Cfg.num_rows
NC == Cfg.num_cols
NA == Cfg.num_agents
Agents == 1..NA
DefaultTimeLimit == NR * NC                       \* "Defaults to num_rows * num_cols"
TLimit == IF Cfg.time_limit_given THEN Cfg.time_limit ELSE DefaultTimeLimit
PenaltyQ == Cfg.penalty_q

DIRTY == 0
CLEAN == 1
WALL  == 2
Codes == {DIRTY, CLEAN, WALL}

Actions == 0..3
UP == 0  RIGHT == 1  DOWN == 2  LEFT == 3
JointActions == [Agents -> Actions]

(* ---------- geometry (0-based <<row, col>> positions) ---------- *)
Dest(p, a) ==
  CASE a = UP    -> <<p[1] - 1, p[2]>>
    [] a = RIGHT -> <<p[1], p[2] + 1>>
    [] a = DOWN  -> <<p[1] + 1, p[2]>>
    [] a = LEFT  -> <<p[1], p[2] - 1>>
Inside(p) == p[1] \in 0..(NR - 1) /\ p[2] \in 0..(NC - 1)
Code(g, p) == g[p[1] + 1][p[2] + 1]                       \* only meaningful when Inside(p)
FreeCell(g, p) == Inside(p) /\ Code(g, p) # WALL
AllCells == (0..(NR - 1)) \X (0..(NC - 1))

(* ---------- the rules ---------- *)
LegalAg(s, ag, a) == FreeCell(s.grid, Dest(s.agents_locations[ag], a))
LegalAll(s, act) == \A ag \in Agents : LegalAg(s, ag, act[ag])
Offenders(s, act) == { ag \in Agents : ~LegalAg(s, ag, act[ag]) }
Mask(s) == [ag \in Agents |-> [j \in 1..4 |-> LegalAg(s, ag, j - 1)]]      \* (num_agents, 4), as observed

NextLocs(s, act) ==
  [ag \in Agents |-> IF LegalAg(s, ag, act[ag]) THEN Dest(s.agents_locations[ag], act[ag])
                                               ELSE s.agents_locations[ag]]
Occupied(locs) == { locs[ag] : ag \in Agents }
CleanUnder(g, locs) ==
  LET occ == Occupied(locs) IN
  [r \in 1..NR |-> [c \in 1..NC |-> IF g[r][c] = DIRTY /\ <<r - 1, c - 1>> \in occ THEN CLEAN ELSE g[r][c]]]
NewlyCleaned(s, act) ==                                        \* tiles, not agents: two agents entering one tile clean one
  Cardinality({ p \in Occupied(NextLocs(s, act)) : Inside(p) /\ Code(s.grid, p) = DIRTY })

A(s) == [grid |-> s.grid, agents_locations |-> s.agents_locations, step_count |-> s.step_count]

StepTo(s, act) ==
  [grid             |-> CleanUnder(s.grid, NextLocs(s, act)),
   agents_locations |-> NextLocs(s, act),
   step_count       |-> s.step_count + 1]

RewardQ(s, act) == NewlyCleaned(s, act) * FX - PenaltyQ        \* fixed point
NoDirty(g) == \A p \in AllCells : Code(g, p) # DIRTY
OtherEnd(s, act) == ~LegalAll(s, act) \/ NoDirty(StepTo(s, act).grid)   \* end reasons other than the time limit
EndsAt(s, act, lim) == OtherEnd(s, act) \/ s.step_count + 1 >= lim
Done(s, act) == EndsAt(s, act, TLimit)

(* ---------- observation ---------- *)
Obs(s) == [grid             |-> s.grid,
           agents_locations |-> s.agents_locations,
           action_mask      |-> Mask(s),
           step_count       |-> s.step_count]

(* ---------- physical invariants and conservation (C07) ---------- *)
GridShape(g) == /\ Len(g) = NR
                /\ \A r \in 1..NR : Len(g[r]) = NC /\ \A c \in 1..NC : g[r][c] \in Codes
LocsShape(l) == Len(l) = NA /\ \A ag \in Agents : Len(l[ag]) = 2
ActShape(act) == Len(act) = NA /\ \A ag \in Agents : act[ag] \in Actions
AgentsInBounds(s) == \A ag \in Agents : Inside(s.agents_locations[ag])
AgentsNotInWall(s) == \A ag \in Agents : Inside(s.agents_locations[ag]) => Code(s.grid, s.agents_locations[ag]) # WALL
AgentsOnCleanTiles(s) ==     \* positions agree with the grid encoding: a visited tile is clean
  \A ag \in Agents : Inside(s.agents_locations[ag]) => Code(s.grid, s.agents_locations[ag]) = CLEAN
PhysInv(s) == /\ GridShape(s.grid) /\ LocsShape(s.agents_locations) /\ AgentsInBounds(s)
              /\ AgentsNotInWall(s) /\ AgentsOnCleanTiles(s)

WallsFixed(s, t) == \A p \in AllCells : (Code(s.grid, p) = WALL) <=> (Code(t.grid, p) = WALL)
CleanStaysClean(s, t) == \A p \in AllCells : Code(s.grid, p) = CLEAN => Code(t.grid, p) = CLEAN
DirtyOnlyCleanedUnderAgent(s, t) ==
  \A p \in AllCells : (Code(s.grid, p) = DIRTY /\ Code(t.grid, p) # DIRTY)
                        => (Code(t.grid, p) = CLEAN /\ p \in Occupied(t.agents_locations))
MovesAtMostOneCell(s, t) ==
  \A ag \in Agents : Abs(t.agents_locations[ag][1] - s.agents_locations[ag][1])
                   + Abs(t.agents_locations[ag][2] - s.agents_locations[ag][2]) <= 1

(* ---------- illegal actions (C05): what must stay untouched ---------- *)
\* the offending agents keep their positions and nothing is cleaned (or otherwise changed) on their behalf:
\* the only tiles that may change are the destinations of the agents whose own move was legal
OffendersKeepPosition(s, act, t) == \A ag \in Offenders(s, act) : t.agents_locations[ag] = s.agents_locations[ag]
NothingChangedForOffenders(s, act, t) ==
  LET movers == { Dest(s.agents_locations[ag], act[ag]) : ag \in Agents \ Offenders(s, act) } IN
  \A p \in AllCells : Code(t.grid, p) # Code(s.grid, p) => p \in movers

(* ---------- what reset may return (C10) ---------- *)
FreeCells(g) == { rc \in (1..NR) \X (1..NC) : g[rc[1]][rc[2]] # WALL }
Connected(g) ==
  LET free == FreeCells(g) IN
  free = {} \/ Reach(NR, NC, free, { CHOOSE p \in free : TRUE }) = free
(* maze_generation (recursive division): "vertical walls will have an odd x coordinate while horizontal walls
   will have an odd y coordinate" (0-based): a tile whose two coordinates are even is never a wall *)
WallParity(g) == \A rc \in (1..NR) \X (1..NC) : g[rc[1]][rc[2]] = WALL => ((rc[1] - 1) % 2 = 1 \/ (rc[2] - 1) % 2 = 1)
AllStartAtOrigin(s) == \A ag \in Agents : s.agents_locations[ag] = <<0, 0>>
OnlyOriginClean(g) ==     \* "All the tiles except upper left are dirty"
  /\ g[1][1] = CLEAN
  /\ \A rc \in (1..NR) \X (1..NC) : rc # <<1, 1>> => g[rc[1]][rc[2]] \in {DIRTY, WALL}
WellFormedInstance(s) ==
  /\ GridShape(s.grid) /\ LocsShape(s.agents_locations)
  /\ s.step_count = 0
  /\ AllStartAtOrigin(s)
  /\ OnlyOriginClean(s.grid)
  /\ Connected(s.grid)
(* the recursive division draws a wall position among floor(n/2) odd offsets and a passage among ceil(m/2) even
   offsets: on very small rooms there is nothing to draw and the (random) generator is necessarily constant *)
GeneratorHasChoice == NR >= 2 /\ NC >= 2 /\ (Max2(NR, NC) >= 4 \/ Min2(NR, NC) >= 3)
GeneratorHasManyChoices == Min2(NR, NC) >= 3 /\ Max2(NR, NC) >= 4      \* >= 2 wall offsets and >= 2 passages at the first division

(* ---------- objective (C08): tiles cleaned minus the step penalties, fixed point ---------- *)
CleanCount(g) == Cardinality({ p \in AllCells : Code(g, p) = CLEAN })
Objective(s) == (CleanCount(s.grid) - 1) * FX - PenaltyQ * s.step_count      \* the origin is clean from the start
=============================================================================
