---------------------------- MODULE RubiksCube ----------------------------
(***************************************************************************)
(* Reference model of jumanji's Rubik's cube, stated GEOMETRICALLY (no     *)
(* index tables): the n x n x n cube is the box [0, M]^3 in doubled        *)
(* integer coordinates (M = 2n), cell centres at odd coordinates, stickers *)
(* at the centres of the cell faces lying on the box surface.              *)
(*                                                                         *)
(* Axes  x: LEFT -> RIGHT,  y: FRONT -> BACK,  z: DOWN -> UP.              *)
(* Faces (documented order) 0 UP, 1 FRONT, 2 RIGHT, 3 BACK, 4 LEFT, 5 DOWN.*)
(* Each face is read in reading order when looked at from outside with     *)
(*   UP:    LEFT on the left,  BACK pointing up                            *)
(*   FRONT: LEFT on the left,  UP pointing up                              *)
(*   RIGHT: FRONT on the left, UP pointing up                              *)
(*   BACK:  RIGHT on the left, UP pointing up                              *)
(*   LEFT:  BACK on the left,  UP pointing up                              *)
(*   DOWN:  LEFT on the left,  FRONT pointing up                           *)
(* An action (face, depth, amount) turns the layer of cubies whose         *)
(* distance from `face` is `depth` (0 = the outer layer) by a quarter turn *)
(* clockwise (amount 0), anticlockwise (1) or by a half turn (2), as seen  *)
(* when looking directly at `face`.  depth ranges over 0 .. n div 2 - 1.   *)
(* Flat action index = face * 3 * (n div 2) + depth * 3 + amount.          *)
(* Reward 1 iff the new cube is solved (every face of a single colour),    *)
(* else 0; the episode ends when the cube is solved or after time_limit    *)
(* steps.  Reset: the solved cube (face f has colour f) with               *)
(* num_scrambles uniformly drawn flat actions applied.                     *)
(*                                                                         *)
(* Cubes are handled FLAT: a sequence of K = 6 n^2 values, sticker         *)
(* (face, r, c) (0-based) at index face * n^2 + r * n + c + 1.             *)
(***************************************************************************)
EXTENDS EnvKit

CONSTANT Cfg     \* [cube_size, time_limit, num_scrambles, mode, label, ...]

N  == Cfg.cube_size
M  == 2 * N
NN == N * N
K  == 6 * NN
ND == N \div 2                  \* number of depths
NM == 18 * ND                   \* number of moves
TimeLimit == Cfg.time_limit

UP == 0  FRONT == 1  RIGHT == 2  BACK == 3  LEFT == 4  DOWN == 5
FaceIds == 0..5

(* ---------- geometry ---------- *)
Od(j) == 2 * j + 1              \* doubled coordinate of the centre of cell j (0-based)

\* position of the sticker in row r, column c (0-based, reading order) of face f
StickerPos(f, r, c) ==
  CASE f = UP    -> <<Od(c),     M - Od(r), M>>
    [] f = FRONT -> <<Od(c),     0,         M - Od(r)>>
    [] f = RIGHT -> <<M,         Od(c),     M - Od(r)>>
    [] f = BACK  -> <<M - Od(c), M,         M - Od(r)>>
    [] f = LEFT  -> <<0,         M - Od(c), M - Od(r)>>
    [] f = DOWN  -> <<Od(c),     Od(r),     0>>

\* outward normal of a face
Normal(f) ==
  CASE f = UP    -> <<0, 0, 1>>
    [] f = FRONT -> <<0, -1, 0>>
    [] f = RIGHT -> <<1, 0, 0>>
    [] f = BACK  -> <<0, 1, 0>>
    [] f = LEFT  -> <<-1, 0, 0>>
    [] f = DOWN  -> <<0, 0, -1>>

Dot(u, v)   == u[1] * v[1] + u[2] * v[2] + u[3] * v[3]
Cross(u, v) == <<u[2] * v[3] - u[3] * v[2], u[3] * v[1] - u[1] * v[3], u[1] * v[2] - u[2] * v[1]>>
FromCentre(p) == <<p[1] - N, p[2] - N, p[3] - N>>         \* the cube centre is (N, N, N)

\* quarter turn about the outward normal of face f, clockwise for an observer looking at f from outside:
\* v -> n (n.v) - n x v
Quarter(f, p) ==
  LET nn == Normal(f)  v == FromCentre(p)  d == Dot(nn, v)  x == Cross(nn, v)
  IN  <<N + nn[1] * d - x[1], N + nn[2] * d - x[2], N + nn[3] * d - x[3]>>
RECURSIVE Quarters(_, _, _)
Quarters(f, p, t) == IF t = 0 THEN p ELSE Quarters(f, Quarter(f, p), t - 1)

\* distance of a surface point from the plane of face f, measured along the inward normal (doubled units)
DistFromFace(f, p) == N - Dot(Normal(f), FromCentre(p))
\* the stickers carried by the layer at `depth` below face f: the ring of the layer, plus the face itself for depth 0
InLayer(f, depth, p) ==
  LET dist == DistFromFace(f, p) IN dist = 2 * depth + 1 \/ (depth = 0 /\ dist = 0)

QuarterTurns(amount) == CASE amount = 0 -> 1 [] amount = 1 -> 3 [] amount = 2 -> 2   \* clockwise quarter turns

(* ---------- flat indexing ---------- *)
FaceOf(k) == k \div NN          \* k: 0-based flat sticker index
RowOf(k)  == (k % NN) \div N
ColOf(k)  == k % N
PosOf == TLCEval([k \in 0..(K - 1) |-> StickerPos(FaceOf(k), RowOf(k), ColOf(k))])
\* inverse of PosOf (exists iff the K positions are pairwise distinct)
IdxOf == TLCEval([p \in { PosOf[k] : k \in 0..(K - 1) } |-> CHOOSE k \in 0..(K - 1) : PosOf[k] = p])

(* ---------- actions ---------- *)
ActionTriples == { <<f, d, m>> : f \in FaceIds, d \in 0..(ND - 1), m \in 0..2 }
FlatOf(u)  == u[1] * 3 * ND + u[2] * 3 + u[3]
UnflatOf(a) == <<a \div (3 * ND), (a \div 3) % ND, a % 3>>
FlatActions == 0..(NM - 1)

\* After the move u, the sticker now at position q is the one that was at SrcPos(u, q):
\* a sticker at p of the layer travels to Quarter^t(p), hence q receives from Quarter^(4-t)(q).
SrcPos(u, q) ==
  IF InLayer(u[1], u[2], q) THEN Quarters(u[1], q, 4 - QuarterTurns(u[3])) ELSE q

\* MoveSrc[a][k]: 0-based flat index of the sticker that ends at flat index k under flat action a
MoveSrc == TLCEval([a \in FlatActions |-> TLCEval([k \in 0..(K - 1) |-> IdxOf[SrcPos(UnflatOf(a), PosOf[k])]])])

ApplyFlat(fc, a) == TLCEval([k \in 1..K |-> fc[MoveSrc[a][k - 1] + 1]])
ApplyMove(fc, u) == ApplyFlat(fc, FlatOf(u))
RECURSIVE ApplySeq(_, _, _)
ApplySeq(fc, sq, j) == IF j > Len(sq) THEN fc ELSE ApplySeq(ApplyFlat(fc, sq[j]), sq, j + 1)

(* ---------- cubes ---------- *)
\* nested (6 x n x n, as in the State) -> flat
FlatCube(c) == [k \in 1..K |-> c[FaceOf(k - 1) + 1][RowOf(k - 1) + 1][ColOf(k - 1) + 1]]
CubeShape(c) == Len(c) = 6 /\ \A f \in 1..6 : Len(c[f]) = N /\ \A r \in 1..N : Len(c[f][r]) = N
SolvedFlat == [k \in 1..K |-> FaceOf(k - 1)]
IdFlat     == [k \in 1..K |-> k - 1]                                  \* all stickers distinct: sticker ids

\* solved: every face shows a single colour
Solved(fc) == \A f \in FaceIds : \A j \in 1..NN : fc[f * NN + j] = fc[f * NN + 1]

CountOf(fc, v) == Cardinality({ k \in 1..K : fc[k] = v })
SameMultiset(fc, gc) == \A v \in Range(fc) \cup Range(gc) : CountOf(fc, v) = CountOf(gc, v)

(* ---------- transition, reward, termination, observation ---------- *)
\* abstract state [cube (flat), step_count]
StepState(s, u) == [cube |-> ApplyMove(s.cube, u), step_count |-> s.step_count + 1]
Reward(t) == IF Solved(t.cube) THEN 1 ELSE 0
Done(t) == Solved(t.cube) \/ t.step_count >= TimeLimit
Obs(s) == [cube |-> s.cube, step_count |-> s.step_count]              \* s: the (nested) State

\* what reset may return given the scramble it drew
ScrambleOK(sq) == Len(sq) = Cfg.num_scrambles /\ \A j \in 1..Len(sq) : sq[j] \in FlatActions
ScrambledCube(sq) == ApplySeq(SolvedFlat, sq, 1)

(* ---------- permutation algebra (0-based images stored in 1-based sequences) ---------- *)
PermCompose(p, q) == [k \in 1..K |-> p[q[k] + 1]]
IsPerm(p) == Len(p) = K /\ { p[k] : k \in 1..K } = 0..(K - 1)
MovePerm(a) == [k \in 1..K |-> MoveSrc[a][k - 1]]        \* = ApplyFlat(IdFlat, a)
=============================================================================
