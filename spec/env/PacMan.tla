---------------------------- MODULE PacMan ----------------------------
(***************************************************************************)
(* Reference model of jumanji's PacMan, written from the documentation     *)
(* (docs/environments/pac_man.md, class docstrings).  It is a PARTIAL      *)
(* specification: the four ghosts are steered by heuristics that the       *)
(* documentation does not pin down, so a ghost move is a nondeterministic  *)
(* choice from an admissible set (stay; one step to a free 4-neighbour,    *)
(* the map wrapping around at its border = the tunnel; back to its spawn   *)
(* cell when it is eaten in scatter mode).  Everything about the player,   *)
(* the walls, the pellets, the power-ups, the scatter timer and the end of *)
(* the episode is specified exactly.                                       *)
(*                                                                         *)
(* The map is an R x C board of walls and corridors.  Every corridor cell  *)
(* starts with a pellet, four of them also carry a power-up.  The player   *)
(* picks a direction each step; it moves one cell if the target cell       *)
(* (modulo the board size: the tunnel wraps) is not a wall and otherwise   *)
(* stays where it is ("even if an action is in an invalid direction it     *)
(* will still be taken as input and the player will remain stationary").   *)
(* The no-op "will not stop but instead take the last action that was      *)
(* selected".  Standing on a pellet collects it (+10, removed from the     *)
(* map), a power-up starts scatter mode for 30 steps; touching a ghost     *)
(* ends the game unless scatter mode is on, in which case the ghost goes   *)
(* back to the centre.  The episode ends when the player is dead, no       *)
(* pellet is left or time_limit steps have been played (default 1000).     *)
(*                                                                         *)
(* Conventions resolved by reading the code (index conventions only):      *)
(*  * cells are <<row, col>>, 0-based; `Position.x` is the ROW and         *)
(*    `Position.y` the COLUMN; the (n,2) location arrays hold <<col,row>>; *)
(*    an entry <<0,0>> of pellet_locations / power_up_locations means      *)
(*    "collected" (cell <<0,0>> is a wall on every map used here);         *)
(*  * `grid` holds 1 for a corridor cell and 0 for a wall (the 5x5 example *)
(*    of the docs page, copied from Maze, says the opposite);              *)
(*  * actions 0..3 displace the player by (-1,0), (0,-1), (+1,0), (0,+1)   *)
(*    i.e. up, LEFT, down, RIGHT on the rendered map (the docs label 1 as  *)
(*    "right" and 3 as "left" in one place and list "up, left, right,      *)
(*    down" in another); 4 is the no-op.                                   *)
(***************************************************************************)
EXTENDS EnvKit, TLCExt

CONSTANT Cfg   \* [rows, cols, walls (seq of seq, 1 = wall), player_start, ghost_spawns, power_ups (0-based <<row, col>>
               \*  as sequences), time_limit, time_limit_given, scatter_time, maze]

(* Constant-level definitions are evaluated once by TLC; each mentions Cfg a bounded number of times (in trace
   validation Cfg is read from the trace file, which is expensive before TLC has cached it). *)
R == TLCEval(Cfg.rows)
C == TLCEval(Cfg.cols)
Walls == TLCEval(Cfg.walls)
Actions == 0..4
NOOP == 4
Dirs == 0..3
ScatterTime == TLCEval(Cfg.scatter_time)          \* 30 in the documentation; small in the bounded models
TimeLimit == TLCEval(Cfg.time_limit)              \* as requested by the harness (1000 when the argument is not given)

Cell == (0..(R - 1)) \X (0..(C - 1))
IsWall(rc) == Walls[rc[1] + 1][rc[2] + 1] = 1
FreeCells == TLCEval({ rc \in Cell : ~IsWall(rc) })      \* constant: evaluated once
CellOf(pair) == <<pair[1], pair[2]>>                                   \* JSON [r, c] -> cell
Spawns == TLCEval(Cfg.ghost_spawns)
SpawnOf(k) == CellOf(Spawns[k])
NGhosts == Len(Spawns)

(* ---------- movement on the wrapping board ---------- *)
Delta(d) == CASE d = 0 -> <<-1, 0>> [] d = 1 -> <<0, -1>> [] d = 2 -> <<1, 0>> [] d = 3 -> <<0, 1>>
Wrap(rc) == <<rc[1] % R, rc[2] % C>>
Target(p, d) == Wrap(<<p[1] + Delta(d)[1], p[2] + Delta(d)[2]>>)
LegalDir(p, d) == Target(p, d) \in FreeCells                       \* "a move is legal iff its target cell is not a wall"
NbrsWrap(p) == { Target(p, d) : d \in Dirs }
MaskDirs(p) == [j \in 1..4 |-> LegalDir(p, j - 1)]                 \* entries of the four directions

(* the direction an action stands for: a direction is itself, the no-op repeats the last selected direction
   (ld = the last action in 0..3 that was selected; anything else = none selected yet, the no-op then cannot move) *)
EffDir(a, ld) == IF a \in Dirs THEN a ELSE ld
Legal(p, a, ld) == EffDir(a, ld) \in Dirs /\ LegalDir(p, EffDir(a, ld))
PlayerNext(p, a, ld) == IF Legal(p, a, ld) THEN Target(p, EffDir(a, ld)) ELSE p
Mask(p, ld) == [j \in 1..5 |-> Legal(p, j - 1, ld)]                \* layout of the observation: one entry per action

(* ---------- ghosts: the admissible set ---------- *)
GhostOptions(g) == {g} \cup (NbrsWrap(g) \cap FreeCells)
GhostAdmissible(g, q, spawn, scared) == q \in GhostOptions(g) \/ (scared /\ q = spawn)
Touch(p0, p1, g0, g1) == g1 = p1 \/ (g1 = p0 /\ g0 = p1)            \* same cell, or the two swapped cells

(* ---------- the scatter timer: "number of steps left of the scatter state" ---------- *)
FrightNext(t, atePower) == IF atePower THEN ScatterTime ELSE Max2(t - 1, 0)

(***************************************************************************)
(* Abstract state m = [player, ghosts (sequence of cells), pellets, powers *)
(* (sets of cells), fright, dead, steps, lastdir] and the transition       *)
(* relation: gs is the sequence of cells the ghosts chose.                 *)
(***************************************************************************)
AInit(pellets, powers) ==
  [player |-> CellOf(Cfg.player_start), ghosts |-> [k \in 1..NGhosts |-> SpawnOf(k)],
   pellets |-> pellets, powers |-> powers, fright |-> 0, dead |-> FALSE, steps |-> 0, lastdir |-> -1]

AStep(m, a, gs) ==
  LET p1 == PlayerNext(m.player, a, m.lastdir)
      scared == m.fright > 0
      touched == { k \in 1..NGhosts : Touch(m.player, p1, m.ghosts[k], gs[k]) }
  IN [player  |-> p1,
      ghosts  |-> [k \in 1..NGhosts |-> IF k \in touched /\ scared THEN SpawnOf(k) ELSE gs[k]],
      pellets |-> m.pellets \ {p1},
      powers  |-> m.powers \ {p1},
      fright  |-> FrightNext(m.fright, p1 \in m.powers),
      dead    |-> (touched # {} /\ ~scared),
      steps   |-> m.steps + 1,
      lastdir |-> IF a \in Dirs THEN a ELSE m.lastdir]

RECURSIVE SeqProduct(_, _)
SeqProduct(opt, n) == IF n = 0 THEN { <<>> } ELSE { Append(sq, x) : sq \in SeqProduct(opt, n - 1), x \in opt[n] }
GhostChoices(m, movable) ==            \* every joint choice; ghosts outside `movable` are frozen
  SeqProduct([k \in 1..NGhosts |-> IF k \in movable THEN GhostOptions(m.ghosts[k]) ELSE {m.ghosts[k]}], NGhosts)

ADone(m, T) == m.dead \/ m.pellets = {} \/ m.steps >= T
AReward(m, a) == LET p1 == PlayerNext(m.player, a, m.lastdir) IN
                 (IF p1 \in m.pellets THEN 10 ELSE 0)             \* ghost and power-up bonuses are not modelled

(* physical consistency of an abstract state from which the episode continues *)
APhysInv(m) ==
  /\ m.player \in FreeCells
  /\ \A k \in 1..NGhosts : m.ghosts[k] \in FreeCells
  /\ m.pellets \subseteq FreeCells /\ m.powers \subseteq FreeCells
  /\ m.fright \in 0..ScatterTime
(* a ghost shares the player's cell only as a just-eaten ghost sent back to its spawn *)
ANoOverlap(m) == \A k \in 1..NGhosts : m.ghosts[k] = m.player => (m.ghosts[k] = SpawnOf(k) /\ ~m.dead)

(***************************************************************************)
(* Encodings of the recorded data (see harness/envs/pacman.py).            *)
(***************************************************************************)
RECURSIVE Pow2(_)
Pow2(n) == IF n = 0 THEN 1 ELSE 2 * Pow2(n - 1)
RowBits(r) == SumTo([c \in 1..C |-> IF Walls[r][c] = 1 THEN 0 ELSE Pow2(c - 1)], C)
GridOfMaze == TLCEval([shape |-> <<R, C>>, bits |-> [r \in 1..R |-> RowBits(r)], other |-> <<>>])   \* 1 = corridor, 0 = wall

PosCell(pos) == <<pos.x, pos.y>>                                    \* Position(x = row, y = col)
PairCell(cr) == <<cr[2], cr[1]>>                                    \* [col, row] -> <<row, col>>
Collected(cr) == cr[1] = 0 /\ cr[2] = 0
PelletCells(s) == { <<v % 1000, v \div 1000>> : v \in Range(s.pellet_locations.left) }
PowerCells(s) == { PairCell(s.power_up_locations[j]) : j \in { k \in 1..Len(s.power_up_locations) : ~Collected(s.power_up_locations[k]) } }
GhostCell(s, k) == PairCell(s.ghost_locations[k])
PlayerCell(s) == PosCell(s.player_locations)

(* instance well-formedness (what reset may return for the requested map) *)
WfGrid(s) == s.grid = GridOfMaze
WfPlayer(s) ==
  /\ PlayerCell(s) = CellOf(Cfg.player_start)
  /\ PlayerCell(s) \in FreeCells
  /\ s.initial_player_locations = s.player_locations
WfGhosts(s) ==
  /\ Len(s.ghost_locations) = NGhosts
  /\ \A k \in 1..NGhosts : (GhostCell(s, k) = SpawnOf(k) /\ GhostCell(s, k) \in FreeCells)
  /\ s.initial_ghost_positions = s.ghost_locations
  /\ Cardinality({ GhostCell(s, k) : k \in 1..NGhosts }) = NGhosts
WfPellets(s) ==
  /\ s.pellet_locations.gone = <<>>
  /\ s.pellet_locations.n = Len(s.pellet_locations.left)
  /\ PelletCells(s) \subseteq FreeCells                                   \* pellets lie in corridors, one per cell,
  /\ Cardinality(PelletCells(s)) = Len(s.pellet_locations.left)
  /\ Cardinality(PelletCells(s)) >= Cardinality(FreeCells) - 1 - NGhosts   \* in every corridor cell (bar the start cells)
  /\ s.pellets = Len(s.pellet_locations.left)
WfPowers(s) ==
  /\ PowerCells(s) = (LET pu == Cfg.power_ups IN { CellOf(pu[j]) : j \in 1..Len(pu) })
  /\ PowerCells(s) \subseteq FreeCells
  /\ Cardinality(PowerCells(s)) = Len(s.power_up_locations)
WfCounters(s) == s.step_count = 0 /\ s.score = 0 /\ s.frightened_state_time = 0 /\ ~s.dead
WfDistinct(s) == \A k \in 1..NGhosts : GhostCell(s, k) # PlayerCell(s)
=============================================================================
