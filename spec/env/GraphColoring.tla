---------------------------- MODULE GraphColoring ----------------------------
(***************************************************************************)
(* Reference model of jumanji's GraphColoring, written from the class      *)
(* docstring and docs/environments/graph_coloring.md.                      *)
(*                                                                         *)
(* An undirected loop-free graph on N nodes 0..N-1 is sampled by reset     *)
(* (Erdos-Renyi G(N, p)).  There are as many colours as nodes (0..N-1).    *)
(* The nodes are coloured one after the other in index order: the action   *)
(* is the colour given to the CURRENT node.  A colour is allowed for the   *)
(* current node iff no neighbour of the current node that already has a    *)
(* colour has that colour ("avoiding conflicts with adjacent nodes"; "the  *)
(* allowed color set for each node is updated after every action").        *)
(* An invalid action ends the episode at once with reward -N ("the         *)
(* negative of the total number of colors"); when the last node receives a *)
(* valid colour the episode ends with reward minus the number of distinct  *)
(* colours used; every other step pays 0.                                  *)
(*                                                                         *)
(* State record (jumanji's own field names, 0-based values as in the data, *)
(* sequences 1-based): adj_matrix (N x N booleans), colors (N ints, -1 =   *)
(* not coloured), current_node_index (0..N-1), action_mask (cached; judged *)
(* by C04 / C12, not part of the abstract state).                          *)
(***************************************************************************)
EXTENDS EnvKit

CONSTANT Cfg      \* [num_nodes |-> N, edge_pct |-> round(100 * edge_probability), generator |-> "random" | "mc"]

N        == Cfg.num_nodes
Nodes    == 1..N                    \* TLA+ index of node k is k + 1
Colours  == 0..(N - 1)
Actions  == Colours
NoColour == -1

(* abstraction: the rule-relevant fields *)
A(s) == [adj_matrix |-> s.adj_matrix, colors |-> s.colors, current_node_index |-> s.current_node_index]

Cur(s)          == s.current_node_index + 1
Edge(s, u, v)   == s.adj_matrix[u][v] \/ s.adj_matrix[v][u]       \* the graph is undirected
IsColoured(s, v) == s.colors[v] # NoColour
NbrColours(s, u) == { s.colors[v] : v \in { w \in Nodes : Edge(s, u, w) /\ IsColoured(s, w) } }

(* ---------- the rule ---------- *)
Legal(s, a) == a \in Colours /\ a \notin NbrColours(s, Cur(s))
Mask(s)     == [j \in 1..N |-> Legal(s, j - 1)]                   \* layout of the observation: entry j <-> colour j - 1

(* ---------- transition (deterministic) ---------- *)
(* The chosen colour is written to the current node whether or not it is allowed (the docs do not promise an
   untouched state for GraphColoring); the next node in index order becomes current.  After the last node
   the index wraps to 0 (the declared observation spec confines it to 0..N-1). *)
Succ(s, a) ==
  [adj_matrix         |-> s.adj_matrix,
   colors             |-> [s.colors EXCEPT ![Cur(s)] = a],
   current_node_index |-> (s.current_node_index + 1) % N]

AllColoured(s)  == \A v \in Nodes : IsColoured(s, v)
ColoursUsed(s)  == { s.colors[v] : v \in Nodes } \ {NoColour}
NumColours(s)   == Cardinality(ColoursUsed(s))
NumColoured(s)  == Cardinality({ v \in Nodes : IsColoured(s, v) })

InvalidReward   == -N
Done(s, a, t)   == ~Legal(s, a) \/ AllColoured(t)
Reward(s, a, t) == IF ~Legal(s, a) THEN InvalidReward
                   ELSE IF AllColoured(t) THEN -NumColours(t) ELSE 0

(* ---------- observation ---------- *)
Obs(s) == [adj_matrix |-> s.adj_matrix, colors |-> s.colors, action_mask |-> Mask(s),
           current_node_index |-> s.current_node_index]

(* ---------- hard constraints of the CO problem (C06), from the raw arrays ---------- *)
MonoEdges(s) == { <<u, v>> \in Nodes \X Nodes :
                    u < v /\ Edge(s, u, v) /\ IsColoured(s, u) /\ IsColoured(s, v) /\ s.colors[u] = s.colors[v] }
ProperColouring(s)  == MonoEdges(s) = {}
MonoEdgesAt(s, u)   == { v \in Nodes : v # u /\ Edge(s, u, v) /\ IsColoured(s, u) /\ IsColoured(s, v)
                                       /\ s.colors[u] = s.colors[v] }
ColoursInPalette(s) == \A v \in Nodes : s.colors[v] \in Colours \cup {NoColour}
(* nodes are coloured in index order: before the episode ends exactly the nodes below the current one are coloured *)
ColouredPrefix(s)   == \A v \in Nodes : IsColoured(s, v) <=> v < Cur(s)
Feasible(s)         == ProperColouring(s) /\ ColoursInPalette(s)
CompleteSolution(s) == AllColoured(s) /\ Feasible(s)

(* ---------- objective (C08) ---------- *)
Objective(s) == -NumColours(s)

(* ---------- instance well-formedness (C10) ---------- *)
ShapeOK(s) ==
  /\ Len(s.adj_matrix) = N /\ \A u \in Nodes : Len(s.adj_matrix[u]) = N
  /\ Len(s.colors) = N
  /\ s.current_node_index \in 0..(N - 1)
Symmetric(s) == \A u \in Nodes : \A v \in Nodes : s.adj_matrix[u][v] = s.adj_matrix[v][u]
NoSelfLoops(s) == \A u \in Nodes : ~s.adj_matrix[u][u]
FreshColouring(s) == (\A v \in Nodes : s.colors[v] = NoColour) /\ s.current_node_index = 0
WellFormedInstance(s) == ShapeOK(s) /\ Symmetric(s) /\ NoSelfLoops(s) /\ FreshColouring(s)
NumEdges(s) == Cardinality({ <<u, v>> \in Nodes \X Nodes : u < v /\ Edge(s, u, v) })
NumPairs == (N * (N - 1)) \div 2
(* N colours always suffice: the current node has at most N - 1 neighbours *)
Degree(s, u) == Cardinality({ v \in Nodes : v # u /\ Edge(s, u, v) })

(* ---------- structural horizon (C11) ---------- *)
Horizon == N

(* integer square root of small numbers (density test of C10) *)
ISqrt(x) == CHOOSE r \in 0..46000 : r * r <= x /\ (r + 1) * (r + 1) > x
=============================================================================
