"""Parser for TLA+ values as printed by TLC (state dumps, -dump files): records, sequences, sets,
functions (k :> v @@ ...), integers, strings, booleans -> Python dict / list / frozenset-as-list / int / str / bool."""
import re

TOK = re.compile(r'\s*(<<|>>|\|->|:>|@@|\[|\]|\{|\}|\(|\)|,|"(?:[^"\\]|\\.)*"|-?\d+|[A-Za-z_][A-Za-z0-9_]*)')


def tokenize(s):
    pos, out = 0, []
    s = s.strip()
    while pos < len(s):
        m = TOK.match(s, pos)
        if not m:
            if s[pos:].strip() == "":
                break
            raise ValueError(f"cannot tokenize at {s[pos:pos + 40]!r}")
        out.append(m.group(1))
        pos = m.end()
    return out


class P:
    def __init__(self, toks):
        self.t = toks
        self.i = 0

    def peek(self):
        return self.t[self.i] if self.i < len(self.t) else None

    def take(self, x=None):
        tok = self.t[self.i]
        if x is not None and tok != x:
            raise ValueError(f"expected {x} got {tok}")
        self.i += 1
        return tok

    def value(self):
        tok = self.peek()
        if tok == "<<":
            self.take()
            out = []
            while self.peek() != ">>":
                out.append(self.value())
                if self.peek() == ",":
                    self.take()
            self.take(">>")
            return out
        if tok == "{":
            self.take()
            out = []
            while self.peek() != "}":
                out.append(self.value())
                if self.peek() == ",":
                    self.take()
            self.take("}")
            return {"__set__": out}
        if tok == "[":
            self.take()
            out = {}
            while self.peek() != "]":
                k = self.take()
                self.take("|->")
                out[k] = self.value()
                if self.peek() == ",":
                    self.take()
            self.take("]")
            return out
        if tok == "(":
            self.take()
            out = {}
            while self.peek() != ")":
                k = self.value()
                self.take(":>")
                out[k if not isinstance(k, list) else tuple(k)] = self.value()
                if self.peek() == "@@":
                    self.take()
            self.take(")")
            return {"__fn__": out}
        self.take()
        if tok in ("TRUE", "FALSE"):
            return tok == "TRUE"
        if tok.startswith('"'):
            return tok[1:-1]
        if re.fullmatch(r"-?\d+", tok):
            return int(tok)
        return tok  # model value


def parse(s):
    p = P(tokenize(s))
    v = p.value()
    return v


def parse_dump(path):
    """TLC -dump file -> list of {var: value}."""
    states = []
    cur = None
    with open(path) as f:
        text = f.read()
    for block in re.split(r"\nState \d+:\n|^State \d+:\n", text):
        block = block.strip()
        if not block:
            continue
        st = {}
        # conjuncts start with "/\ name = "
        parts = re.split(r"(?:^|\n)/\\ ", block)
        for part in parts:
            part = part.strip()
            if not part:
                continue
            m = re.match(r"([A-Za-z_][A-Za-z0-9_]*) = (.*)", part, re.S)
            if not m:
                continue
            st[m.group(1)] = parse(m.group(2))
        if st:
            states.append(st)
    return states
