"""C19: pytree helpers; Trace_TreeUtils.tla + MC_TreeUtils."""
import os

from harness.lib import libcheck


def run(prop, tier, seed, only=None):
    d = libcheck.trace_dir(prop)
    jobs = [(p, ["-m", "harness.lib.tree_drive", p, tier, str(seed)], os.path.join(d, f"tree-{p}-{tier}-{seed}.ndjson"))
            for p in ("random", "envs")]
    mcs = [("MC_TreeUtils", "MC_TreeUtils_quick.cfg" if tier == "quick" else "MC_TreeUtils_thorough.cfg", 1800)]
    return libcheck.run_lib(
        prop, tier, seed, jobs, "Trace_TreeUtils", mcs,
        assumptions=["batched trees are compared through per-index views computed with plain numpy indexing",
                     "equality-helper trees avoid NaN and mixed dtypes (outside the statement)"],
        distinct_key=lambda e: [e.get("k"), e.get("name"), e.get("i"), e.get("why"), e.get("a"), e.get("b")])
