"""Drivers for C13 (AutoResetWrapper) and C14 (VmapWrapper, VmapAutoResetWrapper): run the real wrappers
over the real environments in several execution modes and log, per wrapper step, the wrapper's output
together with an ORACLE TABLE computed from the unwrapped environment (plain step result, split of the
terminal key, reset of both halves and of the unsplit key as decoys). The TLA+ law picks the entries.

One process per environment: python -m harness.lib.wrap_drive <EnvName> <tier> <seed> <out.ndjson>
"""
import json
import sys
import time
import traceback

import numpy as np

from harness import jsonify
from harness.common import dumps
from harness.lib import catalog
from harness.lib.treecmp import eq, slice_tree, strip_key, to_np

BIG_INSTANCE_SPACE = {"TSP", "CVRP", "Knapsack", "MultiCVRP", "Maze", "Cleaner", "GraphColoring", "Minesweeper",
                      "Connector", "LevelBasedForaging", "MMST", "JobShop", "BinPack", "RubiksCube"}


def num(x):
    a = np.asarray(x).reshape(-1).astype(np.float64)
    return [jsonify.fx(v) for v in a]


def keyd(k):
    a = np.asarray(k).reshape(-1)
    return "k" + "-".join(str(int(v)) for v in a)


class Oracle:
    """Native (unwrapped) environment functions, jitted once."""

    def __init__(self, env):
        import jax

        self.env = env
        self.step = jax.jit(env.step)
        self.reset = jax.jit(env.reset)

    def table(self, in_state, action):
        import jax

        st, ts = self.step(in_state, action)
        kL, kR = jax.random.split(st.key)
        rL = self.reset(kL)
        rR = self.reset(kR)
        rK = self.reset(st.key)
        return {"inner": (st, ts), "kL": kL, "kR": kR, "reset_L": rL, "reset_R": rR, "reset_K": rK}


def extras_wo_next(extras):
    return {k: v for k, v in (extras or {}).items() if k != "next_obs"}


def ar_event(name, mode, nobs, tid, i, tab, out_state, out_ts, lane=None):
    st, ts = tab["inner"]
    ev = {"k": "ar_step", "env": name, "mode": mode, "next_obs_in_extras": nobs, "tid": tid, "i": i,
          "lane": -1 if lane is None else lane,
          "inner": {"type": int(np.asarray(ts.step_type)), "reward": num(ts.reward), "discount": num(ts.discount),
                    "state_d": jsonify.digest(to_np(st)), "key": keyd(st.key)},
          "split": {"L": keyd(tab["kL"]), "R": keyd(tab["kR"])},
          "out": {"type": int(np.asarray(out_ts.step_type)), "reward": num(out_ts.reward),
                  "discount": num(out_ts.discount), "state_d": jsonify.digest(to_np(out_state)),
                  "inst_d": jsonify.digest(to_np(strip_key(out_state)))},
          "match": {}, "big_instance_space": name in BIG_INSTANCE_SPACE}
    for c, (cs, cts) in (("inner", tab["inner"]), ("reset_L", tab["reset_L"]), ("reset_R", tab["reset_R"]),
                         ("reset_K", tab["reset_K"])):
        ev["match"][c] = {"state": eq(out_state, cs), "obs": eq(out_ts.observation, cts.observation)}
    ev["match"]["inner"]["extras"] = eq(extras_wo_next(out_ts.extras), extras_wo_next(ts.extras))
    has = "next_obs" in (out_ts.extras or {})
    ev["next_obs"] = {"present": has, "matches_inner_obs": bool(has and eq(out_ts.extras["next_obs"], ts.observation))}
    return ev


def drive_env(name, tier, seed, part, sched_file=None):
    import jax
    import jax.numpy as jnp

    from jumanji.wrappers import AutoResetWrapper, VmapAutoResetWrapper, VmapWrapper

    env = catalog.catalog(tier)[name]()
    orc = Oracle(env)
    rng = np.random.default_rng(seed * 131 + 7)
    events = []
    nsteps = 14 if tier == "quick" else 60
    B = 3 if tier == "quick" else 6

    def act(obs):
        # mostly legal play with some illegal actions: episodes of mixed lengths, many boundaries
        return catalog.masked_action(env, obs, rng) if rng.random() < 0.6 else catalog.random_action(env, rng)

    tid = 0
    for nobs_arg in ((False, True, "default") if part == "c13" else ()):
        nobs = False if nobs_arg == "default" else nobs_arg      # documented default: next_obs_in_extras=False
        w = AutoResetWrapper(env) if nobs_arg == "default" else AutoResetWrapper(env, next_obs_in_extras=nobs)
        if tier == "thorough":
            modes = ["jit", "scan"] if nobs_arg == "default" else ["jit", "vmap", "scan", "eager"]
        else:  # quick: every mode once, both next_obs settings under jit (compilation dominates the cost)
            modes = ["jit"] if nobs_arg == "default" else ["jit", "vmap"] if not nobs else ["jit", "scan"]
            if name in ("Game2048", "Maze", "Snake", "Knapsack") and nobs:
                modes.append("eager")
        for mode in modes:
            tid += 1
            key = jax.random.PRNGKey(seed * 1009 + tid)
            if mode in ("jit", "eager"):
                wstep = jax.jit(w.step) if mode == "jit" else w.step
                wreset = jax.jit(w.reset) if mode == "jit" else w.reset
                state, ts = wreset(key)
                nst, nts = orc.reset(key)
                events.append({"k": "ar_reset", "env": name, "mode": mode, "next_obs_in_extras": nobs, "tid": tid,
                               "key": keyd(key), "type": int(np.asarray(ts.step_type)),
                               "match_native": {"state": eq(state, nst), "obs": eq(ts.observation, nts.observation)},
                               "next_obs": {"present": "next_obs" in ts.extras,
                                            "matches_inner_obs": bool("next_obs" in ts.extras and eq(ts.extras["next_obs"], nts.observation))},
                               "inst_d": jsonify.digest(to_np(strip_key(state))), "big_instance_space": name in BIG_INSTANCE_SPACE})
                n = nsteps if mode == "jit" else 4
                for i in range(n):
                    a = jnp.asarray(act(ts.observation))
                    tab = orc.table(state, a)
                    state2, ts2 = wstep(state, a)
                    events.append(ar_event(name, mode, nobs, tid, i, tab, state2, ts2))
                    state, ts = state2, ts2
            elif mode == "vmap":
                keys = jax.random.split(key, B)
                vstep = jax.jit(jax.vmap(w.step))
                vreset = jax.jit(jax.vmap(w.reset))
                state, ts = vreset(keys)
                for lane in range(B):
                    events.append({"k": "ar_reset", "env": name, "mode": mode, "next_obs_in_extras": nobs,
                                   "tid": tid * 100 + lane, "key": keyd(keys[lane]), "type": int(np.asarray(ts.step_type)[lane]),
                                   "match_native": _match_native(orc, keys[lane], slice_tree(state, lane), slice_tree(ts, lane)),
                                   "next_obs": _nobs_reset(orc, keys[lane], slice_tree(ts, lane)),
                                   "inst_d": jsonify.digest(strip_key_np(slice_tree(state, lane))),
                                   "big_instance_space": name in BIG_INSTANCE_SPACE})
                for i in range(max(4, nsteps // 2)):
                    acts = np.stack([act(slice_tree(ts.observation, lane)) for lane in range(B)])
                    state2, ts2 = vstep(state, jnp.asarray(acts))
                    for lane in range(B):
                        tab = orc.table(jax.tree_util.tree_map(lambda x: x[lane], state), jnp.asarray(acts[lane]))
                        events.append(ar_event(name, mode, nobs, tid * 100 + lane, i, tab, slice_tree(state2, lane),
                                               slice_tree(ts2, lane), lane))
                    state, ts = state2, ts2
            elif mode == "scan":
                T = max(5, nsteps // 2)
                acts = jnp.asarray(np.stack([catalog.random_action(env, rng) for _ in range(T)]))
                state0, ts0 = jax.jit(w.reset)(key)

                def body(carry, a):
                    st, _ = carry
                    st2, ts2 = w.step(st, a)
                    return (st2, ts2), (st2, ts2)

                _, (sts, tss) = jax.jit(lambda s, t, a: jax.lax.scan(body, (s, t), a))(state0, ts0, acts)
                prev = state0
                for i in range(T):
                    tab = orc.table(prev, acts[i])
                    o_s, o_t = slice_tree(sts, i), slice_tree(tss, i)
                    events.append(ar_event(name, mode, nobs, tid, i, tab, o_s, o_t))
                    prev = jax.tree_util.tree_map(lambda x: x[i], sts)
    # ---- C14: VmapWrapper lane law, VmapAutoReset == Vmap(AutoReset), render lane 0 ----
    for nobs_arg in ((False, True, "default") if part == "c14" else ()):
        tid += 1
        key = jax.random.PRNGKey(seed * 2003 + tid)
        nobs = False if nobs_arg == "default" else nobs_arg      # both wrappers document next_obs_in_extras=False as default
        for Bn in (((3,) if not nobs else (2,)) if tier == "quick" else ((2,) if nobs_arg == "default" else (1, 2, 3, 5, 8))):
            keys = jax.random.split(key, Bn)
            vw = VmapWrapper(env)
            if nobs_arg == "default":        # the two stacks built with their DEFAULT arguments must agree as well
                var = VmapAutoResetWrapper(env)
                vaw = VmapWrapper(AutoResetWrapper(env))
            else:
                var = VmapAutoResetWrapper(env, next_obs_in_extras=nobs)
                vaw = VmapWrapper(AutoResetWrapper(env, next_obs_in_extras=nobs))
            s_v, t_v = jax.jit(vw.reset)(keys)
            s_a, t_a = jax.jit(var.reset)(keys)
            s_b, t_b = jax.jit(vaw.reset)(keys)
            for lane in range(Bn):
                ns, nt = orc.reset(keys[lane])
                events.append({"k": "vmap_reset", "env": name, "B": Bn, "lane": lane, "tid": tid,
                               "lane_eq_single": {"state": eq(slice_tree(s_v, lane), ns), "ts": eq(slice_tree(t_v, lane), nt)}})
            events.append({"k": "stacks_reset", "env": name, "B": Bn, "tid": tid, "next_obs_in_extras": nobs,
                           "agree": {"state": eq(s_a, s_b), "ts": eq(t_a, t_b)}})
            jv, ja, jb = jax.jit(vw.step), jax.jit(var.step), jax.jit(vaw.step)
            for i in range(8 if tier == "quick" else 30):
                acts = np.stack([act(slice_tree(t_a.observation, lane)) for lane in range(Bn)])
                ja_ = jnp.asarray(acts)
                # plain VmapWrapper on the auto-reset stack's states (kept in sync with stack A)
                sv2, tv2 = jv(s_a, ja_)
                lasts = []
                for lane in range(Bn):
                    ns, nt = orc.step(jax.tree_util.tree_map(lambda x: x[lane], s_a), ja_[lane])
                    lasts.append(int(np.asarray(nt.step_type)) == 2)
                    events.append({"k": "vmap_step", "env": name, "B": Bn, "lane": lane, "tid": tid, "i": i,
                                   "lane_eq_single": {"state": eq(slice_tree(sv2, lane), ns), "ts": eq(slice_tree(tv2, lane), nt)},
                                   "single_last": lasts[-1]})
                sa2, ta2 = ja(s_a, ja_)
                sb2, tb2 = jb(s_b, ja_)
                events.append({"k": "stacks_step", "env": name, "B": Bn, "tid": tid, "i": i, "next_obs_in_extras": nobs,
                               "pattern": lasts, "in_states_agree": eq(s_a, s_b),
                               "agree": {"state": eq(sa2, sb2), "obs": eq(ta2.observation, tb2.observation),
                                         "type": eq(ta2.step_type, tb2.step_type), "reward": eq(ta2.reward, tb2.reward),
                                         "discount": eq(ta2.discount, tb2.discount), "extras": eq(ta2.extras, tb2.extras)}})
                # per-lane AutoReset law on the VmapAutoReset stack (ties C14 to C13's law)
                for lane in range(Bn):
                    tab = orc.table(jax.tree_util.tree_map(lambda x: x[lane], s_a), ja_[lane])
                    ev = ar_event(name, "vmapautoreset", nobs, tid * 100 + lane, i, tab, slice_tree(sa2, lane),
                                  slice_tree(ta2, lane), lane)
                    ev["k"] = "var_lane"
                    ev["B"] = Bn
                    events.append(ev)
                s_a, t_a, s_b, t_b = sa2, ta2, sb2, tb2
    # render: which state is drawn
    if part == "c14" and sched_file and name in catalog.TERMINATE_ON_INVALID:
        events.extend(forced_schedules(name, env, orc, seed, sched_file, rng))
    if part == "c14":
        events.extend(render_events(name, env, seed))
    return events


def forced_schedules(name, env, orc, seed, sched_file, rng):
    """HIST: run the TLC-generated termination schedules on both batched stacks: lane j plays an illegal action
    exactly when the schedule says its episode ends on this step, a masked-in action otherwise."""
    import jax
    import jax.numpy as jnp

    from jumanji.wrappers import AutoResetWrapper, VmapAutoResetWrapper, VmapWrapper

    with open(sched_file) as f:
        sc = json.load(f)
    Bn = sc["nlanes"]
    out = []
    var = VmapAutoResetWrapper(env, next_obs_in_extras=True)
    vaw = VmapWrapper(AutoResetWrapper(env, next_obs_in_extras=True))
    ja, jb = jax.jit(var.step), jax.jit(vaw.step)
    ra, rb = jax.jit(var.reset), jax.jit(vaw.reset)
    for si, schedule in enumerate(sc["schedules"]):
        keys = jax.random.split(jax.random.PRNGKey(seed * 31 + si), Bn)
        s_a, t_a = ra(keys)
        s_b, t_b = rb(keys)
        for i, pat in enumerate(schedule):
            acts = []
            for lane in range(Bn):
                obs = slice_tree(t_a.observation, lane)
                a = catalog.illegal_action(env, obs, rng) if pat[lane] else None
                if a is None:
                    a = catalog.masked_action(env, obs, rng)
                acts.append(a)
            ja_ = jnp.asarray(np.stack(acts))
            lasts = []
            for lane in range(Bn):
                _, nt = orc.step(jax.tree_util.tree_map(lambda x: x[lane], s_a), ja_[lane])
                lasts.append(int(np.asarray(nt.step_type)) == 2)
            sa2, ta2 = ja(s_a, ja_)
            sb2, tb2 = jb(s_b, ja_)
            out.append({"k": "stacks_step", "env": name, "B": Bn, "tid": 7000 + si, "i": i, "next_obs_in_extras": True,
                        "pattern": lasts, "forced_pattern": pat, "schedule": si, "in_states_agree": eq(s_a, s_b),
                        "agree": {"state": eq(sa2, sb2), "obs": eq(ta2.observation, tb2.observation),
                                  "type": eq(ta2.step_type, tb2.step_type), "reward": eq(ta2.reward, tb2.reward),
                                  "discount": eq(ta2.discount, tb2.discount), "extras": eq(ta2.extras, tb2.extras)}})
            for lane in range(Bn):
                tab = orc.table(jax.tree_util.tree_map(lambda x: x[lane], s_a), ja_[lane])
                ev = ar_event(name, "vmapautoreset_sched", True, (7000 + si) * 100 + lane, i, tab, slice_tree(sa2, lane),
                              slice_tree(ta2, lane), lane)
                ev["k"] = "var_lane"
                ev["B"] = Bn
                out.append(ev)
            s_a, t_a, s_b, t_b = sa2, ta2, sb2, tb2
    return out


def strip_key_np(state):
    if hasattr(state, "key"):
        z = np.zeros_like(np.asarray(state.key))
        return state.replace(key=z) if hasattr(state, "replace") else state._replace(key=z)
    return state


def _match_native(orc, key, st, ts):
    ns, nt = orc.reset(key)
    return {"state": eq(st, ns), "obs": eq(ts.observation, nt.observation)}


def _nobs_reset(orc, key, ts):
    ns, nt = orc.reset(key)
    has = "next_obs" in ts.extras
    return {"present": has, "matches_inner_obs": bool(has and eq(ts.extras["next_obs"], nt.observation))}


def render_events(name, env, seed):
    """Both batched wrappers must render element 0 of the batch: intercept the wrapped env's render."""
    import jax

    from jumanji.wrappers import VmapAutoResetWrapper, VmapWrapper

    out = []
    seen = {}

    class Rec:
        def __init__(self, inner):
            self._inner = inner

        def __getattr__(self, n):
            return getattr(self._inner, n)

        def render(self, state):
            seen["state"] = state
            return None

    def untyped(tree):       # new-style typed PRNG keys (jax.random.key) -> their raw uint32 data, for comparison
        return jax.tree_util.tree_map(
            lambda x: jax.random.key_data(x) if hasattr(x, "dtype") and jax.dtypes.issubdtype(x.dtype, jax.dtypes.prng_key) else x, tree)

    combos = [(W, Bn, "legacy") for W in (VmapWrapper, VmapAutoResetWrapper) for Bn in (1, 3)]
    if name in ("Snake", "Maze", "Game2048", "LevelBasedForaging"):      # environments that run on typed keys as well
        combos += [(W, Bn, "typed") for W in (VmapWrapper, VmapAutoResetWrapper) for Bn in (1, 2)]
    for W, Bn, kind in combos:
        if True:
            if kind == "legacy":
                keys = jax.random.split(jax.random.PRNGKey(seed + 5), Bn)
            else:       # a batch of typed keys has a 1-D key array (shape (B,)), a single typed key is 0-d
                try:
                    keys = jax.random.split(jax.random.key(seed + 5), Bn)
                    jax.jit(jax.vmap(env.reset))(keys)
                except Exception:  # noqa: BLE001  (this environment / jax version does not take typed keys: nothing to judge)
                    continue
            rec = Rec(env)
            try:
                w = W(rec)
            except Exception:  # noqa: BLE001
                continue
            st, _ = jax.jit(jax.vmap(env.reset))(keys)
            seen.clear()
            try:
                w.render(st)
            except Exception as e:  # noqa: BLE001
                out.append({"k": "render", "env": name, "wrapper": W.__name__, "B": Bn, "called": False,
                            "is_lane0": False, "is_other_lane": False, "error": type(e).__name__})
                continue
            called = "state" in seen
            st_u = untyped(st)
            seen_u = untyped(seen["state"]) if called else None
            try:
                is0 = called and eq(seen_u, slice_tree(st_u, 0))
                other = called and Bn > 1 and any(eq(seen_u, slice_tree(st_u, j)) for j in range(1, Bn)) and not is0
            except Exception:  # noqa: BLE001  (what reached render does not even have the shape of one state)
                is0, other = False, False
            out.append({"k": "render", "env": name, "wrapper": W.__name__, "B": Bn, "called": bool(called),
                        "is_lane0": bool(is0), "is_other_lane": bool(other), "error": "none"})
    return out


def main():
    name, tier, seed, part = sys.argv[1:5]
    out = sys.argv[-1]
    sched_file = sys.argv[5] if len(sys.argv) > 6 else None
    from harness.common import setup_env

    setup_env()
    t0 = time.time()
    try:
        evs = drive_env(name, tier, int(seed), part, sched_file)
        with open(out, "w") as f:
            f.write(dumps({"k": "hdr", "env": name, "cfg": {}, "tier": tier, "seed": int(seed)}) + "\n")
            for e in evs:
                f.write(dumps(e) + "\n")
        print(json.dumps({"ok": True, "events": len(evs), "lines": len(evs) + 1, "wall": round(time.time() - t0, 1)}))
    except Exception as e:  # noqa: BLE001
        tb = traceback.format_exc()
        print(json.dumps({"ok": False, "error": f"{type(e).__name__}: {e}", "tb": tb[-3000:]}))


if __name__ == "__main__":
    main()
