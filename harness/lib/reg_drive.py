"""Driver for C18: jumanji.registration on a saved-and-restored registry.

python -m harness.lib.reg_drive <part> <tier> <seed> <out.ndjson>    part in {parse, ops, shipped}
"""
import itertools
import json
import sys
import time
import traceback

import numpy as np

from harness import jsonify
from harness.common import dumps

ALPHABET = ["a", "B", "-", "v", "1", "0", " "]
EXTRA = ["_", ".", ":", "7", "/", "!", "V", "é", "\n", "\t"]


class ProbeEnv:
    """Entry point used for register/make sequences: records how it was constructed."""

    def __init__(self, *args, **kwargs):
        self.args = args
        self.kwargs = kwargs


class ProbeEnv2(ProbeEnv):
    pass


def kwd(kw):
    return json.dumps(kw, sort_keys=True, separators=(",", ":"), default=lambda o: "<%s@%d>" % (type(o).__name__, id(o)))


def _canon(i, reg):
    """harness-side canonical spelling, only used to look up what the implementation stored (never judged)"""
    import re

    m = re.fullmatch(r"(.+)-v(\d+)", i)
    return None if not m else f"{m.group(1)}-v{int(m.group(2))}"


def _entry_of(post, i, reg):
    for k in (i, _canon(i, reg)):
        if k is not None and k in post:
            return [post[k][0], post[k][1]]
    return ["none", "none"]


def chars(s):
    return list(s)


def parse_event(reg, s, why):
    try:
        name, ver = reg.parse_env_id(s)
        oc = "ok"
    except ValueError:
        name, ver, oc = "", 0, "raise:ValueError"
    except Exception as e:  # noqa: BLE001
        name, ver, oc = "", 0, "raise:" + type(e).__name__
    ev = {"k": "parse", "why": why, "id": chars(s), "outcome": oc, "name": chars(name),
          "version_digits": chars(str(ver)) if oc == "ok" else []}
    if oc == "ok":
        try:
            back = reg.get_env_id(name, ver)
            ev["format"] = chars(back)
        except Exception as e:  # noqa: BLE001
            ev["format"] = chars("raise:" + type(e).__name__)
    else:
        ev["format"] = []
    return ev


def drive_parse(tier, seed):
    from jumanji import registration as reg

    evs = []
    maxlen = 4 if tier == "quick" else 5
    for n in range(0, maxlen + 1):
        for tup in itertools.product(ALPHABET, repeat=n):
            evs.append(parse_event(reg, "".join(tup), "enum"))
    rng = np.random.default_rng(seed + 1)
    alpha = ALPHABET + EXTRA
    for _ in range(600 if tier == "quick" else 6000):
        n = int(rng.integers(1, 12))
        body = "".join(alpha[int(rng.integers(0, len(alpha)))] for _ in range(n))
        kind = int(rng.integers(0, 5))
        if kind == 0:
            s = body + "-v" + str(int(rng.integers(0, 1000)))
        elif kind == 1:
            s = body + "-v" + "".join(str(int(rng.integers(0, 10))) for _ in range(int(rng.integers(8, 14))))  # large versions
        elif kind == 2:
            s = body + "-v00" + str(int(rng.integers(0, 50)))
        elif kind == 3:
            s = body + "-v"
        else:
            s = body
        evs.append(parse_event(reg, s, "random"))
    # every shipped id, and the same ids spoiled by one whitespace character at either end / inside
    for i in sorted(reg._REGISTRY) + ["Env-v0", "a-v10", "x:y.z-w-v3"]:
        evs.append(parse_event(reg, i, "shipped"))
        for ws in ("\n", "\t", " ", "\n\n", "\r"):
            evs.append(parse_event(reg, i + ws, "trailing_whitespace"))
            evs.append(parse_event(reg, ws + i, "leading_whitespace"))
            evs.append(parse_event(reg, i[:2] + ws + i[2:], "inner_whitespace"))
    return evs


NONE = -999        # how a keyword value None is written in the events (the specification compares integers)


def drive_ops(tier, seed):
    """Sequences of register / make over 3 ids, all sequences of length <= L (enumerated)."""
    from jumanji import registration as reg

    evs = []
    saved = dict(reg._REGISTRY)
    ids = ["Probe-v0", "Probe-v1", "Other_x-v3"]
    eps = {"P": "harness.lib.reg_drive:ProbeEnv", "Q": "harness.lib.reg_drive:ProbeEnv2",
           "R": "harness.lib.reg_other:ProbeEnv"}        # R: another module's class with the same bare name as P's
    ops = []
    for i in ids:
        ops.append(("register", i, "P", {"x": 1, "y": 2}))
        ops.append(("register", i, "Q", {}))
        ops.append(("register", i, "R", {"x": 3}))
        ops.append(("make", i, None, {}))
        ops.append(("make", i, None, {"y": 5, "z": 6}))
        ops.append(("make", i, None, {"y": None, "w": None}))      # an explicit None is a value like any other: it overrides
    # non-canonical spellings of a version (leading zeros): the registry is keyed by (name, int(version))
    ops.append(("register", "Probe-v007", "P", {"x": 7}))
    ops.append(("register", "Probe-v7", "Q", {}))
    ops.append(("make", "Probe-v7", None, {}))
    ops.append(("make", "Probe-v007", None, {"x": 8}))
    ops.append(("make", "Probe-v01", None, {}))
    ops.append(("make", "Nope-v0", None, {}))
    ops.append(("register", "Probe", "P", {}))           # version-less: refused
    ops.append(("register", "bad id-v1", "P", {}))        # malformed
    L = 3 if tier == "quick" else 4
    rng = np.random.default_rng(seed + 2)
    seqs = list(itertools.product(range(len(ops)), repeat=2))
    extra = [tuple(int(x) for x in rng.integers(0, len(ops), size=L)) for _ in range(150 if tier == "quick" else 2000)]
    sid = 0
    try:
        for seq in seqs + extra:
            sid += 1
            reg._REGISTRY.clear()
            reg._REGISTRY.update(saved)
            evs.append({"k": "seq_start", "sid": sid, "ids": [chars(x) for x in sorted(reg._REGISTRY)]})
            for oi in seq:
                op, i, ep, kw = ops[oi]
                pre = {k: (v.entry_point, kwd(v.kwargs)) for k, v in reg._REGISTRY.items()}
                if op == "register":
                    try:
                        reg.register(i, eps[ep], kwargs=dict(kw)) if kw else reg.register(i, eps[ep])
                        oc = "ok"
                    except ValueError:
                        oc = "raise:ValueError"
                    except Exception as e:  # noqa: BLE001
                        oc = "raise:" + type(e).__name__
                    post = {k: (v.entry_point, kwd(v.kwargs)) for k, v in reg._REGISTRY.items()}
                    evs.append({"k": "register", "sid": sid, "id": i, "id_chars": chars(i), "entry": ep, "kwargs": sorted(kw.items()),
                                "outcome": oc, "pre_ids": [chars(x) for x in sorted(pre)], "post_ids": [chars(x) for x in sorted(post)],
                                "others_unchanged": all(post.get(k) == pre[k] for k in pre),
                                "new_entry": _entry_of(post, i, reg),
                                "expected_entry": [eps[ep], kwd(dict(kw))]})
                else:
                    try:
                        e = reg.make(i, **kw)
                        oc = "ok"
                        cls = type(e).__module__.split(".")[-1] + ":" + type(e).__name__
                        seen = sorted((k, NONE if v is None else v) for k, v in e.kwargs.items())
                        msg_ids = []
                    except ValueError as ex:
                        oc, cls, seen = "raise:ValueError", "none", []
                        msg = str(ex)
                        msg_ids = sorted(k for k in pre if ("- " + k) in msg)
                    except Exception as ex:  # noqa: BLE001
                        oc, cls, seen, msg_ids = "raise:" + type(ex).__name__, "none", [], []
                    post_entries = {k: (v.entry_point, kwd(v.kwargs)) for k, v in reg._REGISTRY.items()}
                    ci = _canon(i, reg)
                    regd = pre.get(ci) if ci is not None else None
                    evs.append({"k": "make", "sid": sid, "id": i, "id_chars": chars(i),
                                "call_kwargs": sorted((k, NONE if v is None else v) for k, v in kw.items()),
                                "outcome": oc, "class": cls,
                                "seen_kwargs": [[k, v] for k, v in seen], "pre_ids": [chars(x) for x in sorted(pre)],
                                "registered": regd is not None,
                                "registered_entry": regd[0].split(":")[1] if regd else "none",
                                "registered_kwargs": sorted(json.loads(regd[1]).items()) if regd else [],
                                "listed_ids": [chars(x) for x in msg_ids], "entries_unchanged": post_entries == pre,
                                "post_ids": [chars(x) for x in sorted(reg._REGISTRY)]})
    finally:
        reg._REGISTRY.clear()
        reg._REGISTRY.update(saved)
    return evs


def drive_shipped(tier, seed):
    import jax

    import jumanji
    from jumanji import registration as reg
    from harness.lib.spec_drive import spec_desc
    from harness.lib.treecmp import eq

    evs = []
    ids = sorted(reg._REGISTRY)
    evs.append({"k": "shipped_list", "ids": ids, "count": len(ids), "listed_by_api": sorted(jumanji.registered_environments())})
    for i in ids:
        ev = {"k": "shipped", "id": i, "needs_dataset": i == "Sokoban-v0"}
        try:
            e1 = jumanji.make(i)
            e2 = jumanji.make(i)
        except Exception as ex:  # noqa: BLE001
            ev.update({"outcome": "raise:" + type(ex).__name__, "class_ok": False, "specs_equal": False, "same_behaviour": False,
                       "kwargs_ok": False, "error": str(ex)[:300]})
            evs.append(ev)
            continue
        spec = reg._REGISTRY[i]
        cls = reg.load(spec.entry_point)
        ev["outcome"] = "ok"
        ev["class_ok"] = type(e1) is cls and type(e2) is cls
        ev["specs_equal"] = all(spec_desc(getattr(e1, s)) == spec_desc(getattr(e2, s))
                                for s in ("observation_spec", "action_spec", "reward_spec", "discount_spec"))
        key = jax.random.PRNGKey(seed + 4)
        s1, t1 = jax.jit(e1.reset)(key)
        s2, t2 = jax.jit(e2.reset)(key)
        a = e1.action_spec.generate_value()
        n1 = jax.jit(e1.step)(s1, a)
        n2 = jax.jit(e2.step)(s2, a)
        ev["same_behaviour"] = eq((s1, t1), (s2, t2)) and eq(n1, n2)
        # documented registered arguments really reach the instance
        ok = True
        for k, v in spec.kwargs.items():
            got = getattr(e1, k, getattr(e1, "_" + k, None))
            if k == "generator":
                ok = ok and (got is v)
            else:
                ok = ok and (got == v)
        ev["kwargs_ok"] = bool(ok)
        ev["registered_kwargs"] = sorted(spec.kwargs)
        if i == "RubiksCube-partly-scrambled-v0":
            ev["doc"] = {"time_limit": int(e1.time_limit), "num_scrambles": int(e1.generator.num_scrambles_on_reset)}
        # caller kwargs override the registered ones
        if "time_limit" in spec.kwargs:
            e3 = jumanji.make(i, time_limit=5)
            ev["override_ok"] = int(e3.time_limit) == 5 and (e3.generator is spec.kwargs["generator"])
        evs.append(ev)
    return evs


def main():
    part, tier, seed, out = sys.argv[1:5]
    from harness.common import setup_env

    setup_env()
    t0 = time.time()
    try:
        evs = {"parse": drive_parse, "ops": drive_ops, "shipped": drive_shipped}[part](tier, int(seed))
        with open(out, "w") as f:
            f.write(dumps({"k": "hdr", "env": part, "cfg": {}, "tier": tier, "seed": int(seed)}) + "\n")
            for e in evs:
                f.write(dumps(e) + "\n")
        print(json.dumps({"ok": True, "events": len(evs), "lines": len(evs) + 1, "wall": round(time.time() - t0, 1)}))
    except Exception as e:  # noqa: BLE001
        tb = traceback.format_exc()
        print(json.dumps({"ok": False, "error": f"{type(e).__name__}: {e}", "tb": tb[-3000:]}))


if __name__ == "__main__":
    main()
