"""C15: gym / dm_env / multi-to-single adapters; Trace_Adapters.tla + MC_Adapters."""
import os

from harness.lib import catalog, libcheck


def run(prop, tier, seed, only=None):
    names = sorted(catalog.catalog(tier)) + ["SyntheticMultiAgent"]
    if only:
        names = [n for n in names if n in only or n.split(".")[0] in only]
    d = libcheck.trace_dir(prop)
    from harness.lib import sched

    hist_file = os.path.join(d, f"histories-{tier}-{seed}.json")
    if not os.path.exists(hist_file):      # HIST: seed/reset/step call histories enumerated by TLC from MC_Adapters
        sched.tlc_call_histories(7, 8 if tier == "quick" else 60, seed, hist_file)
    jobs = [(n, ["-m", "harness.lib.adapt_drive", n, tier, str(seed), hist_file], os.path.join(d, f"adapt-{n}-{tier}-{seed}.ndjson"))
            for n in names]
    mcs = [("MC_Adapters", "MC_Adapters_quick.cfg", 600)]
    if tier == "thorough":
        mcs.append(("MC_Adapters", "MC_Adapters_thorough.cfg", 3000))
    return libcheck.run_lib(
        prop, tier, seed, jobs, "Trace_Adapters", mcs,
        assumptions=["oracle table computed with the native environment's jitted reset/step and jax.random.split; "
                     "multi-agent environments are driven through MultiToSingleWrapper for gym/dm_env",
                     "seeds, call histories and actions are a fixed family plus sampled actions"],
        distinct_key=lambda e: [e.get("k"), e.get("tid"), e.get("i"), e.get("kpre"), e.get("seed_arg"), e.get("ragg")])
