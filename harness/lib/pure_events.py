"""Driver for C02, second part: plain-Python execution on EVENTFUL transitions.

pure_drive replays the first states of a short rollout; an in-place update that only happens when something
happens in the game (food eaten, shelf delivered, line cleared, fruit eaten, box pushed, item packed, episode
ending) is invisible there.  This driver plays whole episodes with the directed policies of the environment's
adapter (harness/envs/<env>.py, under jit), ranks the visited transitions by how much happened in them (reward,
LAST, number of state leaves that changed), and replays the top ones in plain Python on the very same argument
objects: the arguments must be bit-identical afterwards and the result must be the jitted one (and the same when
the call is repeated).  Events go through the same memo-table monitor (PureFn.tla).

python -m harness.lib.pure_events <adapter_module> <tier> <seed> <out.ndjson>
"""
import importlib
import json
import sys
import time
import traceback

import numpy as np

from harness import jsonify
from harness.common import dumps
from harness.lib.pure_drive import Memo
from harness.lib.treecmp import to_np

SKIP_IDS = ("sweep", "long", "inj", "_gen", "resets", "late")


def pick_configs(ad, tier):
    out = []
    for c in ad.configs("quick"):
        if any(t in c["id"] for t in SKIP_IDS) or "inject" in c or c.get("prefilled"):
            continue
        out.append(c)
    # episodes of moderate length (things must have time to happen), non-default sizes first (cheaper in plain Python);
    # one configuration in the quick tier, three in the thorough tier
    out.sort(key=lambda c: (c["id"].startswith("default"), abs(min(c.get("max_steps", 60), 200) - 40)))
    # ... plus the configurations the adapter nominates (sizes at which something only happens on a rare transition)
    named = [c for c in ad.configs(tier) if c.get("pure_events")]
    picked = out[:1 if tier == "quick" else 3]
    return picked + [c for c in named if c["id"] not in {p["id"] for p in picked}]


def changed_leaves(a, b):
    import jax

    fa = jax.tree_util.tree_flatten_with_path(a)[0]
    fb = jax.tree_util.tree_flatten_with_path(b)[0]
    names = []
    for (pa, xa), (_, xb) in zip(fa, fb):
        n = jax.tree_util.keystr(pa)
        if "key" in n or "step_count" in n:
            continue
        xa, xb = np.asarray(xa), np.asarray(xb)
        if xa.shape != xb.shape or not np.array_equal(xa, xb):
            names.append(n)
    return names


def clean_process_results(mod, tier, cfg, chosen):
    """jit(step) of the chosen (state, action) pairs computed by a child process that builds ONLY this configuration; a list
    aligned with `chosen` (None where it could not be computed: unpicklable harness-side state classes, child failure)."""
    import os
    import pickle
    import subprocess

    from harness.common import PY, VERIF, WORK

    out = [None] * len(chosen)
    if not chosen:
        return out
    os.makedirs(WORK, exist_ok=True)
    base = os.path.join(WORK, f"c02_clean_{mod}_{os.getpid()}")
    try:
        with open(base + ".in", "wb") as f:
            pickle.dump([to_np((t[4], t[5])) for t in chosen], f)
    except Exception:  # noqa: BLE001
        return out
    env = dict(os.environ)
    env["PYTHONPATH"] = (os.environ.get("VERIF_REPO", "") + os.pathsep if os.environ.get("VERIF_REPO") else "") + VERIF
    try:
        subprocess.run([PY, "-W", "ignore", "-m", "harness.lib.pure_events", "--clean", mod, tier, cfg["id"], base],
                       capture_output=True, text=True, env=env, cwd=VERIF, timeout=900)
        with open(base + ".out", "rb") as f:
            out = pickle.load(f)
    except Exception:  # noqa: BLE001
        pass
    for ext in (".in", ".out"):
        try:
            os.remove(base + ext)
        except OSError:
            pass
    return out if len(out) == len(chosen) else [None] * len(chosen)


def clean_main(mod, tier, cfg_id, base):
    import pickle

    import jax
    import jax.numpy as jnp

    ad = importlib.import_module(f"harness.envs.{mod}").Adapter()
    cfg = next(c for c in list(ad.configs("quick")) + list(ad.configs(tier)) if c["id"] == cfg_id)
    env = ad.make(dict(cfg))
    jstep = jax.jit(env.step)
    with open(base + ".in", "rb") as f:
        pairs = pickle.load(f)
    out = []
    for (s, a) in pairs:
        try:
            s = jax.tree_util.tree_map(jnp.asarray, s)
            out.append(to_np(jstep(s, jnp.asarray(a))))
        except Exception:  # noqa: BLE001
            out.append(None)
    with open(base + ".out", "wb") as f:
        pickle.dump(out, f)


def drive(mod, tier, seed):
    import jax
    import jax.numpy as jnp

    ad = importlib.import_module(f"harness.envs.{mod}").Adapter()
    evs = []
    memo = Memo()
    seq = [0]

    def call(env_name, fn, mode, f, args, note=""):
        seq[0] += 1
        try:
            before = jsonify.digest(to_np(args))
        except Exception as e:  # noqa: BLE001  (an argument destroyed by an earlier call)
            evs.append({"k": "call", "env": env_name, "fn": fn, "mode": mode, "seq": seq[0], "args_d": "unusable",
                        "args_after_d": "unusable", "outcome": "raise:ArgumentUnusable", "note": note,
                        "detail": type(e).__name__ + ":" + str(e)[:160], "cls": -1, "result_d": "none"})
            return
        try:
            res = to_np(f(*args))
            oc = "ok"
        except Exception as e:  # noqa: BLE001
            res, oc = None, "raise:" + type(e).__name__ + ":" + str(e)[:120]
        try:
            after = jsonify.digest(to_np(args))
        except Exception as e:  # noqa: BLE001
            after = "destroyed:" + type(e).__name__
        ev = {"k": "call", "env": env_name, "fn": fn, "mode": mode, "seq": seq[0], "args_d": before, "args_after_d": after,
              "outcome": oc if oc == "ok" else oc.split(":")[0] + ":" + oc.split(":")[1], "note": note,
              "detail": "" if oc == "ok" else oc, "cls": -1, "result_d": "none"}
        if oc == "ok":
            ev["cls"] = memo.cls(env_name + "/" + fn, before, res)
            ev["result_d"] = jsonify.digest(res)
        evs.append(ev)

    K = 6 if tier == "quick" else 14
    picked = pick_configs(ad, tier)
    # process history: the OTHER configurations of this adapter are constructed first (never used), as a program that holds a
    # training and an evaluation environment does; the eventful transitions are then also replayed in a clean child process
    # that only ever builds the configuration under test - the results must coincide
    decoys = 0
    for c in ad.configs("quick"):
        if decoys >= 10 or c["id"] in {p["id"] for p in picked} or "inject" in c or any(t in c["id"] for t in ("sweep", "_gen")):
            continue
        try:
            ad.make(dict(c))
            decoys += 1
        except Exception:  # noqa: BLE001
            pass
    for cfg in picked:
        env = ad.make(cfg)
        name = f"{ad.name}/{cfg['id']}"
        jreset, jstep = jax.jit(env.reset), jax.jit(env.step)
        pols = cfg.get("policies") or ad.policies(tier)
        trans = []
        n_ep = min(cfg.get("episodes", 6), 6 if tier == "quick" else 12)
        for ep in range(n_ep):
            rng = np.random.default_rng(seed * 7919 + ep)
            key = jax.random.PRNGKey(seed * 100003 + ep * 17 + 1)
            state, ts = jreset(key)
            for i in range(min(cfg.get("max_steps", 60), 80)):
                try:
                    a = ad.choose(pols[ep % len(pols)], env, state, ts.observation, rng, i)
                except Exception:  # noqa: BLE001
                    a = ad.random_actions(env, rng, 1)[0]
                a = jnp.asarray(a)
                nstate, nts = jstep(state, a)
                ch = changed_leaves(state, nstate)
                rew = float(np.abs(np.asarray(nts.reward)).sum())
                last = int(np.asarray(nts.step_type)) == 2
                trans.append((2 * (rew != 0) + 2 * last + len(ch), tuple(ch), last, rew != 0, state, a, ep))
                state, ts = nstate, nts
                if last:
                    break
        # top-K by eventfulness, at most two per signature (which leaves changed, rewarded, last); episodes are visited
        # round-robin (each was played by another policy: collision-seeking, solving, stalling ...) so that every policy's
        # most eventful transition is among the replayed ones
        trans.sort(key=lambda t: -t[0])
        by_ep = {}
        for t in trans:
            by_ep.setdefault(t[6], []).append(t)
        order = []
        while any(by_ep.values()):
            for ep in sorted(by_ep):
                if by_ep[ep]:
                    order.append(by_ep[ep].pop(0))
        # (a configuration the adapter nominated is short and is replayed in full: the transition that matters there may
        # look like any other one to the code under test - that is the point)
        cap, K_cfg = (2, K) if not cfg.get("pure_events") else (40, 40)
        chosen, per_sig = [], {}
        for t in order:
            sig = (t[1], t[2], t[3])
            if per_sig.get(sig, 0) >= cap:
                continue
            per_sig[sig] = per_sig.get(sig, 0) + 1
            chosen.append(t[:6])
            if len(chosen) >= K_cfg:
                break
        # the same eventful transitions as one batch under vmap (lane j must equal the jitted single call)
        # (states of one pytree structure only: a harness-side witness generator may hand out a richer reset state)
        groups = {}
        for t in chosen:
            groups.setdefault(str(jax.tree_util.tree_structure(t[4])), []).append(t)
        batch = max(groups.values(), key=len) if groups else []
        if len(batch) >= 2:
            from harness.lib.treecmp import slice_tree

            chosen_all, chosen = chosen, batch
            try:
                bs = jax.tree_util.tree_map(lambda *xs: jnp.stack(xs), *[t[4] for t in chosen])
                ba = jnp.stack([t[5] for t in chosen])
                for t in chosen:
                    call(name, "step", "jit", jstep, (t[4], t[5]), note="eventful transition (reference for the vmap lanes)")
                vs, vt = jax.jit(jax.vmap(env.step))(bs, ba)
                for lane, t in enumerate(chosen):
                    seq[0] += 1
                    d = jsonify.digest(to_np((t[4], t[5])))
                    res = to_np((slice_tree(vs, lane), slice_tree(vt, lane)))
                    evs.append({"k": "call", "env": name, "fn": "step", "mode": f"vmap{len(chosen)}", "seq": seq[0], "args_d": d,
                                "args_after_d": d, "outcome": "ok", "note": f"eventful transition, lane {lane}", "detail": "",
                                "cls": memo.cls(name + "/step", d, res), "result_d": jsonify.digest(res)})
            except Exception as e:  # noqa: BLE001
                seq[0] += 1
                evs.append({"k": "call", "env": name, "fn": "step", "mode": "vmap", "seq": seq[0], "args_d": "x", "args_after_d": "x",
                            "outcome": "raise:" + type(e).__name__, "note": "vmap over the eventful transitions",
                            "detail": str(e)[:200], "cls": -1, "result_d": "none"})
            chosen = chosen_all
        for res_clean, (score, ch, last, rewarded, s, a) in zip(clean_process_results(mod, tier, cfg, chosen), chosen):
            if res_clean is None:
                continue
            seq[0] += 1
            d = jsonify.digest(to_np((s, a)))
            evs.append({"k": "call", "env": name, "fn": "step", "mode": "jit_clean_process", "seq": seq[0], "args_d": d, "args_after_d": d,
                        "outcome": "ok", "note": f"eventful transition replayed in a process that built nothing else ({decoys} decoys here)",
                        "detail": "", "cls": memo.cls(name + "/step", d, res_clean), "result_d": jsonify.digest(res_clean)})
        for (score, ch, last, rewarded, s, a) in chosen:
            note = f"eventful transition: changed {len(ch)} leaves{', rewarded' if rewarded else ''}{', LAST' if last else ''}"
            call(name, "step", "jit", jstep, (s, a), note=note)
            call(name, "step", "eager", env.step, (s, a), note=note)
            call(name, "step", "eager", env.step, (s, a), note=note + " (repeat on the same argument objects)")
            call(name, "step", "jit", jstep, (s, a), note=note + " (jit after eager)")
    return evs


def main():
    from harness.common import setup_env

    setup_env()
    if sys.argv[1] == "--clean":
        clean_main(*sys.argv[2:6])
        return
    mod, tier, seed, out = sys.argv[1:5]
    t0 = time.time()
    try:
        evs = drive(mod, tier, int(seed))
        with open(out, "w") as f:
            f.write(dumps({"k": "hdr", "env": mod, "cfg": {}, "tier": tier, "seed": int(seed)}) + "\n")
            for e in evs:
                f.write(dumps(e) + "\n")
        print(json.dumps({"ok": True, "events": len(evs), "lines": len(evs) + 1, "wall": round(time.time() - t0, 1)}))
    except Exception as e:  # noqa: BLE001
        tb = traceback.format_exc()
        print(json.dumps({"ok": False, "error": f"{type(e).__name__}: {e}", "tb": tb[-3000:]}))


if __name__ == "__main__":
    main()
