"""A user-written environment for the library-level drivers: its action and observation specs are BoundedArrays whose bounds
differ from row to row (bounds of shape (rows, 1), broadcast along the trailing axis) - a layout the specs API documents
("broadcastable to shape") and that no shipped environment uses.  The dynamics are a counter: nothing to get wrong here, the
point is what the wrappers and adapters make of the specs and values."""
from functools import cached_property
from typing import NamedTuple

import jax
import jax.numpy as jnp
import numpy as np

from jumanji import specs
from jumanji.env import Environment
from jumanji.types import restart, termination, transition

OBS_LO = np.array([[0.0], [10.0], [-5.0]], np.float32)
OBS_HI = np.array([[1.0], [12.0], [-2.0]], np.float32)
ACT_LO = np.array([[0], [2]], np.int32)
ACT_HI = np.array([[1], [5]], np.int32)


class State(NamedTuple):
    key: jax.Array
    step_count: jax.Array
    total: jax.Array


class Observation(NamedTuple):
    grid: jax.Array          # (3, 2) float32, row r in [OBS_LO[r], OBS_HI[r]]
    step_count: jax.Array


class RowBoundedEnv(Environment):
    def __init__(self, time_limit=4):
        self.time_limit = time_limit
        super().__init__()

    def _obs(self, state):
        span = jnp.asarray(OBS_HI - OBS_LO)
        # walks through the whole range of every row, the bounds included
        frac = ((state.total + state.step_count + jnp.arange(2)[None, :] + jnp.arange(3)[:, None]) % 3) / 2.0
        return Observation(grid=(jnp.asarray(OBS_LO) + span * frac).astype(jnp.float32), step_count=state.step_count)

    def reset(self, key):
        key, sub = jax.random.split(key)
        state = State(key=key, step_count=jnp.array(0, jnp.int32), total=jax.random.randint(sub, (), 0, 3))
        return state, restart(observation=self._obs(state))

    def step(self, state, action):
        nxt = State(key=state.key, step_count=state.step_count + 1, total=state.total + jnp.sum(action).astype(jnp.int32))
        reward = jnp.sum(action).astype(float) * 0.125
        obs = self._obs(nxt)
        ts = jax.lax.cond(nxt.step_count >= self.time_limit, termination, transition, reward, obs)
        return nxt, ts

    @cached_property
    def observation_spec(self):
        return specs.Spec(
            Observation, "ObservationSpec",
            grid=specs.BoundedArray((3, 2), jnp.float32, OBS_LO, OBS_HI, "grid"),
            step_count=specs.DiscreteArray(self.time_limit + 1, dtype=jnp.int32, name="step_count"))

    @cached_property
    def action_spec(self):
        return specs.BoundedArray((2, 3), jnp.int32, ACT_LO, ACT_HI, "action")
