"""C16: the spec algebra; Trace_Specs.tla (SpecsAlgebra model) + MC_SpecsAlgebra."""
import os

from harness.lib import libcheck


def run(prop, tier, seed, only=None):
    d = libcheck.trace_dir(prop)
    parts = ["universe", "envs"]
    if only:
        parts = [p for p in parts if p in only] or parts
    jobs = [(p, ["-m", "harness.lib.spec_drive", p, tier, str(seed)], os.path.join(d, f"specs-{p}-{tier}-{seed}.ndjson"))
            for p in parts]
    mcs = [("MC_SpecsAlgebra", "MC_SpecsAlgebra_quick.cfg", 900)]
    return libcheck.run_lib(
        prop, tier, seed, jobs, "Trace_Specs", mcs,
        assumptions=["floats are compared through an exact monotone integer image of their float32 bits; subnormal probe "
                     "values are avoided (XLA CPU flushes them to zero)",
                     "NaN values are outside the property's stated quantifier and are not probed",
                     "universe = systematic product of kinds x shapes (rank 0-3, incl. size 0) x dtypes x scalar/per-element "
                     "bounds + nested specs + all observation/action/reward/discount specs of the 23 environments"],
        distinct_key=lambda e: [e.get("k"), e.get("label"), e.get("case"), e.get("why"), e.get("changes"),
                                e.get("a", {}).get("name") if isinstance(e.get("a"), dict) else None, e.get("spec", e.get("a"))])
