"""Driver for C19: jumanji.tree_utils (tree_transpose, tree_slice, tree_add_element) and the pytree equality
helper jumanji.testing.pytrees (is_equal_pytree, assert_trees_are_different).

A batched tree is described by its PER-INDEX VIEW: for every index j of the leading axis, the list of
per-leaf digests of leaf[j], computed here with plain numpy indexing (independent of tree_utils).
The TLA+ model (TreeUtils.tla) states the laws over these views.

python -m harness.lib.tree_drive <part> <tier> <seed> <out.ndjson>     part in {random, envs}
"""
import collections
import hashlib
import json
import sys
import time
import traceback

import numpy as np

from harness import jsonify
from harness.common import dumps


def leafd(a):
    a = np.asarray(a)
    h = hashlib.sha1(str(a.dtype).encode() + str(a.shape).encode() + np.ascontiguousarray(a).tobytes()).hexdigest()[:16]
    return h


def flat(tree):
    import jax

    leaves, td = jax.tree_util.tree_flatten(tree)
    return [np.asarray(x) for x in leaves], str(td)


def view(tree):
    """per-index view of a batched tree: [[digest of leaf[j] for each leaf] for j in range(B)]; a tree that is not
    batched (a leaf without a leading axis, ragged leading axes) has no view: [] - the laws then fail on the data"""
    leaves, _ = flat(tree)
    if not leaves or any(lf.ndim == 0 for lf in leaves):
        return []
    B = leaves[0].shape[0]
    if any(lf.shape[0] != B for lf in leaves):
        return []
    return [[leafd(lf[j]) for lf in leaves] for j in range(B)]


def dts(tree):
    return [str(x.dtype) for x in flat(tree)[0]]


def shapes(tree):
    return [list(x.shape) for x in flat(tree)[0]]


NT = collections.namedtuple("NT", ["a", "b"])


def random_tree(rng, kind, leaf_shapes_dtypes):
    import jax.numpy as jnp

    def leaf(sd):
        sh, dt = sd
        if dt == "bool":
            return jnp.asarray(rng.integers(0, 2, size=sh).astype(bool))
        if dt.startswith("float"):
            a = (rng.integers(-8, 8, size=sh) / 4.0).astype(dt)
            if a.size and rng.random() < 0.4:      # infinite entries (BinPack's half spaces carry them): still plain data
                m = rng.random(size=a.shape) < 0.3
                a = np.where(m, np.where(rng.random(size=a.shape) < 0.5, np.inf, -np.inf), a).astype(dt)
            return jnp.asarray(a)
        return jnp.asarray(rng.integers(0, 50, size=sh).astype(dt))

    ls = [leaf(sd) for sd in leaf_shapes_dtypes]
    if kind == 0:
        return {"x": ls[0], "y": (ls[1], ls[2])}
    if kind == 1:
        return NT(a=ls[0], b=[ls[1], {"z": ls[2]}])
    if kind == 2:
        return [ls[0], ls[1], ls[2]]
    return (NT(a=ls[0], b=ls[1]), ls[2])


def tree_events(name, trees, rng, evs):
    """stack / slice / set events for a list of identically structured trees."""
    import jax
    import jax.numpy as jnp

    from jumanji import tree_utils

    B = len(trees)
    in_d = [[leafd(x) for x in flat(t)[0]] for t in trees]
    try:
        st = tree_utils.tree_transpose(trees)
    except Exception as e:  # noqa: BLE001
        evs.append({"k": "transpose", "name": name, "B": B, "outcome": "raise:" + type(e).__name__, "inputs": in_d,
                    "out_view": [], "in_dtypes": dts(trees[0]), "out_dtypes": [], "in_treedef": flat(trees[0])[1],
                    "out_treedef": "", "out_shapes_ok": False})
        return
    evs.append({"k": "transpose", "name": name, "B": B, "outcome": "ok", "inputs": in_d, "out_view": view(st),
                "in_dtypes": dts(trees[0]), "out_dtypes": dts(st), "in_treedef": flat(trees[0])[1], "out_treedef": flat(st)[1],
                "out_shapes_ok": shapes(st) == [[B] + s for s in shapes(trees[0])]})
    stv = view(st)
    if not stv:        # the stacked tree is not a batched tree: the remaining calls are meaningless (already rejected above)
        return
    for i in range(B):
        r = tree_utils.tree_slice(st, i)
        evs.append({"k": "slice", "name": name, "B": B, "i": i, "tree_view": stv, "result": [leafd(x) for x in flat(r)[0]],
                    "in_dtypes": dts(st), "out_dtypes": dts(r), "in_treedef": flat(st)[1], "out_treedef": flat(r)[1],
                    "expected_input": in_d[i]})
    # negative / traced indices as well
    if B > 1:
        r = jax.jit(tree_utils.tree_slice)(st, jnp.asarray(B - 1))
        evs.append({"k": "slice", "name": name, "B": B, "i": B - 1, "tree_view": stv, "result": [leafd(x) for x in flat(r)[0]],
                    "in_dtypes": dts(st), "out_dtypes": dts(r), "in_treedef": flat(st)[1], "out_treedef": flat(r)[1],
                    "expected_input": in_d[B - 1]})
    # set element i to a fresh element (a perturbed copy of some other input): every index, given as a Python int, as
    # a traced array index under jit, and the last one also the Python way (-1); plus an element whose leaves arrive in a
    # wider dtype (exactly representable values): "array_leaf[i] = element" keeps the batched tree's dtypes
    def add_ev(i, i_given, elem, elem_as_tree_dtype, r, how):
        evs.append({"k": "add_element", "name": name, "B": B, "i": i, "i_given": i_given, "how": how, "tree_view": stv,
                    "elem": [leafd(x) for x in flat(elem_as_tree_dtype)[0]],
                    "result_view": view(r), "in_dtypes": dts(st), "out_dtypes": dts(r), "in_treedef": flat(st)[1],
                    "out_treedef": flat(r)[1], "out_shapes_ok": shapes(r) == shapes(st)})

    wider = {"float16": "float32", "int8": "int32", "uint8": "int32", "int16": "int32", "bool": "bool"}
    for i in range(B):
        src = trees[int(rng.integers(0, B))]
        elem = jax.tree_util.tree_map(lambda x: (x + 1).astype(x.dtype) if x.dtype != bool else ~x, src)
        add_ev(i, i, elem, elem, tree_utils.tree_add_element(st, i, elem), "python_int")
        if i in (0, B - 1):
            add_ev(i, i, elem, elem, jax.jit(tree_utils.tree_add_element)(st, jnp.asarray(i), elem), "traced_index")
            wide = jax.tree_util.tree_map(lambda x: x.astype(wider.get(str(x.dtype), str(x.dtype))), elem)
            add_ev(i, i, wide, elem, tree_utils.tree_add_element(st, i, wide), "element_in_wider_dtype")
    src = trees[0]
    elem = jax.tree_util.tree_map(lambda x: (x + 2).astype(x.dtype) if x.dtype != bool else ~x, src)
    add_ev(B - 1, -1, elem, elem, tree_utils.tree_add_element(st, -1, elem), "negative_index")
    r = tree_utils.tree_slice(st, -1)
    evs.append({"k": "slice", "name": name, "B": B, "i": B - 1, "tree_view": stv, "result": [leafd(x) for x in flat(r)[0]],
                "in_dtypes": dts(st), "out_dtypes": dts(r), "in_treedef": flat(st)[1], "out_treedef": flat(r)[1],
                "expected_input": in_d[B - 1]})


def _limbs64(v):
    b = int(np.frombuffer(np.float64(np.float64(v) + 0.0).tobytes(), dtype=np.uint64)[0])      # (+ 0.0: -0.0 becomes +0.0)
    return [b >> 44, (b >> 22) & 0x3FFFFF, b & 0x3FFFFF]


def leaves_desc(tree):
    """For the equality helper: nested python containers, described leaf by leaf with full data."""
    import tree as tree_lib

    out = []
    for lf in tree_lib.flatten(tree):
        if lf is None:        # a None leaf (dm-tree keeps it as a leaf): equal to None only
            out.append({"shape": [], "dtype": "none", "cls": "n", "data": [0], "exact4": False, "num4": [0], "w64": []})
            continue
        a = np.asarray(lf)
        isf = np.issubdtype(a.dtype, np.floating)
        q = a.astype(np.float64).reshape(-1) * 4
        out.append({"shape": [int(x) for x in a.shape], "dtype": str(a.dtype), "cls": "f" if isf else "i",
                    "data": [jsonify.ford(v) if isf else int(v) for v in a.reshape(-1)],
                    # numeric value in quarters (exact for the values generated here), for cross-dtype comparison
                    # floats of any width, widened exactly to float64: the bit pattern in three limbs (-0.0 as +0.0) -
                    # two float leaves hold equal elements iff these coincide, whatever their dtypes
                    "w64": [_limbs64(v) for v in a.reshape(-1)] if isf else [],
                    "exact4": bool(np.all(q == np.rint(q)) and np.all(np.abs(q) < 2 ** 30)),
                    "num4": [int(v) for v in np.rint(np.clip(q, -2 ** 30, 2 ** 30))]})
    return out


def eq_events(rng, evs, n):
    from jumanji.testing import pytrees

    shapes_ = [(), (2,), (2, 3), (0,), (1, 2)]
    dtypes_ = ["int32", "float32", "bool", "int8"]
    for c in range(n):
        kind = c % 4
        sds = [(shapes_[int(rng.integers(0, len(shapes_)))], dtypes_[int(rng.integers(0, len(dtypes_)))]) for _ in range(3)]
        if c % 2 == 0:
            sds[c % 3] = ((2, 3), "float32")
        t1 = random_tree(rng, kind, sds)
        import jax

        # variants of t1 with the same structure: identical copy, one element changed, one leaf reshaped
        t_same = jax.tree_util.tree_map(lambda x: x + 0 if x.dtype != bool else x, t1)
        pairs = [("identical", t1, t_same), ("same_object", t1, t1)]
        leaves, td = jax.tree_util.tree_flatten(t1)
        j = int(rng.integers(0, len(leaves)))
        if np.asarray(leaves[j]).size:
            l2 = list(leaves)
            a = np.array(leaves[j])
            flat_ = a.reshape(-1)
            flat_[int(rng.integers(0, flat_.size))] = (~flat_[0]) if a.dtype == bool else flat_[0] + 1
            # make sure it really differs at that position
            l2[j] = flat_.reshape(a.shape)
            if not np.array_equal(l2[j], np.asarray(leaves[j])):
                pairs.append(("one_element_changed", t1, jax.tree_util.tree_unflatten(td, l2)))
        a = np.asarray(leaves[j])
        if a.ndim >= 1 and a.size:
            l3 = list(leaves)
            l3[j] = a.reshape(a.shape + (1,))
            pairs.append(("one_leaf_reshaped", t1, jax.tree_util.tree_unflatten(td, l3)))
        if a.size:   # same elements under broadcasting, different shape: must not be equal
            l4 = list(leaves)
            l4[j] = a.reshape((1,) + a.shape)
            pairs.append(("leading_axis_added", t1, jax.tree_util.tree_unflatten(td, l4)))
        fl = [k for k, lf in enumerate(leaves) if np.issubdtype(np.asarray(lf).dtype, np.floating) and np.asarray(lf).size]
        if fl:       # the smallest possible difference: one ulp in one element
            k = fl[0]
            b = np.array(leaves[k])
            fb = b.reshape(-1)
            fb[-1] = np.nextafter(fb[-1], b.dtype.type(np.inf))
            l5 = list(leaves)
            l5[k] = fb.reshape(b.shape)
            pairs.append(("one_ulp_changed", t1, jax.tree_util.tree_unflatten(td, l5)))
        # leaves of different dtypes: equal iff the ELEMENTS are equal (1 vs 1.0), never after a lossy cast
        import jax.numpy as jnp_

        mixed = [("mixed_dtype_equal_values", jnp_.asarray([1, 2], "int32"), jnp_.asarray([1.0, 2.0], "float32")),
                 ("mixed_dtype_fraction_lost_by_cast", jnp_.asarray([1, 2], "int32"), jnp_.asarray([1.5, 2.25], "float32")),
                 ("mixed_dtype_wraparound_by_cast", jnp_.asarray([1, 2], "uint8"), jnp_.asarray([257, 258], "int32")),
                 ("mixed_dtype_bool_vs_int", jnp_.asarray([True, False]), jnp_.asarray([2, 0], "int32")),
                 ("mixed_scalar_int_vs_float", jnp_.asarray(3, "int32"), 3.75)]
        # floats of different widths: equal iff the widened values coincide - a value that only exists in the wider type
        # (0.1 as float64, 1 + 2^-30) is different from its rounding to the narrower one
        f32 = np.asarray([0.5, -1.25, 3.0], np.float32)
        mixed += [("mixed_float_width_equal_values", jnp_.asarray(f32), f32.astype(np.float64)),
                  ("mixed_float_width_equal_values_f16", f32.astype(np.float16), jnp_.asarray(f32)),
                  ("mixed_float_width_sub_resolution", jnp_.asarray(np.asarray([0.1, 0.5], np.float32)), np.asarray([0.1, 0.5], np.float64)),
                  ("mixed_float_width_sub_resolution_f16", np.asarray([1.0, 2.0], np.float16), np.asarray([1.0 + 2.0 ** -12, 2.0], np.float32)),
                  ("mixed_float_python_literal", jnp_.asarray(0.1, "float32"), 0.1),
                  ("mixed_float_width_one_plus_tiny", np.float32(1.0), np.float64(1.0 + 1e-9))]
        mname, ma, mb = mixed[c % len(mixed)]
        if kind == 0:
            pairs.append((mname, {"x": ma, "y": (leaves[1], leaves[2])}, {"x": mb, "y": (leaves[1], leaves[2])}))
        elif kind == 2:
            pairs.append((mname, [ma, leaves[1]], [mb, leaves[1]]))
        else:
            pairs.append((mname, NT(a=ma, b=leaves[1]), NT(a=mb, b=leaves[1])))
        # None leaves (the repository's own mixed-tree fixture has one): the same number of Nones at DIFFERENT positions,
        # the other leaves equal once the Nones are dropped - every leaf pair differs
        if kind == 0:
            pairs.append(("none_leaves_swapped", {"x": None, "y": (leaves[1], leaves[2])}, {"x": leaves[1], "y": (None, leaves[2])}))
            pairs.append(("none_leaves_same_place", {"x": None, "y": (leaves[1], leaves[2])}, {"x": None, "y": (leaves[1], leaves[2])}))
        elif kind == 2:
            pairs.append(("none_leaves_swapped", [None, leaves[1], leaves[1]], [leaves[1], None, leaves[1]]))
        for why, x, y in pairs:
            for (p, q, sym) in ((x, y, False), (y, x, True)):
                try:
                    oc = "true" if pytrees.is_equal_pytree(p, q) else "false"
                except Exception as e:  # noqa: BLE001
                    oc = "raise:" + type(e).__name__
                try:
                    pytrees.assert_trees_are_different(p, q)
                    ad = "passed"
                except AssertionError:
                    ad = "failed"
                except Exception as e:  # noqa: BLE001
                    ad = "raise:" + type(e).__name__
                evs.append({"k": "is_equal", "why": why + ("_sym" if sym else ""), "a": leaves_desc(p), "b": leaves_desc(q),
                            "outcome": oc, "assert_different": ad})


def drive(part, tier, seed):
    import jax

    rng = np.random.default_rng(seed + 9)
    evs = []
    if part == "random":
        shapes_ = [(), (2,), (2, 3), (0,), (1, 2), (3, 1, 2)]
        dtypes_ = ["int32", "float32", "bool", "int8", "uint8", "float16"]
        n = 24 if tier == "quick" else 200
        for c in range(n):
            B = 1 + c % 8
            sds = [(shapes_[int(rng.integers(0, len(shapes_)))], dtypes_[int(rng.integers(0, len(dtypes_)))]) for _ in range(3)]
            trees = [random_tree(rng, c % 4, sds) for _ in range(B)]
            tree_events(f"rand{c}", trees, rng, evs)
            # the same tree OBJECT at several positions of the list (a saved state revisited, a default element repeated):
            # adjacent runs and non-adjacent repeats; position i of the stack is element i of the list, whatever its identity
            if B >= 2 and c % 2 == 0:
                a, b = trees[0], trees[1]
                cc = trees[2] if B >= 3 else b
                for pat_name, pat in (("aba", [a, b, a]), ("abcab", [a, b, cc, a, b]), ("bbab", [b, b, a, b]), ("aabb", [a, a, b, b])):
                    tree_events(f"rand{c}.repeat_{pat_name}", pat, rng, evs)
        eq_events(rng, evs, 40 if tier == "quick" else 400)
    else:
        from harness.lib import catalog

        cat = catalog.catalog(tier)
        for name in sorted(cat):
            env = cat[name]()
            for B in ((3,) if tier == "quick" else (1, 2, 5, 8)):
                keys = jax.random.split(jax.random.PRNGKey(seed + 3), B)
                rs = [jax.jit(env.reset)(k) for k in keys]
                tree_events(f"{name}.state.B{B}", [r[0] for r in rs], rng, evs)
                if B == 3:
                    tree_events(f"{name}.timestep.B{B}", [r[1] for r in rs], rng, evs)
                    tree_events(f"{name}.state.revisit", [rs[0][0], rs[1][0], rs[0][0], rs[2][0], rs[1][0]], rng, evs)
    return evs


def main():
    part, tier, seed, out = sys.argv[1:5]
    from harness.common import setup_env

    setup_env()
    t0 = time.time()
    try:
        evs = drive(part, tier, int(seed))
        with open(out, "w") as f:
            f.write(dumps({"k": "hdr", "env": part, "cfg": {}, "tier": tier, "seed": int(seed)}) + "\n")
            for e in evs:
                f.write(dumps(e) + "\n")
        print(json.dumps({"ok": True, "events": len(evs), "lines": len(evs) + 1, "wall": round(time.time() - t0, 1)}))
    except Exception as e:  # noqa: BLE001
        tb = traceback.format_exc()
        print(json.dumps({"ok": False, "error": f"{type(e).__name__}: {e}", "tb": tb[-3000:]}))


if __name__ == "__main__":
    main()
