"""Catalogue of small instances of all 23 environment classes for the library-level checks
(wrappers, adapters, purity, pytree helpers). Constructor arguments are chosen so that episodes end
within a few steps (tiny time limits / invalid moves under random play), which forces many episode
boundaries in short runs."""
import numpy as np


def _sokoban(**kw):
    from jumanji.environments import Sokoban
    from jumanji.environments.routing.sokoban.generator import ToyGenerator

    return Sokoban(generator=ToyGenerator(), **kw)


def catalog(tier="quick"):
    import jumanji.environments as E

    tl = 3
    c = {
        "Game2048": lambda: E.Game2048(board_size=2),
        "GraphColoring": lambda: E.GraphColoring(),
        "Minesweeper": lambda: E.Minesweeper(),
        "RubiksCube": lambda: E.RubiksCube(time_limit=tl),
        "SlidingTilePuzzle": lambda: E.SlidingTilePuzzle(time_limit=tl),
        "Sudoku": lambda: E.Sudoku(),
        "BinPack": lambda: E.BinPack(),
        "FlatPack": lambda: E.FlatPack(),
        "JobShop": lambda: E.JobShop(),
        "Knapsack": lambda: E.Knapsack(),
        "Tetris": lambda: E.Tetris(time_limit=tl),
        "Cleaner": lambda: E.Cleaner(time_limit=tl),
        "Connector": lambda: E.Connector(time_limit=tl),
        "CVRP": lambda: E.CVRP(),
        "LevelBasedForaging": lambda: E.LevelBasedForaging(time_limit=tl),
        "Maze": lambda: E.Maze(time_limit=tl),
        "MMST": lambda: E.MMST(time_limit=tl),
        "MultiCVRP": lambda: E.MultiCVRP(),
        "PacMan": lambda: E.PacMan(time_limit=tl),
        "RobotWarehouse": lambda: E.RobotWarehouse(time_limit=tl),
        "Snake": lambda: E.Snake(num_rows=4, num_cols=5, time_limit=tl),
        "Sokoban": lambda: _sokoban(time_limit=tl),
        "TSP": lambda: E.TSP(),
    }
    # stacked wrappers: the functional wrappers must treat a WRAPPED environment like any other environment (their
    # reset/step are the wrapped object's, not the innermost raw environment's)
    c["Snake.KeyFolded"] = lambda: _key_folded(E.Snake(num_rows=4, num_cols=5, time_limit=tl))
    c["Maze.ObsShifted"] = lambda: _obs_shifted(E.Maze(time_limit=tl))
    # a wrapped environment that emits MID timesteps with discount 0: Connector behind MultiToSingleWrapper with the MIN
    # of the per-agent discounts (zero as soon as one agent is connected or blocked, long before the episode ends)
    c["Connector.M2SMin"] = lambda: _m2s_min(E.Connector(time_limit=12))
    # episodes that end for two reasons at once: puzzles one move away from the goal with a time limit of one step (a random
    # move solves them ON the limit step now and then; the terminal key must still be a fresh one every time)
    c["RubiksCube.S1T1"] = lambda: _cube_s1(1)
    # wrapped environments whose own extras already hold a "next_obs" entry: a user wrapper that reserves the slot with a
    # placeholder, and an environment that is itself an AutoResetWrapper with next_obs_in_extras (on its LAST steps that entry
    # is NOT the observation the step returns) - an outer wrapper must still report the true successor observation
    c["Snake.ReservedNextObs"] = lambda: _reserved_next_obs(E.Snake(num_rows=4, num_cols=5, time_limit=tl))
    c["Snake.InnerAutoReset"] = lambda: _inner_auto_reset(E.Snake(num_rows=4, num_cols=5, time_limit=tl))
    # a user-written environment whose bounded specs have one range per row (bounds broadcast along the trailing axis)
    c["Probe.RowBounded"] = lambda: _row_bounded()
    c["SlidingTilePuzzle.K1T1"] = lambda: _sliding_k1(1)
    return c


def _row_bounded():
    from harness.lib.probe_env import RowBoundedEnv

    return RowBoundedEnv(time_limit=4)


def _cube_s1(tl):
    import jumanji.environments as E
    from jumanji.environments.logic.rubiks_cube.generator import ScramblingGenerator

    return E.RubiksCube(generator=ScramblingGenerator(cube_size=2, num_scrambles_on_reset=1), time_limit=tl)


def _sliding_k1(tl):
    import jumanji.environments as E
    from jumanji.environments.logic.sliding_tile_puzzle.generator import RandomWalkGenerator

    return E.SlidingTilePuzzle(generator=RandomWalkGenerator(grid_size=2, num_random_moves=1), time_limit=tl)


def _m2s_min(env):
    import jax.numpy as jnp

    from jumanji.wrappers import MultiToSingleWrapper

    return MultiToSingleWrapper(env, discount_aggregator=jnp.min)


def _key_folded(env):
    """A user wrapper whose reset differs from the raw reset: it folds a constant into the key first."""
    import jax

    from jumanji.wrappers import Wrapper

    class KeyFolded(Wrapper):
        def reset(self, key):
            return self._env.reset(jax.random.fold_in(key, 12345))

    return KeyFolded(env)


def _reserved_next_obs(env):
    import jax

    from jumanji.wrappers import Wrapper

    class ReservedNextObs(Wrapper):
        def _tf(self, ts):
            extras = dict(ts.extras or {})
            extras["next_obs"] = jax.tree_util.tree_map(lambda x: x * 0, ts.observation)      # a placeholder of the right shape
            extras["own_metric"] = ts.observation.step_count + 7
            return ts.replace(extras=extras)

        def reset(self, key):
            s, ts = self._env.reset(key)
            return s, self._tf(ts)

        def step(self, state, action):
            s, ts = self._env.step(state, action)
            return s, self._tf(ts)

    return ReservedNextObs(env)


def _inner_auto_reset(env):
    from jumanji.wrappers import AutoResetWrapper

    return AutoResetWrapper(env, next_obs_in_extras=True)


def _obs_shifted(env):
    """A user wrapper that transforms the observation of reset AND step (step_count shifted by 100)."""
    from jumanji.wrappers import Wrapper

    class ObsShifted(Wrapper):
        def _tf(self, ts):
            return ts.replace(observation=ts.observation._replace(step_count=ts.observation.step_count + 100))

        def reset(self, key):
            s, ts = self._env.reset(key)
            return s, self._tf(ts)

        def step(self, state, action):
            s, ts = self._env.step(state, action)
            return s, self._tf(ts)

    return ObsShifted(env)


MULTI_AGENT = ("Connector", "LevelBasedForaging", "MMST", "MultiCVRP", "RobotWarehouse", "Cleaner")


def random_action(env, rng):
    """Uniform in-spec action (numpy) from the live action spec."""
    spec = env.action_spec
    if not hasattr(spec, "num_values"):  # plain BoundedArray of integers (MultiCVRP)
        lo = np.broadcast_to(np.asarray(spec.minimum), spec.shape)
        hi = np.broadcast_to(np.asarray(spec.maximum), spec.shape)
        return (lo + np.floor(rng.random(spec.shape) * (hi - lo + 1))).astype(spec.dtype)
    nv = np.asarray(spec.num_values)
    if nv.ndim == 0:
        return np.asarray(rng.integers(0, int(nv)), dtype=spec.dtype)
    return (rng.random(nv.shape) * nv).astype(spec.dtype)


def masked_action(env, obs, rng):
    """An action allowed by the implementation's mask where the layout is understood, else random."""
    m = getattr(obs, "action_mask", None)
    spec = env.action_spec
    if m is None or not hasattr(spec, "num_values"):
        return random_action(env, rng)
    nv = np.asarray(spec.num_values)
    m = np.asarray(m)
    if nv.ndim == 0:
        idx = np.flatnonzero(m.reshape(-1))
        if m.reshape(-1).shape[0] == int(nv) and len(idx):
            return np.asarray(rng.choice(idx), dtype=spec.dtype)
        return random_action(env, rng)
    if m.shape == tuple(int(x) for x in nv.reshape(-1)) and m.any():
        idx = np.flatnonzero(m.reshape(-1))
        return np.asarray(np.unravel_index(rng.choice(idx), m.shape), dtype=spec.dtype).reshape(nv.shape)
    if m.ndim == 2 and nv.ndim == 1 and m.shape[0] == nv.shape[0] and (m.shape[1] == nv).all():
        out = [rng.choice(np.flatnonzero(r)) if r.any() else 0 for r in m]
        return np.asarray(out, dtype=spec.dtype)
    return random_action(env, rng)


def illegal_action(env, obs, rng):
    """An in-spec action the implementation's mask forbids (None when the layout is not understood or none exists)."""
    m = getattr(obs, "action_mask", None)
    spec = env.action_spec
    if m is None or not hasattr(spec, "num_values"):
        return None
    nv = np.asarray(spec.num_values)
    m = np.asarray(m)
    if nv.ndim == 0:
        idx = np.flatnonzero(~m.reshape(-1))
        if m.reshape(-1).shape[0] == int(nv) and len(idx):
            return np.asarray(rng.choice(idx), dtype=spec.dtype)
        return None
    if m.shape == tuple(int(x) for x in nv.reshape(-1)) and (~m).any():
        idx = np.flatnonzero(~m.reshape(-1))
        return np.asarray(np.unravel_index(rng.choice(idx), m.shape), dtype=spec.dtype).reshape(nv.shape)
    if m.ndim == 2 and nv.ndim == 1 and m.shape[0] == nv.shape[0] and (m.shape[1] == nv).all() and (~m[0]).any():
        out = [rng.choice(np.flatnonzero(r)) if r.any() else 0 for r in m]
        out[0] = rng.choice(np.flatnonzero(~m[0]))      # agent 0 plays an illegal move
        return np.asarray(out, dtype=spec.dtype)
    return None


# environments in which an illegal action ends the episode at once (used to force termination schedules)
TERMINATE_ON_INVALID = ("TSP", "CVRP", "Knapsack", "Snake", "Minesweeper", "GraphColoring", "Cleaner", "Sudoku", "Tetris")
