"""Driver for C16: calls on the real jumanji.specs module (validate, generate_value, replace, ==, pickle,
gym / dm_env conversions) over a systematically generated universe of specs and values plus the
observation/action specs of all environments. Every call is logged with a DESCRIPTION of its inputs
(spec and value as data) and its raw outcome; the TLA+ model (SpecsAlgebra.tla) predicts the outcome.

python -m harness.lib.spec_drive <part> <tier> <seed> <out.ndjson>     part in {universe, envs}
"""
import collections
import dataclasses
import itertools
import json
import pickle
import sys
import time
import traceback

import numpy as np

from harness import jsonify
from harness.common import dumps

DTYPES = ["bool", "int8", "int16", "int32", "uint8", "float16", "float32"]


def ordv(x, dtype):
    dt = np.dtype(dtype)
    if np.issubdtype(dt, np.floating):
        return jsonify.ford(np.float32(x))
    return int(x)


def spec_desc(spec):
    from jumanji import specs as S

    if type(spec) is S.Spec or (isinstance(spec, S.Spec) and not isinstance(spec, S.Array)):
        return {"kind": "Spec", "name": spec.name, "shape": [], "dtype": "none", "min": [], "max": [], "num_values": [],
                "children": [{"key": k, "spec": spec_desc(v)} for k, v in spec._specs.items()]}
    dt = str(np.dtype(spec.dtype))
    d = {"kind": type(spec).__name__, "name": spec.name, "shape": [int(x) for x in spec.shape], "dtype": dt,
         "min": [], "max": [], "num_values": [], "children": []}
    if isinstance(spec, S.BoundedArray):
        mn = np.broadcast_to(np.asarray(spec.minimum), spec.shape).reshape(-1)
        mx = np.broadcast_to(np.asarray(spec.maximum), spec.shape).reshape(-1)
        d["min"] = [ordv(v, dt) for v in mn]
        d["max"] = [ordv(v, dt) for v in mx]
        # the raw (un-broadcast) bounds also matter for equality
        d["min_raw_shape"] = [int(x) for x in np.asarray(spec.minimum).shape]
        d["max_raw_shape"] = [int(x) for x in np.asarray(spec.maximum).shape]
    if isinstance(spec, (S.DiscreteArray, S.MultiDiscreteArray)):
        d["num_values"] = [int(v) for v in np.asarray(spec.num_values).reshape(-1)]
    return d


def value_desc(v):
    import jax.numpy as jnp

    if isinstance(v, tuple) and hasattr(v, "_asdict"):
        return {"kind": "tree", "fields": [{"key": k, "value": value_desc(x)} for k, x in v._asdict().items()]}
    if hasattr(v, "__dataclass_fields__"):
        return {"kind": "tree", "fields": [{"key": k, "value": value_desc(getattr(v, k))} for k in v.__dataclass_fields__]}
    if isinstance(v, (list, dict)) or v is None:
        return {"kind": "other", "fields": []}
    try:
        a = np.asarray(jnp.asarray(v))
    except Exception:  # noqa: BLE001
        return {"kind": "other", "fields": []}
    dt = str(a.dtype)
    isf = np.issubdtype(a.dtype, np.floating)
    return {"kind": "leaf", "shape": [int(x) for x in a.shape], "dtype": dt, "fields": [],
            "data": [ordv(x, dt) for x in a.reshape(-1)], "nan": bool(isf and np.isnan(a).any())}


def outcome(fn):
    try:
        r = fn()
        return "ok", r
    except Exception as e:  # noqa: BLE001
        return "raise:" + type(e).__name__, None


# ------------------------------------------------------------------------------------------
Pair = collections.namedtuple("Pair", ["a", "b"])
Triple = collections.namedtuple("Triple", ["x", "y", "z"])


def leaf_universe(rng, tier):
    """(spec, label) for array-like specs."""
    from jumanji import specs as S
    import jax.numpy as jnp

    shapes = [(), (1,), (3,), (2, 2), (0,), (2, 0, 3), (2, 1, 2)]
    out = []
    for dt in DTYPES:
        for sh in shapes:
            out.append(S.Array(sh, dt, name=f"a_{dt}"))
            if dt == "bool":
                out.append(S.BoundedArray(sh, dt, False, True, name="b"))
                continue
            isf = dt.startswith("float")
            lo, hi = (-1.5, 2.25) if isf else ((0, 5) if dt == "uint8" else (-3, 5))
            out.append(S.BoundedArray(sh, dt, lo, hi, name=f"b_{dt}"))
            out.append(S.BoundedArray(sh, dt, lo, lo, name="degenerate"))
            if dt == "int32":   # large magnitudes: a difference of 1 is far below any relative tolerance
                out.append(S.BoundedArray(sh, dt, -200000, 300000, name="large"))
            if dt == "float32":
                out.append(S.BoundedArray(sh, dt, -1000.5, 4096.25, name="large"))
            if isf:
                out.append(S.BoundedArray(sh, dt, 0.0, np.inf, name="nonneg"))
            n = int(np.prod(sh))
            if n >= 2 and 0 not in sh:
                mn = (np.arange(n).reshape(sh) * (0.5 if isf else 1) + lo).astype(dt)
                mx = (mn + (np.arange(n).reshape(sh) % 3)).astype(dt)
                out.append(S.BoundedArray(sh, dt, mn, mx, name="elementwise"))
                out.append(S.BoundedArray(sh, dt, lo, mx.max(axis=0) if len(sh) > 1 and False else mx, name="max_elementwise"))
            # bounds that broadcast ACROSS the trailing axes (one bound per row / per leading index): shape (n, 1), (n, 1, 1)
            if len(sh) >= 2 and 0 not in sh and sh[0] >= 2 and n > sh[0]:
                bsh = (sh[0],) + (1,) * (len(sh) - 1)
                rmn = (np.arange(sh[0]).reshape(bsh) * (10 if not isf else 2.5) + lo).astype(dt)
                rmx = (rmn + 2).astype(dt)
                out.append(S.BoundedArray(sh, dt, rmn, rmx, name="per_row"))
                out.append(S.BoundedArray(sh, dt, rmn, float(rmx.max()) if isf else int(rmx.max()), name="min_per_row"))
    for dt in ("int8", "int32", "uint8", "int16"):
        for nv in (1, 2, 5):
            out.append(S.DiscreteArray(nv, dt, name=f"d{nv}"))
    # num_values at the very edge of a narrow dtype (the maximum, num_values - 1, still fits)
    out.append(S.MultiDiscreteArray(jnp.array([128, 3]), "int8", name="md_edge8"))
    out.append(S.MultiDiscreteArray(jnp.array([256, 2]), "uint8", name="md_edgeu8"))
    out.append(S.MultiDiscreteArray(jnp.array([32768]), "int16", name="md_edge16"))
    out.append(S.DiscreteArray(128, "int8", name="d_edge8"))
    for dt in ("int32", "int8"):
        out.append(S.MultiDiscreteArray(jnp.array([2, 3]), dt, name="md"))
        out.append(S.MultiDiscreteArray(jnp.array([[1, 4], [2, 2]]), dt, name="md2"))
        out.append(S.MultiDiscreteArray(jnp.array([5]), dt, name="md1"))
    return out


def random_leaf_universe(rng, n):
    """Seeded random leaf specs: rank 0-3 shapes (dims 0-3), all dtypes, scalar / per-element / partially broadcast bounds."""
    from jumanji import specs as S
    import jax.numpy as jnp

    out = []
    for _ in range(n):
        rank = int(rng.integers(0, 4))
        sh = tuple(int(rng.integers(0, 4)) for _ in range(rank))
        dt = DTYPES[int(rng.integers(0, len(DTYPES)))]
        kind = int(rng.integers(0, 5))
        name = ["", "x", "obs"][int(rng.integers(0, 3))]
        try:
            if kind == 0 or dt == "bool" and kind in (3, 4):
                out.append(S.Array(sh, dt, name=name))
            elif kind in (1, 2):
                isf = dt.startswith("float")
                if dt == "bool":
                    out.append(S.BoundedArray(sh, dt, False, True, name=name))
                    continue
                lo_lim, hi_lim = (0, 200) if dt == "uint8" else (-100, 100)
                if kind == 1 or 0 in sh or not sh:
                    a, b = sorted(rng.integers(lo_lim, hi_lim, size=2).tolist())
                    mn, mx = (a / 4.0, b / 4.0) if isf else (a, b)
                else:
                    # bounds of the trailing-axis shape (broadcast along the leading axes) or of the full shape
                    u = rng.random()
                    bsh = sh if u < 0.4 else sh[-1:] if u < 0.7 else (sh[0],) + (1,) * (len(sh) - 1)
                    a = rng.integers(lo_lim, hi_lim, size=bsh)
                    b = a + rng.integers(0, 20, size=bsh)
                    if not isf:
                        b = np.minimum(b, np.iinfo(dt).max)
                    mn, mx = (a / 4.0, b / 4.0) if isf else (a, b)
                    mn, mx = np.asarray(mn, dt), np.asarray(mx, dt)
                out.append(S.BoundedArray(sh, dt, mn, mx, name=name))
            elif kind == 3:
                idt = ["int8", "int16", "int32", "uint8"][int(rng.integers(0, 4))]
                out.append(S.DiscreteArray(int(rng.integers(1, 100)), idt, name=name))
            else:
                idt = ["int8", "int16", "int32"][int(rng.integers(0, 3))]
                nsh = tuple(int(rng.integers(1, 4)) for _ in range(int(rng.integers(1, 3))))
                out.append(S.MultiDiscreteArray(jnp.asarray(rng.integers(1, 100, size=nsh)), idt, name=name))
        except Exception:  # noqa: BLE001  (a randomly drawn combination the constructor refuses is simply skipped)
            continue
    return out


def _repl(v, **kw):
    """a named tuple / dataclass value with some fields replaced"""
    return v._replace(**kw) if hasattr(v, "_replace") else dataclasses.replace(v, **kw)


NT2 = collections.namedtuple("NT2", ["u", "v"])
NT3 = collections.namedtuple("NT3", ["p", "q", "r"])




@dataclasses.dataclass
class DC2:
    u: object
    v: object


@dataclasses.dataclass
class DC3:
    p: object
    q: object
    r: object


_CX = {}


def _chex_classes():
    if not _CX:
        import chex

        @chex.dataclass
        class CX2:
            u: object
            v: object

        @chex.dataclass
        class CX3:
            p: object
            q: object
            r: object

        _CX.update(CX2=CX2, CX3=CX3)
    return _CX["CX2"], _CX["CX3"]


NESTED_PAIRS = []      # (spec, spec, why): nested specs built twice, children given in another keyword order / swapped


def nested_universe(leaves, rng):
    from jumanji import specs as S

    out = []
    pick = lambda: leaves[int(rng.integers(0, len(leaves)))]  # noqa: E731
    for _ in range(6 if len(leaves) < 600 else 60):
        a, b, c = pick(), pick(), pick()
        s2 = S.Spec(NT2, "NT2Spec", u=a, v=b)
        out.append(s2)
        inner = S.Spec(NT2, "Inner", u=b, v=c)
        s3 = S.Spec(NT3, "NT3Spec", p=a, q=inner, r=c)
        out.append(s3)
        # children are named: the keyword order in which they were given is not part of a spec, which child holds
        # which spec is (equality is decided child by child, by name)
        NESTED_PAIRS.append((s2, S.Spec(NT2, "NT2Spec", v=b, u=a), "children_other_keyword_order"))
        NESTED_PAIRS.append((s2, S.Spec(NT2, "NT2Spec", v=a, u=b), "children_swapped"))
        NESTED_PAIRS.append((s2, S.Spec(NT2, "NT2Spec", u=b, v=a), "children_swapped"))
        NESTED_PAIRS.append((s3, S.Spec(NT3, "NT3Spec", r=c, q=S.Spec(NT2, "Inner", v=c, u=b), p=a), "children_other_keyword_order"))
        NESTED_PAIRS.append((s3, S.Spec(NT3, "NT3Spec", r=a, q=inner, p=c), "children_swapped"))
        NESTED_PAIRS.append((s3, S.Spec(NT3, "NT3Spec", p=a, q=S.Spec(NT2, "Inner", u=c, v=b), r=c), "inner_children_swapped"))
    # the same two-level shapes with the other documented kinds of containers: dataclasses and chex dataclasses, inside
    # each other and mixed with named tuples
    CX2, CX3 = _chex_classes()
    for (outer, inner_cls) in ((DC3, DC2), (CX3, CX2), (DC3, NT2), (NT3, DC2), (CX3, DC2), (NT3, CX2)):
        a, b, c = pick(), pick(), pick()
        out.append(S.Spec(outer, outer.__name__ + "Spec", p=a, q=S.Spec(inner_cls, "Inner" + inner_cls.__name__, u=b, v=c), r=c))
    return out


def _next(x, towards, dt):
    """Neighbouring float in the given direction, skipping subnormals (XLA flushes them to zero on CPU,
    which is a property of the backend, not of jumanji)."""
    y = np.nextafter(dt.type(x), dt.type(towards))
    tiny = np.finfo(dt).tiny
    if y != 0 and abs(y) < tiny:
        y = dt.type(tiny) if towards > 0 else dt.type(-tiny)
    if y == x:  # stepping from +-tiny towards zero lands on a subnormal: go to zero or across
        y = dt.type(0.0)
    return y


def variants(v, spec, rng):
    """Values around a leaf spec's value set: the bounds, just inside/outside, wrong shape/dtype."""
    from jumanji import specs as S
    import jax.numpy as jnp

    dt = np.dtype(spec.dtype)
    base = np.asarray(v)
    out = [("generated", v)]
    if isinstance(spec, S.BoundedArray) and base.size:
        mn = np.broadcast_to(np.asarray(spec.minimum), spec.shape).astype(dt)
        mx = np.broadcast_to(np.asarray(spec.maximum), spec.shape).astype(dt)
        out.append(("at_min", mn.copy()))
        out.append(("at_max", mx.copy()))
        idx = tuple(int(rng.integers(0, s)) for s in spec.shape)
        if dt == np.bool_:
            pass
        elif np.issubdtype(dt, np.floating):
            for nm, arr, tgt, sign in (("below_min", mn, -np.inf, 1), ("above_max", mx, np.inf, 1)):
                x = arr.copy()
                if np.isfinite(x[idx]):
                    x[idx] = _next(x[idx], tgt, dt)
                    out.append((nm, x))
            x = mn.copy()
            if np.isfinite(mn[idx]) and mn[idx] < mx[idx]:
                x[idx] = _next(x[idx], np.inf, dt)
                if mn[idx] < x[idx] <= mx[idx]:
                    out.append(("just_inside_min", x))
            x = mx.copy()
            if np.isfinite(mx[idx]) and mn[idx] < mx[idx]:
                x[idx] = _next(x[idx], -np.inf, dt)
                if mn[idx] <= x[idx] < mx[idx]:
                    out.append(("just_inside_max", x))
        else:
            info = np.iinfo(dt)
            if int(mn[idx]) - 1 >= info.min:
                x = mn.copy()
                x[idx] = mn[idx] - 1
                out.append(("below_min", x))
            if int(mx[idx]) + 1 <= info.max:
                x = mx.copy()
                x[idx] = mx[idx] + 1
                out.append(("above_max", x))
            if mn[idx] < mx[idx]:
                x = mn.copy()
                x[idx] = mn[idx] + 1
                out.append(("just_inside_min", x))
    # infinities and the largest finite values: members of a float spec exactly when its bounds allow them (an unbounded
    # Array / infinite bounds), and then also of the converted gym space and dm_env spec
    if np.issubdtype(dt, np.floating) and base.size:
        idx = tuple(int(rng.integers(0, s)) for s in spec.shape)
        for nm, val in (("plus_inf", np.inf), ("minus_inf", -np.inf), ("largest_finite", np.finfo(dt).max),
                        ("lowest_finite", np.finfo(dt).min)):
            x = np.asarray(base, dtype=dt).copy()
            x[idx] = val
            out.append((nm, x))
    # weakly typed Python scalars: converted to a JAX array they get the default int32 / float32 dtype, so they are
    # members only of specs of exactly that dtype (a float never belongs to an integer spec, however it is rounded)
    extra_raw = []
    if tuple(spec.shape) == ():
        extra_raw = [("python_float_fractional", 2.7), ("python_float_integral", 1.0), ("python_int", 1),
                     ("python_bool", True), ("python_float_above_max", 3.9)]
    # wrong shape / wrong dtype
    out.append(("wrong_shape", np.zeros(tuple(spec.shape) + (1,), dt)))
    if len(spec.shape) >= 1:
        out.append(("wrong_shape2", np.zeros(tuple(spec.shape)[:-1], dt)))
    other = np.dtype("float32") if not np.issubdtype(dt, np.floating) else np.dtype("int32")
    out.append(("wrong_dtype", np.zeros(spec.shape, other)))
    if dt == np.dtype("float32"):
        out.append(("wrong_dtype16", np.zeros(spec.shape, np.float16)))
    if dt == np.dtype("int32"):
        out.append(("wrong_dtype8", np.zeros(spec.shape, np.int8)))
    return [(n, jnp.asarray(x)) for n, x in out] + extra_raw


def events_for_spec(spec, label, rng, evs, with_values=True):
    from jumanji import specs as S
    import jax.numpy as jnp

    sd = spec_desc(spec)
    # generate -> validate
    oc, gen = outcome(spec.generate_value)
    if oc != "ok":
        evs.append({"k": "generate", "label": label, "spec": sd, "gen_outcome": oc, "value": {"kind": "other", "fields": []},
                    "validate_outcome": "none"})
        return
    oc2, _ = outcome(lambda: spec.validate(gen))
    evs.append({"k": "generate", "label": label, "spec": sd, "gen_outcome": "ok", "value": value_desc(gen),
                "validate_outcome": oc2})
    vals = []
    if with_values:
        if isinstance(spec, S.Array):
            vals = variants(gen, spec, rng)
        else:
            vals = [("generated", gen)]
            # structure errors for nested specs
            vals.append(("not_a_tree", [1, 2]))
            kids = list(spec._specs.items())
            names = [k for k, _ in kids]
            gd = gen._asdict() if hasattr(gen, "_asdict") else {k: getattr(gen, k) for k in names}
            import jax.numpy as jnp_

            Sup = collections.namedtuple("Sup", names + ["extra_field"])
            vals.append(("extra_field", Sup(**gd, extra_field=jnp_.zeros((), "int32"))))
            if len(names) >= 2:
                Sub = collections.namedtuple("Sub", names[:-1])
                vals.append(("missing_field", Sub(**{k: gd[k] for k in names[:-1]})))
                Ren = collections.namedtuple("Ren", names[:-1] + ["renamed_" + names[-1]])
                vals.append(("renamed_field", Ren(**{k: gd[k] for k in names[:-1]}, **{"renamed_" + names[-1]: gd[names[-1]]})))
            # the same one level down: an inner nested value with an extra field
            for k0, s0 in kids:
                if not isinstance(s0, S.Array):
                    inner = gd[k0]
                    inames = list(s0._specs)
                    idict = inner._asdict() if hasattr(inner, "_asdict") else {k: getattr(inner, k) for k in inames}
                    ISup = collections.namedtuple("ISup", inames + ["extra_inner"])
                    vals.append(("inner_extra_field", _repl(gen, **{k0: ISup(**idict, extra_inner=jnp_.zeros((), "int32"))})))
                    break
            if kids and isinstance(kids[0][1], S.Array):
                k0, s0 = kids[0]
                bad = _repl(gen, **{k0: jnp.zeros(tuple(s0.shape) + (2,), s0.dtype)})
                vals.append(("child_wrong_shape", bad))
                if isinstance(s0, S.BoundedArray) and np.prod(s0.shape) > 0 and np.dtype(s0.dtype) != np.bool_:
                    mx = np.broadcast_to(np.asarray(s0.maximum), s0.shape)
                    if np.issubdtype(np.dtype(s0.dtype), np.floating):
                        if np.isfinite(mx).all():
                            vals.append(("child_above_max", _repl(gen, **{k0: jnp.asarray((np.abs(mx) * 1.5 + 1).astype(s0.dtype))})))
                    elif int(mx.max()) + 1 <= np.iinfo(np.dtype(s0.dtype)).max:
                        vals.append(("child_above_max", _repl(gen, **{k0: jnp.asarray((mx + 1).astype(s0.dtype))})))
    for vn, v in vals:
        oc, _ = outcome(lambda v=v: spec.validate(v))
        vd = value_desc(v)
        ev = {"k": "validate", "label": label, "case": vn, "spec": sd, "value": vd, "outcome": oc}
        # conversions: every value valid for the spec belongs to the gym space / satisfies the dm_env spec
        if vd["kind"] != "other":
            goc, gsp = outcome(lambda: S.jumanji_specs_to_gym_spaces(spec))
            doc, dsp = outcome(lambda: S.jumanji_specs_to_dm_env_specs(spec))
            ev["gym_convert"] = goc
            ev["dm_convert"] = doc
            if goc == "ok":
                ev["gym_contains"] = bool(gym_contains(gsp, v))
            else:
                ev["gym_contains"] = False
            if doc == "ok":
                ev["dm_ok"] = dm_ok(dsp, v)
            else:
                ev["dm_ok"] = False
        evs.append(ev)
    # replace
    oc, r0 = outcome(lambda: spec.replace())
    e_oc, eqv = outcome(lambda: bool(r0 == spec)) if oc == "ok" else ("none", None)
    evs.append({"k": "replace", "label": label, "spec": sd, "changes": [], "outcome": oc,
                "result": spec_desc(r0) if oc == "ok" else sd, "eq_outcome": e_oc if e_oc != "ok" else str(eqv).lower()})
    for ch in replacements(spec):
        oc, r = outcome(lambda ch=ch: spec.replace(**ch[1]))
        evs.append({"k": "replace", "label": label, "spec": sd, "changes": ch[0], "outcome": oc,
                    "result": spec_desc(r) if oc == "ok" else sd, "eq_outcome": "none"})
    # pickle round trip
    oc, r = outcome(lambda: pickle.loads(pickle.dumps(spec)))
    if isinstance(spec, S.Array):  # nested specs hold constructors (namedtuple classes) - still picklable when module-level
        e_oc, eqv = outcome(lambda: bool(r == spec)) if oc == "ok" else ("none", None)
        evs.append({"k": "pickle", "label": label, "spec": sd, "outcome": oc, "result": spec_desc(r) if oc == "ok" else sd,
                    "eq_outcome": e_oc if e_oc != "ok" else str(eqv).lower()})
    # samples of converted action-like spaces are valid
    if isinstance(spec, (S.DiscreteArray, S.MultiDiscreteArray)) and str(np.dtype(spec.dtype)) == "int32":
        sp = S.jumanji_specs_to_gym_spaces(spec)
        sp.seed(int(rng.integers(0, 2 ** 31 - 1)))
        for _ in range(4):
            smp = sp.sample()
            oc, _ = outcome(lambda: spec.validate(jnp.asarray(smp)))
            evs.append({"k": "gym_sample", "label": label, "spec": sd, "value": value_desc(jnp.asarray(smp)), "outcome": oc})


def gym_contains(space, v):
    import gymnasium as gym

    if isinstance(space, gym.spaces.Dict):
        d = v._asdict() if hasattr(v, "_asdict") else {k: getattr(v, k) for k in v.__dataclass_fields__}
        if set(d) != set(space.spaces):
            return False
        return all(gym_contains(space.spaces[k], d[k]) for k in d)
    import jax.numpy as jnp

    return space.contains(np.asarray(jnp.asarray(v)))       # the value as validate sees it (converted to a JAX array)


def dm_ok(dspec, v):
    try:
        if isinstance(dspec, dict):
            d = v._asdict() if hasattr(v, "_asdict") else {k: getattr(v, k) for k in v.__dataclass_fields__}
            return all(dm_ok(dspec[k], d[k]) for k in dspec)
        import jax.numpy as jnp

        dspec.validate(np.asarray(jnp.asarray(v)))
        return True
    except Exception:  # noqa: BLE001
        return False


def replacements(spec):
    """[(changes description, kwargs)] - each changes exactly the named attributes."""
    from jumanji import specs as S
    import jax.numpy as jnp

    out = []
    if isinstance(spec, S.Array):
        out.append(([{"attr": "name", "value": "renamed"}], {"name": "renamed"}))
        imax = np.iinfo(np.dtype(spec.dtype)).max if np.issubdtype(np.dtype(spec.dtype), np.integer) else 0
        if isinstance(spec, S.DiscreteArray):
            nvn = int(spec.num_values) + 1 if int(spec.num_values) <= imax else int(spec.num_values) - 1
            out.append(([{"attr": "num_values", "value": [nvn]}], {"num_values": nvn}))
        elif isinstance(spec, S.MultiDiscreteArray):
            nv0 = np.asarray(spec.num_values)
            nv = np.where(nv0 <= imax, nv0 + 1, nv0 - 1)          # stay within what the dtype can hold
            out.append(([{"attr": "num_values", "value": [int(x) for x in nv.reshape(-1)]}], {"num_values": jnp.asarray(nv)}))
        elif isinstance(spec, S.BoundedArray):
            dt = np.dtype(spec.dtype)
            if dt != np.bool_:
                mx = np.asarray(spec.maximum)
                if np.issubdtype(dt, np.floating):
                    newmax = (mx + 1).astype(dt)
                    ok = np.isfinite(newmax).all()
                else:
                    ok = int(mx.max()) + 1 <= np.iinfo(dt).max if mx.size else False
                    newmax = (mx + 1).astype(dt)
                if ok:
                    full = np.broadcast_to(newmax, spec.shape).reshape(-1)
                    out.append(([{"attr": "maximum", "value": [ordv(v, str(dt)) for v in full]}], {"maximum": newmax}))
                # the smallest possible change of a bound: one ulp (floats) / one unit (ints)
                mn = np.asarray(spec.minimum)
                if np.issubdtype(dt, np.floating):
                    m2 = np.nextafter(mx, dt.type(np.inf)).astype(dt)
                    n2 = np.nextafter(mn, dt.type(-np.inf)).astype(dt)
                    tiny = np.finfo(dt).tiny
                    ok2 = np.isfinite(m2).all() and (np.abs(m2) >= tiny).all() and np.isfinite(mx).all()
                    ok3 = np.isfinite(n2).all() and (np.abs(n2) >= tiny).all() and np.isfinite(mn).all()
                else:
                    m2, n2 = (mx + 1).astype(dt), (mn - 1).astype(dt)
                    ok2 = False  # already covered above
                    ok3 = mn.size > 0 and int(mn.min()) - 1 >= np.iinfo(dt).min
                if ok2:
                    full = np.broadcast_to(m2, spec.shape).reshape(-1)
                    out.append(([{"attr": "maximum", "value": [ordv(v, str(dt)) for v in full]}], {"maximum": m2}))
                if ok3:
                    full = np.broadcast_to(n2, spec.shape).reshape(-1)
                    out.append(([{"attr": "minimum", "value": [ordv(v, str(dt)) for v in full]}], {"minimum": n2}))
        elif type(spec) is S.Array:
            out.append(([{"attr": "shape", "value": [int(x) for x in tuple(spec.shape) + (2,)]}], {"shape": tuple(spec.shape) + (2,)}))
            nd = "int32" if str(np.dtype(spec.dtype)) != "int32" else "float32"
            out.append(([{"attr": "dtype", "value": nd}], {"dtype": nd}))
    else:
        kids = list(spec._specs.items())
        if kids:
            k0, s0 = kids[0]
            new = S.Array((7,), "int32", name="swapped")
            out.append(([{"attr": "child", "key": k0, "value": spec_desc(new)}], {k0: new}))
    return out


def eq_events(specs_list, rng, evs, n_pairs):
    """== over same-kind pairs: reflexive copies, near-identical variants, random pairs (both orders)."""
    from jumanji import specs as S

    def add(a, b, why):
        oc, r = outcome(lambda: bool(a == b))
        evs.append({"k": "eq", "why": why, "a": spec_desc(a), "b": spec_desc(b),
                    "outcome": oc if oc != "ok" else str(r).lower()})

    by_kind = collections.defaultdict(list)
    for s in specs_list:
        by_kind[type(s).__name__ if isinstance(s, S.Array) else "Spec"].append(s)
    for s in specs_list:
        add(s, s, "same_object")
        oc, c = outcome(lambda s=s: s.replace())
        if oc == "ok":
            add(s, c, "copy")
            add(c, s, "copy_sym")
        for ch in replacements(s):
            oc, c = outcome(lambda ch=ch, s=s: s.replace(**ch[1]))
            if oc == "ok" and type(c) is type(s) and spec_desc(c) != spec_desc(s):   # (no visible change on size-0 shapes)
                add(s, c, "one_attribute_changed")
                add(c, s, "one_attribute_changed_sym")
    for a, b, why in NESTED_PAIRS:
        add(a, b, why)
        add(b, a, why + "_sym")
    for kind, lst in by_kind.items():
        for _ in range(n_pairs):
            a, b = lst[int(rng.integers(0, len(lst)))], lst[int(rng.integers(0, len(lst)))]
            add(a, b, "random_pair")
            add(b, a, "random_pair_sym")


def drive(part, tier, seed):
    rng = np.random.default_rng(seed + 5)
    evs = []
    if part == "universe":
        leaves = leaf_universe(rng, tier) + random_leaf_universe(rng, 60 if tier == "quick" else 1500)
        nested = nested_universe(leaves, rng)
        for i, s in enumerate(leaves + nested):
            events_for_spec(s, f"u{i}", rng, evs)
        eq_events(leaves + nested, rng, evs, 40 if tier == "quick" else 400)
    else:
        from harness.lib import catalog

        cat = catalog.catalog(tier)
        for name in sorted(cat):
            env = cat[name]()
            env2 = cat[name]()
            for sn in ("observation_spec", "action_spec", "reward_spec", "discount_spec"):
                s, s2 = getattr(env, sn), getattr(env2, sn)
                events_for_spec(s, f"{name}.{sn}", rng, evs, with_values=True)
                oc, r = outcome(lambda: bool(s == s2))
                evs.append({"k": "eq", "why": f"two_instances:{name}.{sn}", "a": spec_desc(s), "b": spec_desc(s2),
                            "outcome": oc if oc != "ok" else str(r).lower()})
    return evs


def main():
    part, tier, seed, out = sys.argv[1:5]
    from harness.common import setup_env

    setup_env()
    t0 = time.time()
    try:
        evs = drive(part, tier, int(seed))
        with open(out, "w") as f:
            f.write(dumps({"k": "hdr", "env": part, "cfg": {}, "tier": tier, "seed": int(seed)}) + "\n")
            for e in evs:
                f.write(dumps(e) + "\n")
        print(json.dumps({"ok": True, "events": len(evs), "lines": len(evs) + 1, "wall": round(time.time() - t0, 1)}))
    except Exception as e:  # noqa: BLE001
        tb = traceback.format_exc()
        print(json.dumps({"ok": False, "error": f"{type(e).__name__}: {e}", "tb": tb[-3000:]}))


if __name__ == "__main__":
    main()
