"""Driver for C15: JumanjiToGymWrapper, JumanjiToDMEnvWrapper, MultiToSingleWrapper on the real
environments. Logs, per adapter call, the adapter's output and an oracle table computed from the native
API (split of the adapter's key before the call, native reset of both halves, native step on the state
the adapter held). The TLA+ specification (Adapters.tla) follows ITS OWN key schedule and picks entries.

python -m harness.lib.adapt_drive <EnvName> <tier> <seed> <out.ndjson>
"""
import json
import sys
import time
import traceback

import numpy as np

from harness import jsonify
from harness.common import dumps
from harness.lib import catalog
from harness.lib.treecmp import eq, to_np
from harness.lib.wrap_drive import keyd, num
from harness.record import _leaf_decl, _walk_spec


def obs_to_dict(obs):
    """Independent conversion of a native observation to the nested-dict-of-numpy form gym exposes."""
    if hasattr(obs, "_asdict"):
        return {k: obs_to_dict(v) for k, v in obs._asdict().items()}
    if hasattr(obs, "__dataclass_fields__"):
        return {k: obs_to_dict(getattr(obs, k)) for k in obs.__dataclass_fields__}
    return np.asarray(obs)


def dict_leaves(d, prefix=""):
    if isinstance(d, dict):
        out = []
        for k in d:  # insertion order = field order
            out.extend(dict_leaves(d[k], f"{prefix}.{k}"))
        return out
    return [(prefix, np.asarray(d))]


def same_dict(a, b):
    la, lb = dict_leaves(a), dict_leaves(b)
    if [p for p, _ in la] != [p for p, _ in lb]:
        return False
    return all(eq(x, y) for (_, x), (_, y) in zip(la, lb))


def leaf_summ(path, a):
    a = np.asarray(a)
    rec = {"path": path, "dtype": str(a.dtype), "shape": list(a.shape), "empty": a.size == 0, "nan": False,
           "lo": 0, "hi": 0}
    if a.size:
        if np.issubdtype(a.dtype, np.floating):
            rec["nan"] = bool(np.isnan(a).any())
            rec["lo"] = jsonify.ford(np.nanmin(a))
            rec["hi"] = jsonify.ford(np.nanmax(a))
            rec["data"] = [jsonify.ford(v) for v in a.reshape(-1)] if a.size <= 256 else []
        else:
            rec["lo"] = int(a.min())
            rec["hi"] = int(a.max())
            rec["data"] = [int(v) for v in a.reshape(-1)] if a.size <= 256 else []
    return rec


def decl_leaves(spec):
    by = {}
    _walk_spec(spec, "", by)
    return [_leaf_decl(p, s) for p, s in by.items()]


def synthetic_multi_agent_env():
    """A tiny 3-agent environment whose per-agent rewards and discounts are arbitrary functions of the action, so that
    the aggregation law of MultiToSingleWrapper is exercised on mixed vectors (negative rewards, some agents done)."""
    from functools import cached_property
    from typing import NamedTuple

    import chex
    import jax.numpy as jnp

    from jumanji import specs
    from jumanji.env import Environment
    from jumanji.types import StepType, TimeStep

    class Obs(NamedTuple):
        t: chex.Array
        last_action: chex.Array

    @chex.dataclass
    class St:
        key: chex.PRNGKey
        t: chex.Array

    class SynthMA(Environment):
        def __init__(self):
            super().__init__()

        @cached_property
        def observation_spec(self):
            return specs.Spec(Obs, "ObsSpec", t=specs.BoundedArray((), jnp.int32, 0, 100, "t"),
                              last_action=specs.BoundedArray((3,), jnp.int32, 0, 4, "last_action"))

        @cached_property
        def action_spec(self):
            return specs.MultiDiscreteArray(jnp.array([5, 5, 5], jnp.int32), name="action")

        @cached_property
        def reward_spec(self):
            return specs.Array((3,), float, "reward")

        @cached_property
        def discount_spec(self):
            return specs.BoundedArray((3,), float, 0.0, 1.0, "discount")

        def reset(self, key):
            st = St(key=key, t=jnp.array(0, jnp.int32))
            ts = TimeStep(step_type=StepType.FIRST, reward=jnp.zeros((3,), float), discount=jnp.ones((3,), float),
                          observation=Obs(t=st.t, last_action=jnp.zeros((3,), jnp.int32)), extras={"t": st.t})
            return st, ts

        def step(self, state, action):
            t = state.t + 1
            reward = (action.astype(float) - 2.0) * jnp.array([0.5, 1.25, -3.0])
            discount = jnp.where(action % 2 == 0, 1.0, 0.0) * jnp.array([1.0, 0.5, 0.25])
            last = t >= 6
            ts = TimeStep(step_type=jnp.where(last, StepType.LAST, StepType.MID).astype(jnp.int8), reward=reward,
                          discount=discount, observation=Obs(t=t, last_action=action.astype(jnp.int32)), extras={"t": t})
            return St(key=state.key, t=t), ts

    return SynthMA()


def drive_env(name, tier, seed, hist_file=None):
    import jax
    import jax.numpy as jnp

    from jumanji.wrappers import JumanjiToDMEnvWrapper, JumanjiToGymWrapper, MultiToSingleWrapper

    base = synthetic_multi_agent_env() if name == "SyntheticMultiAgent" else catalog.catalog(tier)[name]()
    rng = np.random.default_rng(seed * 17 + 3)
    events = []
    # multi-agent = the rewards the environment actually emits are per-agent arrays (an environment that is already behind a
    # MultiToSingleWrapper still DECLARES the inner per-agent reward spec)
    multi = np.ndim(np.asarray(jax.jit(base.reset)(jax.random.PRNGKey(0))[1].reward)) > 0
    # ---- MultiToSingleWrapper itself ----
    if multi:
        # the last pair does NOT map an all-zero reward to 0 nor an all-one discount to 1 (a per-agent living cost, a
        # discount factor folded into the aggregator): the FIRST timestep must be aggregated like any other
        aggs = [("sum", jnp.sum, "max", jnp.max), ("min", jnp.min, "mean", jnp.mean),
                ("sum_shift", lambda r: jnp.sum(r - 0.25), "half_max", lambda d: 0.5 * jnp.max(d)),
                ("first", lambda x: x[0], "min", jnp.min)]
        for ri, (rn, rf, dn, df) in enumerate(aggs if (tier == "thorough" or name == "SyntheticMultiAgent") else aggs[:3]):
            w = MultiToSingleWrapper(base, reward_aggregator=rf, discount_aggregator=df) if ri else MultiToSingleWrapper(base)
            key = jax.random.PRNGKey(seed + 11 + ri)
            ns, nts = jax.jit(base.reset)(key)
            ws, wts = jax.jit(w.reset)(key)
            wstep, nstep = jax.jit(w.step), jax.jit(base.step)

            def m2s_event(kind, i, ns, nts, ws, wts):
                return {"k": kind, "env": name, "tid": 900 + ri, "i": i, "ragg": rn if ri else "sum", "dagg": dn if ri else "max",
                        "inner": {"reward": num(nts.reward), "discount": num(nts.discount), "type": int(np.asarray(nts.step_type))},
                        "out": {"reward": num(wts.reward), "discount": num(wts.discount), "type": int(np.asarray(wts.step_type)),
                                "reward_shape": list(np.asarray(wts.reward).shape), "discount_shape": list(np.asarray(wts.discount).shape)},
                        "match": {"state": eq(ws, ns), "obs": eq(wts.observation, nts.observation), "extras": eq(wts.extras, nts.extras)}}

            events.append(m2s_event("m2s_reset", 0, ns, nts, ws, wts))
            for i in range(10 if tier == "quick" else 40):
                a = jnp.asarray(catalog.masked_action(base, nts.observation, rng) if rng.random() < 0.7
                                else catalog.random_action(base, rng))
                ns, nts = nstep(ns, a)
                ws, wts = wstep(ws, a)
                events.append(m2s_event("m2s_step", i + 1, ns, nts, ws, wts))
                if int(np.asarray(nts.step_type)) == 2:
                    break
    env = MultiToSingleWrapper(base) if multi else base
    nreset, nstep = jax.jit(env.reset), jax.jit(env.step)
    obs_decl = decl_leaves(env.observation_spec)
    act_decl = _leaf_decl("", env.action_spec)

    # ---- gym adapter ----
    s1, s2 = seed * 7 + 1, seed * 7 + 2
    g = JumanjiToGymWrapper(env, seed=s1)
    tid = 1
    events.append({"k": "gym_init", "env": name, "tid": tid, "seed": s1, "prng": keyd(jax.random.PRNGKey(s1)),
                   "key_after": keyd(g._key), "obs_decl": obs_decl, "act_decl": act_decl})

    pre_obs_holder = [None]

    over = [False]     # the episode of the adapter at hand has ended (terminated or truncated) and was not reset since

    def gym_reset(seed_arg=None):
        over[0] = False
        if seed_arg is not None:
            kbase = jax.random.PRNGKey(seed_arg)  # what the documented schedule prescribes after seeding
        else:
            kbase = g._key
        kpre = g._key
        kL, kR = jax.random.split(kbase)
        oL, oR = nreset(kL), nreset(kR)
        obs, info = g.reset(seed=seed_arg) if seed_arg is not None else g.reset()
        lv = [leaf_summ(p, a) for p, a in dict_leaves(obs)]
        events.append({"k": "gym_reset", "env": name, "tid": tid, "seed_arg": -1 if seed_arg is None else seed_arg,
                       "prng": keyd(kbase) if seed_arg is not None else "none",
                       "kpre": keyd(kpre), "split": {"L": keyd(kL), "R": keyd(kR)}, "kpost": keyd(g._key),
                       "match": {"L": {"obs": same_dict(obs, obs_to_dict(oL[1].observation)), "state": eq(g._state, oL[0])},
                                 "R": {"obs": same_dict(obs, obs_to_dict(oR[1].observation)), "state": eq(g._state, oR[0])}},
                       "obs_d": jsonify.digest(to_np([a for _, a in dict_leaves(obs)])), "lv": lv,
                       "gym_contains": bool(g.observation_space.contains(obs))})
        pre_obs_holder[0] = oL[1].observation   # only used to pick mostly-legal actions
        return obs

    def gym_steps(n):
        for i in range(n):
            pre = g._state
            # sampled gym actions must be valid native actions
            a = g.action_space.sample()
            ok = True
            try:
                env.action_spec.validate(jnp.asarray(a))
            except Exception:  # noqa: BLE001
                ok = False
            events.append({"k": "gym_sample_action", "env": name, "tid": tid, "lv": leaf_summ("", np.asarray(jnp.asarray(a))),
                           "native_validate_ok": ok})
            if rng.random() < 0.6:
                a = np.asarray(catalog.masked_action(env, pre_obs_holder[0], rng))
            ns, nts = nstep(pre, jnp.asarray(a))
            obs, reward, term, trunc, info = g.step(a)
            pre_obs_holder[0] = nts.observation
            events.append({"k": "gym_step", "env": name, "tid": tid, "i": i,
                           "native": {"type": int(np.asarray(nts.step_type)), "reward": num(nts.reward), "discount": num(nts.discount)},
                           "out": {"reward": [jsonify.fx(reward)], "terminated": bool(term), "truncated": bool(trunc),
                                   "reward_is_float": isinstance(reward, float), "flags_are_bool": isinstance(term, bool) and isinstance(trunc, bool)},
                           "match": {"obs": same_dict(obs, obs_to_dict(nts.observation)), "state": eq(g._state, ns)},
                           "lv": [leaf_summ(p, a_) for p, a_ in dict_leaves(obs)],
                           "gym_contains": bool(g.observation_space.contains(obs))})
            if term or trunc:
                over[0] = True       # Gym contract: no further step before the next reset
                return

    # call history: reset, steps, reset, reset, steps, seed(s1) again, reset (reproduces), reset(seed=s2), steps, ...
    gym_reset()
    gym_steps(6)
    gym_reset()
    gym_reset()
    gym_steps(6)
    g.seed(s1)
    events.append({"k": "gym_seed", "env": name, "tid": tid, "seed": s1, "prng": keyd(jax.random.PRNGKey(s1)), "key_after": keyd(g._key)})
    gym_reset()
    gym_steps(4)
    gym_reset(seed_arg=s2)
    gym_steps(4)
    gym_reset(seed_arg=s2)
    # boundary seed values, after the adapter's key has moved on: 0 (falsy) and a large one
    gym_steps(2)
    gym_reset(seed_arg=0)
    gym_steps(2)
    gym_reset(seed_arg=0)
    g.seed(0)
    events.append({"k": "gym_seed", "env": name, "tid": tid, "seed": 0, "prng": keyd(jax.random.PRNGKey(0)), "key_after": keyd(g._key)})
    gym_reset()
    gym_reset(seed_arg=2 ** 31 - 1)
    gym_reset()

    # ---- HIST: call histories generated by TLC from MC_Adapters (seed / reset / step interleavings) ----
    if hist_file:
        with open(hist_file) as f:
            hists = json.load(f)["histories"]
        seedmap = {0: 0, 1: s1, 2: 2 ** 31 - 1}
        for hi, hist in enumerate(hists):
            tid = 100 + hi
            init = seedmap[hist[0][1]]
            g = JumanjiToGymWrapper(env, seed=init)
            events.append({"k": "gym_init", "env": name, "tid": tid, "seed": init, "prng": keyd(jax.random.PRNGKey(init)),
                           "key_after": keyd(g._key), "obs_decl": obs_decl, "act_decl": act_decl})
            for op, k in hist[1:]:
                if op == "seed":
                    g.seed(seedmap[k])
                    events.append({"k": "gym_seed", "env": name, "tid": tid, "seed": seedmap[k],
                                   "prng": keyd(jax.random.PRNGKey(seedmap[k])), "key_after": keyd(g._key)})
                elif op == "reset":
                    gym_reset()
                elif op == "step" and g._state is not None and not over[0]:
                    gym_steps(1)

    # ---- dm_env adapter ----
    tid = 2
    dkey = jax.random.PRNGKey(seed * 7 + 5)
    for given in (True, False):
        d = JumanjiToDMEnvWrapper(env, key=dkey) if given else JumanjiToDMEnvWrapper(env)
        tid += 1
        events.append({"k": "dm_init", "env": name, "tid": tid, "prng": keyd(dkey if given else jax.random.PRNGKey(0)),
                       "key_after": keyd(d._key)})
        for ep in range(2):
            kpre = d._key
            kL, kR = jax.random.split(kpre)
            oL, oR = nreset(kL), nreset(kR)
            ts = d.reset()
            events.append({"k": "dm_reset", "env": name, "tid": tid, "kpre": keyd(kpre), "split": {"L": keyd(kL), "R": keyd(kR)},
                           "kpost": keyd(d._key), "first": {"type": int(ts.step_type), "reward_none": ts.reward is None,
                                                            "discount_none": ts.discount is None},
                           "match": {"L": {"obs": eq(ts.observation, oL[1].observation), "state": eq(d._state, oL[0])},
                                     "R": {"obs": eq(ts.observation, oR[1].observation), "state": eq(d._state, oR[0])}},
                           "dm_spec_ok": dm_validate(d, ts.observation)})
            cur_obs = oL[1].observation
            for i in range(5):
                pre = d._state
                a = catalog.masked_action(env, cur_obs, rng) if rng.random() < 0.6 else catalog.random_action(env, rng)
                ns, nts = nstep(pre, jnp.asarray(a))
                ts = d.step(np.asarray(a))
                cur_obs = nts.observation
                events.append({"k": "dm_step", "env": name, "tid": tid, "i": i,
                               "native": {"type": int(np.asarray(nts.step_type)), "reward": num(nts.reward), "discount": num(nts.discount)},
                               "out": {"type": int(ts.step_type), "reward": num(ts.reward), "discount": num(ts.discount)},
                               "match": {"obs": eq(ts.observation, nts.observation), "state": eq(d._state, ns)},
                               "dm_spec_ok": dm_validate(d, ts.observation)})
                if int(np.asarray(nts.step_type)) == 2:
                    break
    return events


def dm_validate(d, obs):
    """dm_env spec converted from the native one must accept the emitted observation."""
    import jax

    spec = d.observation_spec()
    try:
        if isinstance(spec, dict):
            def rec(sp, ob):
                for k, v in sp.items():
                    o = getattr(ob, k) if not isinstance(ob, dict) else ob[k]
                    if isinstance(v, dict):
                        rec(v, o)
                    else:
                        v.validate(np.asarray(o))
            rec(spec, obs)
        else:
            spec.validate(np.asarray(obs))
        return True
    except Exception:  # noqa: BLE001
        return False


def main():
    name, tier, seed = sys.argv[1:4]
    out = sys.argv[-1]
    hist_file = sys.argv[4] if len(sys.argv) > 5 else None
    from harness.common import setup_env

    setup_env()
    t0 = time.time()
    try:
        evs = drive_env(name, tier, int(seed), hist_file)
        with open(out, "w") as f:
            f.write(dumps({"k": "hdr", "env": name, "cfg": {}, "tier": tier, "seed": int(seed)}) + "\n")
            for e in evs:
                f.write(dumps(e) + "\n")
        print(json.dumps({"ok": True, "events": len(evs), "lines": len(evs) + 1, "wall": round(time.time() - t0, 1)}))
    except Exception as e:  # noqa: BLE001
        tb = traceback.format_exc()
        print(json.dumps({"ok": False, "error": f"{type(e).__name__}: {e}", "tb": tb[-3000:]}))


if __name__ == "__main__":
    main()
