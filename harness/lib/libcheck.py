"""Generic runner for the library-level properties (C02, C13-C19): run driver jobs (each writes an ndjson
trace of calls on the real library), validate every trace with TLC against a trace specification,
run the property's MC models, report."""
import concurrent.futures as cf
import hashlib
import json
import os
import shutil
import subprocess
import time

from harness import tlc
from harness.check import finish, load_findings, match_finding
from harness.common import CACHE, NCPU, PY, VERIF, WORK, dumps, harness_hash, log, tree_hash


def _run_job(job):
    label, argv, out = job
    if os.path.exists(out) and os.path.exists(out + ".meta"):
        with open(out + ".meta") as f:
            m = json.load(f)
        m["cached"] = True
        return job, m
    env = dict(os.environ)
    env["PYTHONPATH"] = (os.environ.get("VERIF_REPO", "") + os.pathsep if os.environ.get("VERIF_REPO") else "") + \
        VERIF + os.pathsep + env.get("PYTHONPATH", "")
    try:
        p = subprocess.run([PY, "-W", "ignore"] + argv + [out], capture_output=True, text=True, env=env, cwd=VERIF,
                           timeout=7200)
    except subprocess.TimeoutExpired:
        return job, {"ok": False, "error": "driver timeout"}
    meta = None
    for ln in reversed(p.stdout.strip().splitlines()):
        try:
            meta = json.loads(ln)
            break
        except Exception:  # noqa: BLE001
            continue
    if meta is None:
        meta = {"ok": False, "error": "driver crashed: " + (p.stderr or p.stdout)[-2000:]}
    if meta.get("ok"):
        with open(out + ".meta", "w") as f:
            json.dump(meta, f)
    return job, meta


def trace_dir(prop):
    d = os.path.join(CACHE, "traces", f"{tree_hash()}-{harness_hash()}")
    os.makedirs(d, exist_ok=True)
    return d


def run_lib(prop, tier, seed, jobs, trace_module, mcs=(), assumptions=(), rule="", sample_filter=None,
            distinct_key=None):
    """jobs: list of (label, argv_without_out, out_path). mcs: list of (module, cfg, timeout)."""
    from harness.envcheck import gc_cache
    from harness.record import read_trace

    t0 = time.time()
    gc_cache()
    metas = {}
    with cf.ThreadPoolExecutor(NCPU) as ex:
        for job, meta in ex.map(_run_job, jobs):
            metas[job[0]] = (job, meta)
    log(f"[{prop}] {len(jobs)} driver jobs in {time.time() - t0:.1f}s")
    findings = load_findings()
    violations, known_hits, machinery = [], {}, []
    t1 = time.time()
    vjobs = []
    for label, (job, meta) in metas.items():
        if not meta.get("ok"):
            tb = meta.get("tb", "")
            v = {"property": prop, "env": label, "cfgid": "driver", "clause": f"{prop}.driver_exception",
                 "event": {"error": meta.get("error"), "tb": tb}, "seed": seed, "tier": tier}
            if "/jumanji/" in tb.split("harness/")[-1]:
                f = match_finding(findings, v)
                if f:
                    known_hits.setdefault(f["id"], f)
                else:
                    violations.append(v)
            else:
                machinery.append(f"driver {label}: {meta.get('error')}\n{tb}")
            continue
        vjobs.append((label, job[2], meta))

    def _val(a):
        label, path, meta = a
        wd = os.path.join(WORK, f"lib-{prop}-{os.getpid()}", label)
        return label, path, meta, tlc.run_trace(trace_module, path, {prop}, wd, n_events=meta["lines"], has_cfg=False)

    n_app = n_lines = n_events = 0
    distinct = set()
    samples = []
    per_label = {}
    with cf.ThreadPoolExecutor(NCPU) as ex:
        for label, path, meta, res in ex.map(_val, vjobs):
            n_events += meta["events"]
            pl = per_label.setdefault(label, {"events": meta["events"], "applicable": 0, "rejects": 0})
            if res.machinery_error:
                machinery.append(f"{label}: {res.machinery_error}\n{res.output_tail[-1500:]}")
                continue
            if res.accepted:
                n_lines += meta["lines"]
            lines = read_trace(path)
            n_app += len(res.applicable)
            pl["applicable"] = len(res.applicable)
            for ln in res.applicable:
                e = lines[ln - 1]
                key = distinct_key(e) if distinct_key else e
                distinct.add(hashlib.sha1(dumps([label, key]).encode()).digest()[:10])
            if res.applicable and len(samples) < 5:
                cand = [lines[ln - 1] for ln in res.applicable if (sample_filter is None or sample_filter(lines[ln - 1]))]
                if cand:
                    s = dumps(cand[len(cand) // 2])
                    samples.append(json.loads(s) if len(s) < 2500 else {"truncated_json": s[:2000]})
            for ln, clauses in res.rejects:
                for c in clauses:
                    pl["rejects"] += 1
                    v = {"property": prop, "env": label, "cfgid": lines[ln - 1].get("cfgid", lines[ln - 1].get("mode", "x")),
                         "clause": c, "line": ln, "event": lines[ln - 1], "seed": seed, "tier": tier, "trace_file": path}
                    f = match_finding(findings, v)
                    if f:
                        known_hits.setdefault(f["id"], f)
                    else:
                        violations.append(v)
            for ln, msg in res.eval_errors:
                v = {"property": prop, "env": label, "cfgid": "x", "clause": f"{prop}.spec_eval_error", "line": ln,
                     "event": lines[ln - 1] if ln - 1 < len(lines) else None, "message": msg, "seed": seed, "tier": tier}
                f = match_finding(findings, v)
                if f:
                    known_hits.setdefault(f["id"], f)
                else:
                    violations.append(v)
    log(f"[{prop}] TLC validated {len(vjobs)} traces in {time.time() - t1:.1f}s")
    shutil.rmtree(os.path.join(WORK, f"lib-{prop}-{os.getpid()}"), ignore_errors=True)
    states = trans = 0
    mc_list = []
    for mod, cfg, to in mcs:
        wd = os.path.join(WORK, f"libmc-{prop}-{os.getpid()}", mod + cfg)
        r = tlc.run_mc(mod, cfg, wd, timeout=to)
        mc_list.append({"module": mod, "cfg": cfg, "ok": r.ok, "states": r.distinct, "generated": r.states,
                        "wall_s": round(r.wall, 1)})
        states += r.distinct
        trans += r.states
        if r.violated:
            machinery.append(f"MC {mod}/{cfg}: {r.violated} violated in the MODEL\n{r.out_tail[-1500:]}")
        elif not r.ok:
            machinery.append(f"MC {mod}/{cfg}: {r.error}\n{r.out_tail[-1500:]}")
    shutil.rmtree(os.path.join(WORK, f"libmc-{prop}-{os.getpid()}"), ignore_errors=True)
    cov = {"states": states + n_lines, "transitions": trans + n_lines, "mc_states": states, "mc_transitions": trans,
           "trace_states": n_lines, "traces_validated_against_impl": len([1 for v in vjobs]),
           "evaluations": n_app, "events_recorded": n_events, "distinct_nontrivial": len(distinct),
           "rule": rule or "one evaluation = one recorded call of the real library judged by at least one clause of this "
                           "property; distinct = distinct event contents",
           "samples": samples or [{"note": "no applicable event"}], "per_driver": per_label, "mc_runs": mc_list,
           "checker_cmd": f"./check {prop} --tier {tier}", "exhaustive": False}
    return finish(prop, tier, seed, t0, violations, known_hits, machinery, cov, list(assumptions))
