"""C18: the registry; Trace_Registry.tla + MC_Registry."""
import os

from harness.lib import libcheck


def run(prop, tier, seed, only=None):
    d = libcheck.trace_dir(prop)
    jobs = [(p, ["-m", "harness.lib.reg_drive", p, tier, str(seed)], os.path.join(d, f"reg-{p}-{tier}-{seed}.ndjson"))
            for p in ("parse", "ops", "shipped")]
    mcs = [("MC_Registry", "MC_Registry_quick.cfg" if tier == "quick" else "MC_Registry_thorough.cfg", 1800)]
    return libcheck.run_lib(
        prop, tier, seed, jobs, "Trace_Registry", mcs,
        assumptions=["Sokoban-v0 needs its HuggingFace dataset, unavailable offline: its instantiation is attempted and a failure "
                     "is not counted (documented in the property statement)",
                     "ids containing non-ASCII characters are left unspecified (either verdict accepted)",
                     "registry sequences run on a saved-and-restored _REGISTRY"],
        distinct_key=lambda e: [e.get("k"), e.get("id"), e.get("sid"), e.get("call_kwargs"), e.get("entry"), e.get("pre_ids")])
