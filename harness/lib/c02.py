"""C02: purity and commutation with jit/vmap/scan; Trace_PureFn.tla (memo monitor) + MC_PureFn."""
import os

from harness.lib import catalog, libcheck
from harness.lib.pure_drive import extra_catalog


def run(prop, tier, seed, only=None):
    names = sorted(catalog.catalog(tier)) + sorted(extra_catalog())
    if only:
        names = [n for n in names if n in only or n.split(".")[0] in only]
    d = libcheck.trace_dir(prop)
    jobs = [(n, ["-m", "harness.lib.pure_drive", n, tier, str(seed)], os.path.join(d, f"pure-{n}-{tier}-{seed}.ndjson"))
            for n in names]
    # second part: plain-Python replay of EVENTFUL transitions reached by the adapters' directed policies
    from harness import envcheck

    alias = {"LBF": "LevelBasedForaging", "SlidingTile": "SlidingTilePuzzle"}
    for ad in envcheck.load_adapters():
        if only and ad.name not in only and alias.get(ad.name, ad.name) not in only:
            continue
        if hasattr(ad, "record_custom"):        # pseudo-adapters (no environment to step)
            continue
        jobs.append((f"events-{ad.name}", ["-m", "harness.lib.pure_events", ad._mod, tier, str(seed)],
                     os.path.join(d, f"pure-events-{ad.name}-{tier}-{seed}.ndjson")))
    mcs = [("MC_PureFn", "MC_PureFn_quick.cfg", 600)]
    return libcheck.run_lib(
        prop, tier, seed, jobs, "Trace_PureFn", mcs,
        assumptions=["results of calls with bit-identical arguments are classed by exact equality on ints/bools/keys and "
                     "2e-5 relative tolerance on floats (XLA may fuse reductions differently under jit/vmap/scan)",
                     "keys and visited (state, action) pairs are sampled; eager execution is limited to a few calls per environment: the "
                     "first states of a rollout and the most eventful transitions of episodes played by the adapters' policies"],
        distinct_key=lambda e: [e.get("k"), e.get("fn"), e.get("mode"), e.get("args_d"), e.get("note")])
