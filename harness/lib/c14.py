"""C13 (AutoResetWrapper) and C14 (batched wrappers): shared driver traces, Trace_Wrappers.tla, MC_AutoReset."""
import os

from harness.lib import catalog, libcheck


def run(prop, tier, seed, only=None):
    names = sorted(catalog.catalog(tier))
    if only:
        names = [n for n in names if n in only or n.split(".")[0] in only]
    d = libcheck.trace_dir(prop)
    from harness.lib import sched

    sched_file = os.path.join(d, f"schedules-{tier}-{seed}.json")
    if not os.path.exists(sched_file):      # HIST: termination schedules enumerated by TLC from MC_AutoReset
        sched.tlc_schedules(3, 5, 6 if tier == "quick" else 40, seed, sched_file)
    jobs = [(n, ["-m", "harness.lib.wrap_drive", n, tier, str(seed), "c14", sched_file], os.path.join(d, f"wrap-c14-{n}-{tier}-{seed}.ndjson"))
            for n in names]
    mcs = [("MC_AutoReset", "MC_AutoReset_quick.cfg", 600)]
    if tier == "thorough":
        mcs.append(("MC_AutoReset", "MC_AutoReset_thorough.cfg", 3000))
    return libcheck.run_lib(
        prop, tier, seed, jobs, "Trace_Wrappers", mcs,
        assumptions=["the oracle table (plain step, split, resets) is computed with the unwrapped environment's own "
                     "jitted functions; pytrees are compared exactly on ints/bools/keys and within 2e-5 relative on floats",
                     "keys and action sequences are sampled; MC_AutoReset is exhaustive for its lane/length/depth bounds over "
                     "all 9 generator/step key styles"],
        rule="one evaluation = one wrapper call (reset/step, per lane under vmap, per index under scan) judged against the "
             "law; distinct = distinct event contents",
        distinct_key=lambda e: [e.get("k"), e.get("mode"), e.get("tid"), e.get("i"), e.get("lane"), e.get("B"),
                                e.get("next_obs_in_extras"), e.get("wrapper")])
