"""Pytree comparison used by the library-level drivers: exact on ints/bools/keys, within a few ulp on
floats (XLA may fuse reductions differently under jit/vmap/scan; a genuine defect changes values or
structure grossly, not in the last ulp). The comparison is a projection ("is A the same value as B");
which pairs MUST be the same is decided by the TLA+ specification."""
import numpy as np

RTOL = 2e-5
ATOL = 2e-6


def _canon(v):
    """Leaf as a numpy array in JAX's canonical dtype: a Python int / numpy int64 leaf produced by plain-Python
    execution is the same VALUE as the int32 array produced under jit (weak typing), not a different result."""
    import jax.numpy as jnp

    if isinstance(v, np.ndarray) and v.dtype != np.int64 and v.dtype != np.float64:
        return v
    try:
        return np.asarray(jnp.asarray(v))
    except Exception:  # noqa: BLE001
        return np.asarray(v)


def leaves_with_paths(tree):
    import jax

    return [(jax.tree_util.keystr(p), _canon(v)) for p, v in jax.tree_util.tree_flatten_with_path(tree)[0]]


def same(a, b):
    """(bool, reason) - structure, dtype, shape identical; values exact (ints/bools) or close (floats)."""
    import jax

    ta = jax.tree_util.tree_structure(a)
    tb = jax.tree_util.tree_structure(b)
    if ta != tb:
        return False, "structure"
    for (pa, la), (pb, lb) in zip(leaves_with_paths(a), leaves_with_paths(b)):
        if la.dtype != lb.dtype:
            return False, f"dtype{pa}"
        if la.shape != lb.shape:
            return False, f"shape{pa}"
        if np.issubdtype(la.dtype, np.floating):
            if not np.allclose(la, lb, rtol=RTOL, atol=ATOL, equal_nan=True):
                return False, f"value{pa}"
        else:
            if not np.array_equal(la, lb):
                return False, f"value{pa}"
    return True, ""


def eq(a, b):
    return same(a, b)[0]


def slice_tree(tree, i):
    import jax

    return jax.tree_util.tree_map(lambda x: np.asarray(x)[i], tree)


def to_np(tree):
    import jax

    return jax.tree_util.tree_map(_canon, tree)


def strip_key(state):
    """State without its PRNG key (the generated instance + bookkeeping)."""
    if hasattr(state, "replace") and hasattr(state, "key"):
        import jax.numpy as jnp

        return state.replace(key=jnp.zeros_like(state.key))
    if hasattr(state, "_replace") and hasattr(state, "key"):
        import jax.numpy as jnp

        return state._replace(key=jnp.zeros_like(state.key))
    return state
