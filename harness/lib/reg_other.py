"""A second module that defines a class with the SAME NAME as harness.lib.reg_drive.ProbeEnv: entry points are
'module:Class' pairs, two ids whose classes share a bare name must still build their own class (C18)."""


class ProbeEnv:
    def __init__(self, *args, **kwargs):
        self.args = args
        self.kwargs = kwargs
        self.other_module = True
