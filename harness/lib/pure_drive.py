"""Driver for C02: reset/step are pure functions of their arguments and commute with jit / vmap / scan.

Every call is logged with the exact digest of its arguments (before and after the call) and the CLASS of
its result: results of calls with identical arguments are compared pairwise (exact on ints/bools/keys, within
a few ulp on floats) and the first result seen for those arguments defines class 0; a later result that differs
gets a new class. The TLA+ memo-table monitor (PureFn.tla) requires one class per argument tuple, whatever the
mode (eager, jit, vmap lane, scan index, fresh instance) and whatever the call history.

python -m harness.lib.pure_drive <EnvName> <tier> <seed> <out.ndjson>
"""
import json
import sys
import time
import traceback

import numpy as np

from harness import jsonify
from harness.common import dumps
from harness.lib import catalog
from harness.lib.treecmp import eq, slice_tree, to_np

CHEAP_EAGER = {"Game2048", "Maze", "Snake", "Knapsack", "TSP", "Minesweeper", "SlidingTilePuzzle", "GraphColoring"}


def extra_catalog():
    """Configurations that matter specifically for purity: generators holding cached instances."""
    import jumanji.environments as E

    out = {}
    try:
        from jumanji.environments.packing.bin_pack.generator import ToyGenerator as BPToy

        out["BinPack.Toy"] = lambda: E.BinPack(generator=BPToy())
    except Exception:  # noqa: BLE001
        pass
    try:
        import os
        import tempfile

        from jumanji.environments.packing.bin_pack.generator import CSVGenerator, RandomGenerator, save_instance_to_csv

        def mk_csv():
            import jax

            from harness.common import WORK

            path = os.path.join(WORK, f"c02_instance_{os.getpid()}.csv")
            gen = RandomGenerator(max_num_items=6, max_num_ems=15, split_num_same_items=1)
            st = gen(jax.random.PRNGKey(3))
            save_instance_to_csv(st, path)
            return E.BinPack(generator=CSVGenerator(path, max_num_ems=15))

        out["BinPack.CSV"] = mk_csv
    except Exception:  # noqa: BLE001
        pass
    try:
        from jumanji.environments.packing.job_shop.generator import ToyGenerator as JSToy

        out["JobShop.Toy"] = lambda: E.JobShop(generator=JSToy())
    except Exception:  # noqa: BLE001
        pass
    try:
        from jumanji.environments.routing.maze.generator import ToyGenerator as MToy

        out["Maze.Toy"] = lambda: E.Maze(generator=MToy())
    except Exception:  # noqa: BLE001
        pass
    try:
        from jumanji.environments.packing.flat_pack.generator import ToyFlatPackGeneratorWithRotation as FPToy

        out["FlatPack.Toy"] = lambda: E.FlatPack(generator=FPToy())
    except Exception:  # noqa: BLE001
        pass
    # the library's own wrappers are environments too ("all environments"): the auto-resetting ones with the observation
    # of the true successor in the extras, the batched one behind a thin user wrapper that presents a batch of three lanes as
    # one environment (reset splits the key, step plays the same action in every lane)
    try:
        from jumanji.wrappers import AutoResetWrapper, VmapAutoResetWrapper, VmapWrapper, Wrapper

        def lanes(env):
            import jax
            import jax.numpy as jnp

            class Lanes(Wrapper):
                def reset(self, key):
                    return self._env.reset(jax.random.split(key, 3))

                def step(self, state, action):
                    return self._env.step(state, jnp.stack([action] * 3))

            return Lanes(env)

        small = lambda: E.Snake(num_rows=3, num_cols=4, time_limit=3)  # noqa: E731
        out["Snake.AutoResetNextObs"] = lambda: AutoResetWrapper(small(), next_obs_in_extras=True)
        out["Snake.AutoReset"] = lambda: AutoResetWrapper(small())
        out["Snake.VmapAutoResetNextObs"] = lambda: lanes(VmapAutoResetWrapper(small(), next_obs_in_extras=True))
        out["Snake.VmapAutoReset"] = lambda: lanes(VmapAutoResetWrapper(small()))
        out["Snake.Vmap"] = lambda: lanes(VmapWrapper(small()))
    except Exception:  # noqa: BLE001
        pass
    # "same configuration" includes sharing constructor arguments: build the generator object (or the numpy
    # database handed to it) ONCE and give it to every instance; a generator that mutates its arguments or caches
    # per-call results then makes fresh instances disagree
    def shared(name, env_cls, make_gen, cousin_kwargs=None):
        try:
            gen = make_gen()
        except Exception:  # noqa: BLE001
            return
        f = lambda: env_cls(generator=gen)  # noqa: E731
        if cousin_kwargs:       # another environment built around the SAME generator object with other arguments (a short-
            f.cousin = lambda: env_cls(generator=gen, **cousin_kwargs)   # horizon evaluation env next to the training env)
        out[name] = f

    try:
        import os

        import jumanji
        from jumanji.environments.logic.sudoku import data as sudoku_data
        from jumanji.environments.logic.sudoku.generator import DatabaseGenerator

        path = os.path.join(os.path.dirname(jumanji.__file__), "environments", "logic", "sudoku", "data",
                            sudoku_data.DATABASES["very-easy"])
        db = np.load(path)          # one numpy array shared by all instances, as jumanji/__init__.py does
        out["Sudoku.SharedDatabase"] = lambda: E.Sudoku(generator=DatabaseGenerator(database=db))
    except Exception:  # noqa: BLE001
        pass
    try:
        from jumanji.environments.routing.maze.generator import RandomGenerator as MazeGen

        shared("Maze.SharedGenerator", E.Maze, lambda: MazeGen(num_rows=5, num_cols=7), dict(time_limit=3))
        from jumanji.environments.routing.connector.generator import RandomWalkGenerator as CG

        shared("Connector.SharedGenerator", E.Connector, lambda: CG(grid_size=6, num_agents=3), dict(time_limit=4))
        from jumanji.environments.packing.knapsack.generator import RandomGenerator as KG

        shared("Knapsack.SharedGenerator", E.Knapsack, lambda: KG(num_items=8, total_budget=2.0))
        from jumanji.environments.routing.tsp.generator import UniformGenerator as TG

        shared("TSP.SharedGenerator", E.TSP, lambda: TG(num_cities=6))
        from jumanji.environments.routing.sokoban.generator import ToyGenerator as SG

        shared("Sokoban.SharedGenerator", E.Sokoban, lambda: SG(), dict(time_limit=5))
        from jumanji.environments.logic.rubiks_cube.generator import ScramblingGenerator as RG

        shared("RubiksCube.SharedGenerator", E.RubiksCube, lambda: RG(cube_size=3, num_scrambles_on_reset=5), dict(time_limit=4))
        from jumanji.environments.packing.bin_pack.generator import RandomGenerator as BG

        shared("BinPack.SharedGenerator", E.BinPack, lambda: BG(max_num_items=6, max_num_ems=15, split_num_same_items=1))
        from jumanji.environments.routing.mmst.generator import SplitRandomGenerator as MSG

        shared("MMST.SharedGenerator", E.MMST, lambda: MSG(num_nodes=10, num_edges=15, max_degree=4, num_agents=2,
                                                             num_nodes_per_agent=2, max_step=70), dict(time_limit=8))
        from jumanji.environments.routing.cleaner.generator import RandomGenerator as CLG

        shared("Cleaner.SharedGenerator", E.Cleaner, lambda: CLG(num_rows=4, num_cols=5, num_agents=2), dict(time_limit=3))
        from jumanji.environments.routing.lbf.generator import RandomGenerator as LG2

        shared("LevelBasedForaging.SharedGenerator", E.LevelBasedForaging,
               lambda: LG2(grid_size=6, fov=6, num_agents=2, num_food=2), dict(time_limit=5))
        from jumanji.environments.logic.sliding_tile_puzzle.generator import RandomWalkGenerator as STG

        shared("SlidingTilePuzzle.SharedGenerator", E.SlidingTilePuzzle, lambda: STG(grid_size=3, num_random_moves=8),
               dict(time_limit=4))
    except Exception:  # noqa: BLE001
        pass
    return out


CLEAN = [False]      # True in the clean child process that computes a sibling's reference rollout


def _csv_rewritten_sibling():
    """BinPack from a CSV file whose path was used before, in this process, for ANOTHER instance (export - edit - reload
    on a scratch file): a fresh generator must serve what the file holds now. The clean child process only ever sees the
    final file."""
    import os

    import jax
    import jumanji.environments as E
    from harness.common import WORK
    from jumanji.environments.packing.bin_pack.generator import CSVGenerator, RandomGenerator, save_instance_to_csv

    path = os.path.join(WORK, f"c02_rewritten_{os.getpid()}.csv")
    gen = RandomGenerator(max_num_items=6, max_num_ems=15, split_num_same_items=1)
    if not CLEAN[0]:
        save_instance_to_csv(gen(jax.random.PRNGKey(11)), path)
        CSVGenerator(path, max_num_ems=15)(jax.random.PRNGKey(0))         # history: the same path, other content
    save_instance_to_csv(gen(jax.random.PRNGKey(12)), path)
    env = E.BinPack(generator=CSVGenerator(path, max_num_ems=15))
    jax.jit(env.reset)(jax.random.PRNGKey(0))
    os.remove(path)
    return env


def siblings(name):
    """Other CONFIGURATIONS of the same environment class. Building and using them in the same process must not
    influence a fresh instance of the configuration under test (no cache keyed by part of the configuration)."""
    import jumanji.environments as E

    base = name.split(".")[0]
    out = []
    try:
        if base == "RobotWarehouse":
            from jumanji.environments.routing.robot_warehouse.generator import RandomGenerator as RG

            # same grid size as the default (2 rows x 3 columns x height 8), different floor plans
            out = [lambda: E.RobotWarehouse(generator=RG(shelf_rows=1, shelf_columns=3, column_height=17, num_agents=4, sensor_range=1, request_queue_size=8), time_limit=3),
                   lambda: E.RobotWarehouse(generator=RG(shelf_rows=3, shelf_columns=3, column_height=5, num_agents=4, sensor_range=1, request_queue_size=8), time_limit=3),
                   lambda: E.RobotWarehouse(generator=RG(shelf_rows=2, shelf_columns=3, column_height=8, num_agents=2, sensor_range=1, request_queue_size=4), time_limit=3)]
        elif base == "BinPack":
            out = [_csv_rewritten_sibling]
        elif base == "Snake":
            out = [lambda: E.Snake(num_rows=5, num_cols=4, time_limit=3), lambda: E.Snake(num_rows=4, num_cols=5, time_limit=9)]
        elif base == "Tetris":
            out = [lambda: E.Tetris(num_rows=8, num_cols=12, time_limit=3), lambda: E.Tetris(num_rows=10, num_cols=10, time_limit=5)]
        elif base == "Game2048":
            out = [lambda: E.Game2048(board_size=3)]
        elif base == "Maze":
            from jumanji.environments.routing.maze.generator import RandomGenerator as MG

            out = [lambda: E.Maze(generator=MG(num_rows=10, num_cols=10), time_limit=5), lambda: E.Maze(generator=MG(num_rows=6, num_cols=10))]
        elif base == "Cleaner":
            from jumanji.environments.routing.cleaner.generator import RandomGenerator as CG

            out = [lambda: E.Cleaner(generator=CG(num_rows=10, num_cols=10, num_agents=2), time_limit=3)]
        elif base == "Connector":
            from jumanji.environments.routing.connector.generator import RandomWalkGenerator as WG

            out = [lambda: E.Connector(generator=WG(grid_size=10, num_agents=5), time_limit=3)]
        elif base == "Minesweeper":
            from jumanji.environments.logic.minesweeper.generator import UniformSamplingGenerator as UG

            out = [lambda: E.Minesweeper(generator=UG(num_rows=10, num_cols=10, num_mines=20))]
        elif base == "SlidingTilePuzzle":
            from jumanji.environments.logic.sliding_tile_puzzle.generator import RandomWalkGenerator as SG

            out = [lambda: E.SlidingTilePuzzle(generator=SG(grid_size=5, num_random_moves=10), time_limit=3)]
        elif base == "LevelBasedForaging":
            from jumanji.environments.routing.lbf.generator import RandomGenerator as LG

            out = [lambda: E.LevelBasedForaging(generator=LG(grid_size=8, fov=8, num_agents=2, num_food=3), time_limit=3)]
        elif base == "JobShop":
            from jumanji.environments.packing.job_shop.generator import RandomGenerator as JG

            out = [lambda: E.JobShop(generator=JG(num_jobs=20, num_machines=10, max_num_ops=8, max_op_duration=3))]
        elif base == "Knapsack":
            from jumanji.environments.packing.knapsack.generator import RandomGenerator as KG

            out = [lambda: E.Knapsack(generator=KG(num_items=50, total_budget=5.0))]
        elif base == "TSP":
            from jumanji.environments.routing.tsp.generator import UniformGenerator as TG
            from jumanji.environments.routing.tsp.reward import SparseReward as TSR

            out = [lambda: E.TSP(generator=TG(num_cities=5)), lambda: E.TSP(generator=TG(num_cities=7), reward_fn=TSR())]
        elif base == "CVRP":
            from jumanji.environments.routing.cvrp.generator import UniformGenerator as CG2
            from jumanji.environments.routing.cvrp.reward import SparseReward as CSR

            out = [lambda: E.CVRP(generator=CG2(num_nodes=5, max_capacity=8, max_demand=4)),
                   lambda: E.CVRP(generator=CG2(num_nodes=20, max_capacity=12, max_demand=6), reward_fn=CSR())]
        elif base == "RubiksCube":
            from jumanji.environments.logic.rubiks_cube.generator import ScramblingGenerator as RG2

            out = [lambda: E.RubiksCube(generator=RG2(cube_size=5, num_scrambles_on_reset=4), time_limit=3),
                   lambda: E.RubiksCube(generator=RG2(cube_size=2, num_scrambles_on_reset=3), time_limit=5)]
        elif base == "GraphColoring":
            from jumanji.environments.logic.graph_coloring.generator import RandomGenerator as GG

            out = [lambda: E.GraphColoring(generator=GG(num_nodes=6, edge_probability=0.5))]
        elif base == "FlatPack":
            from jumanji.environments.packing.flat_pack.generator import RandomFlatPackGenerator as FG

            out = [lambda: E.FlatPack(generator=FG(num_row_blocks=2, num_col_blocks=3))]
        elif base == "MMST":
            from jumanji.environments.routing.mmst.generator import SplitRandomGenerator as MG2

            out = [lambda: E.MMST(generator=MG2(num_nodes=10, num_edges=15, max_degree=4, num_agents=2, num_nodes_per_agent=2,
                                                max_step=5), time_limit=5)]
        elif base == "MultiCVRP":
            from jumanji.environments.routing.multi_cvrp.generator import UniformRandomGenerator as UG2

            out = [lambda: E.MultiCVRP(generator=UG2(num_customers=6, num_vehicles=3))]
        elif base == "PacMan":
            from jumanji.environments.routing.pac_man.generator import AsciiGenerator as AG

            mini = ["XXXXXXXXXXX", "XS O G O SX", "X XXX XXX X", " G T G T G ", "X XXX XXX X", "X T     T X", "X XXX XXX X",
                    "XS O P O SX", "XXXXXXXXXXX"]
            out = [lambda: E.PacMan(generator=AG(mini), time_limit=4)]
        elif base == "Sokoban":
            from jumanji.environments.routing.sokoban.generator import SimpleSolveGenerator as SSG

            out = [lambda: E.Sokoban(generator=SSG(), time_limit=5)]
        elif base == "Sudoku":
            import os

            import jumanji
            from jumanji.environments.logic.sudoku import data as sd
            from jumanji.environments.logic.sudoku.generator import DatabaseGenerator as DG

            db = np.load(os.path.join(os.path.dirname(jumanji.__file__), "environments", "logic", "sudoku", "data",
                                      sd.DATABASES["very-easy"]))
            out = [lambda: E.Sudoku(generator=DG(database=db[:7]))]
    except Exception:  # noqa: BLE001
        out = []
    return out


def sibling_rollout_digest(env, seed):
    """Exact digest of reset(K2) + 3 fixed steps (same jitted programs, same inputs: bit-reproducible)."""
    import jax
    import jax.numpy as jnp

    rng = np.random.default_rng(seed + 99)
    st, ts = jax.jit(env.reset)(jax.random.PRNGKey(seed * 3 + 2))
    outs = [to_np((st, ts))]
    step = jax.jit(env.step)
    a = None
    for _ in range(3):
        a = jnp.asarray(catalog.random_action(env, rng))
        st, ts = step(st, a)
        outs.append(to_np((st, ts)))
    # ... the last action once more (a revisit / re-selection: the invalid-action branch of most environments) and an
    # action the reset mask forbids, so that penalties and invalid-move handling are part of the digest too
    st, ts = step(st, a)
    outs.append(to_np((st, ts)))
    st0, ts0 = jax.jit(env.reset)(jax.random.PRNGKey(seed * 3 + 2))
    bad = catalog.illegal_action(env, ts0.observation, rng)
    if bad is not None:
        outs.append(to_np(step(st0, jnp.asarray(bad))))
    return jsonify.digest(outs)


def sibling_digest_in_clean_process(name, si, seed):
    import os
    import subprocess

    from harness.common import PY, VERIF

    env = dict(os.environ)
    env["PYTHONPATH"] = (os.environ.get("VERIF_REPO", "") + os.pathsep if os.environ.get("VERIF_REPO") else "") + VERIF
    try:
        p = subprocess.run([PY, "-W", "ignore", "-m", "harness.lib.pure_drive", "--sibling", name, str(si), str(seed)],
                           capture_output=True, text=True, env=env, cwd=VERIF, timeout=900)
        for ln in reversed(p.stdout.strip().splitlines()):
            if ln.startswith("SIBLING_DIGEST "):
                return ln.split()[1]
    except Exception:  # noqa: BLE001
        return None
    return None


class Memo:
    def __init__(self):
        self.classes = {}   # (fn, args_d) -> list of representative results

    def cls(self, fn, args_d, result):
        reps = self.classes.setdefault((fn, args_d), [])
        for i, r in enumerate(reps):
            if eq(r, result):
                return i
        reps.append(result)
        return len(reps) - 1


def drive_env(name, tier, seed):
    import jax
    import jax.numpy as jnp

    cat = dict(catalog.catalog(tier))
    cat.update(extra_catalog())
    mk = cat[name]
    env = mk()
    rng = np.random.default_rng(seed * 31 + 5)
    evs = []
    memo = Memo()
    seq = [0]

    def call(fn, mode, f, args, lane=None, note=""):
        """f(*args) -> result pytree; logs one event (or one per lane / scan index via explicit calls)."""
        seq[0] += 1
        try:
            before = jsonify.digest(to_np(args))
        except Exception as e:  # noqa: BLE001  (an argument made unusable by an EARLIER call, e.g. a donated buffer)
            evs.append({"k": "call", "env": name, "fn": fn, "mode": mode, "seq": seq[0], "args_d": "unusable",
                        "args_after_d": "unusable", "outcome": "raise:ArgumentUnusable", "note": note,
                        "detail": type(e).__name__ + ":" + str(e)[:160], "cls": -1, "result_d": "none"})
            return None
        try:
            res = f(*args)
            res = to_np(res)
            oc = "ok"
        except Exception as e:  # noqa: BLE001
            res, oc = None, "raise:" + type(e).__name__ + ":" + str(e)[:120]
        try:
            after = jsonify.digest(to_np(args))
        except Exception as e:  # noqa: BLE001  (the call deleted / donated one of its arguments)
            after = "destroyed:" + type(e).__name__
        ev = {"k": "call", "env": name, "fn": fn, "mode": mode, "seq": seq[0], "args_d": before, "args_after_d": after,
              "outcome": oc if oc == "ok" else oc.split(":")[0] + ":" + oc.split(":")[1], "note": note,
              "detail": "" if oc == "ok" else oc}
        if oc == "ok":
            ev["cls"] = memo.cls(fn, before, res)
            ev["result_d"] = jsonify.digest(res)
        else:
            ev["cls"] = -1
            ev["result_d"] = "none"
        evs.append(ev)
        return res

    def log_derived(fn, mode, args, res, note=""):
        """A call whose result was produced inside a batched/scanned program: logged per lane / index."""
        seq[0] += 1
        d = jsonify.digest(to_np(args))
        evs.append({"k": "call", "env": name, "fn": fn, "mode": mode, "seq": seq[0], "args_d": d, "args_after_d": d,
                    "outcome": "ok", "note": note, "detail": "", "cls": memo.cls(fn, d, to_np(res)),
                    "result_d": jsonify.digest(to_np(res))})

    jreset, jstep = jax.jit(env.reset), jax.jit(env.step)
    K1, K2 = jax.random.PRNGKey(seed * 3 + 1), jax.random.PRNGKey(seed * 3 + 2)
    eager_ok = True      # every environment gets at least one plain-Python reset and step (argument mutation, leaked
    #                       tracers and Python-level hidden state are invisible under jit); more of them when cheap
    eager_many = tier == "thorough" or name.split(".")[0] in CHEAP_EAGER

    # static: no side effects in the traced programs
    try:
        jp = jax.make_jaxpr(env.reset)(K1)
        st0, ts0 = jreset(K1)
        a0 = jnp.asarray(catalog.random_action(env, rng))
        jp2 = jax.make_jaxpr(env.step)(st0, a0)
        effs = sorted({str(e) for e in list(jp.effects) + list(jp2.effects)})
        prims = set()

        def walk(jaxpr):
            for eqn in jaxpr.eqns:
                prims.add(eqn.primitive.name)
                for v in eqn.params.values():
                    if hasattr(v, "jaxpr"):
                        walk(v.jaxpr if hasattr(v.jaxpr, "eqns") else v.jaxpr.jaxpr)
                    elif isinstance(v, (list, tuple)):
                        for x in v:
                            if hasattr(x, "jaxpr"):
                                walk(x.jaxpr if hasattr(x.jaxpr, "eqns") else x.jaxpr.jaxpr)

        walk(jp.jaxpr)
        walk(jp2.jaxpr)
        cb = sorted(p for p in prims if "callback" in p or p in ("debug_print", "infeed", "outfeed"))
        evs.append({"k": "static", "env": name, "effects": effs, "callbacks": cb})
    except Exception as e:  # noqa: BLE001
        evs.append({"k": "static", "env": name, "effects": ["trace_failed:" + type(e).__name__], "callbacks": []})

    # ---- reset: repeat, order, history, fresh instance, eager, vmap ----
    r1 = call("reset", "jit", jreset, (K1,))
    call("reset", "jit", jreset, (K2,))
    call("reset", "jit", jreset, (K1,), note="repeat after another key")
    env_b = mk()
    call("reset", "fresh_instance_jit", jax.jit(env_b.reset), (K1,))
    env_r = mk()     # a fresh instance that sees the keys in the opposite order (exposes "first call wins" caches)
    jr = jax.jit(env_r.reset)
    call("reset", "fresh_instance_reversed_order", jr, (K2,))
    call("reset", "fresh_instance_reversed_order", jr, (K1,))
    if eager_ok:
        call("reset", "eager", env.reset, (K1,), note="eager after jit")
        call("reset", "jit", jreset, (K1,), note="jit after eager")
        if eager_many:
            env_c = mk()
            call("reset", "fresh_instance_eager", env_c.reset, (K1,))
            call("reset", "fresh_instance_eager", env_c.reset, (K2,))
            call("reset", "fresh_instance_jit_after_eager", jax.jit(env_c.reset), (K1,))
    for B in ((3,) if tier == "quick" else (1, 3, 8)):
        keys = jnp.stack([K1, K2, K1][:B] + [K2] * max(0, B - 3))
        seq[0] += 1
        try:
            vs, vt = jax.jit(jax.vmap(env.reset))(keys)
            for lane in range(B):
                log_derived("reset", f"vmap{B}", (keys[lane],), (slice_tree(vs, lane), slice_tree(vt, lane)), note=f"lane {lane}")
        except Exception as e:  # noqa: BLE001
            evs.append({"k": "call", "env": name, "fn": "reset", "mode": f"vmap{B}", "seq": seq[0], "args_d": "x", "args_after_d": "x",
                        "outcome": "raise:" + type(e).__name__, "note": "", "detail": str(e)[:200], "cls": -1, "result_d": "none"})

    # ---- another environment built around the same generator object with other arguments ----
    cz = getattr(mk, "cousin", None)
    if cz is not None:
        try:
            ec = cz()
            jax.jit(ec.reset)(K2)
        except Exception:  # noqa: BLE001  (a cousin that cannot be built is skipped)
            ec = None
        if ec is not None:
            call("reset", "eager_after_cousin", env.reset, (K1,), note="a sibling env now shares this env's generator object")
            call("reset", "fresh_instance_after_cousin", jax.jit(mk().reset), (K1,))
    # ---- other configurations of the same class built and used in between ----
    sibs = siblings(name) if "." not in name else []
    for si, mk_sib in enumerate(sibs):
        try:
            es = mk_sib()
            s_sib, t_sib = jax.jit(es.reset)(K2)
            jax.jit(es.step)(s_sib, jnp.asarray(catalog.random_action(es, rng)))
        except Exception:  # noqa: BLE001   (a sibling that cannot be built is simply skipped)
            continue
        env_after = mk()
        call("reset", "fresh_instance_after_other_config", jax.jit(env_after.reset), (K1,), note=f"sibling {si}")
        # ... and the other way round: the sibling, built here AFTER the configuration under test, must behave exactly
        # as it does when it is the only environment ever built in a process (computed in a clean child process)
        clean = sibling_digest_in_clean_process(name, si, seed)
        if clean is not None:
            seq[0] += 1
            evs.append({"k": "call", "env": name, "fn": f"sibling{si}.rollout", "mode": "clean_process", "seq": seq[0],
                        "args_d": "K2", "args_after_d": "K2", "outcome": "ok", "note": "", "detail": "",
                        "cls": memo.cls(f"sibling{si}.rollout", "K2", clean), "result_d": clean})
            here = sibling_rollout_digest(es, seed)
            seq[0] += 1
            evs.append({"k": "call", "env": name, "fn": f"sibling{si}.rollout", "mode": "after_other_config", "seq": seq[0],
                        "args_d": "K2", "args_after_d": "K2", "outcome": "ok", "note": "", "detail": "",
                        "cls": memo.cls(f"sibling{si}.rollout", "K2", here), "result_d": here})
    # ---- step: rollout, then replay the same (state, action) pairs in other modes and orders ----
    state, ts = jreset(K1)
    pairs = []
    T = 8 if tier == "quick" else 30
    for i in range(T):
        a = jnp.asarray(catalog.masked_action(env, ts.observation, rng) if rng.random() < 0.7 else catalog.random_action(env, rng))
        pairs.append((state, a))
        res = call("step", "jit", jstep, (state, a))
        if res is None:
            break
        state, ts = jstep(state, a)
    # repeat in reverse order (history independence), on a fresh instance, eagerly for a couple
    for (s, a) in reversed(pairs):
        call("step", "jit", jstep, (s, a), note="replayed in reverse order")
    jstep_b = jax.jit(env_b.step)
    for (s, a) in pairs[:4]:
        call("step", "fresh_instance_jit", jstep_b, (s, a))
    # vmap over the visited pairs
    if pairs:
        B = min(len(pairs), 4 if tier == "quick" else 8)
        bs = jax.tree_util.tree_map(lambda *xs: jnp.stack(xs), *[p[0] for p in pairs[:B]])
        ba = jnp.stack([p[1] for p in pairs[:B]])
        try:
            vs, vt = jax.jit(jax.vmap(env.step))(bs, ba)
            for lane in range(B):
                log_derived("step", f"vmap{B}", pairs[lane], (slice_tree(vs, lane), slice_tree(vt, lane)), note=f"lane {lane}")
        except Exception as e:  # noqa: BLE001
            seq[0] += 1
            evs.append({"k": "call", "env": name, "fn": "step", "mode": f"vmap{B}", "seq": seq[0], "args_d": "x", "args_after_d": "x",
                        "outcome": "raise:" + type(e).__name__, "note": "", "detail": str(e)[:200], "cls": -1, "result_d": "none"})
        # scan from the first state over the recorded actions
        acts = jnp.stack([p[1] for p in pairs])

        def body(st, a):
            st2, ts2 = env.step(st, a)
            return st2, (st2, ts2)

        try:
            _, (ss, tss) = jax.jit(lambda s, a: jax.lax.scan(body, s, a))(pairs[0][0], acts)
            for i in range(len(pairs)):
                log_derived("step", f"scan{len(pairs)}", pairs[i], (slice_tree(ss, i), slice_tree(tss, i)), note=f"index {i}")
        except Exception as e:  # noqa: BLE001
            seq[0] += 1
            evs.append({"k": "call", "env": name, "fn": "step", "mode": "scan", "seq": seq[0], "args_d": "x", "args_after_d": "x",
                        "outcome": "raise:" + type(e).__name__, "note": "", "detail": str(e)[:200], "cls": -1, "result_d": "none"})
    # plain-Python execution LAST: a call that destroys its arguments (in-place mutation, donated buffers) must not stop
    # the driver; re-using the same argument objects afterwards exposes it
    if eager_ok:
        for (s, a) in pairs[:(2 if eager_many else 1)]:
            call("step", "eager", env.step, (s, a))
            call("step", "jit", jstep, (s, a), note="jit after eager on the same argument objects")
        if pairs:
            try:
                bs1 = jax.tree_util.tree_map(lambda x: jnp.stack([x, x]), pairs[-1][0])
                ba1 = jnp.stack([pairs[-1][1], pairs[-1][1]])
                call("step", "eager_vmap", jax.vmap(env.step), (bs1, ba1))
                call("step", "eager_vmap", jax.vmap(env.step), (bs1, ba1), note="repeat on the same batch")
            except Exception as e:  # noqa: BLE001
                seq[0] += 1
                evs.append({"k": "call", "env": name, "fn": "step", "mode": "eager_vmap", "seq": seq[0], "args_d": "unusable",
                            "args_after_d": "unusable", "outcome": "raise:ArgumentUnusable", "note": "stacking the visited state",
                            "detail": type(e).__name__, "cls": -1, "result_d": "none"})
    # the generator object, if any, must itself be a pure callable (called directly after all of the above)
    gen = getattr(env, "generator", None) or getattr(env, "_generator", None)
    if gen is not None and callable(gen):
        g1 = call("generator", "eager_after_history", gen, (K1,))
        call("generator", "eager_after_history", gen, (K1,), note="repeat")
        gen_b = getattr(mk(), "generator", None) or getattr(mk(), "_generator", None)
        if gen_b is not None:
            call("generator", "fresh_instance", gen_b, (K1,))
    return evs


def main():
    if sys.argv[1] == "--sibling":
        from harness.common import setup_env

        setup_env()
        name, si, seed = sys.argv[2], int(sys.argv[3]), int(sys.argv[4])
        CLEAN[0] = True
        print("SIBLING_DIGEST " + sibling_rollout_digest(siblings(name)[si](), seed))
        return
    name, tier, seed, out = sys.argv[1:5]
    from harness.common import setup_env

    setup_env()
    t0 = time.time()
    try:
        evs = drive_env(name, tier, int(seed))
        with open(out, "w") as f:
            f.write(dumps({"k": "hdr", "env": name, "cfg": {}, "tier": tier, "seed": int(seed)}) + "\n")
            for e in evs:
                f.write(dumps(e) + "\n")
        print(json.dumps({"ok": True, "events": len(evs), "lines": len(evs) + 1, "wall": round(time.time() - t0, 1)}))
    except Exception as e:  # noqa: BLE001
        tb = traceback.format_exc()
        print(json.dumps({"ok": False, "error": f"{type(e).__name__}: {e}", "tb": tb[-3000:]}))


if __name__ == "__main__":
    main()
