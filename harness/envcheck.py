"""Environment-family properties (C01, C03-C12): record traces from the real code, validate them
with TLC against Trace_<Env>.tla (clause group of the property), run the property's MC models."""
import concurrent.futures as cf
import hashlib
import importlib
import json
import os
import pkgutil
import subprocess
import sys
import time

from harness import tlc
from harness.common import CACHE, NCPU, PY, SPEC, VERIF, WORK, dumps, harness_hash, log, tree_hash


def load_adapters(only=None):
    import harness.envs as pkg

    out = []
    for m in sorted(pkgutil.iter_modules(pkg.__path__), key=lambda x: x.name):
        if m.name in ("base",) or m.name.startswith("_"):
            continue
        mod = importlib.import_module(f"harness.envs.{m.name}")
        if not hasattr(mod, "Adapter"):
            continue
        ad = mod.Adapter()
        ad._mod = m.name
        if only and ad.name not in only and m.name not in only:
            continue
        out.append(ad)
    return out


def trace_path(ad, cfg, tier, seed, with_leaves):
    d = os.path.join(CACHE, "traces", f"{tree_hash()}-{harness_hash()}")
    return os.path.join(d, f"{ad.name}-{cfg['id']}-{tier}-{seed}-{int(with_leaves)}.ndjson")


def gc_cache(max_age_s=5400):
    """Remove trace-cache directories not touched for 90 minutes (other runs may be using recent ones)."""
    import shutil

    root = os.path.join(CACHE, "traces")
    if not os.path.isdir(root):
        return
    now = time.time()
    for d in os.listdir(root):
        p = os.path.join(root, d)
        try:
            if now - os.path.getmtime(p) > max_age_s:
                shutil.rmtree(p, ignore_errors=True)
        except OSError:
            pass


def _record(job):
    mod, cfg_id, tier, seed, wl, out = job
    if os.path.exists(out) and os.path.exists(out + ".meta"):
        with open(out + ".meta") as f:
            meta = json.load(f)
        meta["cached"] = True
        return job, meta
    env = dict(os.environ)
    env["PYTHONPATH"] = VERIF + os.pathsep + env.get("PYTHONPATH", "")
    try:
        p = subprocess.run([PY, "-m", "harness.record_job", mod, cfg_id, tier, str(seed), str(int(wl)), out],
                           capture_output=True, text=True, env=env, cwd=VERIF, timeout=3600)
    except subprocess.TimeoutExpired:
        return job, {"ok": False, "error": "recorder timeout", "in_repo": False}
    meta = None
    for ln in reversed(p.stdout.strip().splitlines()):
        try:
            meta = json.loads(ln)
            break
        except Exception:  # noqa: BLE001
            continue
    if meta is None:
        meta = {"ok": False, "error": "recorder crashed: " + (p.stderr or p.stdout)[-1500:], "in_repo": False}
    if meta.get("ok"):
        with open(out + ".meta", "w") as f:
            json.dump(meta, f)
    return job, meta


def _validate(args):
    module, path, enabled, workdir, n_lines = args
    return path, tlc.run_trace(module, path, enabled, workdir, n_events=n_lines)


def mc_index():
    d = os.path.join(SPEC, "mc", "index")
    out = {}
    if os.path.isdir(d):
        for fn in sorted(os.listdir(d)):
            if fn.endswith(".json"):
                with open(os.path.join(d, fn)) as f:
                    out.update(json.load(f))
    return out


def run(prop, tier, seed, only=None, with_mc=True):
    """Returns dict(results...) consumed by check.py."""
    t0 = time.time()
    adapters = [a for a in load_adapters(only) if prop in a.props]
    with_leaves = prop == "C01"
    jobs = []
    meta_by_path = {}
    for ad in adapters:
        for cfg in ad.all_configs(tier):
            if cfg.get("props") and prop not in cfg["props"]:
                continue
            out = trace_path(ad, cfg, tier, seed, with_leaves)
            os.makedirs(os.path.dirname(out), exist_ok=True)
            jobs.append((ad._mod, cfg["id"], tier, seed, with_leaves, out))
            meta_by_path[out] = (ad, cfg)
    gc_cache()
    # the MC runs do not depend on the implementation: start them now, 4 at a time, next to recording/validation
    mc_futs = []
    mc_pool = None
    if with_mc:
        mc_pool = cf.ThreadPoolExecutor(4)
        idx = mc_index()
        for mod, ent in sorted(idx.items()):
            if only and ent.get("env") not in only and mod not in only:
                continue
            for c in ent.get(tier, ent.get("quick", [])) if tier == "thorough" else ent.get("quick", []):
                if prop not in c.get("props", []):
                    continue
                wd = os.path.join(WORK, f"mc-{prop}-{os.getpid()}", mod + "-" + c["cfg"])
                mc_futs.append((mod, c, mc_pool.submit(tlc.run_mc, mod, c["cfg"], wd, max(2, NCPU // 4), c.get("timeout", 1800))))
    rec_fail = []
    skipped = []
    traces = []
    nworkers = max(1, NCPU)
    with cf.ThreadPoolExecutor(nworkers) as ex:
        for job, meta in ex.map(_record, jobs):
            ad, cfg = meta_by_path[job[5]]
            if not meta.get("ok"):
                rec_fail.append((ad, cfg, meta))
            elif meta.get("skipped"):
                skipped.append((ad.name, cfg["id"], meta["skipped"]))
                log(f"[{prop}] INJ configuration {ad.name}/{cfg['id']} skipped: {meta['skipped']}")
            else:
                traces.append((ad, cfg, job[5], meta))
    log(f"[{prop}] recorded {len(traces)} traces ({sum(m['events'] for *_, m in traces)} events) in {time.time() - t0:.1f}s;"
        f" {len(rec_fail)} recorder failures")
    # TLC validation
    t1 = time.time()
    vjobs = []
    for k, (ad, cfg, path, meta) in enumerate(traces):
        wd = os.path.join(WORK, f"tv-{prop}-{os.getpid()}", f"{k}")
        vjobs.append((f"Trace_{ad.name}", path, {prop}, wd, meta["lines"]))
    results = {}
    with cf.ThreadPoolExecutor(nworkers) as ex:
        for path, res in ex.map(_validate, vjobs):
            results[path] = res
    log(f"[{prop}] TLC validated {len(results)} traces in {time.time() - t1:.1f}s")
    # MC models (started at the beginning, see below) - collect
    mcs = []
    if mc_futs:
        t2 = time.time()
        for mod, c, fut in mc_futs:
            mcs.append((mod, c, fut.result()))
        mc_pool.shutdown()
        log(f"[{prop}] {len(mcs)} MC runs finished {time.time() - t2:.1f}s after trace validation")
    import shutil

    shutil.rmtree(os.path.join(WORK, f"tv-{prop}-{os.getpid()}"), ignore_errors=True)
    shutil.rmtree(os.path.join(WORK, f"mc-{prop}-{os.getpid()}"), ignore_errors=True)
    return {"traces": traces, "results": results, "rec_fail": rec_fail, "skipped": skipped, "mcs": mcs, "wall": time.time() - t0}
