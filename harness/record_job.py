"""One trace-recording job (own process: JAX state is per process).
usage: python -m harness.record_job <adapter_module> <cfg_id> <tier> <seed> <with_leaves 0/1> <out_path>
Prints one JSON line with counts."""
import importlib
import json
import sys
import time
import traceback


def main():
    mod, cfg_id, tier, seed, wl, out = sys.argv[1:7]
    from harness.common import setup_env

    setup_env()
    t0 = time.time()
    try:
        ad = importlib.import_module(f"harness.envs.{mod}").Adapter()
        cfg = [c for c in ad.all_configs(tier) if c["id"] == cfg_id][0]
        from harness.inject import Unavailable
        from harness.record import Recorder

        if hasattr(ad, "record_custom"):       # no environment to drive: the adapter writes its own events
            meta = ad.record_custom(cfg, tier, int(seed), out)
            meta["wall"] = round(time.time() - t0, 2)
            print(json.dumps(meta))
            return

        try:
            rec = Recorder(ad, cfg, tier, int(seed), with_leaves=bool(int(wl))).run()
        except Unavailable as e:
            # the injection point of an INJ configuration is gone (private helper renamed): record nothing for it
            with open(out, "w") as f:
                f.write(json.dumps({"k": "hdr", "env": ad.name, "cfgid": cfg["id"], "cfg": {}, "skipped": str(e)}) + "\n")
            print(json.dumps({"ok": True, "events": 0, "probes": 0, "episodes": 0, "wall": round(time.time() - t0, 2),
                              "lines": 1, "policy_fallbacks": 0, "skipped": str(e)}))
            return
        rec.write(out)
        print(json.dumps({"ok": True, "events": rec.n_events, "probes": rec.n_probe, "episodes": rec.n_episodes,
                          "wall": round(time.time() - t0, 2), "lines": len(rec.lines), "policy_fallbacks": rec.policy_fallbacks}))
    except Exception as e:  # noqa: BLE001
        # An exception while driving the real code is reported to the caller, which decides whether it is
        # a property violation (the code under test raised) or a machinery failure.
        tb = traceback.format_exc()
        print(json.dumps({"ok": False, "error": f"{type(e).__name__}: {e}", "tb": tb[-3000:],
                          "in_repo": "/jumanji/" in tb.split("harness/")[-1]}))


if __name__ == "__main__":
    main()
