"""Authoring helper:  ./dev <EnvName> [--tier quick] [--props C03,C04] [--cfg id] [--mc] [--show N]

Records the traces of one environment once (with C01 leaves) and validates them with ALL clause groups of
the adapter enabled (or the given ones); prints a per-clause summary with example events."""
import argparse
import json
import os
import sys
import time

sys.path.insert(0, os.path.dirname(os.path.dirname(os.path.abspath(__file__))))

from harness import common, envcheck, tlc  # noqa: E402
from harness.common import WORK, dumps  # noqa: E402
from harness.record import read_trace  # noqa: E402


def main():
    ap = argparse.ArgumentParser()
    ap.add_argument("env")
    ap.add_argument("--tier", default="quick")
    ap.add_argument("--props")
    ap.add_argument("--cfg")
    ap.add_argument("--mc", action="store_true")
    ap.add_argument("--show", type=int, default=2)
    ap.add_argument("--full", action="store_true", help="print full example events")
    args = ap.parse_args()
    common.setup_env()
    seed = common.seed()
    ads = envcheck.load_adapters({args.env})
    if not ads:
        print("no adapter named", args.env)
        sys.exit(2)
    ad = ads[0]
    props = set(args.props.split(",")) if args.props else set(ad.props)
    t0 = time.time()
    jobs = []
    for cfg in ad.all_configs(args.tier):
        if args.cfg and cfg["id"] != args.cfg:
            continue
        out = envcheck.trace_path(ad, cfg, args.tier, seed, True)
        os.makedirs(os.path.dirname(out), exist_ok=True)
        jobs.append((cfg, (ad._mod, cfg["id"], args.tier, seed, True, out)))
    import concurrent.futures as cf

    with cf.ThreadPoolExecutor(common.NCPU) as ex:
        recs = list(ex.map(lambda j: envcheck._record(j[1]), jobs))
    vjobs = []
    for (cfg, job), (_, meta) in zip(jobs, recs):
        if not meta.get("ok"):
            print(f"RECORDER FAILED cfg={cfg['id']}: {meta.get('error')}\n{meta.get('tb', '')}")
            continue
        print(f"recorded cfg={cfg['id']}: {meta['events']} events ({meta['probes']} probes, {meta['episodes']} episodes) "
              f"{meta['wall']}s{' [cached]' if meta.get('cached') else ''}")
        vjobs.append((f"Trace_{ad.name}", job[5], props, os.path.join(WORK, f"dev-{ad.name}-{cfg['id']}"), meta["lines"]))
    print(f"recording: {time.time() - t0:.1f}s")
    t1 = time.time()
    with cf.ThreadPoolExecutor(common.NCPU) as ex:
        results = list(ex.map(envcheck._validate, vjobs))
    print(f"TLC: {time.time() - t1:.1f}s")
    bad = False
    for path, res in results:
        print(f"--- {os.path.basename(path)}: accepted={res.accepted} wall={res.wall:.1f}s applicable={len(res.applicable)} "
              f"rejected_lines={len(res.rejects)} eval_errors={len(res.eval_errors)}")
        if res.machinery_error:
            bad = True
            print("MACHINERY ERROR:", res.machinery_error)
            print(res.output_tail[-2500:])
            continue
        if not (res.rejects or res.eval_errors):
            continue
        bad = True
        lines = read_trace(path)
        by_clause = {}
        for ln, clauses in res.rejects:
            for c in clauses:
                by_clause.setdefault(c, []).append(ln)
        for c, lns in sorted(by_clause.items()):
            print(f"  REJECT {c}: {len(lns)} lines, e.g. {lns[:8]}")
            for ln in lns[:args.show]:
                e = lines[ln - 1]
                par = lines[e["par"] - 1] if e.get("par") else None
                if args.full:
                    print("     line", ln, "event:", dumps(e))
                    if par:
                        print("     parent:", dumps(par))
                else:
                    print("     line", ln, "k=%s i=%s main=%s pl=%s a=%s type=%s reward=%s" % (
                        e["k"], e["i"], e["main"], e["pl"], e["a"], e["ts"]["type"], e["ts"]["reward"].get("q")))
                    print("       post.s:", dumps(e["s"])[:700])
                    if par:
                        print("       pre.s :", dumps(par["s"])[:700])
        for ln, msg in res.eval_errors:
            print(f"  EVAL-ERROR at line {ln}: {msg}")
    if args.mc:
        idx = envcheck.mc_index()
        for mod, ent in sorted(idx.items()):
            if ent.get("env") != ad.name:
                continue
            for c in ent.get(args.tier, []):
                r = tlc.run_mc(mod, c["cfg"], os.path.join(WORK, f"devmc-{mod}-{c['cfg']}"), timeout=c.get("timeout", 1800))
                print(f"MC {mod} {c['cfg']}: ok={r.ok} distinct={r.distinct} generated={r.states} wall={r.wall:.1f}s "
                      f"violated={r.violated} error={r.error}")
                if not r.ok:
                    bad = True
                    print(r.out_tail[-3000:])
    sys.exit(1 if bad else 0)


if __name__ == "__main__":
    main()
