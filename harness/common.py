"""Shared paths, environment setup and small utilities for the verification harness."""
import hashlib
import json
import os
import sys
import time

VERIF = os.path.dirname(os.path.dirname(os.path.abspath(__file__)))
REPO = os.environ.get("VERIF_REPO", "/repo")
SPEC = os.path.join(VERIF, "spec")
EVID = os.path.join(VERIF, "evidence")
REPLAY = os.path.join(EVID, "replays")
CACHE = os.path.join(VERIF, ".cache")
WORK = os.path.join(CACHE, "work")  # scratch (never /tmp: registered commands must not need it)
PY = "/venv/bin/python"
TLA_CP = "/opt/veriftools/tla/tla2tools.jar:/opt/veriftools/tla/CommunityModules-deps.jar"
GUARD = "JUMANJI_VERIF"

NCPU = int(os.environ.get("VERIF_JOBS", str(os.cpu_count() or 4)))


def setup_env():
    """Environment variables every child process (JAX, TLC) should see."""
    os.environ.setdefault("JAX_PLATFORMS", "cpu")
    os.environ.setdefault("HF_HUB_OFFLINE", "1")
    os.environ.setdefault("PYTHONHASHSEED", "0")
    os.environ.setdefault("XLA_FLAGS", "--xla_cpu_multi_thread_eigen=false intra_op_parallelism_threads=1")
    os.environ.setdefault("OMP_NUM_THREADS", "1")
    os.environ.setdefault("MPLBACKEND", "Agg")
    os.environ[GUARD] = "1"
    # persistent XLA compilation cache (keyed by the HLO itself, hence sound across source changes)
    os.environ.setdefault("JAX_COMPILATION_CACHE_DIR", os.path.join(CACHE, "jaxcache"))
    os.environ.setdefault("JAX_PERSISTENT_CACHE_MIN_COMPILE_TIME_SECS", "0.5")
    os.environ.setdefault("JAX_PERSISTENT_CACHE_MIN_ENTRY_SIZE_BYTES", "0")
    for d in (EVID, REPLAY, CACHE, WORK):
        os.makedirs(d, exist_ok=True)


def seed():
    try:
        return int(os.environ.get("VERIF_SEED", "0"))
    except ValueError:
        return 0


_TREE_HASH = None


def tree_hash():
    """Hash of every file under /repo/jumanji (the code under test) - cache key for traces."""
    global _TREE_HASH
    if _TREE_HASH is not None:
        return _TREE_HASH
    h = hashlib.sha256()
    root = os.path.join(REPO, "jumanji")
    for dp, dn, fn in sorted(os.walk(root)):
        dn[:] = sorted(d for d in dn if d != "__pycache__")
        for f in sorted(fn):
            if f.endswith((".pyc", ".pyo")):
                continue
            p = os.path.join(dp, f)
            h.update(os.path.relpath(p, root).encode())
            try:
                with open(p, "rb") as fh:
                    h.update(hashlib.sha256(fh.read()).digest())
            except OSError:
                h.update(b"?")
    _TREE_HASH = h.hexdigest()[:16]
    return _TREE_HASH


def harness_hash():
    """Hash of the harness + specs: a change to the machinery also invalidates cached traces."""
    h = hashlib.sha256()
    for sub in ("harness", "spec"):
        for dp, dn, fn in sorted(os.walk(os.path.join(VERIF, sub))):
            dn[:] = sorted(d for d in dn if d != "__pycache__")
            for f in sorted(fn):
                if f.endswith((".py", ".tla", ".cfg")):
                    with open(os.path.join(dp, f), "rb") as fh:
                        h.update(f.encode() + hashlib.sha256(fh.read()).digest())
    return h.hexdigest()[:12]


def dumps(o):
    return json.dumps(o, separators=(",", ":"), sort_keys=True)


class Timer:
    def __init__(self):
        self.t0 = time.time()

    def s(self):
        return round(time.time() - self.t0, 2)


def log(*a):
    print(*a, file=sys.stderr, flush=True)
