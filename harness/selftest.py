"""Anti-vacuity self test (./check selftest): corrupt one field of one recorded event of a real trace and require
TLC to reject exactly that line. Demonstrates that the trace specifications are bound to the data they read.
Not a registered property check; results go to evidence/selftest.json and are summarised in DESIGN.md."""
import concurrent.futures as cf
import copy
import json
import os
import random
import time

from harness import envcheck, tlc
from harness.common import EVID, NCPU, WORK, dumps, log
from harness.record import read_trace


def _flip_mask(m):
    if isinstance(m, list) and m and isinstance(m[0], list):
        return [_flip_mask(m[0])] + m[1:]
    if isinstance(m, list) and m and isinstance(m[0], bool):
        return [not m[0]] + m[1:]
    return m


CORRUPTIONS = {
    "step_type_first": lambda e: e["ts"].__setitem__("type", 0),
    "reward_plus_one": lambda e: (e["ts"]["reward"].__setitem__("q", [e["ts"]["reward"]["q"][0] + 65536] + e["ts"]["reward"]["q"][1:]),
                                  e["ts"]["reward"].__setitem__("i", [e["ts"]["reward"]["i"][0] + 1] + e["ts"]["reward"]["i"][1:])),
    "mid_discount_zero": lambda e: e["ts"]["discount"].__setitem__("q", [0] * len(e["ts"]["discount"]["q"])),
    "mask_bit_flipped": lambda e: e["ts"]["obs"].__setitem__("action_mask", _flip_mask(e["ts"]["obs"]["action_mask"])),
    "mid_becomes_last": lambda e: e["ts"].__setitem__("type", 2),
}


def _one(args):
    ad_name, module, props, path, cname, line_no, workdir = args
    lines = read_trace(path)
    e = lines[line_no - 1]
    try:
        CORRUPTIONS[cname](e)
    except Exception as ex:  # noqa: BLE001
        return ad_name, cname, line_no, "n/a", str(ex)
    # keep only the episode prefix needed: header + everything up to the corrupted line (parents precede children)
    sub = lines[:line_no]
    out = os.path.join(workdir, f"{ad_name}-{cname}.ndjson")
    os.makedirs(workdir, exist_ok=True)
    with open(out, "w") as f:
        for ln in sub:
            f.write(dumps(ln) + "\n")
    res = tlc.run_trace(module, out, props, os.path.join(workdir, f"tlc-{ad_name}-{cname}"), n_events=len(sub))
    if res.machinery_error:
        return ad_name, cname, line_no, "machinery", res.machinery_error[:300]
    hit = [c for ln, cs in res.rejects if ln == line_no for c in cs] + [m for ln, m in res.eval_errors if ln == line_no]
    other = [c for ln, cs in res.rejects if ln != line_no for c in cs]
    return ad_name, cname, line_no, ("caught" if hit else "MISSED"), sorted(set(hit))[:6] + (["(also other lines)"] if other else [])


def run(tier, seed):
    t0 = time.time()
    rnd = random.Random(seed)
    jobs = []
    wd = os.path.join(WORK, f"selftest-{os.getpid()}")
    for ad in envcheck.load_adapters():
        cfgs = ad.configs("quick")
        cfg = cfgs[0]
        path = envcheck.trace_path(ad, cfg, "quick", seed, False)
        os.makedirs(os.path.dirname(path), exist_ok=True)
        _, meta = envcheck._record((ad._mod, cfg["id"], "quick", seed, False, path))
        if not meta.get("ok"):
            log("selftest: recorder failed for", ad.name, meta.get("error"))
            continue
        lines = read_trace(path)
        mids = [i + 1 for i, e in enumerate(lines) if e.get("k") == "step" and not e["pl"] and e["ts"]["type"] == 1 and i < 400]
        if not mids:
            continue
        for cname in CORRUPTIONS:
            if cname == "mask_bit_flipped" and "action_mask" not in lines[mids[0] - 1]["ts"]["obs"]:
                continue
            ln = rnd.choice(mids)
            jobs.append((ad.name, f"Trace_{ad.name}", set(ad.props) - {"C01"}, path, cname, ln, wd))
    results = []
    with cf.ThreadPoolExecutor(NCPU) as ex:
        for r in ex.map(_one, jobs):
            results.append(r)
            print("selftest", *r)
    import shutil

    shutil.rmtree(wd, ignore_errors=True)
    summary = {"caught": sum(1 for r in results if r[3] == "caught"), "missed": [list(r[:3]) for r in results if r[3] == "MISSED"],
               "machinery": [list(r) for r in results if r[3] == "machinery"], "total": len(results),
               "wall_s": round(time.time() - t0, 1), "results": [list(r) for r in results]}
    with open(os.path.join(EVID, "selftest.json"), "w") as f:
        json.dump(summary, f, indent=1, default=str)
    print(f"selftest: {summary['caught']}/{summary['total']} corruptions rejected; missed: {summary['missed']}")
    return 0 if not summary["machinery"] else 2
