"""Running TLC: trace validation (one JVM per trace shard, in parallel) and model checking."""
import os
import re
import shutil
import subprocess
import time

from harness.common import CACHE, NCPU, SPEC, TLA_CP, WORK, log

JAVA = ["java", "-XX:+UseSerialGC", "-Xss16m", "-Xmx3g", "-cp", TLA_CP]
SPEC_DIRS = [os.path.join(SPEC, d) for d in ("common", "env", "trace", "mc", "lib")]


def _stage(workdir, module_path_hint=None):
    """TLC resolves EXTENDS relative to the spec's directory: stage all modules flat."""
    os.makedirs(workdir, exist_ok=True)
    for d in SPEC_DIRS:
        if not os.path.isdir(d):
            continue
        for f in os.listdir(d):
            if f.endswith(".tla"):
                dst = os.path.join(workdir, f)
                src = os.path.join(d, f)
                if not os.path.exists(dst) or os.path.getmtime(dst) < os.path.getmtime(src):
                    shutil.copy2(src, dst)


APP_ALL = re.compile(r'<<\s*"APP",\s*(\d+)\s*>>')
REJ_ALL = re.compile(r'<<\s*"REJECT",\s*(\d+),\s*\{(.*?)\}\s*>>', re.S)
APP_RE = re.compile(r'^<<"APP",\s*(\d+)>>\s*$')
REJ_RE = re.compile(r'^<<"REJECT",\s*(\d+),\s*\{(.*)\}>>\s*$')


class TraceResult:
    def __init__(self, trace_file):
        self.trace_file = trace_file
        self.rejects = []  # (line, [clauses])
        self.applicable = []  # lines on which at least one clause of the enabled groups applied
        self.eval_errors = []  # (line, message)
        self.accepted = False
        self.events = 0
        self.machinery_error = None
        self.wall = 0.0
        self.output_tail = ""


def run_trace(module, trace_file, enabled, workdir, start_line=1, timeout=3600, n_events=None, has_cfg=True):
    """Validate one trace file against spec/trace/<module>.tla. Resumes after evaluation errors so
    that every line gets a verdict (a line whose evaluation fails is reported as eval error)."""
    _stage(workdir)
    res = TraceResult(trace_file)
    t0 = time.time()
    cfg_path = os.path.join(workdir, f"{module}__{os.path.basename(trace_file)}.cfg")
    with open(cfg_path, "w") as f:
        f.write("SPECIFICATION Spec\nCHECK_DEADLOCK FALSE\nPOSTCONDITION Accepted\n")
        f.write("CONSTANT Enabled = {%s}\n" % ", ".join('"%s"' % e for e in sorted(enabled)))
        if has_cfg:
            f.write("CONSTANT Cfg <- TraceCfg\n")
    start = start_line
    guard = 0
    while True:
        guard += 1
        env = dict(os.environ)
        env["TRACE_FILE"] = trace_file
        env["START_LINE"] = str(start)
        meta = os.path.join(workdir, "meta_" + os.path.basename(trace_file) + f"_{start}")
        cmd = JAVA + ["tlc2.TLC", "-workers", "1", "-metadir", meta, "-noGenerateSpecTE", "-config", cfg_path,
                      os.path.join(workdir, module + ".tla")]
        try:
            p = subprocess.run(cmd, env=env, cwd=workdir, capture_output=True, text=True, timeout=timeout)
        except subprocess.TimeoutExpired:
            res.machinery_error = f"TLC timeout after {timeout}s on {trace_file}"
            break
        finally:
            shutil.rmtree(meta, ignore_errors=True)
        out = p.stdout
        res.output_tail = out[-3000:]
        last_line_seen = start
        for ma in APP_ALL.finditer(out):
            res.applicable.append(int(ma.group(1)))
        for m in REJ_ALL.finditer(out):   # TLC pretty-prints long tuples over several lines
            clauses = [c.strip().strip('"') for c in m.group(2).replace("\n", " ").split(",") if c.strip()]
            res.rejects.append((int(m.group(1)), clauses))
        if "Model checking completed. No error has been found" in out:
            res.accepted = True
            break
        # evaluation error while judging some line: find the depth reached
        m = re.search(r"The depth of the complete state graph search is (\d+)", out)
        depth_m = re.findall(r"^/\\ l = (\d+)", out, flags=re.M)
        parse_problem = ("ndDeserialize" in out or "Parsing or semantic analysis failed" in out
                         or "IOEnv" in _first_error(out))
        if ("Error:" in out or p.returncode != 0) and depth_m and guard < 25 and not parse_problem:
            cur = int(depth_m[-1])  # last state printed in the error trace: l = cur, line cur+1 failed
            msg = _first_error(out)
            res.eval_errors.append((cur + 1, msg))
            start = cur + 1
            if n_events is not None and start >= n_events:
                res.accepted = True
                break
            continue
        res.machinery_error = "TLC failed: " + _first_error(out) + (p.stderr[-500:] if p.stderr else "")
        break
    res.wall = time.time() - t0
    return res


def _first_error(out):
    lines = out.splitlines()
    for i, ln in enumerate(lines):
        if ln.startswith("Error:") or "Exception" in ln:
            return " | ".join(x.strip() for x in lines[i:i + 6])[:800]
    return out[-400:]


MC_STATS = re.compile(r"(\d+) states generated, (\d+) distinct states found")


class MCResult:
    def __init__(self):
        self.ok = False
        self.states = 0
        self.distinct = 0
        self.violated = None
        self.error = None
        self.wall = 0.0
        self.coverage_zero = []
        self.out_tail = ""


def run_mc(module, cfg_file, workdir, workers=None, timeout=3600, extra=(), simulate=None, dump=None):
    """Model-check spec/mc/<module>.tla with the given cfg (path relative to spec/mc or absolute)."""
    _stage(workdir)
    res = MCResult()
    t0 = time.time()
    if not os.path.isabs(cfg_file):
        cand = [os.path.join(SPEC, d, cfg_file) for d in ("mc", "lib")]
        cfg_file = next((c for c in cand if os.path.exists(c)), cand[0])
    cfg_dst = os.path.join(workdir, os.path.basename(cfg_file))
    shutil.copy2(cfg_file, cfg_dst)
    meta = os.path.join(workdir, "meta_mc_" + os.path.basename(cfg_file))
    cmd = JAVA + ["tlc2.TLC", "-workers", str(workers or NCPU), "-metadir", meta, "-noGenerateSpecTE",
                  "-config", cfg_dst]
    if simulate:
        cmd += ["-simulate", simulate]
    if dump:
        cmd += ["-dump", dump]
    cmd += list(extra) + [os.path.join(workdir, module + ".tla")]
    try:
        p = subprocess.run(cmd, cwd=workdir, capture_output=True, text=True, timeout=timeout)
        out = p.stdout
    except subprocess.TimeoutExpired as e:
        res.error = f"timeout {timeout}s"
        out = (e.stdout or b"").decode() if isinstance(e.stdout, bytes) else (e.stdout or "")
    finally:
        shutil.rmtree(meta, ignore_errors=True)
    res.out_tail = out[-4000:]
    m = MC_STATS.findall(out)
    if m:
        res.states, res.distinct = int(m[-1][0]), int(m[-1][1])
    if "No error has been found" in out:
        res.ok = True
    else:
        mv = re.search(r"Invariant (\S+) is violated|Action property (\S+) is violated|Temporal properties were violated", out)
        if mv:
            res.violated = mv.group(1) or mv.group(2) or "temporal"
        elif not res.error:
            res.error = _first_error(out)
    res.wall = time.time() - t0
    return res
