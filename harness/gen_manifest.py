"""Regenerates /verif/MANIFEST.json from the table below (keeps it schema-valid at all times)."""
import json
import os
import sys

VERIF = os.path.dirname(os.path.dirname(os.path.abspath(__file__)))

TV = ("TLA+ reference model of each environment (spec/env/*.tla) model-checked by TLC on small constants "
      "(spec/mc), and bound to the code by trace validation: every reset/step event recorded from the real "
      "JAX implementation (configuration matrix x keys x policies x per-state probes of the action space) is "
      "judged by TLC against the clause group of this property in spec/trace/Trace_<Env>.tla")

CLAIMED = {
    # id: (technique, level text, note, design_ref)
    "C01": ("TLC trace validation of emitted leaves against the live-declared specs (SpecsAlgebra membership in TLA+)",
            TV, "declared specs are exported from the live environment object; float bounds compared through a monotone integer image", "6/C01"),
    "C03": ("TLC trace validation + TLC model checking of the FIRST/MID/LAST protocol; the TimeStep constructors of jumanji.types "
            "validated against TimeStepCtor.tla and model-checked as an episode protocol (MC_TimeStepCtor)", TV,
            "episodes are continued past LAST; keys/policies sampled", "6/C03"),
    "C04": ("TLC trace validation: mask = Legal of the TLA+ rules, with per-state probes of every action; TLC model checking of MaskSound", TV,
            "action spaces larger than the probe cap are sampled per state", "6/C04"),
    "C05": ("TLC trace validation of the documented invalid-move effect on every probed illegal action", TV,
            "illegality is judged by the TLA+ rules (Legal), not by the implementation's mask", "6/C05"),
    "C06": ("TLC trace validation: Feasible(state) recomputed by TLC on every state of mask-respecting play; TLC model checking under legal-only Next", TV,
            "mask-respecting = allowed by the implementation's own mask", "6/C06"),
    "C07": ("TLC trace validation: PhysInv and conservation laws evaluated by TLC on every recorded state/transition; TLC model checking", TV,
            "random/illegal/masked policies; small and non-square grids", "6/C07"),
    "C08": ("TLC trace validation with a return accumulator variable (and, where the objective is path-dependent, the model's own per-step reward); dense and sparse reward functions run in lock-step", TV,
            "fixed-point tolerance for float returns", "6/C08"),
    "C09": ("TLC trace validation: recorded (pre, action, post, reward, done) must satisfy StepRel of the TLA+ reference model, on played episodes and on "
            "TLC-dumped model states injected into the real code (all actions stepped); MC totality/determinism", TV,
            "nondeterministic outcomes (spawns, fruit) are existentially quantified in StepRel", "6/C09"),
    "C10": ("TLC trace validation of reset events against WellFormedInstance of each generator; MC of generator invariants", TV,
            "keys sampled; non-constancy judged over the reset events of each trace", "6/C10"),
    "C11": ("TLC trace validation against the time limit requested by the harness; MC for T in 1..4", TV,
            "survive-long policies; default limits only in the thorough tier", "6/C11"),
    "C12": ("TLC trace validation: observation = Obs(state) of the TLA+ observer on every event", TV,
            "float fields compared in fixed point", "6/C12"),
}

LIB = ("TLA+ model of the library component (spec/lib/*.tla) model-checked by TLC on a small universe, and bound to the "
       "code by trace validation: a driver performs calls on the real jumanji objects and logs each call with an oracle table "
       "computed from the native API; TLC judges every logged call against the law in the trace specification")
CLAIMED.update({
    "C02": ("TLC trace validation with a memo-table monitor (PureFn.tla) over calls in eager/jit/vmap/scan/fresh-instance modes and histories, "
            "including plain-Python replays of the most eventful transitions reached by directed policies; the library's own auto-reset / vmap wrappers are driven as environments too", LIB,
            "results for identical arguments are classed with exact equality on ints/bools and 2e-5 relative tolerance on floats", "6/C02"),
    "C13": ("TLC trace validation of AutoResetWrapper calls (jit, vmap, scan, eager) on all environments against Wrappers.tla; MC_AutoReset freshness over split-terms", LIB,
            "oracle table from the unwrapped environment; keys/actions sampled", "6/C13"),
    "C14": ("TLC trace validation of VmapWrapper / VmapAutoResetWrapper / Vmap(AutoReset) on all environments; MC_AutoReset refinement over all termination patterns", LIB,
            "batch sizes 1..8; termination patterns arise from tiny time limits and illegal actions", "6/C14"),
    "C15": ("TLC trace validation of gym / dm_env / MultiToSingle adapter calls (shipped environments, stacked wrappers and a user-written environment with row-wise bounds) against Adapters.tla (specification-side key schedule); MC_Adapters", LIB,
            "oracle table from native reset/step and jax.random.split", "6/C15"),
    "C16": ("TLC trace validation of jumanji.specs method calls against SpecsAlgebra.tla; MC_SpecsAlgebra laws over a small universe", LIB,
            "floats via exact monotone integer image; NaN not probed", "6/C16"),
    "C18": ("TLC trace validation of parse/register/make calls against Registry.tla (character-level parser model); MC_Registry over all strings up to length 4-5", LIB,
            "Sokoban-v0 dataset unavailable offline", "6/C18"),
    "C19": ("TLC trace validation of tree_utils / pytree equality helper calls against TreeUtils.tla; MC_TreeUtils data-level laws", LIB,
            "per-index views computed with numpy indexing", "6/C19"),
})

CLAIMED["C17"] = ("TLC trace validation of the C17 clause group in Trace_RubiksCube / Trace_SlidingTile: every move stepped by the real code from the all-distinct-sticker cube (n = 2..5; 6-7 thorough) must equal the geometric model's permutation, group laws evaluated by TLC on the logged implementation permutations; sliding puzzle: whole 2x2 space and 3x3 samples injected through a table-driven generator; MC of the group laws (n = 2..5) and of the full 2x2 / 3x3 sliding spaces",
                  TV, "3x3 sliding space is exhaustive in the MC model and sampled on the implementation side in the quick tier", "6/C17")

PENDING = {
}


def main():
    impl = set()
    for a in sys.argv[1:]:
        impl.add(a)
    checks = []
    for pid, (tech, text, note, ref) in sorted(CLAIMED.items()):
        checks.append({
            "property_id": pid,
            "quick_cmd": f"./check {pid} --tier quick",
            "thorough_cmd": f"./check {pid} --tier thorough",
            "evidence_file": f"/verif/evidence/{pid}.json",
            "replay_cmd_template": f"./check {pid} --replay {{path}}",
            "engine": "tlc",
            "level_claimed": {"category": "model_checking", "text": text, "design_ref": f"DESIGN.md section {ref}"},
            "level_note": note,
            "technique": tech,
        })
    man = {
        "version": 1,
        "setup_cmd": "./setup.sh",
        "hooks": {"guard": "JUMANJI_VERIF", "enable": "no source hooks: states are projected from the returned pytrees; "
                  "checks export JUMANJI_VERIF=1 for uniformity",
                  "baseline_off_cmd": "cd /repo && /venv/bin/python -m pytest -ra -q -p no:cacheprovider --timeout=900 --continue-on-collection-errors",
                  "source_commits": [], "add_only": True},
        "engines": [{"name": "tlc", "path": "/verif/check", "serves_properties": sorted(CLAIMED),
                     "kind_free_text": "TLC 1.8 model checking of TLA+ environment/library specifications + trace validation of the real implementation"}],
        "checks": checks,
        "not_applicable": [{"property_id": k, "reason": v} for k, v in sorted(PENDING.items()) if k not in CLAIMED],
        "notes": "see DESIGN.md; known findings in known_findings.json",
    }
    with open(os.path.join(VERIF, "MANIFEST.json"), "w") as f:
        json.dump(man, f, indent=1)


if __name__ == "__main__":
    main()
