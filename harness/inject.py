"""Spec -> code direction (INJ): TLC enumerates the reachable states of a small MC model, the dump is parsed
and handed to an adapter, whose environment subclass replays them as injected start states (table-driven
reset); the recorder then steps EVERY action from each injected state and the usual trace specification
judges the transitions."""
import os
import shutil

from harness import tlaval, tlc
from harness.common import WORK


class Unavailable(Exception):
    """The injection point (a private helper of the environment class) does not exist in this tree: the INJ
    configuration is skipped (an empty trace is recorded), it is neither a violation nor a machinery failure."""


def need(obj, *names):
    for n in names:
        if not hasattr(obj, n):
            raise Unavailable(f"{type(obj).__name__ if not isinstance(obj, type) else obj.__name__} has no attribute {n}")


def state_like(template, **fields):
    """A state (or any dataclass / namedtuple node of it) with the given fields replaced, every OTHER field taken from
    `template` - a value the library itself produced (its shipped generator or its own reset).  Harness-made states are
    built this way, never through the class constructor, so that a field the library adds to its State is carried along."""
    if hasattr(template, "__dataclass_fields__"):
        import dataclasses

        return dataclasses.replace(template, **fields)
    return template._replace(**fields)


def thin(items, limit):
    if limit and len(items) > limit:
        step = len(items) / float(limit)
        return [items[int(k * step)] for k in range(limit)]
    return items


def ep_key(ep):
    import jax.numpy as jnp

    return jnp.asarray([0, ep], dtype=jnp.uint32)


def dump_states(module, cfg, var="s", limit=None, workers=None, timeout=5400):
    """Reachable states of spec/mc/<module>.tla under cfg, as parsed by tlaval (deduplicated on `var`, or whole states when
    var is None). The parsed dump is cached on disk, keyed by the hash of the specifications and the harness (it does not
    depend on the code under test); concurrent recorders asking for the same dump wait for the first one."""
    import fcntl
    import json

    from harness.common import CACHE, NCPU, harness_hash

    d = os.path.join(CACHE, "dumps")
    os.makedirs(d, exist_ok=True)
    base = os.path.join(d, f"{module}-{os.path.basename(cfg)}-{var}-{harness_hash()}")
    import time as _t

    for fn in os.listdir(d):          # dumps of other versions of the specifications, unused for three hours
        fp = os.path.join(d, fn)
        try:
            if harness_hash() not in fn and _t.time() - os.path.getmtime(fp) > 10800:
                os.remove(fp)
        except OSError:
            pass
    with open(base + ".lock", "w") as lk:
        fcntl.flock(lk, fcntl.LOCK_EX)
        if os.path.exists(base + ".json"):
            with open(base + ".json") as f:
                cached = json.load(f)
            out, r = cached["states"], tlc.MCResult()
            r.ok, r.distinct, r.states = True, cached["distinct"], cached["generated"]
        else:
            wd = os.path.join(WORK, f"inject-{module}-{os.getpid()}")
            os.makedirs(wd, exist_ok=True)
            dump = os.path.join(wd, "states.dump")
            r = tlc.run_mc(module, cfg, wd, workers=workers or max(4, NCPU // 2), timeout=timeout, dump=dump)
            if not r.ok:
                shutil.rmtree(wd, ignore_errors=True)
                raise RuntimeError(f"TLC dump of {module}/{cfg} failed: {r.error or r.violated}\n{r.out_tail[-800:]}")
            states = tlaval.parse_dump(dump)
            shutil.rmtree(wd, ignore_errors=True)
            seen, out = set(), []
            for st in states:
                v = st.get(var) if var else st
                k = repr(v)
                if k in seen:
                    continue
                seen.add(k)
                out.append(v)
            tmp = base + f".tmp{os.getpid()}"
            with open(tmp, "w") as f:
                json.dump({"states": out, "distinct": r.distinct, "generated": r.states}, f)
            os.replace(tmp, base + ".json")
    if limit:
        out = out[:limit]
    return out, r
