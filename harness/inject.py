"""Spec -> code direction (INJ): TLC enumerates the reachable states of a small MC model, the dump is parsed
and handed to an adapter, whose environment subclass replays them as injected start states (table-driven
reset); the recorder then steps EVERY action from each injected state and the usual trace specification
judges the transitions."""
import os
import shutil

from harness import tlaval, tlc
from harness.common import WORK


class Unavailable(Exception):
    """The injection point (a private helper of the environment class) does not exist in this tree: the INJ
    configuration is skipped (an empty trace is recorded), it is neither a violation nor a machinery failure."""


def need(obj, *names):
    for n in names:
        if not hasattr(obj, n):
            raise Unavailable(f"{type(obj).__name__ if not isinstance(obj, type) else obj.__name__} has no attribute {n}")


def thin(items, limit):
    if limit and len(items) > limit:
        step = len(items) / float(limit)
        return [items[int(k * step)] for k in range(limit)]
    return items


def ep_key(ep):
    import jax.numpy as jnp

    return jnp.asarray([0, ep], dtype=jnp.uint32)


def dump_states(module, cfg, var="s", limit=None, workers=4, timeout=1200):
    wd = os.path.join(WORK, f"inject-{module}-{os.getpid()}")
    os.makedirs(wd, exist_ok=True)
    dump = os.path.join(wd, "states.dump")
    r = tlc.run_mc(module, cfg, wd, workers=workers, timeout=timeout, dump=dump)
    if not r.ok:
        shutil.rmtree(wd, ignore_errors=True)
        raise RuntimeError(f"TLC dump of {module}/{cfg} failed: {r.error or r.violated}\n{r.out_tail[-800:]}")
    states = tlaval.parse_dump(dump)
    shutil.rmtree(wd, ignore_errors=True)
    seen, out = set(), []
    for st in states:
        v = st.get(var) if var else st
        k = repr(v)
        if k in seen:
            continue
        seen.add(k)
        out.append(v)
        if limit and len(out) >= limit:
            break
    return out, r
