"""Generic recorder: drives a real jumanji environment and writes one ndjson trace
(header + one event per reset/step, probes included) for TLC to validate."""
import json
import os

import numpy as np

from harness import jsonify
from harness.common import dumps


# ------------------------------------------------------------------------------------------
# declared specs (what the live environment announces) -> data
# ------------------------------------------------------------------------------------------
def _bound_scalar(b, dtype):
    b = np.asarray(b)
    if b.size == 0:
        return None
    lo, hi = b.min(), b.max()
    return lo, hi


def _leaf_decl(path, spec):
    from jumanji import specs as jspecs

    dt = np.dtype(spec.dtype)
    rec = {"path": path, "dtype": str(dt), "shape": [int(x) for x in spec.shape],
           "kind": type(spec).__name__, "has_min": False, "has_max": False, "min": 0, "max": 0,
           "elementwise": False}
    mn = mx = None
    if isinstance(spec, jspecs.DiscreteArray):
        mn, mx = 0, int(np.asarray(spec.num_values)) - 1
    elif isinstance(spec, jspecs.MultiDiscreteArray):
        nv = np.asarray(spec.num_values)
        mn, mx = np.zeros_like(nv), nv - 1
    elif isinstance(spec, jspecs.BoundedArray):
        mn, mx = np.asarray(spec.minimum), np.asarray(spec.maximum)
    if mn is not None:
        mn = np.asarray(mn)
        mx = np.asarray(mx)
        elementwise = (mn.size > 1 and (mn != mn.reshape(-1)[0]).any()) or (
            mx.size > 1 and (mx != mx.reshape(-1)[0]).any())
        isf = np.issubdtype(dt, np.floating)
        conv = (lambda v: jsonify.ford(v)) if isf else (lambda v: int(np.clip(int(v), -jsonify.BIG, jsonify.BIG)))
        rec["has_min"] = rec["has_max"] = True
        if elementwise:
            rec["elementwise"] = True
            full_min = np.broadcast_to(mn, spec.shape).reshape(-1)
            full_max = np.broadcast_to(mx, spec.shape).reshape(-1)
            rec["min_data"] = [conv(v) for v in full_min]
            rec["max_data"] = [conv(v) for v in full_max]
            # the loosest scalar bounds (used by the summary clause); the elementwise clause is exact
            rec["min"] = conv(full_min.min())
            rec["max"] = conv(full_max.max())
        else:
            fm = mn.reshape(-1)[0] if mn.size else 0
            fM = mx.reshape(-1)[0] if mx.size else 0
            if isf and np.isinf(fm):
                rec["has_min"] = False
            else:
                rec["min"] = conv(fm)
            if isf and np.isinf(fM):
                rec["has_max"] = False
            else:
                rec["max"] = conv(fM)
    return rec


def _walk_spec(spec, path, out):
    from jumanji import specs as jspecs

    if isinstance(spec, jspecs.Array):
        out[path] = spec
        return
    if isinstance(spec, jspecs.Spec):
        for name, sub in spec._specs.items():
            _walk_spec(sub, f"{path}.{name}", out)
        return
    raise TypeError(f"unknown spec node {type(spec)}")


def export_decl(env):
    """Export observation/reward/discount/action specs of the live env as data."""
    import jax

    by_path = {}
    _walk_spec(env.observation_spec, "", by_path)
    # order of leaves = flatten order of a generated value (same pytree type as observations)
    gen = env.observation_spec.generate_value()
    flat = jax.tree_util.tree_flatten_with_path(gen)[0]
    leaves = []
    for path, _ in flat:
        p = jax.tree_util.keystr(path)
        if p not in by_path:
            # fall back: positional
            raise KeyError(f"declared spec has no leaf for generated path {p}: {list(by_path)}")
        leaves.append(_leaf_decl(p, by_path[p]))
    rs, ds = env.reward_spec, env.discount_spec
    decl = {
        "obs_leaves": leaves,
        "reward_leaf": _leaf_decl("", rs),
        "discount_leaf": _leaf_decl("", ds),
        "reward": {"shape": [int(x) for x in rs.shape], "dtype": str(np.dtype(rs.dtype))},
        "discount": {"shape": [int(x) for x in ds.shape], "dtype": str(np.dtype(ds.dtype))},
        "action_leaf": _leaf_decl("", env.action_spec),
    }
    return decl


# ------------------------------------------------------------------------------------------
# timestep projection
# ------------------------------------------------------------------------------------------
def _num(arr, with_int=True):
    a = np.asarray(arr)
    flat = a.reshape(-1).astype(np.float64)
    rec = {"shape": [int(x) for x in a.shape], "dtype": str(a.dtype),
           "q": [jsonify.fx(v) for v in flat]}
    if with_int:
        rec["i"] = [int(np.clip(np.rint(v), -jsonify.BIG, jsonify.BIG)) if np.isfinite(v) else jsonify.NAN for v in flat]
    return rec


def project_ts(adapter, env, ts):
    return {"type": int(np.asarray(ts.step_type)),
            "reward": _num(ts.reward),
            "discount": _num(ts.discount, with_int=False),
            "obs": adapter.project_obs(env, ts.observation)}


def leaves_of(env, ts, decl):
    elementwise = {d["path"] for d in decl["obs_leaves"] if d.get("elementwise")}
    obs_l = jsonify.leaf_summaries(ts.observation)
    if elementwise:
        import jax

        flat = jax.tree_util.tree_flatten_with_path(ts.observation)[0]
        for rec, (path, lf) in zip(obs_l, flat):
            if rec["path"] in elementwise:
                a = np.asarray(lf).reshape(-1)
                if np.issubdtype(a.dtype, np.floating):
                    rec["data"] = [jsonify.ford(v) for v in a]
                else:
                    rec["data"] = [int(v) for v in a]
    ok = True
    try:
        env.observation_spec.validate(ts.observation)
        env.reward_spec.validate(ts.reward)
        env.discount_spec.validate(ts.discount)
    except Exception:  # noqa: BLE001  (the verdict of jumanji's own validate is logged, not trusted)
        ok = False
    r = jsonify.leaf_summaries(ts.reward)[0]
    d = jsonify.leaf_summaries(ts.discount)[0]
    return {"obs": obs_l, "reward": r, "discount": d, "validate_ok": ok}


# ------------------------------------------------------------------------------------------
# the recorder
# ------------------------------------------------------------------------------------------
class Recorder:
    def __init__(self, adapter, cfg, tier, seed, with_leaves=False):
        import jax

        self.ad = adapter
        self.cfg = cfg
        self.tier = tier
        self.seed = seed
        self.with_leaves = with_leaves
        self.env = adapter.make(cfg)
        self.decl = export_decl(self.env)
        self.jreset = jax.jit(self.env.reset)
        self.jstep = jax.jit(self.env.step)
        self.jprobe = jax.jit(jax.vmap(self.env.step, in_axes=(None, 0)))
        # optional alternative environment run in lock-step on the same keys/actions (dense vs sparse reward)
        self.alt = adapter.make_alt(cfg) if hasattr(adapter, "make_alt") else None
        if self.alt is not None:
            self.alt_reset = jax.jit(self.alt.reset)
            self.alt_step = jax.jit(self.alt.step)
        # C01, second sentence: the value produced by action_spec.generate_value() is a member of the action spec
        # and is accepted by step (recorded once per configuration, judged by C01Group on the first event line)
        try:
            gen = self.env.action_spec.generate_value()
            ga = {"lv": jsonify.leaf_summaries(gen)[0], "validate_ok": True, "accepted": True, "error": "none"}
            ga_arr = np.asarray(gen).reshape(-1)
            ga["lv"]["data"] = ([jsonify.ford(v) for v in ga_arr] if np.issubdtype(ga_arr.dtype, np.floating)
                                else [int(v) for v in ga_arr])
            try:
                self.env.action_spec.validate(gen)
            except Exception:  # noqa: BLE001
                ga["validate_ok"] = False
            try:
                st0, _ = self.jreset(jax.random.PRNGKey(seed + 77))
                st1, ts1 = self.jstep(st0, gen)
                ga["accepted"] = bool(int(np.asarray(ts1.step_type)) in (1, 2))
            except Exception as e:  # noqa: BLE001
                ga["accepted"] = False
                ga["error"] = type(e).__name__
        except Exception as e:  # noqa: BLE001
            ga = {"lv": {"path": "", "dtype": "none", "shape": [], "empty": True, "lo": 0, "hi": 0, "nan": False},
                  "validate_ok": False, "accepted": False, "error": type(e).__name__}
        self.decl["generated_action"] = ga
        self.lines = []
        self.n_events = 0
        self.n_probe = 0
        self.n_episodes = 0
        self.policy_fallbacks = 0
        hdr = {"k": "hdr", "env": adapter.name, "cfgid": cfg["id"], "cfg": adapter.cfg_record(cfg, self.env),
               "decl": self.decl, "seed": seed, "tier": tier}
        self.lines.append(hdr)

    # line numbers are 1-based; header is line 1
    def _emit(self, ev):
        self.lines.append(ev)
        self.n_events += 1
        return len(self.lines)

    def _event(self, k, par, ep, i, main, pl, a, state, ts, alt_ts=None):
        ev = {"k": k, "par": par, "ep": ep, "i": i, "main": main, "pl": pl,
              "a": -1 if a is None else self.ad.action_json(a),
              "s": self.ad.project_state(self.env, state),
              "ts": project_ts(self.ad, self.env, ts)}
        if self.with_leaves:
            ev["lv"] = leaves_of(self.env, ts, self.decl)
        if alt_ts is not None:
            ev["alt"] = {"type": int(np.asarray(alt_ts.step_type)), "reward": _num(alt_ts.reward),
                         "discount": _num(alt_ts.discount, with_int=False)}
        return ev

    def episode(self, ep, key, policy, max_steps, probe_every=1, probe_cap=None, post_terminal=2, rng=None):
        import jax

        ad, env = self.ad, self.env
        rng = rng or np.random.default_rng(self.seed * 7919 + ep)
        state, ts = self.jreset(key)
        astate = ats = None
        if self.alt is not None:
            astate, ats = self.alt_reset(key)
        line = self._emit(self._event("reset", 0, ep, 0, True, False, None, state, ts, ats))
        after_last = 0
        pl = False
        i = 0
        while i < max_steps:
            # probes from the current state (never after a LAST timestep)
            if not pl and probe_every and (i % probe_every == 0):
                acts = ad.all_actions(env, cap=probe_cap or ad.probe_cap)
                if acts is None:
                    try:
                        acts = ad.probe_sample(env, state, ts.observation, rng, probe_cap or ad.probe_cap) \
                            if hasattr(ad, "probe_sample") else ad.random_actions(env, rng, probe_cap or ad.probe_cap)
                    except Exception:  # noqa: BLE001  (steering code tripping over out-of-domain data must not stop
                        acts = ad.random_actions(env, rng, probe_cap or ad.probe_cap)   # the recording: TLC judges it)
                        self.policy_fallbacks += 1
                if len(acts):
                    pst, pts = self.jprobe(state, jax.numpy.asarray(acts))
                    pst, pts = jsonify.to_numpy(pst), jsonify.to_numpy(pts)
                    for j in range(len(acts)):
                        self._emit(self._event("step", line, ep, i + 1, False, False, acts[j],
                                               jsonify.tree_index(pst, j), jsonify.tree_index(pts, j)))
                        self.n_probe += 1
            try:
                a = ad.choose(policy, env, state, ts.observation, rng, i)
            except Exception:  # noqa: BLE001  (see above: fall back to a uniform in-spec action)
                a = ad.random_actions(env, rng, 1)[0]
                self.policy_fallbacks += 1
            state, ts = self.jstep(state, jax.numpy.asarray(a))
            if self.alt is not None:
                astate, ats = self.alt_step(astate, jax.numpy.asarray(a))
            i += 1
            line = self._emit(self._event("step", line, ep, i, True, pl, a, state, ts, ats))
            if pl:
                after_last += 1
                if after_last >= post_terminal:
                    break
            elif int(np.asarray(ts.step_type)) == 2:
                pl = True
                if post_terminal == 0:
                    break
        self.n_episodes += 1

    def run(self):
        import jax

        cfg = self.cfg
        pols = cfg.get("policies") or self.ad.policies(self.tier)
        n = cfg.get("episodes", 6)
        for ep in range(n):
            key = (self.ad.episode_key(cfg, ep, self.seed) if hasattr(self.ad, "episode_key") and self.ad.episode_key(cfg, ep, self.seed) is not None
                   else jax.random.PRNGKey(self.seed * 100003 + ep * 17 + 1))
            self.episode(ep, key, pols[ep % len(pols)], cfg.get("max_steps", 60),
                         probe_every=cfg.get("probe_every", 1), probe_cap=cfg.get("probe_cap"),
                         post_terminal=cfg.get("post_terminal", 2))
        return self

    def write(self, path):
        os.makedirs(os.path.dirname(path), exist_ok=True)
        tmp = path + f".tmp{os.getpid()}"       # (another check process may be recording the same configuration)
        with open(tmp, "w") as f:
            for ln in self.lines:
                f.write(dumps(ln) + "\n")
        os.replace(tmp, path)
        return path


def read_trace(path):
    with open(path) as f:
        return [json.loads(x) for x in f]
