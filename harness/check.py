"""Single entry point:  ./check <Cxx> [--tier quick|thorough] [--replay path] [--envs A,B]

exit 0: the property held on everything explored (known findings are printed, not counted)
exit 1: VIOLATION property=<id> replay=<path> lines were printed
exit 2: machinery failure (TLC crash, recorder failure outside the code under test)
"""
import argparse
import hashlib
import importlib
import json
import os
import re
import sys
import time

sys.path.insert(0, os.path.dirname(os.path.dirname(os.path.abspath(__file__))))

from harness import common  # noqa: E402
from harness.common import EVID, REPLAY, VERIF, dumps, log  # noqa: E402

ENV_PROPS = {"C01", "C03", "C04", "C05", "C06", "C07", "C08", "C09", "C10", "C11", "C12", "C17"}
LIB_PROPS = {"C02": "c02", "C13": "c13", "C14": "c14", "C15": "c15", "C16": "c16", "C18": "c18",
             "C19": "c19"}


# ------------------------------------------------------------------------------------------
# known findings
# ------------------------------------------------------------------------------------------
def load_findings():
    p = os.path.join(VERIF, "known_findings.json")
    if not os.path.exists(p):
        return []
    with open(p) as f:
        return json.load(f).get("findings", [])


def _get(d, path):
    for k in path.split("."):
        if isinstance(d, dict):
            d = d.get(k)
        elif isinstance(d, list):
            d = d[int(k)]
        else:
            return None
    return d


def _connector_isolated_head(e):
    """K18c/K18d: in the generator's own solved board some agent's start cell has no 4-neighbour carrying that agent's
    wire or target (the 'phantom first move' of RandomWalkGenerator when a sampled start has no free neighbour)."""
    s = e["s"]
    sg = s["solved_grid"]
    n = len(sg)
    for k, (r, c) in enumerate(s["agents"]["start"]):
        own = {3 * k + 1, 3 * k + 3}
        nb = [sg[r + dr][c + dc] for dr, dc in ((-1, 0), (1, 0), (0, -1), (0, 1)) if 0 <= r + dr < n and 0 <= c + dc < n]
        if not any(x in own for x in nb):
            return True
    return False


def _flatpack_short_piece(e):
    """K17: the block set tiles the grid geometrically, and some block is only two rows tall or two columns wide inside its
    3x3 box (the pieces _crop_nonzero pushes to the top-left, which the action space cannot put back at the far edge)."""
    s = e["s"]
    if s.get("sol_free_st") != 1:
        return False
    for b in s["blocks"]:
        rows = [any(v != 0 for v in row) for row in b]
        cols = [any(b[r][c] != 0 for r in range(len(b))) for c in range(len(b[0]))]
        if any(rows) and not (rows[0] and rows[-1] and cols[0] and cols[-1]):     # (blocks are stored randomly rotated)
            return True
    return False


PREDICATES = {"connector_isolated_head": _connector_isolated_head, "flatpack_short_piece": _flatpack_short_piece}


def match_finding(findings, v):
    """v: dict(property, env, cfgid, clause, event...). Only status == 'known' entries suppress."""
    for f in findings:
        if f.get("status") != "known":
            continue
        if f["property"] != v["property"]:
            continue
        if f.get("env") and f["env"] != v.get("env"):
            continue
        if f.get("clause") and f["clause"] != v.get("clause"):
            continue
        if f.get("cfgid") and not re.fullmatch(f["cfgid"], v.get("cfgid", "")):
            continue
        ok = True
        for path, want in (f.get("event_match") or {}).items():
            if _get(v.get("event") or {}, path) != want:
                ok = False
                break
        for path in (f.get("event_any_negative") or []):      # e.g. a coordinate of -1 somewhere in the named array
            def neg(x):
                if isinstance(x, list):
                    return any(neg(y) for y in x)
                return isinstance(x, (int, float)) and not isinstance(x, bool) and x < 0
            if not neg(_get(v.get("event") or {}, path)):
                ok = False
                break
        for name in (f.get("event_predicates") or []):          # named predicates pinning the SPECIFIC failure (see below)
            try:
                if not PREDICATES[name](v.get("event") or {}):
                    ok = False
                    break
            except Exception:  # noqa: BLE001  (an event the predicate cannot read is not the recorded finding)
                ok = False
                break
        if ok:
            return f
    return None


# ------------------------------------------------------------------------------------------
# evidence
# ------------------------------------------------------------------------------------------
PARTIAL = [False]   # --envs runs (development) must not overwrite the registered evidence file


def write_evidence(prop, tier, seed, level, coverage, assumptions, wall, violations):
    os.makedirs(EVID, exist_ok=True)
    if PARTIAL[0]:
        os.makedirs(os.path.join(EVID, "partial"), exist_ok=True)
        prop = os.path.join("partial", prop)
    ev = {"property_id": prop, "tier": tier, "seed": seed, "level": level, "coverage": coverage,
          "assumptions": assumptions, "wall_s": round(wall, 2), "violations": violations}
    with open(os.path.join(EVID, f"{prop}.json"), "w") as f:
        json.dump(ev, f, indent=1, sort_keys=True)


def write_replay(prop, v, n):
    os.makedirs(REPLAY, exist_ok=True)
    name = f"{prop}-{v.get('env', 'lib')}-{v.get('cfgid', 'x')}-{n}.json".replace("/", "_")
    path = os.path.join(REPLAY, name)
    with open(path, "w") as f:
        json.dump(v, f, indent=1, sort_keys=True, default=str)
    return path


# ------------------------------------------------------------------------------------------
# env-family properties
# ------------------------------------------------------------------------------------------
def run_env_prop(prop, tier, seed, only):
    from harness import envcheck
    from harness.record import read_trace

    t0 = time.time()
    out = envcheck.run(prop, tier, seed, only)
    findings = load_findings()
    violations = []   # unlisted
    known_hits = {}
    machinery = []
    n_events = n_app = n_lines_tlc = 0
    distinct = set()
    samples = []
    per_env = {}
    for ad, cfg, meta in out["rec_fail"]:
        # the recorder failed: an exception raised inside jumanji while being driven with in-spec inputs is a
        # finding about the code (the property could not be exercised); anything else is machinery failure
        v = {"property": prop, "env": ad.name, "cfgid": cfg["id"], "clause": f"{prop}.recorder_exception",
             "event": {"error": meta.get("error"), "tb": meta.get("tb")}, "seed": seed, "tier": tier}
        if meta.get("in_repo"):
            f = match_finding(findings, v)
            if f:
                known_hits.setdefault(f["id"], f)
            else:
                violations.append(v)
        else:
            machinery.append(f"recorder failed for {ad.name}/{cfg['id']}: {meta.get('error')}\n{meta.get('tb', '')}")
    # per-trace summaries (reading the trace, hashing the distinct cases, collecting the rejected events) in processes
    import concurrent.futures as cf

    sjobs = []
    for ad, cfg, path, meta in out["traces"]:
        res = out["results"][path]
        n_events += meta["events"]
        pe = per_env.setdefault(ad.name, {"events": 0, "applicable": 0, "configs": [], "rejects": 0})
        pe["events"] += meta["events"]
        pe["configs"].append(cfg["id"])
        if res.machinery_error:
            machinery.append(f"{ad.name}/{cfg['id']}: {res.machinery_error}\n{res.output_tail[-1500:]}")
            continue
        n_lines_tlc += meta["lines"] if res.accepted else 0
        if res.rejects or res.eval_errors or res.applicable:
            sjobs.append((ad.name, cfg["id"], path, res.applicable, res.rejects, res.eval_errors, prop, seed, tier))
    with cf.ProcessPoolExecutor(max(1, common.NCPU)) as ex:
        for name, cfgid, n_applicable, hashes, sample, vs in ex.map(_summarize, sjobs, chunksize=4):
            pe = per_env[name]
            n_app += n_applicable
            pe["applicable"] += n_applicable
            distinct |= hashes
            if sample is not None and len(samples) < 6:
                samples.append(sample)
            for v in vs:
                if not v["clause"].endswith(".spec_eval_error"):
                    pe["rejects"] += 1
                f = match_finding(findings, v)
                if f:
                    known_hits.setdefault(f["id"], f)
                else:
                    violations.append(v)
    states = trans = 0
    mc_list = []
    for mod, c, r in out["mcs"]:
        mc_list.append({"module": mod, "cfg": c["cfg"], "ok": r.ok, "states": r.distinct, "generated": r.states,
                        "wall_s": round(r.wall, 1), "exhaustive": not c.get("simulate", False)})
        states += r.distinct
        trans += r.states
        if r.violated:
            machinery.append(f"MC {mod}/{c['cfg']}: invariant {r.violated} violated in the MODEL (specification error)\n{r.out_tail[-1500:]}")
        elif not r.ok:
            machinery.append(f"MC {mod}/{c['cfg']}: {r.error}\n{r.out_tail[-1500:]}")
    return finish(prop, tier, seed, t0, violations, known_hits, machinery, {
        "states": states + n_lines_tlc, "transitions": trans + n_lines_tlc, "mc_states": states, "mc_transitions": trans,
        "trace_states": n_lines_tlc,
        "traces_validated_against_impl": len([1 for *_x, p, _m in out["traces"] if out["results"][p].accepted]),
        "evaluations": n_app, "events_recorded": n_events, "distinct_nontrivial": len(distinct),
        "rule": "one evaluation = one recorded reset/step event of the real implementation on which at least one clause of "
                "this property's group had a true antecedent (TLC prints an APP marker per such line); distinct = distinct "
                "(env, config, pre-state, action) among those",
        "samples": samples or [{"note": "no applicable event"}], "per_env": per_env,
        "skipped_injections": [list(x) for x in out.get("skipped", [])], "mc_runs": mc_list,
        "checker_cmd": f"./check {prop} --tier {tier}", "exhaustive": False},
        ["implementation traces cover the sampled keys/policies/configurations listed in per_env; the MC runs are exhaustive "
         "for their small constants only", "float quantities are compared in 16-bit fixed point"])


def _summarize(job):
    """One trace: number of applicable lines, digests of the distinct (pre-state, action) cases, one sample, violations."""
    from harness.record import read_trace

    name, cfgid, path, applicable, rejects, eval_errors, prop, seed, tier = job
    lines = read_trace(path)
    hashes = set()
    for ln in applicable:
        e = lines[ln - 1]
        par = lines[e["par"] - 1]["s"] if e.get("par") else None
        hashes.add(hashlib.sha1(dumps([name, cfgid, par, e["a"], e["k"], e["s"] if par is None else 0]).encode()).digest()[:10])
    sample = None
    if applicable:
        e = lines[applicable[len(applicable) // 2] - 1]
        sample = {"env": name, "cfg": cfgid, "event": _shrink(e)}
    vs = []
    for ln, clauses in rejects:
        for c in clauses:
            e = lines[ln - 1]
            vs.append({"property": prop, "env": name, "cfgid": cfgid, "clause": c, "line": ln, "event": e,
                       "parent": lines[e["par"] - 1] if e.get("par") else None, "cfg": lines[0]["cfg"],
                       "seed": seed, "tier": tier, "trace_file": path})
    for ln, msg in eval_errors:
        e = lines[ln - 1] if ln - 1 < len(lines) else None
        vs.append({"property": prop, "env": name, "cfgid": cfgid, "clause": f"{prop}.spec_eval_error", "line": ln, "event": e,
                   "message": msg, "seed": seed, "tier": tier, "trace_file": path, "cfg": lines[0]["cfg"] if lines else None})
    return name, cfgid, len(applicable), hashes, sample, vs


def _shrink(e):
    s = dumps(e)
    if len(s) < 1500:
        return e
    return {"k": e["k"], "a": e["a"], "i": e["i"], "ts_type": e["ts"]["type"], "reward": e["ts"]["reward"],
            "truncated_json": s[:900]}


def finish(prop, tier, seed, t0, violations, known_hits, machinery, coverage, assumptions, level="model_checking"):
    for fid, f in sorted(known_hits.items()):
        print(f"KNOWN-FINDING: property={prop} {fid} {f.get('what', '')}")
    seen = {}
    for v in violations:
        key = (v.get("env"), v.get("cfgid"), v.get("clause"))
        seen.setdefault(key, []).append(v)
    n = 0
    for key, vs in sorted(seen.items(), key=lambda kv: str(kv[0])):
        n += 1
        v = dict(vs[0])
        v["count_same_env_cfg_clause"] = len(vs)
        path = write_replay(prop, v, n)
        print(f"VIOLATION property={prop} replay={path} env={key[0]} cfg={key[1]} clause={key[2]} count={len(vs)}")
    coverage["known_findings_hit"] = sorted(known_hits)
    write_evidence(prop, tier, seed, level, coverage, assumptions, time.time() - t0, len(violations))
    for m in machinery:
        log("MACHINERY-ERROR:", m)
    if violations:
        return 1
    if machinery:
        return 2
    return 0


def main():
    ap = argparse.ArgumentParser()
    ap.add_argument("prop")
    ap.add_argument("--tier", default=os.environ.get("VERIF_TIER", "quick"))
    ap.add_argument("--replay")
    ap.add_argument("--envs")
    args = ap.parse_args()
    common.setup_env()
    seed = common.seed()
    only = set(args.envs.split(",")) if args.envs else None
    PARTIAL[0] = bool(only)
    prop = args.prop
    if args.replay:
        with open(args.replay) as f:
            rp = json.load(f)
        only = {rp["env"]} if rp.get("env") else only
        seed = rp.get("seed", seed)
        args.tier = rp.get("tier", args.tier)
        prop = rp.get("property", prop)
    PARTIAL[0] = bool(only) or bool(os.environ.get("VERIF_REPO"))   # development runs never touch the registered evidence
    import harness.check as _as_module      # the library runner imports this file as a module: keep its flag in step
    _as_module.PARTIAL[0] = PARTIAL[0]
    if prop in ENV_PROPS:
        rc = run_env_prop(prop, args.tier, seed, only)
    elif prop in LIB_PROPS:
        mod = importlib.import_module(f"harness.lib.{LIB_PROPS[prop]}")
        rc = mod.run(prop, args.tier, seed, only)
    elif prop == "selftest":
        from harness import selftest

        rc = selftest.run(args.tier, seed)
    else:
        print(f"unknown property {prop}", file=sys.stderr)
        rc = 2
    sys.exit(rc)


if __name__ == "__main__":
    main()
