"""BinPack adapter: configurations, compact projections, solution-following policy.

Projection (jumanji's own field names; boxes and items become short integer lists):
  s.container = [x1,x2,y1,y2,z1,z2]        s.ems = [[x1,x2,y1,y2,z1,z2], ...] (buffer slots, max_num_ems)
  s.items = [[x_len,y_len,z_len], ...]     s.items_location = [[x,y,z], ...]
  s.ems_mask, s.items_mask, s.items_placed, s.action_mask, s.sorted_ems_indexes : as in State
  s.has_sol, s.sol = (False, 0), or on states in which nothing is placed yet and whose generator ships `generate_solution`:
          {items, items_mask, items_placed, items_location, container} of generator.generate_solution(reset key)
  obs.ems = [[x1,x2,y1,y2,z1,z2], ...] (obs_num_ems rows; fixed point when normalize_dimensions), obs.items likewise.
"""
import os

import numpy as np

from harness import common, jsonify
from harness.envs.base import EnvAdapter

COORDS = ("x1", "x2", "y1", "y2", "z1", "z2")

CSV_TEXT = """Item_Name,Length,Width,Height,Quantity
shape_1,5,4,3,2
shape_2,10,2,6,1
shape_3,3,3,3,3
shape_4,4,8,2,2
shape_5,11,1,1,1
"""


# a user-supplied loading list with two items that are larger than the 12 x 10 x 8 container along one axis (a beam, a panel):
# they can never be packed, but they are part of the instance and of every observation
CSV_OVERSIZE_TEXT = """Item_Name,Length,Width,Height,Quantity
shape_1,5,4,3,2
beam,15,2,2,1
shape_3,3,3,3,2
panel,4,13,1,1
shape_4,4,8,2,1
"""


def _rows(leaves):
    """list of equally long arrays -> list of rows (ints or fixed point)."""
    cols = [jsonify._arr(np.asarray(x)) for x in leaves]
    if not isinstance(cols[0], list):
        return cols
    return [list(r) for r in zip(*cols)]


def _space(sp):
    return _rows([getattr(sp, c) for c in COORDS])


def _item(it):
    return _rows([it.x_len, it.y_len, it.z_len])


def _loc(lc):
    return _rows([lc.x, lc.y, lc.z])


class Adapter(EnvAdapter):
    name = "BinPack"
    props = ("C01", "C03", "C04", "C05", "C06", "C08", "C09", "C10", "C11", "C12")
    gen_heavy = {'r654': (40, 300), 'r457_int': (40, 300), 'r62_31_124_s7': (150, 1200), 'r20ft_s7': (60, 1500),
                 'r124_117_62_s11': (60, 600)}
    probe_cap = 40
    state_overrides = {"container": _space, "ems": _space, "items": _item, "items_location": _loc}
    obs_overrides = {"ems": _space, "items": _item}

    def __init__(self):
        self._keys = None     # state.key (as produced by reset) -> reset key, for the recorder's key schedule
        self._sol = {}        # (id(env), state.key) -> numpy solution state
        self._jsol = {}       # id(generator) -> jitted generate_solution

    # ---- configurations -------------------------------------------------------------------
    def configs(self, tier):
        q = tier == "quick"
        pol = ["solution", "masked", "random", "mostly_masked"]
        cs = [
            # small container, exact arithmetic everywhere, integer observation, obs_num_ems = max_num_ems
            dict(id="r654", gen="random", dims=(6, 5, 4), items=8, ems=24, obs=24, split=3, norm=False, reward="dense",
                 episodes=12 if q else 80, max_steps=12, probe_cap=40, policies=pol),
            # registered default: 20-ft container, 20 items, 40 EMSs, normalised observation
            dict(id="default", gen="random", dims=None, items=20, ems=40, obs=40, split=2, norm=True, reward="dense", default_ctor=True,
                 episodes=4 if q else 20, max_steps=24, probe_cap=16 if q else 24, policies=pol),
            # small EMS buffer (overflow drops spaces), obs_num_ems < max_num_ems, sparse reward
            dict(id="ovf", gen="random", dims=(12, 10, 8), items=12, ems=6, obs=4, split=3, norm=True, reward="sparse",
                 episodes=10 if q else 60, max_steps=16, probe_cap=32, policies=pol),
            dict(id="toy", gen="toy", dims=None, items=20, ems=60, obs=30, split=0, norm=False, reward="sparse",
                 episodes=3 if q else 12, max_steps=24, probe_cap=10 if q else 24,
                 policies=["solution", "masked", "mostly_masked"]),
            dict(id="csv", gen="csv", dims=(12, 10, 8), items=9, ems=16, obs=8, split=0, norm=True, reward="dense",
                 episodes=4 if q else 24, max_steps=12, probe_cap=32, policies=["masked", "random", "mostly_masked"]),
        ]
        # a loading list with items larger than the container (not a generated instance: C10 is not asked of it; the declared
        # observation bounds are those of items cut out of the container, so C01 is not asked of it either - what IS asked:
        # such an item is never offered, never packed, and the observation shows its true size / container dimension)
        cs.append(dict(id="csv_oversize", gen="csv", oversize=True, dims=(12, 10, 8), items=7, ems=16, obs=8, split=0, norm=True,
                       reward="dense", episodes=3 if q else 16, max_steps=10, probe_cap=24, policies=["masked", "random", "mostly_masked"],
                       props=["C03", "C04", "C05", "C06", "C08", "C09", "C11", "C12"]))
        cs.append(dict(id="csv_oversize_int", gen="csv", oversize=True, dims=(12, 10, 8), items=7, ems=16, obs=16, split=0, norm=False,
                       reward="sparse", episodes=2 if q else 10, max_steps=10, probe_cap=24, policies=["masked", "random"],
                       props=["C03", "C04", "C05", "C06", "C08", "C09", "C11", "C12"]))
        # a warehouse floor: the footprint x * y of the container (and of large items) exceeds 2^31 mm^2
        cs.append(dict(id="r120k", gen="random", dims=(120000, 60000, 8000), items=12, ems=30, obs=30, split=3, norm=False,
                       reward="dense", episodes=3 if q else 16, max_steps=14, probe_cap=12, policies=["solution", "masked", "random"]))
        # a container whose first dimension is its smallest and whose last is its largest, integer observation
        cs.append(dict(id="r457_int", gen="random", dims=(4, 5, 7), items=8, ems=20, obs=20, split=2, norm=False, reward="sparse",
                       episodes=8 if q else 40, max_steps=12, probe_cap=30, policies=pol))
        # many identical items per split (split_num_same_items 7 and 11): the cuts are at i * length / n, the last one at the
        # far wall exactly; axis lengths (31, 62, 117, 124, 5870) for which float32 n * (length / n) < length
        cs += [
            dict(id="r62_31_124_s7", gen="random", dims=(62, 31, 124), items=20, ems=40, obs=20, split=7, norm=False, reward="dense",
                 episodes=2 if q else 10, max_steps=22, probe_cap=12, policies=["solution", "masked"]),
            dict(id="r20ft_s7", gen="random", dims=None, items=20, ems=40, obs=40, split=7, norm=True, reward="sparse",
                 episodes=1 if q else 6, max_steps=22, probe_cap=8, policies=["solution", "masked"]),
            dict(id="r124_117_62_s11", gen="random", dims=(124, 117, 62), items=24, ems=40, obs=20, split=11, norm=True, reward="dense",
                 episodes=1 if q else 6, max_steps=26, probe_cap=8, policies=["solution", "masked"]),
        ]
        if not q:
            cs += [
                dict(id="r20ft_int", gen="random", dims=None, items=20, ems=40, obs=25, split=5, norm=False,
                     reward="sparse", episodes=16, max_steps=24, probe_cap=24, policies=pol),
                dict(id="r30", gen="random", dims=None, items=30, ems=60, obs=60, split=4, norm=True, reward="dense",
                     episodes=8, max_steps=34, probe_cap=20, policies=pol),
                dict(id="r12108", gen="random", dims=(12, 10, 8), items=10, ems=12, obs=12, split=2, norm=False,
                     reward="dense", episodes=50, max_steps=14, probe_cap=40, policies=pol),
                dict(id="r322", gen="random", dims=(3, 2, 2), items=5, ems=8, obs=8, split=2, norm=True, reward="sparse",
                     episodes=80, max_steps=8, probe_cap=40, policies=pol),
            ]
        for c in cs:
            c["ctor"] = {k: c[k] for k in ("gen", "dims", "items", "ems", "obs", "split", "norm", "reward")}
        return cs

    def _generator(self, cfg):
        from jumanji.environments.packing.bin_pack.generator import (
            TWENTY_FOOT_DIMS, CSVGenerator, RandomGenerator, ToyGenerator)

        dims = tuple(cfg["dims"]) if cfg["dims"] else TWENTY_FOOT_DIMS
        if cfg["gen"] == "random":
            return RandomGenerator(max_num_items=cfg["items"], max_num_ems=cfg["ems"],
                                   split_num_same_items=cfg["split"], container_dims=dims)
        if cfg["gen"] == "toy":
            return ToyGenerator()
        if cfg["gen"] == "csv":
            d = os.path.join(common.WORK, "BinPack")
            os.makedirs(d, exist_ok=True)
            path = os.path.join(d, f"instance_{os.getpid()}.csv")
            with open(path, "w") as f:
                f.write(CSV_OVERSIZE_TEXT if cfg.get("oversize") else CSV_TEXT)
            try:
                return CSVGenerator(path, max_num_ems=cfg["ems"], container_dims=dims)
            finally:
                os.remove(path)
        raise KeyError(cfg["gen"])

    def _make(self, cfg, reward):
        from jumanji.environments.packing.bin_pack.env import BinPack
        from jumanji.environments.packing.bin_pack.reward import DenseReward, SparseReward

        return BinPack(generator=self._generator(cfg), obs_num_ems=cfg["obs"],
                       reward_fn=DenseReward() if reward == "dense" else SparseReward(),
                       normalize_dimensions=cfg["norm"])

    def make(self, cfg):
        if cfg.get("default_ctor"):       # the documented defaults come from the library's own no-argument constructor
            from jumanji.environments.packing.bin_pack.env import BinPack

            return BinPack()
        return self._make(cfg, cfg["reward"])

    def make_alt(self, cfg):
        return self._make(cfg, "sparse" if cfg["reward"] == "dense" else "dense")

    def cfg_record(self, cfg, env):
        from jumanji.environments.packing.bin_pack.generator import TWENTY_FOOT_DIMS

        dims = list(cfg["dims"]) if cfg["dims"] else list(TWENTY_FOOT_DIMS)
        items = cfg["items"]
        if cfg["gen"] == "csv":
            text = CSV_OVERSIZE_TEXT if cfg.get("oversize") else CSV_TEXT
            items = sum(int(r.split(",")[4]) for r in text.strip().splitlines()[1:])
        ems = 60 if cfg["gen"] == "toy" else cfg["ems"]
        return {"max_num_items": items, "max_num_ems": ems, "obs_num_ems": cfg["obs"],
                "normalize": bool(cfg["norm"]), "reward": cfg["reward"], "generator": cfg["gen"],
                "container_dims": dims,
                "tiling": cfg["gen"] in ("random", "toy"),      # generator advertises an exact tiling + generate_solution
                "random": cfg["gen"] == "random"}                # generator documented as random

    # ---- the generator's own solution for the episode at hand ----------------------------------
    def _reset_key(self, state_key):
        """The recorder resets episode ep with PRNGKey(seed * 100003 + ep * 17 + 1); RandomGenerator stores the first
        half of split(reset key) in state.key.  Invert that by table lookup (fails loudly if the schedule changes)."""
        import jax

        if self._keys is None:
            seed = common.seed()
            ks = jax.vmap(jax.random.PRNGKey)(np.arange(4000) * 17 + 1 + seed * 100003)
            firsts = np.asarray(jax.vmap(lambda k: jax.random.split(k)[0])(ks))
            ks = np.asarray(ks)
            self._keys = {tuple(int(v) for v in f): k for f, k in zip(firsts, ks)}
        t = tuple(int(v) for v in np.asarray(state_key).reshape(-1))
        if t not in self._keys:
            raise RuntimeError("BinPack adapter: cannot recover the reset key of this episode (recorder key schedule changed?)")
        return self._keys[t]

    def solution(self, env, state):
        """numpy State returned by generator.generate_solution for the instance of `state`, or None."""
        import jax
        from jumanji.environments.packing.bin_pack.generator import RandomGenerator, ToyGenerator

        gen = env.generator
        if not isinstance(gen, (RandomGenerator, ToyGenerator)):
            return None
        skey = tuple(int(v) for v in np.asarray(state.key).reshape(-1))
        ck = (id(gen), skey)
        if ck not in self._sol:
            key = self._reset_key(state.key) if isinstance(gen, RandomGenerator) else np.asarray(state.key)
            if id(gen) not in self._jsol:
                self._jsol[id(gen)] = jax.jit(gen.generate_solution)
            self._sol[ck] = jsonify.to_numpy(self._jsol[id(gen)](jax.numpy.asarray(key, dtype=jax.numpy.uint32)))
        return self._sol[ck]

    # ---- projection -----------------------------------------------------------------------
    def project_state(self, env, state):
        out = jsonify.to_json(state, drop=self.drop_state, overrides=self.state_overrides)
        out["has_sol"] = False
        out["sol"] = 0
        if not np.asarray(state.items_placed).any():
            sol = self.solution(env, state)
            if sol is not None:
                out["has_sol"] = True
                out["sol"] = {"items": _item(sol.items), "items_mask": np.asarray(sol.items_mask).tolist(),
                              "items_placed": np.asarray(sol.items_placed).tolist(),
                              "items_location": _loc(sol.items_location), "container": _space(sol.container)}
        return out

    # ---- probes: the joint space (obs_num_ems x max_num_items) is large; mix masked-in and arbitrary actions ----
    def probe_sample(self, env, state, obs, rng, k):
        m = np.asarray(obs.action_mask)
        dt = env.action_spec.dtype
        legal = np.argwhere(m)
        n_legal = min(len(legal), (k + 1) // 2)
        acts = []
        if n_legal:
            acts += [legal[j] for j in rng.choice(len(legal), size=n_legal, replace=False)]
        # arbitrary actions, biased towards valid EMS rows / valid items so that near-misses are frequent
        ems_rows = np.flatnonzero(np.asarray(obs.ems_mask))
        items_ok = np.flatnonzero(np.asarray(obs.items_mask))
        while len(acts) < k:
            r = rng.random()
            e = rng.choice(ems_rows) if (r < 0.6 and len(ems_rows)) else rng.integers(0, m.shape[0])
            j = rng.choice(items_ok) if (r < 0.8 and len(items_ok)) else rng.integers(0, m.shape[1])
            acts.append(np.array([e, j]))
        return np.asarray(acts, dtype=dt).reshape((len(acts), 2))

    # ---- policies -------------------------------------------------------------------------
    def choose(self, policy, env, state, obs, rng, i):
        if policy == "solution":
            sol = self.solution(env, state)
            m = np.asarray(obs.action_mask)
            if sol is not None and m.any():
                srt = np.asarray(state.sorted_ems_indexes)
                ex, ey, ez = (np.asarray(state.ems.x1), np.asarray(state.ems.y1), np.asarray(state.ems.z1))
                lx, ly, lz = (np.asarray(sol.items_location.x), np.asarray(sol.items_location.y),
                              np.asarray(sol.items_location.z))
                cands = [(k, j) for k, j in np.argwhere(m)
                         if (ex[srt[k]], ey[srt[k]], ez[srt[k]]) == (lx[j], ly[j], lz[j])]
                if cands:
                    k, j = cands[rng.integers(0, len(cands))]
                    return np.asarray([k, j], dtype=env.action_spec.dtype)
            policy = "masked"
        return super().choose(policy, env, state, obs, rng, i)
