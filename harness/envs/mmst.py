"""Adapter of jumanji's MMST (multi-agent minimum spanning tree on a random graph).

Configurations: the registered default (36 nodes / 72 edges / 3 agents / 4 nodes each, time limit 70),
10 nodes / 2 agents / 2 each, 50 nodes / 4 agents / 3 each; time limits 1, 2, 3, 7, 70.

Projection: the (N x N) 0/1 adjacency matrices of state and observation are written loss-free as
neighbour lists (`nbr[i]` = the columns j with entry 1 of row i, `odd` = the [i, j, value] triples of
entries that are neither 0 nor 1) - the dense matrices dominate the trace size otherwise.  The cached
per-agent edge tables `node_edges` (A x N x N) are dropped: what is legal is recomputed by the
specification from the raw arrays (adjacency, node types, visited sets, positions).
"""
import numpy as np

from harness.envs.base import EnvAdapter


def _sparse01(m):
    a = np.asarray(m)
    nbr = [[int(j) for j in np.flatnonzero(row == 1)] for row in a]
    odd = [[int(i), int(j), int(a[i, j])] for i, j in zip(*np.nonzero((a != 0) & (a != 1)))]
    return {"n": int(a.shape[0]), "m": int(a.shape[1]) if a.ndim == 2 else -1, "nbr": nbr, "odd": odd}


class Adapter(EnvAdapter):
    name = "MMST"
    props = ("C01", "C03", "C04", "C06", "C10", "C11", "C12")
    probe_cap = 64
    state_overrides = {"adj_matrix": _sparse01, "node_edges": lambda v: 0}
    obs_overrides = {"adj_matrix": _sparse01}

    # ---- configurations -------------------------------------------------------------------
    def configs(self, tier):
        # time-limit sweep ("for every value passed", C11): one stalling episode per value
        from harness.envs.base import T_SWEEP_QUICK_FEW, T_SWEEP_THOROUGH_FEW

        ts = T_SWEEP_QUICK_FEW if tier == "quick" else T_SWEEP_THOROUGH_FEW
        return self._base_configs(tier) + [
            dict(id=f"n10a2k2_t{t}_sweep", ctor=dict(num_nodes=10, num_edges=15, max_degree=4, num_agents=2, num_nodes_per_agent=2,
                                                    time_limit=t, default=False), episodes=1, max_steps=t + 2,
                 policies=["stall"], probe_every=0, props=["C01", "C03", "C11", "C12"]) for t in ts] + [
            # DenseRewardFn with non-default reward values: only the groups that do not depend on the reward accounting
            dict(id="n10a2k2_t7_rw", ctor=dict(num_nodes=10, num_edges=15, max_degree=4, num_agents=2, num_nodes_per_agent=2,
                                               time_limit=7, default=False, reward_values=(5.0, -2.0, -3.5)),
                 episodes=4 if tier == "quick" else 16, max_steps=11, probe_cap=40, probe_every=2,
                 policies=["solve", "crowd", "random", "masked"], props=["C01", "C03", "C04", "C06", "C11", "C12"])]

    def _base_configs(self, tier):
        pols = ["solve", "crowd", "masked", "collide", "random", "mostly_masked"]

        def c(id, n, e, d, a, k, t, episodes, max_steps, **kw):
            dd = dict(id=id, ctor=dict(num_nodes=n, num_edges=e, max_degree=d, num_agents=a,
                                       num_nodes_per_agent=k, time_limit=t, default=kw.pop("default", False)),
                      episodes=episodes, max_steps=max_steps, policies=pols)
            if "max_step" in kw:
                dd["ctor"]["max_step"] = kw.pop("max_step")
            dd.update(kw)
            return dd

        if tier == "quick":
            return [
                c("default_n36a3k4_t70", 36, 72, 5, 3, 4, 70, 2, 76, default=True, probe_every=10, probe_cap=36),
                c("n10a2k2_t70", 10, 15, 4, 2, 2, 70, 5, 76, probe_cap=40, probe_every=4),
                c("n10a2k2_t7", 10, 15, 4, 2, 2, 7, 5, 11, probe_cap=50, probe_every=2),
                c("n10a2k2_t3", 10, 15, 4, 2, 2, 3, 4, 7, probe_cap=100, probe_every=2),
                c("n10a2k2_t2", 10, 15, 4, 2, 2, 2, 3, 6, probe_cap=40),
                c("n10a2k2_t1", 10, 15, 4, 2, 2, 1, 3, 5, probe_cap=40),
                c("n36a3k4_t7", 36, 72, 5, 3, 4, 7, 2, 11, probe_every=3, probe_cap=54),
                c("n50a4k3_t70", 50, 100, 5, 4, 3, 70, 2, 76, probe_every=12, probe_cap=48),
                c("n50a4k3_t3", 50, 100, 5, 4, 3, 3, 2, 7, probe_every=2, probe_cap=50),
                # a generator whose route buffer (max_step) is shorter than the time limit: the episode must still
                # run to the configured time limit (only the protocol / time-limit / spec groups are judged here:
                # the walk bookkeeping clauses assume the buffer holds the whole walk)
                c("n10a2k2_t9_buf5", 10, 15, 4, 2, 2, 9, 4, 13, probe_cap=20, probe_every=3, max_step=5,
                  props=["C01", "C03", "C11"], policies=["random", "collide", "crowd"]),
                # generator-heavy: many reset keys at a small max_degree, where the spanning-tree walk saturates nodes
                c("n12e14d2a2k2_gen", 12, 14, 2, 2, 2, 5, 120, 0, props=["C10"], policies=["random"]),
                c("n12e16d3a2k2_gen", 12, 16, 3, 2, 2, 5, 60, 0, props=["C10"], policies=["random"]),
            ]
        out = []
        for (n, e, d, a, k) in ((10, 15, 4, 2, 2), (36, 72, 5, 3, 4), (50, 100, 5, 4, 3), (12, 20, 4, 3, 2),
                                (20, 36, 4, 2, 5)):
            for t in (1, 2, 3, 7, 70):
                out.append(c(f"n{n}a{a}k{k}_t{t}", n, e, d, a, k, t, 10 if t == 70 else (12 if t == 7 else 8), t + 6,
                             probe_cap=100 if n <= 10 else min(60, a * n),
                             probe_every=7 if t == 70 else (2 if t == 7 else 1)))
        out.append(c("default_n36a3k4_t70", 36, 72, 5, 3, 4, 70, 8, 76, default=True, probe_every=8, probe_cap=108))
        for (n, e, d, a, k, eps) in ((12, 14, 2, 2, 2, 600), (12, 16, 3, 2, 2, 400), (13, 16, 2, 2, 2, 300), (14, 18, 2, 3, 2, 300),
                                     (20, 36, 4, 2, 5, 300)):
            out.append(c(f"n{n}e{e}d{d}a{a}k{k}_gen", n, e, d, a, k, 5, eps, 0, props=["C10"], policies=["random"]))
        # a single agent; five agents
        out.append(c("n8a1k3_t7", 8, 12, 4, 1, 3, 7, 10, 11, probe_cap=8))
        out.append(c("n30a5k3_t7", 30, 60, 5, 5, 3, 7, 6, 11, probe_every=2, probe_cap=60))
        # more than 127 nodes
        out.append(c("n140a4k5_t12", 140, 280, 5, 4, 5, 12, 3, 16, probe_every=4, probe_cap=40))
        return out

    def make(self, cfg):
        from jumanji.environments import MMST
        from jumanji.environments.routing.mmst.generator import SplitRandomGenerator

        k = cfg["ctor"]
        if k["default"]:
            return MMST()   # the registered default: its own SplitRandomGenerator(36, 72, 5, 3, 4), time limit 70
        gen = SplitRandomGenerator(num_nodes=k["num_nodes"], num_edges=k["num_edges"], max_degree=k["max_degree"],
                                   num_agents=k["num_agents"], num_nodes_per_agent=k["num_nodes_per_agent"],
                                   max_step=k.get("max_step", k["time_limit"]))
        if k.get("reward_values"):      # DenseRewardFn with non-default reward values
            import jax.numpy as jnp

            from jumanji.environments.routing.mmst.reward import DenseRewardFn

            return MMST(generator=gen, time_limit=k["time_limit"],
                        reward_fn=DenseRewardFn(reward_values=jnp.asarray(k["reward_values"], jnp.float32)))
        return MMST(generator=gen, time_limit=k["time_limit"])

    def cfg_record(self, cfg, env):
        k = cfg["ctor"]
        return dict(num_nodes=k["num_nodes"], num_edges=k["num_edges"], max_degree=k["max_degree"],
                    num_agents=k["num_agents"], num_nodes_per_agent=k["num_nodes_per_agent"],
                    time_limit=k["time_limit"])

    # ---- helpers on the raw state (policies and probe selection only; nothing is judged here) ----
    @staticmethod
    def _view(state):
        adj = np.asarray(state.adj_matrix) == 1
        vis = np.asarray(state.connected_nodes_index) != -1
        return (adj, vis, np.asarray(state.node_types), np.asarray(state.positions),
                np.asarray(state.nodes_to_connect))

    def _open_nodes(self, state, ag):
        """nodes agent `ag` may enter: not a utility node on another agent's path"""
        adj, vis, types, pos, todo = self._view(state)
        others = np.zeros(adj.shape[0], dtype=bool)
        for j in range(vis.shape[0]):
            if j != ag:
                others |= vis[j]
        return ~(others & (types == -1))

    def _collision_actions(self, env, state, rng, base):
        """joint actions in which every agent adjacent to a common enterable node picks it"""
        adj, vis, types, pos, todo = self._view(state)
        na, n = vis.shape
        fin = [all(vis[ag, v] for v in todo[ag]) for ag in range(na)]
        openn = [self._open_nodes(state, ag) for ag in range(na)]
        out = []
        for v in range(n):
            movers = [ag for ag in range(na) if adj[pos[ag], v] and openn[ag][v]]
            if sum(1 for ag in movers if not fin[ag]) >= 2:
                act = base().copy()
                for ag in movers:
                    act[ag] = v
                out.append((v, act))
        rng.shuffle(out)
        out.sort(key=lambda va: 0 if types[va[0]] == -1 else 1)      # contested utility nodes first
        return [act for v, act in out]

    def _ghost_actions(self, env, state, rng, base):
        """joint actions in which one unfinished agent picks an enterable neighbour that a finished agent
        (whose picks are void) is adjacent to and picks as well"""
        adj, vis, types, pos, todo = self._view(state)
        na, n = vis.shape
        fin = [all(vis[ag, v] for v in todo[ag]) for ag in range(na)]
        out = []
        for ag in range(na):
            if fin[ag]:
                continue
            openn = self._open_nodes(state, ag)
            for v in range(n):
                ghosts = [j for j in range(na) if fin[j] and adj[pos[j], v]]
                if adj[pos[ag], v] and openn[v] and ghosts:
                    act = base().copy()
                    act[ag] = v
                    for j in ghosts:
                        act[j] = v
                    out.append(act)
        rng.shuffle(out)
        return out

    # ---- probes ---------------------------------------------------------------------------
    def probe_sample(self, env, state, obs, rng, k):
        """Every node for each agent with the others on their current position (an edge-less choice) in even
        rounds / on random nodes in odd rounds; then collisions on a common node (also with finished agents, whose
        picks are void); then random joint actions."""
        na, n = env.num_agents, env.num_nodes
        dt = env.action_spec.dtype
        pos = np.asarray(state.positions)
        stay = lambda: pos.astype(dt).copy()
        rnd = lambda: rng.integers(0, n, size=(na,)).astype(dt)
        acts = []
        order = list(range(na))
        rng.shuffle(order)
        for ag in order:
            others_random = bool(rng.integers(0, 2))
            for v in range(n):
                act = rnd() if others_random else stay()
                act[ag] = v
                acts.append(act)
        if len(acts) > k - 7:                      # keep a uniform sample of them, all agents represented
            idx = np.sort(rng.choice(len(acts), size=max(1, k - 7), replace=False))
            acts = [acts[j] for j in idx]
        acts.extend(self._collision_actions(env, state, rng, stay)[:3])
        acts.extend(self._collision_actions(env, state, rng, rnd)[:2])
        acts.extend(self._ghost_actions(env, state, rng, stay)[:2])
        while len(acts) < k:
            acts.append(rnd())
        return np.stack(acts[:k]).astype(dt)

    # ---- policies -------------------------------------------------------------------------
    def choose(self, policy, env, state, obs, rng, i):
        if policy == "stall":        # every agent names the node it stands on (never an edge): nobody ever finishes
            return np.asarray(self._view(state)[3], dtype=env.action_spec.dtype).reshape(-1)
        if policy == "solve":
            return self._solve(env, state, obs, rng)
        if policy in ("collide", "crowd"):
            masked = (lambda: np.asarray(self.masked_action(env, state, obs, rng))) if policy == "collide" \
                else (lambda: self._chase(env, state, obs, rng))
            if rng.random() < (0.6 if policy == "collide" else 0.8):
                col = self._collision_actions(env, state, rng, masked)
                if col:
                    return col[0].astype(env.action_spec.dtype)
            return masked().astype(env.action_spec.dtype)
        return super().choose(policy, env, state, obs, rng, i)

    def _chase(self, env, state, obs, rng):
        """Every agent takes the allowed node closest to the next agent's position (the agents crowd together,
        which makes picks of a common node - the tie-break - frequent)."""
        adj, vis, types, pos, todo = self._view(state)
        mask = np.asarray(obs.action_mask)
        na, n = vis.shape
        act = np.zeros(na, dtype=env.action_spec.dtype)
        for ag in range(na):
            allowed = np.flatnonzero(mask[ag])
            if len(allowed) == 0:
                continue
            goal = int(pos[(ag + 1) % na])
            dist = {goal: 0}
            front = [goal]
            while front:
                nxt = []
                for u in front:
                    for w in np.flatnonzero(adj[u]):
                        if int(w) not in dist:
                            dist[int(w)] = dist[u] + 1
                            nxt.append(int(w))
                front = nxt
            best = min(dist.get(int(v), n) for v in allowed)
            cands = [int(v) for v in allowed if dist.get(int(v), n) <= best + (1 if rng.random() < 0.3 else 0)]
            act[ag] = rng.choice(cands)
        return act

    def _solve(self, env, state, obs, rng):
        """Each unfinished agent walks (breadth first) towards its nearest unconnected node, inside its own
        block of the split graph when possible, through nodes the implementation's mask lets it enter."""
        adj, vis, types, pos, todo = self._view(state)
        mask = np.asarray(obs.action_mask)
        na, n = vis.shape
        base, extra = divmod(n, na)
        act = np.zeros(na, dtype=env.action_spec.dtype)
        for ag in range(na):
            goals = [int(v) for v in todo[ag] if not vis[ag, v]]
            allowed = np.flatnonzero(mask[ag])
            if not goals or len(allowed) == 0:
                act[ag] = rng.choice(allowed) if len(allowed) else 0
                continue
            lo = ag * base + min(ag, extra)
            hi = lo + base + (1 if ag < extra else 0)
            openn = self._open_nodes(state, ag)
            choice = None
            for region in (lambda v: lo <= v < hi, lambda v: True):
                # BFS from the goals backwards to the neighbours of the current position
                dist = {g: 0 for g in goals if region(g)}
                front = list(dist)
                while front:
                    nxt = []
                    for u in front:
                        for w in np.flatnonzero(adj[u]):
                            w = int(w)
                            if w not in dist and openn[w] and region(w):
                                dist[w] = dist[u] + 1
                                nxt.append(w)
                    front = nxt
                cands = [(dist[int(v)], int(v)) for v in allowed if int(v) in dist]
                if cands:
                    best = min(c[0] for c in cands)
                    choice = rng.choice([v for d, v in cands if d == best])
                    break
            act[ag] = choice if choice is not None else rng.choice(allowed)
        return act
