"""Adapter of jumanji's MultiCVRP (several vehicles, soft time windows).

Configurations: the four shipped scenarios reachable through `UniformRandomGenerator`
(20 customers / 2 vehicles = registered default, 6/2, 6/3, 20/3), Dense and Sparse rewards.  The scenario
constants written into `Cfg` (capacity, maximum demand, map size, window and coefficient ranges) are the
ones the harness expects from the documented scenario table; they are NOT read back from the env object.

Actions.  The action spec is a plain `BoundedArray` (shape (num_vehicles,), int16, declared bounds lo..hi):
this adapter enumerates / samples it itself.  The documented range of an action entry is 0..num_customers;
main-line policies draw from the documented range, the policy `spec_random` and the probes draw from the
DECLARED range lo..hi (every in-spec value of every vehicle is probed in every visited state).

Distances.  The reset event of an episode additionally carries `s.D`, the integer matrix
round(65536 * euclidean distance) computed here in float64 numpy from the raw float32 coordinates
(independent of jumanji's float32 `compute_distance`).  Coordinates never change during an episode, so the
trace module reads `D` from the episode's reset line.
"""
import itertools

import numpy as np

from harness import jsonify
from harness.envs.base import EnvAdapter

# documented scenarios (num_customers, num_vehicles) -> max_capacity, customer_demand_max
_SCENARIO = {(6, 2): (20, 10), (6, 3): (20, 20), (20, 2): (60, 10), (20, 3): (60, 15),
             (50, 2): (150, 10), (50, 3): (150, 15), (50, 4): (150, 20), (50, 5): (150, 25),
             (100, 2): (300, 10), (100, 3): (300, 15), (100, 4): (300, 20), (100, 5): (300, 25), (150, 5): (180, 10)}
# per number of customers: map size, maximal start of a time window, maximal early / late coefficients
_BY_CUSTOMERS = {6: (10, 10, 0.2, 1.0), 20: (10, 10, 0.2, 1.0), 50: (20, 20, 0.2, 1.0), 100: (20, 40, 0.2, 1.0),
                 150: (20, 60, 0.1, 0.5)}
_WINDOW_LENGTH = 20


def _c(id, n, v, rew, episodes, policies, **kw):
    d = dict(id=id, ctor=dict(num_customers=n, num_vehicles=v, reward_fn=rew), episodes=episodes,
             max_steps=2 * n + 3, policies=policies)
    d.update(kw)
    return d


class Adapter(EnvAdapter):
    name = "MultiCVRP"
    props = ("C01", "C03", "C04", "C06", "C08", "C10", "C11", "C12")
    gen_heavy = {'c6v3_sparse': (40, 300), 'c6v2_dense': (40, 300)}
    probe_cap = 64

    # ---- configurations -------------------------------------------------------------------
    def configs(self, tier):
        full = ["complete", "masked", "finish_at_limit", "random", "lazy", "mostly_masked", "stall", "spec_random"]
        if tier == "quick":
            return [
                _c("c20v2_dense", 20, 2, "dense", 4, ["complete", "masked", "finish_at_limit", "lazy"],
                   probe_every=5, probe_cap=30),
                _c("c6v2_dense", 6, 2, "dense", 8, full, probe_every=2, probe_cap=30),
                _c("c6v2_sparse", 6, 2, "sparse", 5, ["complete", "finish_at_limit", "masked", "random", "stall"],
                   probe_every=3, probe_cap=24),
                _c("c6v3_sparse", 6, 3, "sparse", 8, full, probe_every=2, probe_cap=36),
                _c("c6v3_dense", 6, 3, "dense", 5, ["complete", "finish_at_limit", "masked", "lazy", "spec_random"],
                   probe_every=3, probe_cap=30),
                _c("c20v3_sparse", 20, 3, "sparse", 3, ["complete", "masked", "finish_at_limit"],
                   probe_every=6, probe_cap=36),
                # a user's generator: capacity 12 and demands up to 6 where the paper's scenario says 20 / 10
                dict(_c("c6v2_cap12_dense", 6, 2, "dense", 5, ["complete", "masked", "lazy", "finish_at_limit", "random"],
                        probe_every=2, probe_cap=30), ctor=dict(num_customers=6, num_vehicles=2, reward_fn="dense", custom=(12, 6))),
                # one of the large shipped scenarios (map 20, capacity 150, 4 vehicles): the int16 fields hold real values
                _c("c50v4_dense", 50, 4, "dense", 2, ["complete", "masked"], probe_every=25, probe_cap=20),
            ]
        out = []
        for (n, v) in ((6, 2), (6, 3), (20, 2), (20, 3)):
            for rew in ("dense", "sparse"):
                out.append(_c(f"c{n}v{v}_{rew}", n, v, rew, 16 if n == 6 else 8, full,
                              probe_every=1 if n == 6 else 4, probe_cap=40 if n == 6 else 60))
        out.append(dict(_c("c6v2_cap12_dense", 6, 2, "dense", 16, full, probe_every=1, probe_cap=40),
                        ctor=dict(num_customers=6, num_vehicles=2, reward_fn="dense", custom=(12, 6))))
        out.append(dict(_c("c20v3_cap25_sparse", 20, 3, "sparse", 8, full, probe_every=4, probe_cap=60),
                        ctor=dict(num_customers=20, num_vehicles=3, reward_fn="sparse", custom=(25, 9))))
        # the large shipped scenarios (map 20, capacities 150 / 300 / 180, up to 5 vehicles, step limit up to 300)
        for (n, v, rew) in ((50, 2, "sparse"), (50, 4, "dense"), (50, 5, "sparse"), (100, 3, "dense"), (100, 5, "sparse"),
                            (150, 5, "dense")):
            out.append(_c(f"c{n}v{v}_{rew}", n, v, rew, 3, ["complete", "masked", "stall"], probe_every=n // 2, probe_cap=20))
        return out

    def _build(self, ctor, rew):
        from jumanji.environments.routing.multi_cvrp import MultiCVRP
        from jumanji.environments.routing.multi_cvrp.generator import UniformRandomGenerator
        from jumanji.environments.routing.multi_cvrp.reward import DenseReward, SparseReward

        n, v = ctor["num_customers"], ctor["num_vehicles"]
        if (n, v) == (20, 2) and rew == "dense":
            return MultiCVRP()  # the registered default (MultiCVRP-v0): own generator, DenseReward
        gen = UniformRandomGenerator(num_customers=n, num_vehicles=v)
        if ctor.get("custom"):
            # a generator of the user's own: the shipped one with another vehicle capacity / maximal demand than the paper's
            # scenario for this size (the environment takes its settings from the generator it is given)
            class OwnCapacity(UniformRandomGenerator):
                def __init__(self, n, v, cap, dmax):
                    super().__init__(num_customers=n, num_vehicles=v)
                    self._max_capacity = cap
                    self._customer_demand_max = dmax

            gen = OwnCapacity(n, v, *ctor["custom"])
        cls = DenseReward if rew == "dense" else SparseReward
        return MultiCVRP(generator=gen, reward_fn=cls(v, n, gen._map_max))

    def make(self, cfg):
        return self._build(cfg["ctor"], cfg["ctor"]["reward_fn"])

    def make_alt(self, cfg):
        return self._build(cfg["ctor"], "sparse" if cfg["ctor"]["reward_fn"] == "dense" else "dense")

    def cfg_record(self, cfg, env):
        c = cfg["ctor"]
        cap, dmax = c.get("custom") or _SCENARIO[(c["num_customers"], c["num_vehicles"])]
        map_max, msw, early, late = _BY_CUSTOMERS[c["num_customers"]]
        return {"num_customers": c["num_customers"], "num_vehicles": c["num_vehicles"], "reward_fn": c["reward_fn"],
                "map_max": map_max, "max_capacity": cap, "customer_demand_max": dmax,
                "max_start_window": msw, "time_window_length": _WINDOW_LENGTH,
                "early_coef_max_q": jsonify.fx(np.float32(early)),
                "late_coef_max_q": jsonify.fx(np.float32(late)),
                # observed, for C01: the value action_spec.generate_value() produces
                "gen_action": [int(x) for x in np.asarray(env.action_spec.generate_value()).reshape(-1)]}

    @staticmethod
    def _nv(env):
        return int(np.asarray(env.action_spec.shape).reshape(-1)[0])

    @staticmethod
    def _nc(env):
        return int(np.asarray(env.observation_spec.generate_value().action_mask).shape[-1]) - 1

    # ---- projection -----------------------------------------------------------------------
    def project_state(self, env, state):
        out = jsonify.to_json(state, drop=self.drop_state, overrides=self.state_overrides)
        if int(np.asarray(state.step_count)) == 1:  # reset state: attach the distance matrix of the instance
            xy = np.asarray(state.nodes.coordinates).astype(np.float64)
            diff = xy[:, None, :] - xy[None, :, :]
            dist = np.sqrt((diff ** 2).sum(-1))
            out["D"] = np.rint(dist * jsonify.FX).astype(np.int64).tolist()
        return out

    # ---- actions --------------------------------------------------------------------------
    def _bounds(self, env):
        sp = env.action_spec
        lo = int(np.asarray(sp.minimum).min())
        hi = int(np.asarray(sp.maximum).max())
        return lo, hi, int(sp.shape[0])

    def action_space(self, env):
        lo, hi, nv = self._bounds(env)
        return ("multi", [hi - lo + 1] * nv, (nv,))

    def all_actions(self, env, cap=None):
        cap = cap or self.probe_cap
        lo, hi, nv = self._bounds(env)
        if (hi - lo + 1) ** nv > cap:
            return None
        acts = np.array(list(itertools.product(range(lo, hi + 1), repeat=nv)), dtype=env.action_spec.dtype)
        return acts

    def random_actions(self, env, rng, k):
        """Uniform over the DOCUMENTED range 0..num_customers of every vehicle."""
        _, _, nv = self._bounds(env)
        return rng.integers(0, self._nc(env) + 1, size=(k, nv)).astype(env.action_spec.dtype)

    def spec_random_actions(self, env, rng, k):
        """Uniform over the DECLARED bounds of the action spec."""
        lo, hi, nv = self._bounds(env)
        return rng.integers(lo, hi + 1, size=(k, nv)).astype(env.action_spec.dtype)

    def probe_sample(self, env, state, obs, rng, k):
        """generate_value(); every declared value of one vehicle (the others at the depot / on random masked-in
        nodes); conflicts (two vehicles choosing the same masked-in customer); random joint actions."""
        lo, hi, nv = self._bounds(env)
        dt = env.action_spec.dtype
        mask = np.asarray(obs.action_mask)
        acts = [np.asarray(env.action_spec.generate_value()).astype(dt)]
        singles = []
        for v in range(nv):
            for a in range(lo, hi + 1):
                act = np.zeros(nv, dtype=dt) if rng.random() < 0.5 else np.asarray(self._masked(env, mask, rng), dtype=dt)
                act[v] = a
                singles.append(act)
        conflicts = []
        for c in range(1, mask.shape[1]):
            vs = [v for v in range(nv) if mask[v, c]]
            if len(vs) >= 2:
                act = np.asarray(self._masked(env, mask, rng), dtype=dt)
                for v in vs if rng.random() < 0.5 else vs[:2]:
                    act[v] = c
                conflicts.append(act)
        rng.shuffle(conflicts)
        conflicts = conflicts[:max(2, k // 8)]
        room = max(0, k - len(acts) - len(conflicts) - 2)
        if len(singles) > room:
            idx = rng.choice(len(singles), size=room, replace=False)
            # always keep the top-of-range value of some vehicle among the probes
            top = [j for j, s in enumerate(singles) if (s == hi).any()]
            if top and not any(j in top for j in idx) and len(idx):
                idx[0] = top[int(rng.integers(0, len(top)))]
            singles = [singles[j] for j in sorted(idx)]
        acts += singles + conflicts
        while len(acts) < k:
            acts.append(self.spec_random_actions(env, rng, 1)[0])
        return np.stack(acts[:k]).astype(dt)

    # ---- policies -------------------------------------------------------------------------
    @staticmethod
    def _masked(env, mask, rng, p_customer=0.85):
        """Per vehicle a node its mask row allows; prefers customers."""
        out = []
        for row in mask:
            cust = np.flatnonzero(row[1:]) + 1
            if len(cust) and rng.random() < p_customer:
                out.append(int(rng.choice(cust)))
            else:
                out.append(0)
        return out

    def masked_action(self, env, state, obs, rng):
        return np.asarray(self._masked(env, np.asarray(obs.action_mask), rng), dtype=env.action_spec.dtype)

    @staticmethod
    def _plan_step(dem, cap):
        """Deterministic completion-seeking joint action: every vehicle takes the first customer it can still
        serve that no lower vehicle takes, else returns to the depot."""
        dem = dem.copy()
        act = []
        for v in range(len(cap)):
            c = [j for j in range(1, len(dem)) if dem[j] > 0 and cap[v] >= dem[j]]
            if c:
                act.append(c[0])
                dem[c[0]] = 0
            else:
                act.append(0)
        return act

    def _plan_len(self, dem, cap, pos, q):
        dem, cap, pos = dem.copy(), cap.copy(), pos.copy()
        n = 0
        while not (dem.sum() == 0 and (pos == 0).all()) and n < 1000:
            a = self._plan_step(dem, cap)
            for v, x in enumerate(a):
                if x == 0:
                    cap[v] = q
                else:
                    cap[v] -= dem[x]
                    dem[x] = 0
                pos[v] = x
            n += 1
        return n

    def choose(self, policy, env, state, obs, rng, i):
        dt = env.action_spec.dtype
        nv = self._nv(env)
        if policy == "spec_random":
            return self.spec_random_actions(env, rng, 1)[0]
        if policy == "stall":  # never serve anybody: runs into the step limit with all demand left
            return np.zeros(nv, dtype=dt)
        if policy == "lazy":  # mask-respecting, mostly idle: hits the step limit partially served
            return np.asarray(self._masked(env, np.asarray(obs.action_mask), rng, p_customer=0.2), dtype=dt)
        if policy in ("complete", "finish_at_limit"):
            dem = np.asarray(state.nodes.demands).astype(np.int64)
            cap = np.asarray(state.vehicles.capacities).astype(np.int64)
            pos = np.asarray(state.vehicles.positions).astype(np.int64)
            if policy == "finish_at_limit" and (pos == 0).all():
                need = self._plan_len(dem, cap, pos, _SCENARIO[(self._nc(env), nv)][0])
                if i + need < 2 * self._nc(env):
                    return np.zeros(nv, dtype=dt)  # idle at the depot so that completion falls on the last step
            return np.asarray(self._plan_step(dem, cap), dtype=dt)
        return super().choose(policy, env, state, obs, rng, i)
