"""Pseudo-adapter for the TimeStep constructors of jumanji.types (restart / transition / termination / truncation),
from which every environment builds its timesteps (C03).  There is no environment to drive: `record_custom` calls the
constructors directly (plain Python and under jit) over a small universe of shapes, rewards, discounts and extras and
writes one event per call; Trace_TimeStepCtor.tla judges them against TimeStepCtor.tla."""
import itertools

import numpy as np

from harness import jsonify
from harness.common import dumps
from harness.envs.base import EnvAdapter

SHAPES = [(), (1,), (3,), (2, 2), 4]          # the last one: shape given as a plain int


def _arr(x):
    a = np.asarray(x)
    return {"shape": [int(v) for v in a.shape], "dtype": str(a.dtype), "q": [jsonify.fx(v) for v in a.reshape(-1).astype(np.float64)]}


class Adapter(EnvAdapter):
    name = "TimeStepCtor"
    props = ("C03",)

    def configs(self, tier):
        return [dict(id="ctors", ctor={}, episodes=0, max_steps=0)]

    def make(self, cfg):
        raise NotImplementedError

    def record_custom(self, cfg, tier, seed, out):
        import jax
        import jax.numpy as jnp

        from jumanji import types as T

        rng = np.random.default_rng(seed + 3)
        lines = [{"k": "hdr", "env": self.name, "cfgid": cfg["id"], "cfg": {}, "seed": seed, "tier": tier}]

        def shape_list(sh):
            return [int(sh)] if isinstance(sh, int) else [int(v) for v in sh]

        def one(fn, sh, give_discount, extras, jit):
            shp = shape_list(sh)
            obs = {"x": jnp.asarray(rng.integers(0, 9, size=(2,)).astype(np.int32)), "y": jnp.asarray(np.float32(rng.random()))}
            reward = jnp.asarray((rng.integers(-8, 9, size=shp) / 4.0).astype(np.float32))
            discount = jnp.asarray((rng.integers(0, 5, size=shp) / 4.0).astype(np.float32)) if give_discount else None
            kw = {"observation": obs}
            if not (isinstance(sh, tuple) and sh == ()) or rng.random() < 0.5:
                kw["shape"] = sh
            if extras is not None:
                kw["extras"] = extras
            if fn != "restart":
                kw["reward"] = reward
            if fn in ("transition", "truncation") and give_discount:
                kw["discount"] = discount
            f = getattr(T, fn)
            ev = {"k": "ctor", "par": 0, "a": fn, "s": 0, "fn": fn, "shape": shp, "shape_given_as": type(sh).__name__,
                  "jit": bool(jit), "reward_given": _arr(reward),
                  "discount_given": dict(_arr(discount), given=True) if (give_discount and fn in ("transition", "truncation"))
                  else {"given": False}, "extras_given": sorted(extras) if extras else []}
            try:
                if jit:
                    static = {k: v for k, v in kw.items() if k == "shape"}
                    dyn = {k: v for k, v in kw.items() if k != "shape"}
                    ts = jax.jit(lambda d: f(**d, **static))(dyn)
                else:
                    ts = f(**kw)
                same = all(np.array_equal(np.asarray(ts.observation[k]), np.asarray(obs[k])) for k in obs) and \
                    sorted(ts.observation) == sorted(obs)
                ev["outcome"] = "ok"
                ev["out"] = {"type": int(np.asarray(ts.step_type)), "reward": _arr(ts.reward), "discount": _arr(ts.discount),
                             "obs_same": bool(same), "extras_keys": sorted(ts.extras) if ts.extras else []}
                ev["pred"] = {"first": bool(np.asarray(ts.first())), "mid": bool(np.asarray(ts.mid())),
                              "last": bool(np.asarray(ts.last()))}
            except Exception as e:  # noqa: BLE001
                ev["outcome"] = "raise:" + type(e).__name__
                ev["out"] = {"type": -1, "reward": _arr(0.0), "discount": _arr(0.0), "obs_same": False, "extras_keys": []}
                ev["pred"] = {"first": False, "mid": False, "last": False}
            lines.append(ev)

        reps = 1 if tier == "quick" else 4
        for _ in range(reps):
            for fn, sh, gd, ex, jit in itertools.product(("restart", "transition", "termination", "truncation"), SHAPES,
                                                         (False, True), (None, {"m": jnp.asarray(1.0)}), (False, True)):
                if gd and fn in ("restart", "termination"):
                    continue
                one(fn, sh, gd, ex, jit)
        with open(out, "w") as f:
            for ln in lines:
                f.write(dumps(ln) + "\n")
        return {"ok": True, "events": len(lines) - 1, "probes": 0, "episodes": 0, "lines": len(lines), "policy_fallbacks": 0}
