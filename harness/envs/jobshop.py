"""Adapter of jumanji's JobShop (job shop scheduling, one entry per machine in a joint action).

Configurations: the registered default (JobShop() = RandomGenerator 20 jobs x 10 machines x 8 ops x duration 6),
RandomGenerator 2x2x2x2 and 4x3x3x3 (and more in the thorough tier), ToyGenerator, and a custom
`WorstCaseGenerator` (every job has max_num_ops ops of duration max_op_duration: an instance in the support
of RandomGenerator whose total work equals the documented bound num_jobs*max_num_ops*max_op_duration, so the
structural horizon is reached by the `serial` policy).

The joint action space ((num_jobs+1)^num_machines) is enumerated when small; otherwise each machine's every
entry is probed with the other machines on no-op, plus masked joint actions, masked joint actions with one
corrupted entry, "two machines take the same job" actions and uniformly random joint actions.
"""
import itertools

import numpy as np

from harness.envs.base import EnvAdapter


def _worst_case_generator(num_jobs, num_machines, max_num_ops, max_op_duration):
    import jax
    import jax.numpy as jnp

    from jumanji.environments.packing.job_shop.generator import Generator
    from jumanji.environments.packing.job_shop.types import State

    class WorstCaseGenerator(Generator):
        """All jobs have max_num_ops ops, all of duration max_op_duration; machines drawn from the key."""

        def __call__(self, key):
            key, mkey = jax.random.split(key)
            shape = (self.num_jobs, self.max_num_ops)
            ops_machine_ids = jax.random.randint(mkey, shape, 0, self.num_machines)
            ops_durations = jnp.full(shape, self.max_op_duration, jnp.int32)
            from harness import inject
            from jumanji.environments.packing.job_shop.generator import RandomGenerator

            tpl = RandomGenerator(self.num_jobs, self.num_machines, self.max_num_ops, self.max_op_duration)(key)
            return inject.state_like(
                tpl,
                ops_machine_ids=ops_machine_ids,
                ops_durations=ops_durations,
                ops_mask=jnp.ones(shape, bool),
                machines_job_ids=jnp.full(self.num_machines, self.num_jobs, jnp.int32),
                machines_remaining_times=jnp.zeros(self.num_machines, jnp.int32),
                action_mask=None,
                step_count=jnp.array(0, jnp.int32),
                scheduled_times=jnp.full(shape, -1, jnp.int32),
                key=key,
            )

    return WorstCaseGenerator(num_jobs, num_machines, max_num_ops, max_op_duration)


def _injected_generator(cfg):
    """INJ: every state of the TLC model from which the episode continues (EVERY instance of the small size: all machine /
    duration assignments and numbers of ops per job; machines busy or idle, partial schedules) handed out as start state
    number key[1]; mask, step and observation code are the real ones."""
    import jax.numpy as jnp

    from harness import inject
    from jumanji.environments.packing.job_shop.generator import Generator
    from jumanji.environments.packing.job_shop.types import State

    k = cfg["ctor"]
    states, _ = inject.dump_states(cfg["inject"][0], cfg["inject"][1], limit=None, var=None)
    seen = {}
    for st in states:
        if not st["over"]:
            seen.setdefault(repr(st["s"]), st["s"])
    tab = inject.thin([seen[x] for x in sorted(seen)], cfg.get("limit"))
    cfg["episodes"] = len(tab)
    col = lambda f, dt: jnp.asarray(np.array([t[f] for t in tab], dtype=dt))  # noqa: E731
    T = dict(mid=col("ops_machine_ids", np.int32), dur=col("ops_durations", np.int32), msk=col("ops_mask", bool),
             sch=col("scheduled_times", np.int32), mj=col("machines_job_ids", np.int32),
             mr=col("machines_remaining_times", np.int32), sc=col("step_count", np.int32))

    class InjectedGenerator(Generator):
        def __call__(self, key):
            j = key[1] % T["sc"].shape[0]
            from jumanji.environments.packing.job_shop.generator import RandomGenerator

            tpl = RandomGenerator(k["num_jobs"], k["num_machines"], k["max_num_ops"], k["max_op_duration"])(key)
            return inject.state_like(tpl, ops_machine_ids=T["mid"][j], ops_durations=T["dur"][j], ops_mask=T["msk"][j],
                         machines_job_ids=T["mj"][j], machines_remaining_times=T["mr"][j], action_mask=None,
                         step_count=T["sc"][j], scheduled_times=T["sch"][j], key=key)

    return InjectedGenerator(k["num_jobs"], k["num_machines"], k["max_num_ops"], k["max_op_duration"])


INJ_PROPS = ["C03", "C04", "C05", "C06", "C09", "C12"]


def _c(id, gen, j, m, o, d, episodes, max_steps, **kw):
    cfg = dict(id=id, ctor=dict(generator=gen, num_jobs=j, num_machines=m, max_num_ops=o, max_op_duration=d),
               episodes=episodes, max_steps=max_steps)
    cfg.update(kw)
    return cfg


class Adapter(EnvAdapter):
    name = "JobShop"
    props = ("C01", "C03", "C04", "C05", "C06", "C08", "C09", "C10", "C11", "C12")
    gen_heavy = {'rnd_j2m5o3d2': (60, 400), 'rnd_j2m2o2d2': (60, 400)}
    probe_cap = 64

    # ---- configurations -------------------------------------------------------------------
    def configs(self, tier):
        full = ["greedy", "serial", "masked", "lazy", "mostly_masked", "random"]
        if tier == "quick":
            return [
                # registered default JobShop(): 20 x 10 x 8 x 6; 10 * 21 single-machine entries per probed state
                _c("default_j20m10o8d6", "default", 20, 10, 8, 6, 3, 200, probe_every=16, probe_cap=120,
                   policies=["greedy", "lazy", "mostly_masked"]),
                _c("rnd_j2m2o2d2", "random", 2, 2, 2, 2, 18, 14, policies=full),
                _c("rnd_j4m3o3d3", "random", 4, 3, 3, 3, 8, 44, probe_every=2, probe_cap=28, policies=full),
                # more machines than jobs, more ops than either, long durations: every size parameter is the largest once
                _c("rnd_j2m5o3d2", "random", 2, 5, 3, 2, 5, 20, probe_every=2, probe_cap=40, policies=full),
                _c("rnd_j3m2o6d7", "random", 3, 2, 6, 7, 4, 60, probe_every=4, probe_cap=16, policies=["greedy", "serial", "lazy", "masked"]),
                _c("toy_j5m4o4d4", "toy", 5, 4, 4, 4, 5, 50, probe_every=3, probe_cap=40,
                   policies=["greedy", "serial", "lazy", "mostly_masked", "masked"]),
                _c("worst_j2m2o2d2", "worst", 2, 2, 2, 2, 6, 14, policies=["serial", "greedy", "lazy"]),
                _c("worst_j3m2o2d3", "worst", 3, 2, 2, 3, 4, 24, probe_every=2, policies=["serial", "lazy"]),
                # INJ: states of the 2 x 2 x 2 x 2 TLC model (every instance, mid-schedule states) x all 9 joint actions
                _c("inj2222", "mc", 2, 2, 2, 2, 0, 1, inject=("MC_JobShop", "MC_JobShop_quick.cfg"), limit=400, post_terminal=0,
                   policies=["masked"], props=INJ_PROPS),
            ]
        out = [
            _c("default_j20m10o8d6", "default", 20, 10, 8, 6, 8, 400, probe_every=12, probe_cap=160,
               policies=["greedy", "lazy", "mostly_masked", "masked", "serial", "random", "greedy", "lazy"]),
            _c("toy_j5m4o4d4", "toy", 5, 4, 4, 4, 24, 50, probe_every=2, probe_cap=44, policies=full),
        ]
        for (j, m, o, d, eps) in ((2, 2, 2, 2, 60), (4, 3, 3, 3, 30), (3, 2, 4, 2, 40), (2, 4, 3, 5, 30), (6, 2, 2, 3, 24),
                                  (1, 1, 3, 2, 40), (3, 5, 1, 4, 24), (8, 4, 5, 4, 12)):
            big = (j + 1) ** m > 64
            out.append(_c(f"rnd_j{j}m{m}o{o}d{d}", "random", j, m, o, d, eps, j * o * d + 4,
                          probe_cap=64 if not big else min(m * (j + 1) + 16, 96), probe_every=1 if j * o * d <= 40 else 3,
                          policies=full))
        out.append(_c("inj2222", "mc", 2, 2, 2, 2, 0, 1, inject=("MC_JobShop", "MC_JobShop_quick.cfg"), limit=4000, post_terminal=0,
                      policies=["masked"], props=INJ_PROPS))
        for (j, m, o, d) in ((2, 2, 2, 2), (3, 2, 2, 3), (2, 3, 3, 2), (4, 3, 3, 3)):
            out.append(_c(f"worst_j{j}m{m}o{o}d{d}", "worst", j, m, o, d, 16, j * o * d + 4,
                          probe_cap=64 if (j + 1) ** m <= 64 else 40, probe_every=1 if j * o * d <= 12 else 2,
                          policies=["serial", "greedy", "lazy", "mostly_masked"]))
        return out

    def make(self, cfg):
        from jumanji.environments import JobShop
        from jumanji.environments.packing.job_shop.generator import RandomGenerator, ToyGenerator

        k = cfg["ctor"]
        dims = (k["num_jobs"], k["num_machines"], k["max_num_ops"], k["max_op_duration"])
        if k["generator"] == "default":
            env = JobShop()
        elif k["generator"] == "toy":
            env = JobShop(generator=ToyGenerator())
        elif k["generator"] == "worst":
            env = JobShop(generator=_worst_case_generator(*dims))
        elif "inject" in cfg:
            env = JobShop(generator=_injected_generator(cfg))
        else:
            env = JobShop(generator=RandomGenerator(*dims))
        return env

    def episode_key(self, cfg, ep, seed):
        if "inject" not in cfg:
            return None
        from harness import inject

        return inject.ep_key(ep)

    def cfg_record(self, cfg, env):
        # what the harness REQUESTED (for "default" and "toy": the documented sizes), never read back from env
        return dict(cfg["ctor"])

    # ---- probes ---------------------------------------------------------------------------
    def all_actions(self, env, cap=None):
        cap = cap or self.probe_cap
        nm, nj = env.num_machines, env.num_jobs
        if (nj + 1) ** nm > cap:
            return None
        dt = env.action_spec.dtype
        return np.array(list(itertools.product(range(nj + 1), repeat=nm)), dtype=dt)

    def _masked_joint(self, env, obs, rng, prefer_job=0.5):
        mask = np.asarray(obs.action_mask)
        nj = env.num_jobs
        act = np.full(env.num_machines, nj, dtype=env.action_spec.dtype)
        for m in range(env.num_machines):
            jobs = np.flatnonzero(mask[m, :nj])
            if len(jobs) and rng.random() < prefer_job:
                act[m] = rng.choice(jobs)
        return act

    def probe_sample(self, env, state, obs, rng, k):
        nm, nj = env.num_machines, env.num_jobs
        dt = env.action_spec.dtype
        noop = lambda: np.full(nm, nj, dtype=dt)
        acts = [noop()]
        single = []
        for m in range(nm):
            for x in range(nj):
                a = noop()
                a[m] = x
                single.append(a)
        extra = 12 if k >= 40 else max(2, k // 5)
        room = max(0, k - 1 - extra)
        if len(single) > room:
            idx = rng.permutation(len(single))[:room]
            single = [single[i] for i in sorted(idx)]
        acts.extend(single)
        n = 0
        while len(acts) < k:
            kind = n % 4
            n += 1
            if kind == 0:      # every machine follows the mask
                a = self._masked_joint(env, obs, rng, prefer_job=0.8)
            elif kind == 1:    # mask-following with one corrupted entry
                a = self._masked_joint(env, obs, rng, prefer_job=0.8)
                a[rng.integers(0, nm)] = rng.integers(0, nj + 1)
            elif kind == 2 and nm >= 2:    # two machines take the same job (one of them may be allowed to)
                a = self._masked_joint(env, obs, rng, prefer_job=0.3)
                m1, m2 = rng.choice(nm, size=2, replace=False)
                if a[m1] == nj:
                    a[m1] = rng.integers(0, nj)
                a[m2] = a[m1]
            else:
                a = rng.integers(0, nj + 1, size=(nm,)).astype(dt)
            acts.append(np.asarray(a, dtype=dt))
        return np.stack(acts[:k]).astype(dt)

    # ---- policies -------------------------------------------------------------------------
    def choose(self, policy, env, state, obs, rng, i):
        nm, nj = env.num_machines, env.num_jobs
        dt = env.action_spec.dtype
        mask = np.asarray(obs.action_mask)
        if policy == "greedy":      # every machine that may start a job does so: completes, short makespan
            return self._masked_joint(env, obs, rng, prefer_job=1.0)
        if policy in ("serial", "lazy"):
            rem = np.asarray(obs.machines_remaining_times)
            options = [(m, x) for m in range(nm) for x in range(nj) if mask[m, x]]
            act = np.full(nm, nj, dtype=dt)
            if policy == "serial":  # one operation at a time: makespan = total work (the structural horizon)
                if (rem == 0).all() and options:
                    m, x = options[rng.integers(0, len(options))]
                    act[m] = x
                return act
            # lazy: follows the mask with many no-ops, but never lets all machines idle
            act = self._masked_joint(env, obs, rng, prefer_job=0.35)
            if (act == nj).all() and (rem == 0).all() and options:
                m, x = options[rng.integers(0, len(options))]
                act[m] = x
            return act
        return super().choose(policy, env, state, obs, rng, i)
