import numpy as np

from harness.envs.base import EnvAdapter


def _late_boards(n):
    """Late-game boards (exponents): pairs of equal large tiles next to each other in a row or a column - 1024 + 1024 up to
    32768 + 32768 - alone, two pairs in one line, next to small tiles, on a nearly full board."""
    out = []
    for e in range(9, 16):
        b = np.zeros((n, n), np.int64)
        b[0, 0] = b[0, 1] = e                      # a pair in the first row
        out.append(b.copy())
        b[n - 1, n - 1] = b[n - 2, n - 1] = e + 1 if e < 15 else e     # and a pair in the last column
        out.append(b.copy())
        full = (np.arange(n * n).reshape(n, n) % 5) + 1      # a nearly full board of small tiles ...
        full[1, :2] = e                                       # ... with one large pair, then two
        out.append(full.copy())
        if n >= 4:
            full[1, 2:4] = e
            out.append(full.copy())
    return [tuple(tuple(int(x) for x in r) for r in b) for b in out]


class Adapter(EnvAdapter):
    name = "Game2048"
    props = ("C01", "C03", "C04", "C05", "C07", "C08", "C09", "C10", "C12")
    gen_heavy = {'n2': (60, 400), 'n3': (40, 300)}
    state_overrides = {"score": lambda v: int(round(float(v)))}

    def configs(self, tier):
        if tier == "quick":
            return [dict(id="n4", ctor=dict(board_size=4), episodes=6, max_steps=120, default_ctor=True),
                    dict(id="n2", ctor=dict(board_size=2), episodes=8, max_steps=40),
                    dict(id="n3", ctor=dict(board_size=3), episodes=6, max_steps=80),
                    # INJ: every reachable board of the 2x2 TLC model (exponents <= 6) as a start state, all 4 actions
                    dict(id="inj2", ctor=dict(board_size=2), inject=("MC_Game2048", "MC_Game2048_quick.cfg"), max_steps=1,
                         post_terminal=0, policies=["random"], props=["C03", "C04", "C05", "C07", "C09", "C12"]),
                    # late game: merges of 1024 + 1024 ... 32768 + 32768 (hand-made boards, the real step)
                    dict(id="late4", ctor=dict(board_size=4), inject="late", max_steps=2, post_terminal=0, policies=["masked"],
                         props=["C03", "C04", "C05", "C07", "C08", "C09", "C12"])]
        return ([dict(id=f"n{n}", ctor=dict(board_size=n), episodes=40, max_steps=400, default_ctor=(n == 4)) for n in (2, 3, 4, 5, 6)]
                + [dict(id=f"late{n}", ctor=dict(board_size=n), inject="late", max_steps=3, post_terminal=0, policies=["masked"],
                        props=["C03", "C04", "C05", "C07", "C08", "C09", "C12"]) for n in (3, 4, 5)]
                + [dict(id="inj2", ctor=dict(board_size=2), inject=("MC_Game2048", "MC_Game2048_quick.cfg"), max_steps=2,
                        post_terminal=0, policies=["random"], props=["C03", "C04", "C05", "C07", "C09", "C12"]),
                   dict(id="inj3", ctor=dict(board_size=3), inject=("MC_Game2048", "MC_Game2048_thorough.cfg"), limit=20000,
                        max_steps=1, post_terminal=0, policies=["random"], props=["C03", "C04", "C05", "C07", "C09", "C12"])])

    def cfg_record(self, cfg, env):
        return {"board_size": cfg["ctor"]["board_size"], "injected": "inject" in cfg}

    def make(self, cfg):
        from jumanji.environments import Game2048

        if cfg.get("default_ctor"):       # the documented default (4 x 4) from the library's own no-argument constructor
            return Game2048()
        if "inject" not in cfg:
            return Game2048(**cfg["ctor"])
        import jax.numpy as jnp

        from harness import inject
        from jumanji.environments.logic.game_2048.types import Observation, State
        from jumanji.types import restart

        inject.need(Game2048, "_get_action_mask")
        if cfg["inject"] == "late":
            boards = _late_boards(cfg["ctor"]["board_size"])
        else:
            states, _ = inject.dump_states(cfg["inject"][0], cfg["inject"][1], limit=None)
            boards = sorted({tuple(tuple(r) for r in s["board"]) for s in states})
            if cfg.get("limit"):
                boards = boards[:: max(1, len(boards) // cfg["limit"])]
        table = jnp.asarray(np.array(boards, dtype=np.int32))
        cfg["episodes"] = len(boards)

        class Injected(Game2048):
            """Table-driven reset: start state number key[1] of the TLC dump; step and the mask code are the real ones."""

            def reset(self, key):
                board = table[key[1] % table.shape[0]]
                action_mask = self._get_action_mask(board)
                tpl_state, tpl_ts = super().reset(key)          # the library's own reset: every field State / extras have
                obs = inject.state_like(tpl_ts.observation, board=board, action_mask=action_mask)
                state = inject.state_like(tpl_state, board=board, step_count=jnp.array(0, jnp.int32), action_mask=action_mask,
                                          key=key, score=jnp.array(0, float))
                extras = dict(tpl_ts.extras or {}, highest_tile=2 ** jnp.max(board))
                return state, restart(observation=obs, extras=extras)

        return Injected(**cfg["ctor"])

    def episode_key(self, cfg, ep, seed):
        if "inject" not in cfg:
            return None
        import jax.numpy as jnp

        return jnp.asarray([0, ep], dtype=jnp.uint32)
