import numpy as np

from harness.envs.base import EnvAdapter


class Adapter(EnvAdapter):
    name = "Game2048"
    props = ("C01", "C03", "C04", "C05", "C07", "C08", "C09", "C10", "C12")
    gen_heavy = {'n2': (60, 400), 'n3': (40, 300)}
    state_overrides = {"score": lambda v: int(round(float(v)))}

    def configs(self, tier):
        if tier == "quick":
            return [dict(id="n4", ctor=dict(board_size=4), episodes=6, max_steps=120, default_ctor=True),
                    dict(id="n2", ctor=dict(board_size=2), episodes=8, max_steps=40),
                    dict(id="n3", ctor=dict(board_size=3), episodes=6, max_steps=80),
                    # INJ: every reachable board of the 2x2 TLC model (exponents <= 6) as a start state, all 4 actions
                    dict(id="inj2", ctor=dict(board_size=2), inject=("MC_Game2048", "MC_Game2048_quick.cfg"), max_steps=1,
                         post_terminal=0, policies=["random"], props=["C03", "C04", "C05", "C07", "C09", "C12"])]
        return ([dict(id=f"n{n}", ctor=dict(board_size=n), episodes=40, max_steps=400, default_ctor=(n == 4)) for n in (2, 3, 4, 5, 6)]
                + [dict(id="inj2", ctor=dict(board_size=2), inject=("MC_Game2048", "MC_Game2048_quick.cfg"), max_steps=2,
                        post_terminal=0, policies=["random"], props=["C03", "C04", "C05", "C07", "C09", "C12"]),
                   dict(id="inj3", ctor=dict(board_size=3), inject=("MC_Game2048", "MC_Game2048_thorough.cfg"), limit=20000,
                        max_steps=1, post_terminal=0, policies=["random"], props=["C03", "C04", "C05", "C07", "C09", "C12"])])

    def cfg_record(self, cfg, env):
        return {"board_size": cfg["ctor"]["board_size"], "injected": "inject" in cfg}

    def make(self, cfg):
        from jumanji.environments import Game2048

        if cfg.get("default_ctor"):       # the documented default (4 x 4) from the library's own no-argument constructor
            return Game2048()
        if "inject" not in cfg:
            return Game2048(**cfg["ctor"])
        import jax.numpy as jnp

        from harness import inject
        from jumanji.environments.logic.game_2048.types import Observation, State
        from jumanji.types import restart

        inject.need(Game2048, "_get_action_mask")
        states, _ = inject.dump_states(cfg["inject"][0], cfg["inject"][1], limit=None)
        boards = sorted({tuple(tuple(r) for r in s["board"]) for s in states})
        if cfg.get("limit"):
            boards = boards[:: max(1, len(boards) // cfg["limit"])]
        table = jnp.asarray(np.array(boards, dtype=np.int32))
        cfg["episodes"] = len(boards)

        class Injected(Game2048):
            """Table-driven reset: start state number key[1] of the TLC dump; step and the mask code are the real ones."""

            def reset(self, key):
                board = table[key[1] % table.shape[0]]
                action_mask = self._get_action_mask(board)
                tpl_state, tpl_ts = super().reset(key)          # the library's own reset: every field State / extras have
                obs = inject.state_like(tpl_ts.observation, board=board, action_mask=action_mask)
                state = inject.state_like(tpl_state, board=board, step_count=jnp.array(0, jnp.int32), action_mask=action_mask,
                                          key=key, score=jnp.array(0, float))
                extras = dict(tpl_ts.extras or {}, highest_tile=2 ** jnp.max(board))
                return state, restart(observation=obs, extras=extras)

        return Injected(**cfg["ctor"])

    def episode_key(self, cfg, ep, seed):
        if "inject" not in cfg:
            return None
        import jax.numpy as jnp

        return jnp.asarray([0, ep], dtype=jnp.uint32)
