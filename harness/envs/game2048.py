from harness import jsonify
from harness.envs.base import EnvAdapter


class Adapter(EnvAdapter):
    name = "Game2048"
    props = ("C01", "C03", "C04", "C05", "C07", "C08", "C09", "C10", "C12")
    state_overrides = {"score": lambda v: int(round(float(v)))}

    def configs(self, tier):
        if tier == "quick":
            return [dict(id="n4", ctor=dict(board_size=4), episodes=6, max_steps=120),
                    dict(id="n2", ctor=dict(board_size=2), episodes=8, max_steps=40),
                    dict(id="n3", ctor=dict(board_size=3), episodes=6, max_steps=80)]
        return [dict(id=f"n{n}", ctor=dict(board_size=n), episodes=40, max_steps=400) for n in (2, 3, 4, 5, 6)]

    def make(self, cfg):
        from jumanji.environments import Game2048

        return Game2048(**cfg["ctor"])
