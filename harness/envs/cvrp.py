"""CVRP adapter: configurations (3 / 6 / 20 customers, default and tight capacity, both reward functions,
uniform / lattice / 3-4-5 rectangle generators) and the distance matrix `D` exported with every state."""
import numpy as np

from harness import jsonify
from harness.envs.base import EnvAdapter

FX = 65536


def _fresh_state(coordinates, demands, num_nodes, max_capacity, key):
    import jax.numpy as jnp

    from harness import inject
    from jumanji.environments.routing.cvrp.constants import DEPOT_IDX
    from jumanji.environments.routing.cvrp.generator import UniformGenerator

    tpl = UniformGenerator(num_nodes=num_nodes, max_capacity=max(max_capacity, 2), max_demand=2)(key)    # the library's own State
    return inject.state_like(
        tpl,
        coordinates=coordinates,
        demands=demands.at[DEPOT_IDX].set(0),
        position=jnp.array(DEPOT_IDX, jnp.int32),
        capacity=jnp.array(max_capacity, jnp.int32),
        visited_mask=jnp.zeros(num_nodes + 1, dtype=bool).at[DEPOT_IDX].set(True),
        trajectory=jnp.full(2 * num_nodes, DEPOT_IDX, jnp.int32),
        num_total_visits=jnp.array(1, jnp.int32),
        key=key,
    )


def _lattice_generator(num_nodes, max_capacity, max_demand, min_demand=1):
    """Custom generator (jumanji's Generator interface): coordinates on the k/8 grid of the closed unit square
    (k = 0..8, coincident nodes possible), demands uniform in 1..max_demand INCLUSIVE (so max_capacity =
    max_demand really is tight).  Coordinates, axis-parallel and 3-4-5 / 6-8-10 legs and all their sums are exact
    in float32 and in the x * 65536 export; the trace spec decides per leg whether it is exact."""
    import jax
    import jax.numpy as jnp

    from jumanji.environments.routing.cvrp.generator import Generator

    class LatticeGenerator(Generator):
        def __call__(self, key):
            key, ck, dk = jax.random.split(key, 3)
            coordinates = jax.random.randint(ck, (self.num_nodes + 1, 2), 0, 9).astype(jnp.float32) / 8.0
            demands = jax.random.randint(dk, (self.num_nodes + 1,), min_demand, self.max_demand + 1)
            return _fresh_state(coordinates, demands, self.num_nodes, self.max_capacity, key)

    return LatticeGenerator(num_nodes, max_capacity, max_demand)


def _lattice0_generator(num_nodes, max_capacity, max_demand):
    """Lattice instances whose customers may have demand 0 (inside the declared demand box [0, max_capacity]):
    serving such a customer must leave the load unchanged, not refill the vehicle."""
    return _lattice_generator(num_nodes, max_capacity, max_demand, min_demand=0)


def _rect345_generator(num_nodes, max_capacity, max_demand):
    """Custom generator: every node sits on a corner of a randomly placed 3/8 x 4/8 (or 4/8 x 3/8) rectangle
    (all four corners used when there are at least 4 nodes; further nodes coincide with a corner).  Every
    pairwise distance is 0, 3/8, 4/8 or 5/8: all rewards and returns are exact, every comparison has tolerance 0."""
    import jax
    import jax.numpy as jnp

    from jumanji.environments.routing.cvrp.generator import Generator

    class Rect345Generator(Generator):
        def __call__(self, key):
            key, ok, sk, pk, dk = jax.random.split(key, 5)
            n1 = self.num_nodes + 1
            swap = jax.random.bernoulli(sk)
            w = jnp.where(swap, 4, 3)
            h = jnp.where(swap, 3, 4)
            off = jax.random.randint(ok, (2,), 0, 5)          # 0..4: offset + 4 <= 8
            corner = jax.random.permutation(pk, jnp.tile(jnp.arange(4), (n1 + 3) // 4))[:n1]
            xs = off[0] + w * (corner % 2)
            ys = off[1] + h * (corner // 2)
            coordinates = jnp.stack([xs, ys], axis=1).astype(jnp.float32) / 8.0
            demands = jax.random.randint(dk, (n1,), 1, self.max_demand + 1)
            return _fresh_state(coordinates, demands, self.num_nodes, self.max_capacity, key)

    return Rect345Generator(num_nodes, max_capacity, max_demand)


def _c(id, gen, n, cap, dem, rew, episodes, **kw):
    d = dict(id=id, ctor=dict(generator=gen, num_nodes=n, max_capacity=cap, max_demand=dem, reward_fn=rew),
             episodes=episodes, max_steps=2 * n + 3)
    d.update(kw)
    return d


POL5 = ["masked", "zigzag", "mostly_masked", "nearest", "random"]


class Adapter(EnvAdapter):
    name = "CVRP"
    props = ("C01", "C03", "C04", "C05", "C06", "C08", "C09", "C10", "C11", "C12")
    gen_heavy = {'u6_c6_d4_sparse': (60, 300), 'u3_c3_d3_dense': (60, 300)}

    def configs(self, tier):
        if tier == "quick":
            return [
                # CVRP-v1: 20 customers, capacity 30, max demand 10, dense (21 probes per probed state)
                _c("u20_c30_d10_dense", "uniform", 20, 30, 10, "dense", 3, probe_every=3, default_ctor=True,
                   policies=["masked", "zigzag", "mostly_masked"]),
                _c("u20_c10_d10_sparse", "uniform", 20, 10, 10, "sparse", 2, probe_every=3,
                   policies=["nearest", "masked"]),                                      # tight
                _c("u6_c6_d4_sparse", "uniform", 6, 6, 4, "sparse", 8, policies=POL5),
                _c("u6_c3_d3_dense", "uniform", 6, 3, 3, "dense", 8, policies=POL5),      # tight
                _c("u3_c3_d3_dense", "uniform", 3, 3, 3, "dense", 10, policies=POL5),
                _c("u3_c30_d10_sparse", "uniform", 3, 30, 10, "sparse", 10, policies=POL5),
                # lattice instances: exact legs compared with tolerance 0; demands reach max_demand
                _c("l20_c30_d10_sparse", "lattice", 20, 30, 10, "sparse", 2, probe_every=3,
                   policies=["masked", "nearest"]),
                _c("l6_c4_d4_dense", "lattice", 6, 4, 4, "dense", 8, policies=POL5),      # tight
                _c("l6_c9_d3_sparse", "lattice", 6, 9, 3, "sparse", 6, policies=POL5),
                _c("l3_c2_d2_sparse", "lattice", 3, 2, 2, "sparse", 10, policies=POL5),   # tight
                _c("l3_c1_d1_dense", "lattice", 3, 1, 1, "dense", 6, policies=POL5),      # forced depot after every customer
                _c("z6_c4_d2_dense", "lattice0", 6, 4, 2, "dense", 8, policies=POL5),      # zero-demand customers
                _c("z4_c2_d1_sparse", "lattice0", 4, 2, 1, "sparse", 6, policies=POL5),
                # 3-4-5 rectangles: everything exact
                _c("r3_c3_d3_dense", "rect345", 3, 3, 3, "dense", 10, policies=POL5),     # tight
                _c("r3_c5_d2_sparse", "rect345", 3, 5, 2, "sparse", 8, policies=POL5),
                _c("r6_c5_d5_sparse", "rect345", 6, 5, 5, "sparse", 8, policies=POL5),    # tight
                _c("r6_c12_d4_dense", "rect345", 6, 12, 4, "dense", 6, policies=POL5),
            ]
        out = []
        for gen in ("uniform", "lattice", "rect345"):
            g = gen[0]
            for n, caps, eps, pe in ((3, ((1, 1), (2, 2), (3, 3), (5, 2), (30, 10)), 40, 1),
                                     (6, ((3, 3), (4, 4), (6, 4), (12, 4), (30, 10)), 30, 1),
                                     (20, ((10, 10), (30, 10), (15, 4)), 8, 2)):
                for cap, dem in caps:
                    if gen == "uniform" and dem == 1:
                        continue        # jax.random.randint(minval=1, maxval=1) is outside its documented domain
                    for rew in ("dense", "sparse"):
                        out.append(_c(f"{g}{n}_c{cap}_d{dem}_{rew}", gen, n, cap, dem, rew, eps, policies=POL5,
                                      probe_every=pe))
        for n, cap, dem in ((3, 2, 1), (4, 2, 1), (6, 4, 2), (6, 3, 3), (20, 10, 3)):
            for rew in ("dense", "sparse"):
                out.append(_c(f"z{n}_c{cap}_d{dem}_{rew}", "lattice0", n, cap, dem, rew, 20 if n <= 6 else 6, policies=POL5,
                              probe_every=1 if n <= 6 else 2))
        out += [_c("u1_c3_d3_dense", "uniform", 1, 3, 3, "dense", 12, policies=POL5), _c("u2_c4_d3_sparse", "uniform", 2, 4, 3, "sparse", 12, policies=POL5),
                _c("l1_c2_d2_sparse", "lattice", 1, 2, 2, "sparse", 8, policies=POL5),
                _c("u130_c40_d9_dense", "uniform", 130, 40, 9, "dense", 2, policies=["nearest", "masked"], probe_every=20, probe_cap=40)]
        for c in out:       # the registered default is built by the library's own no-argument constructor
            if c["id"] == "u20_c30_d10_dense":
                c["default_ctor"] = True
        return out

    # ---- the real environment -------------------------------------------------------------
    def _build(self, ctor, rew):
        from jumanji.environments.routing.cvrp import CVRP
        from jumanji.environments.routing.cvrp.generator import UniformGenerator
        from jumanji.environments.routing.cvrp.reward import DenseReward, SparseReward

        mk = {"uniform": UniformGenerator, "lattice": _lattice_generator, "rect345": _rect345_generator,
              "lattice0": _lattice0_generator}[ctor["generator"]]
        gen = mk(ctor["num_nodes"], ctor["max_capacity"], ctor["max_demand"])
        return CVRP(generator=gen, reward_fn=DenseReward() if rew == "dense" else SparseReward())

    def make(self, cfg):
        if cfg.get("default_ctor"):       # the documented defaults come from the library's own no-argument constructor
            from jumanji.environments.routing.cvrp import CVRP

            return CVRP()
        return self._build(cfg["ctor"], cfg["ctor"]["reward_fn"])

    def make_alt(self, cfg):
        return self._build(cfg["ctor"], "sparse" if cfg["ctor"]["reward_fn"] == "dense" else "dense")

    def cfg_record(self, cfg, env):
        c = cfg["ctor"]
        return {"num_nodes": c["num_nodes"], "max_capacity": c["max_capacity"], "max_demand": c["max_demand"],
                "reward_fn": c["reward_fn"], "generator": c["generator"],
                "lattice": c["generator"] in ("lattice", "rect345", "lattice0")}

    # ---- projection: add the distance matrix D -----------------------------------------------
    def project_state(self, env, state):
        out = super().project_state(env, state)
        # independent of the implementation's jnp.linalg.norm: float64 numpy from the raw coordinates
        xy = np.asarray(state.coordinates).astype(np.float64)
        diff = xy[:, None, :] - xy[None, :, :]
        dist = np.sqrt(diff[..., 0] * diff[..., 0] + diff[..., 1] * diff[..., 1])
        out["D"] = np.rint(dist * FX).astype(np.int64).tolist()
        return out

    # ---- policies --------------------------------------------------------------------------
    def choose(self, policy, env, state, obs, rng, i):
        dt = env.action_spec.dtype
        m = np.asarray(obs.action_mask)
        if policy == "zigzag":
            # back to the depot after every single customer: the longest legal episode (2 * num_nodes steps)
            if int(np.asarray(obs.position)) != 0 and m[0]:
                return np.asarray(0, dtype=dt)
            idx = np.flatnonzero(m[1:]) + 1
            if len(idx):
                return np.asarray(rng.choice(idx), dtype=dt)
            return self.random_actions(env, rng, 1)[0]
        if policy == "nearest":
            # nearest customer the mask allows; the depot only when nothing else is allowed
            idx = np.flatnonzero(m[1:]) + 1
            if len(idx):
                xy = np.asarray(obs.coordinates, dtype=np.float64)
                d = np.linalg.norm(xy[idx] - xy[int(np.asarray(obs.position))], axis=1)
                return np.asarray(idx[int(np.argmin(d))], dtype=dt)
            if m[0]:
                return np.asarray(0, dtype=dt)
            return self.random_actions(env, rng, 1)[0]
        return super().choose(policy, env, state, obs, rng, i)
