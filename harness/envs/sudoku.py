"""Sudoku adapter: the shipped generators (mixed default database, very-easy database as registered,
DummyGenerator), database sweeps (every puzzle of a database, one per episode), a solving policy so that
episodes end by completion, and a stratified probe sample of the 729-action space."""
import os

import numpy as np

from harness import common
from harness.envs.base import EnvAdapter

N = 9
# how harness/record.py derives the key of episode `ep`: PRNGKey(seed * 100003 + ep * 17 + 1)
KEY_BASE_MUL, KEY_EP_MUL, KEY_OFF = 100003, 17, 1


def _database(which):
    from jumanji.environments.logic.sudoku import data as sudoku_data

    d = os.path.dirname(os.path.abspath(sudoku_data.__file__))
    return np.load(os.path.join(d, sudoku_data.DATABASES[which]))


def _indexed_generator(database, first):
    """Custom generator (jumanji's Generator interface): the puzzle of episode `ep` is database[first + ep]
    (mod size); the index is recovered from the episode key the recorder uses.  Board encoding and mask as
    the shipped DatabaseGenerator (whose sampling is exercised by the `mixed*` / `veasy*` configurations)."""
    import jax
    import jax.numpy as jnp

    from jumanji.environments.logic.sudoku.generator import DatabaseGenerator
    from jumanji.environments.logic.sudoku.types import State
    from jumanji.environments.logic.sudoku.utils import get_action_mask

    base = common.seed() * KEY_BASE_MUL + KEY_OFF

    class IndexedGenerator(DatabaseGenerator):
        def __call__(self, key):
            raw = key if not jnp.issubdtype(key.dtype, jax.dtypes.prng_key) else jax.random.key_data(key)
            k = raw[-1].astype(jnp.int32)
            idx = ((k - base) // KEY_EP_MUL + first) % self._boards.shape[0]
            board = jnp.asarray(self._boards.take(idx, axis=0), dtype=jnp.int32) - 1
            from harness import inject

            return inject.state_like(super().__call__(key), board=board, action_mask=get_action_mask(board), key=key)

    return IndexedGenerator(database=database)


def _salted(gen, salt):
    """The shipped generator `gen` called on fold_in(key, salt): the thorough tier splits its episodes over several
    configurations (trace files stay small) and the recorder gives episode `ep` the same key in each of them."""
    import jax

    from jumanji.environments.logic.sudoku.generator import Generator

    class SaltedGenerator(Generator):
        def __call__(self, key):
            return gen(jax.random.fold_in(key, salt))

    return SaltedGenerator()


# ---- a small exact solver (bitmask backtracking, most-constrained cell first): only steers play -------
def _solve(board):
    b = np.asarray(board, dtype=np.int64).copy()
    rows = [0] * N
    cols = [0] * N
    boxs = [0] * N
    for r in range(N):
        for c in range(N):
            v = int(b[r, c])
            if v >= 0:
                bit = 1 << v
                k = (r // 3) * 3 + c // 3
                if (rows[r] | cols[c] | boxs[k]) & bit:
                    return None
                rows[r] |= bit
                cols[c] |= bit
                boxs[k] |= bit
    full = (1 << N) - 1

    def rec():
        best = None
        bestn = 10
        for r in range(N):
            for c in range(N):
                if b[r, c] < 0:
                    cand = full & ~(rows[r] | cols[c] | boxs[(r // 3) * 3 + c // 3])
                    n = bin(cand).count("1")
                    if n == 0:
                        return False
                    if n < bestn:
                        best, bestn = (r, c, cand), n
                        if n == 1:
                            break
            if bestn == 1:
                break
        if best is None:
            return True
        r, c, cand = best
        k = (r // 3) * 3 + c // 3
        for v in range(N):
            bit = 1 << v
            if cand & bit:
                b[r, c] = v
                rows[r] |= bit
                cols[c] |= bit
                boxs[k] |= bit
                if rec():
                    return True
                b[r, c] = -1
                rows[r] &= ~bit
                cols[c] &= ~bit
                boxs[k] &= ~bit
        return False

    return b if rec() else None


class Adapter(EnvAdapter):
    name = "Sudoku"
    props = ("C01", "C03", "C04", "C05", "C06", "C09", "C10", "C11", "C12")
    probe_cap = 64  # 729 joint actions: a stratified sample per probed state (probe_sample)

    def __init__(self):
        self._sol = None
        self._deviated = False
        self._cache = {}

    # ---- configurations -------------------------------------------------------------------
    def configs(self, tier):
        def c(id, gen, episodes, max_steps=81, **kw):
            d = dict(id=id, ctor=dict(generator=gen), episodes=episodes, max_steps=max_steps)
            d.update(kw)
            return d

        play = ["solve", "masked", "solve_then_invalid", "solve_then_wrong", "mostly_masked", "random"]
        if tier == "quick":
            return [
                # Sudoku() with no argument: 10000 puzzles of mixed difficulty (25..77 clues)
                c("mixed", "mixed", 6, probe_every=6, probe_cap=64, policies=play),
                # the registered Sudoku-very-easy-v0 (>= 46 clues)
                c("veasy", "very-easy", 12, probe_every=4, probe_cap=64, policies=play),
                # the debugging generator: one fixed 17-clue puzzle, 64 steps to completion
                c("dummy", "dummy", 4, probe_every=12, probe_cap=48,
                  policies=["solve", "masked", "solve_then_invalid", "solve_then_wrong"]),
                # reset only: what the generators hand out
                c("mixed_resets", "mixed", 250, max_steps=0),
                c("veasy_resets", "very-easy", 250, max_steps=0),
                # the documented database format (0 empty, 1..9 digits) handed over in other integer dtypes
                c("veasy_uint8_resets", "very-easy-uint8", 40, max_steps=0),
                c("veasy_int32_resets", "very-easy-int32", 40, max_steps=0),
            ]
        out = [c("mixed", "mixed", 12, probe_every=4, probe_cap=96, policies=play),
               c("veasy", "very-easy", 20, probe_every=2, probe_cap=96, policies=play),
               c("dummy", "dummy", 6, probe_every=6, probe_cap=96, policies=play),
               c("dummy_b", "dummy", 6, probe_every=5, probe_cap=128, policies=play[::-1]),
               c("mixed_resets", "mixed", 2000, max_steps=0),
               c("veasy_resets", "very-easy", 1000, max_steps=0)]
        # more keys: the shipped DatabaseGenerator on salted keys (other puzzles than the unsalted configurations)
        for k in (1, 2, 3):
            pol = play[k:] + play[:k]
            out.append(c(f"mixed_s{k}", "mixed", 12, probe_every=4 + k % 2, probe_cap=96 if k < 3 else 128, policies=pol, salt=k))
            out.append(c(f"veasy_s{k}", "very-easy", 20, probe_every=2 + k % 2, probe_cap=96 if k < 3 else 128, policies=pol, salt=k))
        # every puzzle of both databases, one per episode (reset only)
        for k in range(10):
            out.append(c(f"mixed_sweep{k}", "mixed-indexed", 1000, max_steps=0, first=1000 * k))
        out.append(c("veasy_sweep", "very-easy-indexed", 1000, max_steps=0, first=0))
        return out

    def make(self, cfg):
        import jumanji
        from jumanji.environments import Sudoku
        from jumanji.environments.logic.sudoku.generator import DatabaseGenerator, DummyGenerator

        gen = cfg["ctor"]["generator"]
        if cfg.get("salt"):
            return Sudoku(generator=_salted(DatabaseGenerator(database=_database(gen)), cfg["salt"]))
        if gen == "mixed":
            return Sudoku()  # documented default: DatabaseGenerator over the `mixed` database
        if gen == "very-easy":
            return jumanji.make("Sudoku-very-easy-v0")  # generator built by jumanji/__init__.py
        if gen == "dummy":
            return Sudoku(generator=DummyGenerator())
        if gen in ("very-easy-uint8", "very-easy-int32"):
            return Sudoku(generator=DatabaseGenerator(database=_database("very-easy").astype(gen.split("-")[-1])))
        if gen == "mixed-indexed":
            return Sudoku(generator=_indexed_generator(_database("mixed"), cfg.get("first", 0)))
        if gen == "very-easy-indexed":
            return Sudoku(generator=_indexed_generator(_database("very-easy"), cfg.get("first", 0)))
        raise KeyError(gen)

    def cfg_record(self, cfg, env):
        gen = cfg["ctor"]["generator"]
        # what the harness requested / what the documentation promises for it
        return {"box": 3, "generator": gen, "min_clues": 46 if gen.startswith("very-easy") else 0,
                "constant": gen == "dummy"}

    # ---- policies --------------------------------------------------------------------------
    def _solution(self, board):
        """A solution extending `board` (cached while play stays consistent with it), or None."""
        filled = board >= 0
        if self._sol is None or not np.array_equal(self._sol[filled], board[filled]):
            k = board.tobytes()
            if k not in self._cache:
                self._cache[k] = _solve(board)
            self._sol = self._cache[k]
        return self._sol

    @staticmethod
    def _act(env, r, c, d):
        return np.asarray([r, c, d], dtype=env.action_spec.dtype)

    def _invalid_action(self, env, board, mask, rng):
        """An in-spec action the rules forbid: a filled cell, or a clashing digit in an empty cell."""
        filled = np.argwhere(board >= 0)
        clash = np.argwhere((board < 0)[:, :, None] & ~mask)
        if len(clash) and (rng.random() < 0.5 or not len(filled)):
            return self._act(env, *clash[rng.integers(0, len(clash))])
        if len(filled):
            r, c = filled[rng.integers(0, len(filled))]
            return self._act(env, r, c, rng.integers(0, N))
        return None

    def choose(self, policy, env, state, obs, rng, i):
        if policy in ("solve", "solve_then_invalid", "solve_then_wrong"):
            board = np.asarray(state.board)
            mask = np.asarray(obs.action_mask)
            empty = np.argwhere(board < 0)
            if len(empty) == 0:
                return self.random_actions(env, rng, 1)[0]
            if i == 0:
                self._sol = None
                self._deviated = False
            if policy == "solve_then_invalid" and (rng.random() < 0.08 or len(empty) == 1):
                a = self._invalid_action(env, board, mask, rng)
                if a is not None:
                    return a
            if policy == "solve_then_wrong" and (self._deviated or rng.random() < 0.15):
                sol = None if self._deviated else self._solution(board)
                ok = mask.copy()
                if sol is not None:  # a digit the mask offers but the solution does not have there
                    for r, c in empty:
                        ok[r, c, sol[r, c]] = False
                idx = np.argwhere(ok)
                if len(idx):
                    self._deviated = True
                    return self._act(env, *idx[rng.integers(0, len(idx))])
            sol = None if self._deviated else self._solution(board)
            if sol is None:  # dead end ahead: keep following the mask
                return super().choose("masked", env, state, obs, rng, i)
            r, c = empty[rng.integers(0, len(empty))]
            return self._act(env, r, c, sol[r, c])
        return super().choose(policy, env, state, obs, rng, i)

    # ---- probes ----------------------------------------------------------------------------
    def probe_sample(self, env, state, obs, rng, k):
        """k distinct actions: every digit of a few empty cells, a few filled cells, legal placements
        elsewhere, the rest uniformly random."""
        board = np.asarray(state.board)
        mask = np.asarray(obs.action_mask)
        out = []
        seen = set()

        def add(r, c, d):
            t = (int(r), int(c), int(d))
            if t not in seen and len(out) < k:
                seen.add(t)
                out.append(t)

        empty = np.argwhere(board < 0)
        filled = np.argwhere(board >= 0)
        n_cells = max(1, k // 24)
        for r, c in empty[rng.permutation(len(empty))[:n_cells]]:
            for d in range(N):
                add(r, c, d)
        for r, c in filled[rng.permutation(len(filled))[:max(1, k // 16)]]:
            add(r, c, board[r, c])
            add(r, c, rng.integers(0, N))
            add(r, c, rng.integers(0, N))
        legal = np.argwhere(mask)
        for r, c, d in legal[rng.permutation(len(legal))[:k // 4]]:
            add(r, c, d)
        while len(out) < k:
            add(rng.integers(0, N), rng.integers(0, N), rng.integers(0, N))
        return np.asarray(out, dtype=env.action_spec.dtype).reshape((k, 3))
